------------------------------ MODULE PoolHB ------------------------------
(* C10 for dispenso::ThreadPool: ThreadPool.tla composed with the happens-before model            *)
(* (spec/lib/MemOrder.tla).  Memory orders: OrdersPool.tla (bin/extract_orders.py on thread_pool.h, *)
(* thread_pool.cpp, thread_pool_wake.cpp, detail/thread_pool_wake.h, detail/epoch_waiter.h,         *)
(* mpmc_ring_buffer.h) and OrdersPoolX.tla (spec/pool/hbgen.py: orders hidden in helper functions). *)
(*                                                                                                  *)
(* Non-atomic locations                                                                             *)
(*   <<"task", id>>  what the submitter wrote before schedule() + the functor: written at the       *)
(*                   submitting DrOp, read by the thread that runs the task                         *)
(*   <<"out", id>>   what the task wrote: written by the runner, read by the thread that destroyed  *)
(*                   the pool (the destructor joined the workers / ran the rest itself)             *)
(*   <<"ws", k>>     the k-th PoolWakeState object (plain members numThreads_, groupSize_, the      *)
(*                   array pointers, cascadeTargets_, and the non-atomic initialisation of its      *)
(*                   atomics): written by the constructing thread, read by every Pw* / Ew* step     *)
(*                   through a pointer obtained from wakeState_; destroyed by the destructor        *)
(*   <<"ring", i>>, <<"steal", i>>  the Ring objects in the two arenas: constructed by the          *)
(*                   constructor / resizeLocked (grow_by), read by every push / pop on them,        *)
(*                   destroyed by the destructor                                                    *)
(* Atomic locations: wakeState_, enableEpochWaiter_, numRings_, numStealRings_, stealRingsWithWork_,*)
(* running_ per worker, sleepMask and epoch_ per generation and group.  Ghost atomics: one per task *)
(* for the queue element that carries it (ring slot sequence word: orders PushStSeq / BatStSeq /    *)
(* PopLdSeq of mpmc_ring_buffer.h; moodycamel queue: ASSUMED release on enqueue, acquire on the      *)
(* dequeue of that element - the third-party queue is outside the model), "pub" = the user's        *)
(* publication of the pool to other threads (gate `up`).                                            *)
(* NOT modelled as locations (no access of them can create a happens-before edge because no access  *)
(* is an acquire: checked by DeadOK): workRemaining_, numThreads_, poolLoadFactor_, numNotWorking_, *)
(* centralQueueNonEmpty_, totalSleeping_, nextWakeGroup_.                                           *)
(*                                                                                                  *)
(* Clocks: workers spin, so a thread's own clock is advanced only by its release operations and by  *)
(* thread creation (epochs as in FastTrack) - the operators of MemOrder are used for all rules and   *)
(* their per-access tick is taken back (Q* operators below).  Sound: an access after a release gets  *)
(* a clock larger than the released one, an access before it does not.                              *)
EXTENDS ThreadPool, MemOrder, OrdersPool, OrdersPoolX

CONSTANT DepOrd   \* TRUE: the load in detail::consumeLoad() counts as memory_order_consume (the documented intent:
                  \* hardware dependency ordering + TSAN annotation); FALSE: exactly the declared order

VARIABLE hb
hvars == <<vars, hb>>

HT == Threads
WG == <<"wg", 0, 0>>
EN == <<"en", 0, 0>>
NR == <<"nr", 0, 0>>
NS == <<"ns", 0, 0>>
SMASK == <<"smask", 0, 0>>
PUB == <<"pub", 0, 0>>
RUN(i) == <<"run", i, 0>>
MASK(k, g) == <<"mask", k, g>>
EP(k, g) == <<"ep", k, g>>
Q(id) == <<"q", id, 0>>
ALocs == {WG, EN, NR, NS, SMASK, PUB} \cup {RUN(i) : i \in 0 .. (MaxW - 1)}
           \cup {MASK(k, g) : k \in 1 .. MaxGen, g \in 0 .. (MaxG - 1)}
           \cup {EP(k, g) : k \in 1 .. MaxGen, g \in 0 .. (MaxG - 1)}
           \cup {Q(id) : id \in TaskIds}
TASK(id) == <<"task", id>>
OUT(id) == <<"out", id>>
WS(k) == <<"ws", k>>
RING(i) == <<"ring", i>>
STEAL(i) == <<"steal", i>>
NLocs == {TASK(id) : id \in TaskIds} \cup {OUT(id) : id \in TaskIds} \cup {WS(k) : k \in 1 .. MaxGen}
           \cup {RING(i) : i \in 0 .. (MaxW - 1)} \cup {STEAL(i) : i \in 0 .. (MaxS - 1)}

\* ------------------------------------------------------------------ orders
NoAtomicSites ==
  {"PwAllReadMask", "PwCascadeReadMask", "PwRangeReadMask", "PwSeedReadMask", "TpBulkLoadWake", "TpEnqueue",
   "TpEnqueueBulk", "TpLoadWake", "TpPushRing", "TpPushRingBatch", "TpReadSleeping", "TpRingsPop", "TpRingsPopSteal",
   "TpRzDrainRing", "TpRzDrainSteal", "TpRzGrowRings", "TpRzLoadWake", "TpStealCentral", "TpStealCentralTok",
   "TpWkCrossSteal", "TpWkDequeue", "TpWkInit", "TpWkPopRing", "TpWkPopSteal", "TpWkPopSteal2", "TpWkSizeApprox",
   "TpWkWaitLoadWake"}
OrdersComplete ==
  /\ \A s \in DOMAIN Ord : \A i \in 1 .. Len(Ord[s]) : (Ord[s][i][1] = "none") <=> (s \in NoAtomicSites)
  /\ NoAtomicSites \subseteq DOMAIN Ord
  \* the occurrence maps below assume these counts
  /\ Len(Ord["EwBump"]) = 4 /\ Len(Ord["EwLoadEpochB"]) = 2 /\ Len(Ord["EwLoadEpochC"]) = 3
  /\ Len(Ord["TpRzStoreNumSteal"]) = 2 /\ Len(Ord["TpRzStoreWake"]) = 2 /\ Len(OrdX["TpLoadWake_en"]) = 5
  /\ Len(Ord["PopLdSeq"]) = 3 /\ Len(Ord["PushStSeq"]) = 1 /\ Len(Ord["BatStSeq"]) = 1
  /\ \A k \in {"TpLoadWake_wg", "TpBulkLoadWake_wg", "TpRzLoadWake_wg", "TpWkInit_wg", "TpWkWaitLoadWake_wg"} :
       \A i \in 1 .. Len(OrdX[k]) : OrdX[k][i] = "consumeLoad"
\* sites whose atomic word is not a location of this overlay: sound as long as none of them can acquire
DeadSites ==
  {"PwClaimReadSleeping", "PwSeedReadSleeping", "PwReadNextGroup", "PwStoreNextGroup", "PwIncSleeping", "PwDecSleeping",
   "TpAddWork", "TpAddWorkN", "TpDecWork", "TpWkFlushWork", "TpInlineCheck", "TpFqLoadThreads", "TpBulkLoadThreads",
   "TpBulkLoadCheck", "TpReadPending", "TpReadNotWorking", "TpRzStoreLoadFactor", "TpRzStoreNumThreads",
   "TpRzStoreNotWorking", "TpSetFlag", "TpWkClearFlag", "TpWkReadFlag", "TpWkDecNotWorking", "TpWkIncNotWorking"}
DeadOK ==
  /\ \A s \in DeadSites : s \in DOMAIN Ord /\ \A i \in 1 .. Len(Ord[s]) : ~IsAcq(Ord[s][i][2])
  /\ ~IsAcq(OrdX["TotalSleeping"][1])

ConsumeOrd == IF DepOrd /\ OrdX["ConsumeLoad"][1] = "relaxed" THEN "consume" ELSE OrdX["ConsumeLoad"][1]

\* ------------------------------------------------------------------ epoch-style wrappers of the MemOrder operators
Own(h, t) == h.vc[t][t]
SetOwn(h, t, c) == [h EXCEPT !.vc[t][t] = c]
QLoad(h, t, a, o) == SetOwn(ALoad(HT, h, t, a, o), t, Own(h, t))
QStore(h, t, a, o) == IF IsRel(o) THEN Tick(HT, AStore(HT, h, t, a, o), t) ELSE SetOwn(AStore(HT, h, t, a, o), t, Own(h, t))
QRmw(h, t, a, o) == IF IsRel(o) THEN Tick(HT, ARmw(HT, h, t, a, o), t) ELSE SetOwn(ARmw(HT, h, t, a, o), t, Own(h, t))
QWrite(h, t, x) == LET c == Own(h, t) IN [SetOwn(NAWrite(HT, h, t, x), t, c) EXCEPT !.lw[x] = <<t, c>>]
QRead(h, t, x) == LET c == Own(h, t) IN [SetOwn(NARead(HT, h, t, x), t, c) EXCEPT !.rd[x][t] = c]
QSpawn(h, p, c) == Tick(HT, HBSpawn(HT, h, p, c), p)
\* access of the kind the source has at (site, occurrence)
Acc(h, t, a, site, occ) ==
  LET e == Ord[site][occ] IN
  CASE e[1] = "load" -> QLoad(h, t, a, e[2])
    [] e[1] = "store" -> QStore(h, t, a, e[2])
    [] OTHER -> QRmw(h, t, a, e[2])

RECURSIVE FoldW(_, _, _)
FoldW(h, t, xs) == IF xs = {} THEN h ELSE LET x == CHOOSE x \in xs : TRUE IN FoldW(QWrite(h, t, x), t, xs \ {x})
RECURSIVE FoldR(_, _, _)
FoldR(h, t, xs) == IF xs = {} THEN h ELSE LET x == CHOOSE x \in xs : TRUE IN FoldR(QRead(h, t, x), t, xs \ {x})
RECURSIVE FoldSpawn(_, _, _)
FoldSpawn(h, t, us) == IF us = {} THEN h ELSE LET u == CHOOSE u \in us : TRUE IN FoldSpawn(QSpawn(h, t, u), t, us \ {u})
RECURSIVE FoldJoin(_, _, _)
FoldJoin(h, t, us) == IF us = {} THEN h ELSE LET u == CHOOSE u \in us : TRUE IN FoldJoin(HBJoin(HT, h, t, u), t, us \ {u})

\* ------------------------------------------------------------------ what a step of t does (pre-state site = Site(t))
PwS == {"PwClaimReadSleeping", "PwReadNextGroup", "PwClaimReadMask", "PwClaim", "PwStoreNextGroup", "PwSeedReadSleeping",
        "PwSeedReadMask", "PwAllReadMask", "PwCascadeReadMask", "PwSetSleepBit", "PwIncSleeping", "PwClearSleepBit",
        "PwDecSleeping"}
EwS == {"EwBump", "EwLoadEpochA", "EwLoadEpochB", "EwLoadEpochC", "FutexWait"}
\* the PoolWakeState generation a Pw* / Ew* step of t works on
WsGen(t) ==
  LET l == L[t] c == l.pc[1] IN
  CASE c \in {"wks", "wke", "wkq", "wki"} -> l.gen
    [] c = "casc" -> S.wrap[l.tid] \div 100
    [] OTHER -> l.x

\* objects dereferenced BEFORE the atomic access of the step (address computation through the object)
ReadsBefore(t) ==
  LET l == L[t] c == l.pc[1] s == l.pc[2] IN
  (IF s \in PwS \cup EwS THEN {WS(WsGen(t))} ELSE {})
  \cup (IF s = "TpReadSleeping" \/ (s = "TpReadNotWorking" /\ c = "be") THEN {WS(l.x)} ELSE {})
  \cup (IF s = "TpPushRing" THEN {RING(l.i)} \cup (IF l.sl = 1 THEN {WS(l.x)} ELSE {}) ELSE {})
  \cup (IF s = "TpPushRingBatch" THEN {RING(l.g)} ELSE {})
  \cup (IF s = "TpWkPopRing" THEN {RING(l.widx)} ELSE {})
  \cup (IF s = "TpRzDrainRing" /\ l.i < S.nra THEN {RING(l.i)} ELSE {})
  \cup (IF s \in {"TpWkPopSteal", "TpWkPopSteal2"} THEN {STEAL(MySteal(l))} ELSE {})
  \cup (IF s = "TpWkCrossSteal" THEN {STEAL(l.tgt)} ELSE {})
  \cup (IF s = "TpRzDrainSteal" /\ l.i < S.nsa THEN {STEAL(l.i)} ELSE {})
\* objects dereferenced AFTER it (the loaded value guards the access)
ReadsAfter(t) ==
  LET l == L[t] s == l.pc[2] IN
  (IF s = "TpPushSteal" /\ (l.res \div SS) < S.ns THEN {STEAL(l.res \div SS)} ELSE {})
  \cup (IF s = "TpBulkLoadWake" /\ S.en /\ S.wg # 0 THEN {WS(S.wg)} ELSE {})

\* the atomic access(es) of the site
LoadWakeOcc(l) ==
  CASE l.pc[1] = "cw" -> (IF l.ph = 9 THEN 1 ELSE 2) [] l.pc[1] = "pl" -> 3 [] l.pc[1] = "rb" -> 4 [] OTHER -> 5
AE(h, t) ==
  LET l == L[t] c == l.pc[1] s == l.pc[2] IN
  CASE s = "EwBump" -> Acc(h, t, EP(l.x, l.g), s, IF l.wn = 1 THEN 1 ELSE IF l.wn = 0 THEN 2 ELSE 3)
    [] s = "EwLoadEpochA" -> Acc(h, t, EP(l.x, MyGroup(l)), s, 1)
    [] s = "EwLoadEpochB" -> Acc(h, t, EP(l.x, MyGroup(l)), s, 2)
    [] s = "EwLoadEpochC" -> (IF c = "wki" THEN Acc(h, t, EP(l.gen, MyGroup(l)), s, 2) ELSE Acc(h, t, EP(l.x, MyGroup(l)), s, 3))
    [] s \in {"PwSetSleepBit", "PwClearSleepBit"} -> Acc(h, t, MASK(l.gen, MyGroup(l)), s, 1)
    [] s \in {"PwClaim", "PwClaimReadMask"} -> Acc(h, t, MASK(l.x, l.g), s, 1)
    [] s = "TpStop" -> Acc(h, t, RUN(l.i), s, 1)
    [] s = "TpWkLoadRunning" -> Acc(h, t, RUN(l.widx), s, 1)
    [] s \in {"TpSetStealBit", "TpWkReadStealMask", "TpWkClearStealBit"} -> Acc(h, t, SMASK, s, 1)
    [] s \in {"TpRzStoreNumRings", "TpBulkLoadRingCount"} -> Acc(h, t, NR, s, 1)
    [] s = "TpRzStoreNumSteal" -> Acc(h, t, NS, s, IF l.tn > 0 THEN 1 ELSE 2)
    [] s = "TpPushSteal" -> Acc(h, t, NS, s, 1)
    [] s = "TpRzStoreWake" -> Acc(h, t, WG, s, IF l.tn > 0 THEN 1 ELSE 2)
    [] s = "TpStoreEnable" -> Acc(h, t, EN, s, 1)
    [] s = "TpLoadWake" -> QLoad(QLoad(h, t, WG, ConsumeOrd), t, EN, OrdX["TpLoadWake_en"][LoadWakeOcc(l)])
    [] s = "TpBulkLoadWake" -> QLoad(QLoad(h, t, WG, ConsumeOrd), t, EN, OrdX["TpBulkLoadWake_en"][1])
    [] s \in {"TpRzLoadWake", "TpWkInit", "TpWkWaitLoadWake"} -> QLoad(h, t, WG, ConsumeOrd)
    [] s = "GateUp" -> QLoad(h, t, PUB, "acquire")         \* the user hands the pool to another thread
    [] OTHER -> h

\* queue elements
SeqSet(q) == {q[i] : i \in 1 .. Len(q)}
RingIds(s) == UNION {SeqSet(s.ring[i]) : i \in 0 .. (MaxW - 1)} \cup UNION {SeqSet(s.steal[i]) : i \in 0 .. (MaxS - 1)}
CqIds(s) == SeqSet(s.cq)
RECURSIVE FoldQ(_, _, _, _, _)   \* kind "st": release side, "ld": acquire side, with order o
FoldQ(h, t, ids, kind, o) ==
  IF ids = {} THEN h
  ELSE LET k == CHOOSE k \in ids : TRUE
           h1 == IF kind = "st" THEN QStore(h, t, Q(k), o) ELSE QLoad(h, t, Q(k), o)
       IN FoldQ(h1, t, ids \ {k}, kind, o)

SpawnedNow == {u \in Workers : L[u].pc[2] \in {"None", "Done"} /\ L'[u].pc = <<"wk", "Start">>}
WIdxOf(u) == CHOOSE i \in 0 .. (MaxW - 1) : u = WName(i)
RECURSIVE FreshRun(_, _)         \* a new PerThreadData: running_ is a new atomic object
FreshRun(h, us) ==
  IF us = {} THEN h
  ELSE LET u == CHOOSE u \in us : TRUE IN
       FreshRun([h EXCEPT !.rel[RUN(WIdxOf(u))] = ZeroVC(HT), !.relo[RUN(WIdxOf(u))] = ""], us \ {u})

Eff(t) ==
  LET l == L[t]
      s == l.pc[2]
      h1 == FoldR(hb, t, ReadsBefore(t))
      h2 == AE(h1, t)
      h3 == FoldR(h2, t, ReadsAfter(t))
      \* queues: pops (acquire side) and pushes (release side)
      tookRing == RingIds(S) \ RingIds(S')
      tookCq == CqIds(S) \ CqIds(S')
      putRing == RingIds(S') \ RingIds(S)
      putCq == CqIds(S') \ CqIds(S)
      h4 == FoldQ(FoldQ(h3, t, tookRing, "ld", Ord["PopLdSeq"][1][2]), t, tookCq, "ld", "acquire")
      h5 == FoldQ(FoldQ(h4, t, putRing, "st", IF s = "TpPushRingBatch" THEN Ord["BatStSeq"][1][2] ELSE Ord["PushStSeq"][1][2]),
                  t, putCq, "st", "release")
      \* objects constructed by this step
      made == {WS(k) : k \in (S.ngen + 1) .. S'.ngen} \cup {RING(i) : i \in S.nra .. (S'.nra - 1)}
                \cup {STEAL(i) : i \in S.nsa .. (S'.nsa - 1)}
      h6 == FoldW(h5, t, made)
      \* submissions (the payload is complete before schedule() is entered) and runs
      h7 == FoldW(h6, t, {TASK(k) : k \in G'.sub \ G.sub})
      ranNow == {k \in TaskIds : G'.ran[k] > G.ran[k]}
      h8 == FoldW(FoldR(h7, t, {TASK(k) : k \in ranNow}), t, {OUT(k) : k \in ranNow})
      \* thread creation / join, user-level synchronisation of the driver threads
      h9 == FoldSpawn(FreshRun(h8, SpawnedNow), t, SpawnedNow)
      h10 == IF s = "TpRzJoined" THEN HBJoin(HT, h9, t, WName(l.i))
             ELSE IF s = "GateOthers" THEN FoldJoin(h9, t, Drivers \ {t})
             ELSE h9
      h11 == IF s = "DrOp" /\ Op(t).op = "new" THEN QStore(h10, t, PUB, "release") ELSE h10
      \* the destructor's last step destroys the members; the caller then reads what the tasks wrote
      dead == S.alive /\ ~S'.alive
      h12 == IF dead
               THEN FoldR(FoldW(h11, t, {WS(k) : k \in 1 .. S.ngen} \cup {RING(i) : i \in 0 .. (S.nra - 1)}
                                          \cup {STEAL(i) : i \in 0 .. (S.nsa - 1)}),
                          t, {OUT(k) : k \in G.sub})
               ELSE h11
  IN h12

HInit == Init /\ hb = HBInit(HT, ALocs, NLocs)

HNext ==
  \/ \E t \in Threads : ThreadStep(t) /\ hb' = Eff(t)
  \/ \E t \in Workers : FutexTimeout(t) /\ hb' = hb
  \/ Terminated /\ UNCHANGED hb

HSpec == HInit /\ [][HNext]_hvars

RaceFree == NoRace(hb)
\* per class of location (used to look at one class when another one is already known to race)
RaceFreeRings == \A x \in hb.race : x[1] \notin {"ring", "steal"}
RaceFreeWs == \A x \in hb.race : x[1] # "ws"
RaceFreeData == \A x \in hb.race : x[1] \notin {"task", "out"}
\* every submitted task ran exactly once when the pool is gone (so the `out` reads above are not vacuous)
AllRanWhenDead == (~S.alive /\ AllDone) => \A k \in G.sub : G.ran[k] = 1
=============================================================================
