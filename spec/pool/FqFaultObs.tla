----------------------------- MODULE FqFaultObs -----------------------------
(* E5 record validator for C47 under allocation failure: one record per force-queued call and one per    *)
(* round of harness/drv/drv_fqfault.cpp (real threads, inert hooks, malloc failures injected into the     *)
(* central queue's enqueue on the calling thread for the duration of the call):                           *)
(*  {"e":"FqCall","round":r,"api":0 ThreadPool|1 TaskSet|2 ConcurrentTaskSet light|3 heavy,"n":threads,   *)
(*   "caller":0 non-pool thread|1 pool worker,"gate":1 workers held until the caller is done|0 free,       *)
(*   "bulk":0 schedule(f,FQ)|k scheduleBulk(k,gen,FQ),"armed":0|1,"inj":failures injected,                *)
(*   "ret":0 returned|1 threw bad_alloc|2 threw something else,"cnt":functors of the call,                *)
(*   "inl":ran on the calling thread before the call returned,"pre":ran before the gate opened,           *)
(*   "once"/"never"/"multi":functors that ran once / not at all / more than once by the time the pool     *)
(*   had been destroyed,"late":ran after ~ThreadPool returned}                                            *)
(*  {"e":"FqRound",...,"calls":c,"fill":f,"fillonce":f1,"fillinl":i,"thrown":t,"stuck":0|1}                *)
(*                                                                                                        *)
(* Why every conjunct holds for every correct execution (n >= 1 in every round):                          *)
(*  - inl = 0, fillinl = 0: this IS C47.  ThreadPool.tla / TaskSet.tla start a force-queued functor inside *)
(*    the submitting call only after TpFqLoadThreads read numThreads_ = 0; the pools here have 1..3        *)
(*    threads and are never resized.  The specification has no "enqueue failed" step, i.e. it allows no   *)
(*    additional behaviour on that branch: whatever the implementation does when the queue cannot         *)
(*    allocate, running the functor on the caller is not among the permitted outcomes.  The observation   *)
(*    is logical (a thread_local depth counter raised around the call and read by the functor).            *)
(*  - ret in {0,1}: the only exception a submission may raise is std::bad_alloc.                           *)
(*  - ret = 0 => once = cnt: C01 (AtMostOnce / AllRunAtEnd): a submission that was accepted runs exactly   *)
(*    once by the time ~ThreadPool has returned (the set is waited on first when that is possible).        *)
(*  - ret = 1, single call => never = cnt: the call reported that it could not queue the functor, so the  *)
(*    functor is not in the pool and nothing may run it (no functor both rejected and executed).           *)
(*    For scheduleBulk the chunks queued before the failing chunk legitimately run: only multi = 0 and    *)
(*    once + never = cnt are required.                                                                     *)
(*  - multi = 0, late = 0: C01 again.                                                                      *)
(*  - gate = 1 => pre = 0: every worker is inside a holder task (or is the caller) until the gate opens    *)
(*    and no other thread executes pool work, so a functor that ran earlier ran on a submitting thread.    *)
(*  - FqRound: stuck = 0 (watchdog 20 s), every filler (an ordinary force-queued functor, no fault armed)  *)
(*    ran exactly once.                                                                                    *)
EXTENDS Integers, Sequences, TLC, Json, IOUtils

ObsLog == ndJsonDeserialize(IOEnv.TRACE)
VARIABLE l
ObsInit == l = 1
ObsNext == l <= Len(ObsLog) /\ l' = l + 1
ObsSpec == ObsInit /\ [][ObsNext]_l

CallOK(rec) ==
  /\ rec.n >= 1
  /\ rec.inl = 0                                   \* C47
  /\ rec.ret \in {0, 1}
  /\ rec.multi = 0
  /\ rec.late = 0
  /\ rec.once + rec.never = rec.cnt
  /\ (rec.ret = 0 => rec.once = rec.cnt)
  /\ ((rec.ret = 1 /\ rec.bulk = 0) => rec.never = rec.cnt)
  /\ (rec.gate = 1 => rec.pre = 0)

RoundOK(rec) ==
  /\ rec.stuck = 0
  /\ rec.fillinl = 0                               \* C47 for the fillers
  /\ rec.fillonce = rec.fill

RecOK(rec) ==
  /\ (rec.e = "FqCall" => CallOK(rec))
  /\ (rec.e = "FqRound" => RoundOK(rec))
  /\ rec.e \in {"FqCall", "FqRound"}

ForceQueuedNeverOnCaller == l > Len(ObsLog) \/ RecOK(ObsLog[l])

ObsAccepted ==
  LET d == TLCGet("stats").diameter IN
  IF d = Len(ObsLog) + 1 THEN TRUE
  ELSE /\ PrintT(<<"TRACE_REJECTED_AT_LINE", d, "OF", Len(ObsLog)>>)
       /\ FALSE
=============================================================================
