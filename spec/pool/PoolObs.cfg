SPECIFICATION ObsSpec
CHECK_DEADLOCK FALSE
INVARIANTS RoundsOK
POSTCONDITION ObsAccepted
