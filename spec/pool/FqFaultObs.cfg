SPECIFICATION ObsSpec
CHECK_DEADLOCK FALSE
INVARIANTS ForceQueuedNeverOnCaller
POSTCONDITION ObsAccepted
