------------------------------ MODULE MCPool ------------------------------
EXTENDS ThreadPool
O(op, a, b) == [op |-> op, a |-> a, b |-> b]
\* C01: submissions racing workers and the destructor (time-outs allowed: the submit/park race
\* is covered by the back-stop by design)
P_basic2 == [main |-> <<O("new", 2, 0), O("fq", 1, 0), O("sched", 2, 0), O("del", 0, 0)>>]
P_two == [main |-> <<O("new", 2, 0), O("up", 0, 0), O("fq", 1, 0), O("del", 0, 0)>>]
\* C07: idle pool, one submission, no back-stop
P_idle_fq == [main |-> <<O("new", 2, 0), O("idle", 0, 0), O("fq", 1, 0), O("quiet", 0, 0), O("del", 0, 0)>>]
P_idle_bulk == [main |-> <<O("new", 3, 0), O("idle", 0, 0), O("bulk", 1, 2), O("quiet", 0, 0), O("del", 0, 0)>>]
P_idle_rbulk == [main |-> <<O("new", 3, 0), O("idle", 0, 0), O("rbulk", 1, 2), O("quiet", 0, 0), O("del", 0, 0)>>]
\* C09: shutdown / resize from any worker state, no back-stop
P_del == [main |-> <<O("new", 2, 0), O("del", 0, 0)>>]
P_resize == [main |-> <<O("new", 2, 0), O("resize", 1, 0), O("resize", 2, 0), O("del", 0, 0)>>]
\* C08: a resize that drains ring tasks itself
\* (no `quiet` gate after a ring submission that races a shrinking resize: at pool level nobody plays the task-set waiter
\*  that drains a ring whose owner is gone, so the task waits for the next drain = the destructor; DESIGN 0.4)
P_c08 == [main |-> <<O("new", 2, 0), O("idle", 0, 0), O("rbulk", 1, 2), O("sync", 0, 0), O("del", 0, 0)>>,
          p2 |-> <<O("up", 0, 0), O("resize", 1, 0)>>]
\* C03: ring fast path racing a shrink
P_c03 == [main |-> <<O("new", 3, 0), O("rbulk", 1, 3), O("sync", 0, 0), O("del", 0, 0)>>,
          p2 |-> <<O("up", 0, 0), O("resize", 2, 0)>>]
\* C07 known finding: repeated single submissions into a (re-)parked pool
P_idle_fq3 == [main |-> <<O("new", 2, 0), O("idle", 0, 0), O("fq", 1, 0), O("idle", 0, 0), O("fq", 2, 0),
                          O("idle", 0, 0), O("fq", 3, 0), O("quiet", 0, 0), O("del", 0, 0)>>]
\* a single submission (claimAndWakeOne: the kernel may release another waiter than the claimed one, which stays parked
\* with its sleep bit cleared), the pool parks again, then the ring fast path targets the claimed worker's ring
P_idle_fq_rbulk == [main |-> <<O("new", 2, 0), O("idle", 0, 0), O("fq", 1, 0), O("quiet", 0, 0), O("idle", 0, 0), O("rbulk", 2, 1),
                               O("quiet", 0, 0), O("del", 0, 0)>>]
\* the same with a central-queue bulk / a second single submission after the stale bit
P_idle_fq_bulk == [main |-> <<O("new", 2, 0), O("idle", 0, 0), O("fq", 1, 0), O("quiet", 0, 0), O("idle", 0, 0), O("bulk", 2, 1),
                              O("quiet", 0, 0), O("del", 0, 0)>>]
\* placed scheduling (steal rings) from an idle pool, no back-stop
P_idle_placed == [main |-> <<O("new", 2, 0), O("idle", 0, 0), O("pfq", 1, 0), O("quiet", 0, 0), O("del", 0, 0)>>]
\* (an `idle` gate between the two submissions: C07 speaks about submissions into a FULLY PARKED pool; a submission that
\*  races workers on their way to park is the submit/park race that the back-stop covers by design - C01 with time-outs)
P_idle_placed3 == [main |-> <<O("new", 3, 0), O("idle", 0, 0), O("pfq", 1, 0), O("idle", 0, 0), O("placed", 2, 0), O("quiet", 0, 0), O("del", 0, 0)>>]
\* small configurations for the quick tier (no time-outs: parked workers stay parked)
P_q2_basic == [main |-> <<O("new", 2, 0), O("fq", 1, 0), O("del", 0, 0)>>]
P_q2_c08 == [main |-> <<O("new", 1, 0), O("rbulk", 1, 1), O("resize", 2, 0), O("quiet", 0, 0), O("del", 0, 0)>>]
P_q2_c03 == [main |-> <<O("new", 1, 0), O("up", 0, 0), O("rbulk", 1, 1), O("sync", 0, 0), O("del", 0, 0)>>,
             p2 |-> <<O("up", 0, 0), O("resize", 2, 0)>>]
P_q_basic == [main |-> <<O("new", 2, 0), O("fq", 1, 0), O("sched", 2, 0), O("del", 0, 0)>>]
P_q_c08 == [main |-> <<O("new", 2, 0), O("rbulk", 1, 2), O("resize", 1, 0), O("quiet", 0, 0), O("del", 0, 0)>>]
P_q_c03 == [main |-> <<O("new", 2, 0), O("up", 0, 0), O("rbulk", 1, 2), O("sync", 0, 0), O("del", 0, 0)>>,
            p2 |-> <<O("up", 0, 0), O("resize", 1, 0)>>]
====
