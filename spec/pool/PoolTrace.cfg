CONSTANTS
  Prog <- TraceProg
  Mult <- TraceMult
  MaxW <- TraceMaxW
  GS <- TraceGS
  SS <- TraceSS
  RingCap <- TraceRingCap
  SpinCheck = 2
  SpinLimit = 4
  CrossThresh = 2
  Branch = 2
  Batch = 8
  MaxGen = 6
  AllowTimeout <- TraceAllowTimeout
SPECIFICATION TraceSpec
CHECK_DEADLOCK FALSE
POSTCONDITION TraceAccepted
INVARIANTS AtMostOnce AllRunAtEnd AccountingZeroAtQuiescence CountersSane NoError NoDeadlockObserved AbsInv
PROPERTY TraceRefines
