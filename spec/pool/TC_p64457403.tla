---- MODULE TC_p64457403 ----
EXTENDS PoolTrace
TCProg == [main |-> <<[op |-> "new", a |-> 2, b |-> 0], [op |-> "resize", a |-> 1, b |-> 0], [op |-> "resize", a |-> 3, b |-> 0], [op |-> "del", a |-> 0, b |-> 0]>>]
====
