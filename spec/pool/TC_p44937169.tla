---- MODULE TC_p44937169 ----
EXTENDS PoolTrace
TCProg == [main |-> <<[op |-> "new", a |-> 3, b |-> 0], [op |-> "rbulk", a |-> 1, b |-> 3], [op |-> "quiet", a |-> 0, b |-> 0], [op |-> "resize", a |-> 1, b |-> 0], [op |-> "fq", a |-> 4, b |-> 0], [op |-> "quiet", a |-> 0, b |-> 0], [op |-> "resize", a |-> 2, b |-> 0], [op |-> "rbulk", a |-> 5, b |-> 2], [op |-> "quiet", a |-> 0, b |-> 0], [op |-> "del", a |-> 0, b |-> 0]>>]
====
