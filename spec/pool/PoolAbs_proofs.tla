-------------------------- MODULE PoolAbs_proofs --------------------------
(* Unbounded proof (any set of tasks, any behaviour) that the abstraction of the pool    *)
(* has the two properties its clients use; checked by tlapm.                              *)
EXTENDS PoolAbs, TLAPS

TypeOK == /\ alive \in BOOLEAN
          /\ sub \subseteq Tasks
          /\ ran \in [Tasks -> {0, 1}]

Inv == TypeOK /\ ExactlyOnceSoFar /\ NothingPendingWhenGone

LEMMA InitInv == Init => Inv
  BY DEF Init, Inv, TypeOK, ExactlyOnceSoFar, NothingPendingWhenGone

\* any abstract step - whatever is submitted (A), run (R) and whether the pool exists afterwards (a2) - preserves Inv
LEMMA StepPreserves ==
  ASSUME NEW A \in SUBSET Tasks, NEW R \in SUBSET Tasks, NEW a2 \in BOOLEAN, Inv, Step(A, R, a2)
  PROVE  Inv'
<1>1. TypeOK'
  BY DEF Step, Inv, TypeOK
<1>2. ExactlyOnceSoFar'
  BY DEF Step, Inv, TypeOK, ExactlyOnceSoFar
<1>3. NothingPendingWhenGone'
  BY DEF Step, Inv, TypeOK, NothingPendingWhenGone, ExactlyOnceSoFar
<1> QED BY <1>1, <1>2, <1>3 DEF Inv

LEMMA StepInv == Inv /\ [Next]_avars => Inv'
<1> SUFFICES ASSUME Inv, [Next]_avars PROVE Inv'
  OBVIOUS
<1>1. CASE UNCHANGED avars
  BY <1>1 DEF Inv, TypeOK, ExactlyOnceSoFar, NothingPendingWhenGone, avars
<1>2. CASE Next
  <2>1. sub' \ sub \in SUBSET Tasks
    BY <1>2 DEF Next, Step, Inv, TypeOK
  <2>2. {k \in Tasks : ran'[k] # ran[k]} \in SUBSET Tasks
    OBVIOUS
  <2>3. alive' \in BOOLEAN
    BY <1>2 DEF Next, Step, Inv, TypeOK
  <2> QED BY <1>2, <2>1, <2>2, <2>3, StepPreserves DEF Next
<1> QED BY <1>1, <1>2

THEOREM Safety == Spec => [](ExactlyOnceSoFar /\ NothingPendingWhenGone)
<1>1. Inv => ExactlyOnceSoFar /\ NothingPendingWhenGone
  BY DEF Inv
<1> QED BY InitInv, StepInv, <1>1, PTL DEF Spec
===========================================================================
