-------------------------- MODULE PoolAbs_proofs --------------------------
(* Unbounded proof (any set of tasks, any behaviour) that the abstraction of the pool    *)
(* has the two properties its clients use; checked by tlapm.                              *)
EXTENDS PoolAbs, TLAPS

TypeOK == /\ alive \in BOOLEAN
          /\ sub \subseteq Tasks
          /\ ran \in [Tasks -> {0, 1}]

Inv == TypeOK /\ ExactlyOnceSoFar /\ NothingPendingWhenGone

LEMMA InitInv == Init => Inv
  BY DEF Init, Inv, TypeOK, ExactlyOnceSoFar, NothingPendingWhenGone

LEMMA StepInv == Inv /\ [Next]_avars => Inv'
<1> SUFFICES ASSUME Inv, [Next]_avars PROVE Inv'
  OBVIOUS
<1>1. CASE UNCHANGED avars
  BY <1>1 DEF Inv, TypeOK, ExactlyOnceSoFar, NothingPendingWhenGone, avars
<1>2. CASE Next
  <2>1. PICK A \in SUBSET Tasks, R \in SUBSET Tasks, a2 \in BOOLEAN : Step(A, R, a2)
    BY <1>2 DEF Next
  <2>2. TypeOK'
    BY <2>1 DEF Step, Inv, TypeOK
  <2>3. ExactlyOnceSoFar'
    BY <2>1 DEF Step, Inv, TypeOK, ExactlyOnceSoFar
  <2>4. NothingPendingWhenGone'
    BY <2>1 DEF Step, Inv, TypeOK, NothingPendingWhenGone, ExactlyOnceSoFar
  <2> QED BY <2>2, <2>3, <2>4 DEF Inv
<1> QED BY <1>1, <1>2

THEOREM Safety == Spec => [](ExactlyOnceSoFar /\ NothingPendingWhenGone)
<1>1. Inv => ExactlyOnceSoFar /\ NothingPendingWhenGone
  BY DEF Inv
<1> QED BY InitInv, StepInv, <1>1, PTL DEF Spec
===========================================================================
