------------------------------ MODULE PoolObs ------------------------------
(* E5 record validator for the pool checks: one record per free-running round of           *)
(* harness/drv/drv_poolstress.cpp (real threads, real futex, inert hooks):                  *)
(*  {"e":"PoolRound","kind":k,"n":threads,"sub":s,"once":a,"multi":b,"lost":c,"late":d,     *)
(*   "wr":w,"stuck":0|1}                                                                     *)
(* kind 0: two producers through every submission path racing the workers, then ~ThreadPool *)
(* kind 1: tasks that schedule a child on their own pool while the destructor is joining    *)
(* kind 2: resize racing producers; wr = workRemaining_ sampled at quiescence               *)
(* kind 3: two task sets using the ring fast path concurrently, then wait()                 *)
(* Every conjunct is implied by ThreadPool.tla for every interleaving:                      *)
(*  - C01 AtMostOnce / AllRunAtEnd: after ~ThreadPool (and after the task sets' wait()) every *)
(*    submitted task ran exactly once (once = sub, multi = lost = 0) and none runs afterwards *)
(*    (late = 0);                                                                            *)
(*  - C03: the same across resize;                                                          *)
(*  - C08 AccountingZeroAtQuiescence: wr = 0 once all work is done and the workers are idle  *)
(*    (the driver polls up to 5 s for that state);                                           *)
(*  - C09-style progress: the round finishes (stuck = 0; watchdog 20 s).                     *)
EXTENDS Integers, Sequences, TLC, Json, IOUtils

ObsLog == ndJsonDeserialize(IOEnv.TRACE)
VARIABLE l
ObsInit == l = 1
ObsNext == l <= Len(ObsLog) /\ l' = l + 1
ObsSpec == ObsInit /\ [][ObsNext]_l

RecOK(rec) ==
  rec.e = "PoolRound" =>
    /\ rec.stuck = 0
    /\ rec.multi = 0
    /\ rec.lost = 0
    /\ rec.late = 0
    /\ rec.once = rec.sub
    /\ rec.wr = 0
RoundsOK == l > Len(ObsLog) \/ RecOK(ObsLog[l])

ObsAccepted ==
  LET d == TLCGet("stats").diameter IN
  IF d = Len(ObsLog) + 1 THEN TRUE
  ELSE /\ PrintT(<<"TRACE_REJECTED_AT_LINE", d, "OF", Len(ObsLog)>>)
       /\ FALSE
=============================================================================
