------------------------------ MODULE PoolAbs ------------------------------
(* The abstraction of dispenso::ThreadPool that the specifications of its CLIENTS rely on   *)
(* (TaskSet.tla, Future.tla, Pipeline.tla, ParFor*.tla, Graph.tla, TimedTask.tla): a task   *)
(* handed to a pool that exists is run exactly once by SOME thread (a worker, the           *)
(* submitter when the pool decides to run it inline, a thread that drains queues in a wait  *)
(* loop, resize() or the destructor), never while the pool object does not exist, and the   *)
(* destructor returns only when everything that was submitted has run.  Which thread runs   *)
(* it and when is unconstrained - that is exactly the freedom the client specifications     *)
(* quantify over.                                                                           *)
(* ThreadPool.tla (the point-level specification that is validated step by step against    *)
(* the real pool) is checked by TLC to IMPLEMENT this module under the refinement mapping   *)
(*     alive <- S.alive,  sub <- G.sub,  ran <- G.ran                                       *)
(* (MCPool.tla: `Refines`), so a client proof over PoolAbs carries over to the real pool    *)
(* as far as ThreadPool.tla is faithful to it (which E3/E4 trace validation checks).        *)
(* One abstract step may submit several tasks and run several tasks: the implementation    *)
(* has such steps (a bulk submission is one call; the run-inline-under-load branch of       *)
(* scheduleBulk and the draining loops of resize run several tasks between two points).     *)
EXTENDS Integers, FiniteSets

CONSTANT Tasks
VARIABLES alive, sub, ran
avars == <<alive, sub, ran>>

Init == alive = FALSE /\ sub = {} /\ ran = [k \in Tasks |-> 0]

\* A: newly submitted tasks; R: tasks whose body is entered in this step; a2: does the pool object exist afterwards
Step(A, R, a2) ==
  /\ A \cap sub = {}                                  \* a task is submitted once (task = one call's functor)
  /\ R \subseteq (sub \cup A)                         \* only submitted tasks run ...
  /\ \A k \in R : ran[k] = 0                          \* ... and never a second time
  /\ (A # {} \/ R # {}) => alive                      \* nothing is accepted or run by a pool that does not exist
  /\ sub' = sub \cup A
  /\ ran' = [k \in Tasks |-> IF k \in R THEN 1 ELSE ran[k]]
  /\ alive' = a2
  /\ (alive /\ ~a2) => \A k \in sub' : ran'[k] = 1    \* ~ThreadPool returns only after everything submitted ran

\* (A, R and a2 are determined by the step itself: written without quantifiers so that evaluating the action on a pair of
\*  states - which is what a refinement check and a trace check do - does not enumerate SUBSET Tasks twice)
Next == /\ sub' \subseteq Tasks /\ alive' \in BOOLEAN
        /\ Step(sub' \ sub, {k \in Tasks : ran'[k] # ran[k]}, alive')

Spec == Init /\ [][Next]_avars

\* what clients use
ExactlyOnceSoFar == \A k \in Tasks : ran[k] <= 1 /\ (ran[k] = 1 => k \in sub)
NothingPendingWhenGone == (~alive) => \A k \in sub : ran[k] = 1
THEOREM Spec => [](ExactlyOnceSoFar /\ NothingPendingWhenGone)
=============================================================================
