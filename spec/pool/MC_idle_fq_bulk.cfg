CONSTANTS
  Prog <- P_idle_fq_bulk
  Mult = 32
  MaxW = 3
  GS = 2
  SS = 2
  RingCap = 2
  SpinCheck = 2
  SpinLimit = 4
  CrossThresh = 2
  Branch = 2
  Batch = 8
  MaxGen = 3
  AllowTimeout = FALSE
INIT Init
NEXT Next
CHECK_DEADLOCK TRUE
INVARIANTS AtMostOnce AllRunAtEnd AccountingZeroAtQuiescence CountersSane NoError AbsInv
PROPERTY Refines
