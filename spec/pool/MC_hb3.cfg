CONSTANTS
  Prog <- P_hb3
  Mult = 32
  MaxW = 1
  GS = 2
  SS = 2
  RingCap = 2
  SpinCheck = 2
  SpinLimit = 4
  CrossThresh = 2
  Branch = 2
  Batch = 8
  MaxGen = 3
  AllowTimeout = FALSE
  DepOrd = TRUE
INIT HInit
NEXT HNext
CHECK_DEADLOCK FALSE
INVARIANTS OrdersComplete DeadOK RaceFree AtMostOnce AllRanWhenDead CountersSane NoError
