CONSTANTS
  MaxCpus = 1024
  MaxReasonable = 1048576
  Alphabet = {48, 49, 50, 57, 44, 45}
  MaxLen = 5
  EmitLen = 5
  SmallMax = 4
  TopoN = 3
  TopoMs = {0, 1, 2}
  TopoMaxL2 = 4
SPECIFICATION Spec
CHECK_DEADLOCK FALSE
INVARIANTS ParserOK SetAlgebraSmallOK SetAlgebra1kOK GroupingAlgOK
