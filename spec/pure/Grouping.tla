------------------------------ MODULE Grouping ------------------------------
(* detail::buildGroupsFromCacheTopology(l2Groups, l3Groups, maxGroupSize)        *)
(* (dispenso/cpu_set.cpp), the grouping part of property C43.                    *)
(*                                                                               *)
(* Input : l2, l3 : sequences of cache groups, each a sequence of CPU ids;       *)
(*         m : maxGroupSize (any int).                                           *)
(* Output: g : sequence of thread groups, each a sequence of CPU ids             *)
(*         (ThreadGroup::cpus), plus the affinity mask of each group.            *)
(*                                                                               *)
(* What cpu_set.h promises (CpuSet::buildThreadGroups, struct ThreadGroup,        *)
(* buildGroupsFromCacheTopology) as predicates over input and output, and the    *)
(* packing algorithm transcribed from the source (GroupAlg).                     *)
EXTENDS Integers, Sequences, FiniteSets, TLC

SetOf(q) == {q[i] : i \in 1 .. Len(q)}
Cpus(groups) == UNION {SetOf(groups[i]) : i \in 1 .. Len(groups)}
NoDup(q) == Cardinality(SetOf(q)) = Len(q)
PairwiseDisjointDef(groups) ==
  \A i, j \in 1 .. Len(groups) : i < j => SetOf(groups[i]) \cap SetOf(groups[j]) = {}
\* for duplicate-free groups the same as |union| = sum of the sizes (linear instead of quadratic for TLC);
\* MCCpuSet.GroupingAlgOK checks the two agree on every topology it enumerates
RECURSIVE SumLen(_, _)
SumLen(groups, i) == IF i > Len(groups) THEN 0 ELSE Len(groups[i]) + SumLen(groups, i + 1)
PairwiseDisjoint(groups) == Cardinality(Cpus(groups)) = SumLen(groups, 1)
Largest(groups) == IF groups = <<>> THEN 0
                   ELSE LET L == {Len(groups[i]) : i \in 1 .. Len(groups)} IN
                        CHOOSE x \in L : \A y \in L : y <= x
Ascending(q) == \A i \in 1 .. (Len(q) - 1) : q[i] < q[i + 1]

---------------------------------------------------------------------------
(* R1: the topologies the statement is about.  A cache hierarchy: CPU ids are *)
(* non-negative, a CPU is in at most one L2 and at most one L3 group, and an  *)
(* L2 group lies inside one L3 group or outside all of them (L3 unknown).     *)
(* L2 groups may be empty (they are skipped), in any order.                   *)
WellFormedTopo(l2, l3) ==
  /\ \A i \in 1 .. Len(l2) : NoDup(l2[i]) /\ \A c \in SetOf(l2[i]) : c >= 0
  /\ \A k \in 1 .. Len(l3) : NoDup(l3[k]) /\ \A c \in SetOf(l3[k]) : c >= 0
  /\ PairwiseDisjoint(l2)
  /\ PairwiseDisjoint(l3)
  /\ \A i \in 1 .. Len(l2) :
       \/ SetOf(l2[i]) \cap Cpus(l3) = {}
       \/ \E k \in 1 .. Len(l3) : SetOf(l2[i]) \subseteq SetOf(l3[k])

\* the documented shape of CpuSet::l2CacheGroups(): ids ascending inside a group, groups by first id
SortedTopo(l2) ==
  /\ \A i \in 1 .. Len(l2) : l2[i] # <<>> /\ Ascending(l2[i])
  /\ \A i \in 1 .. (Len(l2) - 1) : l2[i][1] < l2[i + 1][1]

---------------------------------------------------------------------------
(* The promised properties of the output g.                                   *)
\* the groups partition the CPUs of the L2 groups
Partition(l2, g) ==
  /\ \A j \in 1 .. Len(g) : g[j] # <<>> /\ NoDup(g[j])
  /\ PairwiseDisjoint(g)
  /\ Cpus(g) = Cpus(l2)
\* an L2 group (SMT siblings) is never split
NoSplit(l2, g) ==
  \A i \in 1 .. Len(l2) : l2[i] # <<>> => \E j \in 1 .. Len(g) : SetOf(l2[i]) \subseteq SetOf(g[j])
\* a group never contains CPUs of two (known) L3 groups
NoMixL3(l3, g) ==
  \A j \in 1 .. Len(g) : Cardinality({k \in 1 .. Len(l3) : SetOf(l3[k]) \cap SetOf(g[j]) # {}}) <= 1
\* at most max(maxGroupSize, largest L2 group) CPUs per group
SizeBound(l2, m, g) ==
  LET bound == IF m >= Largest(l2) THEN m ELSE Largest(l2) IN \A j \in 1 .. Len(g) : Len(g[j]) <= bound
\* ThreadGroup::cpus is sorted
GroupsSorted(g) == \A j \in 1 .. Len(g) : Ascending(g[j])
\* "sorted by first CPU ID in each group" -- promised for the documented (sorted) L2 input
GroupsOrdered(l2, g) == SortedTopo(l2) => \A j \in 1 .. (Len(g) - 1) : g[j][1] < g[j + 1][1]
\* affinityMask = the representable ids of cpus
MasksOK(g, masks, maxCpus) ==
  /\ Len(masks) = Len(g)
  /\ \A j \in 1 .. Len(g) : masks[j] = SetOf(g[j]) \cap (0 .. (maxCpus - 1))

GroupingOK(l2, l3, m, g) ==
  /\ Partition(l2, g)
  /\ NoSplit(l2, g)
  /\ NoMixL3(l3, g)
  /\ SizeBound(l2, m, g)
  /\ GroupsSorted(g)
  /\ GroupsOrdered(l2, g)

---------------------------------------------------------------------------
(* The algorithm, transcribed.                                                *)
(*   maxGroupSize = max(maxGroupSize, largestGroupSize(l2Groups));            *)
(*   cpuToL3[cpu] = index of the (last) L3 group containing cpu, else -1      *)
(*   currentL3 = -1; for (l2 : l2Groups) {                                    *)
(*     if (l2.cpus.empty()) continue;                                         *)
(*     l2L3 = cpuToL3[l2.cpus[0]];                                            *)
(*     crossesL3 = (l2L3 != currentL3 && currentL3 >= 0);                     *)
(*     exceedsMax = (pending.size() + l2.size() > maxGroupSize);              *)
(*     if (crossesL3 || exceedsMax) flushGroup(pending, result);              *)
(*     currentL3 = l2L3; pending += l2.cpus; }                                *)
(*   flushGroup(pending, result);                                             *)
(* flushGroup: nothing if pending is empty, else sort and append as a group.  *)
L3IndexOf(l3, cpu) ==
  LET K == {k \in 1 .. Len(l3) : cpu \in SetOf(l3[k])} IN
  IF K = {} THEN -1 ELSE CHOOSE k \in K : \A k2 \in K : k2 <= k
Flush(pending, result) ==
  IF pending = <<>> THEN result ELSE Append(result, SortSeq(pending, LAMBDA a, b : a < b))

RECURSIVE Pack(_, _, _, _, _, _, _)
Pack(l2, l3, mm, i, result, pending, cur) ==
  IF i > Len(l2) THEN Flush(pending, result)
  ELSE IF l2[i] = <<>> THEN Pack(l2, l3, mm, i + 1, result, pending, cur)
  ELSE LET l2L3 == L3IndexOf(l3, l2[i][1])
           crossesL3 == l2L3 # cur /\ cur >= 0
           exceedsMax == Len(pending) + Len(l2[i]) > mm
           doFlush == crossesL3 \/ exceedsMax IN
       Pack(l2, l3, mm, i + 1,
            IF doFlush THEN Flush(pending, result) ELSE result,
            (IF doFlush THEN <<>> ELSE pending) \o l2[i],
            l2L3)
GroupAlg(l2, l3, m) ==
  Pack(l2, l3, IF m >= Largest(l2) THEN m ELSE Largest(l2), 1, <<>>, <<>>, -1)
===========================================================================
