--------------------------- MODULE ThreadIdTrace ---------------------------
(* Trace validation for ThreadId.tla: controlled (serialised) executions of the  *)
(* real dispenso::threadId().  Every line must be explained by the action of the  *)
(* same name taken by the same thread; the values returned to the caller during   *)
(* the step ("r", relative to the counter value at the Reset) and the projected   *)
(* counter ("s".next) must equal the specification's.                             *)
EXTENDS ThreadId, Json, IOUtils

TraceLog == ndJsonDeserialize(IOEnv.TRACE)

VARIABLE l   \* next line to consume
tvars == <<vars, l>>

TraceInit ==
  /\ l = 2
  /\ TraceLog[1].e = "Reset"
  /\ InitWith(TraceLog[1].prog)

ResetTo(p) ==
  /\ prog' = p
  /\ next' = 0
  /\ cache' = [t \in DOMAIN p |-> -1]
  /\ pc' = [t \in DOMAIN p |-> "Start"]
  /\ obs' = [t \in DOMAIN p |-> <<>>]

Dispatch(e, t) ==
  CASE e = "Start"       -> Start(t)
    [] e = "TidFetchAdd" -> TidFetchAdd(t)
    [] OTHER             -> FALSE

\* values returned during the step = what the step appended to obs[t]
Returned(t) == SubSeq(obs'[t], Len(obs[t]) + 1, Len(obs'[t]))

TraceStep ==
  /\ l <= Len(TraceLog)
  /\ LET ev == TraceLog[l] IN
       \/ /\ ev.e = "Reset"
          /\ ResetTo(ev.prog)
       \/ /\ ev.e # "Reset"
          /\ ev.t \in T
          /\ Dispatch(ev.e, ev.t)
          /\ next' = ev.s.next
          /\ ev.r = Returned(ev.t)
  /\ l' = l + 1

TraceSpec == TraceInit /\ [][TraceStep]_tvars

TraceAccepted ==
  LET d == TLCGet("stats").diameter IN
  IF d = Len(TraceLog) THEN TRUE
  ELSE /\ PrintT(<<"TRACE_REJECTED_AT_LINE", d + 1, "OF", Len(TraceLog)>>)
       /\ PrintT(<<"OFFENDING", TraceLog[d + 1]>>)
       /\ FALSE
==========================================================================
