INIT ObsInit
NEXT ObsStep
CHECK_DEADLOCK FALSE
POSTCONDITION ObsAccepted
INVARIANTS ObsUnique
