---------------------------- MODULE ThreadIdOps ----------------------------
(* Constant operators shared by ThreadId.tla (model-checked exhaustively) and   *)
(* ThreadIdObs.tla (evaluated on observation records from real threads).         *)
EXTENDS Integers, Sequences, FiniteSets

\* every element of the sequence equals the first one
StableSeq(s) == \A i \in 1 .. Len(s) : s[i] = s[1]
\* the function/sequence maps distinct arguments to distinct values
Injective(f) == \A a \in DOMAIN f : \A b \in DOMAIN f : (a # b) => (f[a] # f[b])
==========================================================================
