SPECIFICATION TraceSpec
CHECK_DEADLOCK FALSE
POSTCONDITION TraceAccepted
INVARIANTS Counted
