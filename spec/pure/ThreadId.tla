----------------------------- MODULE ThreadId -----------------------------
(* Specification of dispenso::threadId() (dispenso/thread_id.cpp):              *)
(*                                                                                *)
(*   std::atomic<uint64_t> nextThread{0};                                         *)
(*   thread_local uint64_t currentThread = kInvalidThread;                        *)
(*   uint64_t threadId() {                                                        *)
(*     if (currentThread == kInvalidThread)                                       *)
(*       currentThread = nextThread.fetch_add(1);      <- site "TidFetchAdd"     *)
(*     return currentThread;                                                      *)
(*   }                                                                            *)
(*                                                                                *)
(* The only shared word is the counter `next`; `cache[t]` is the thread-local     *)
(* cache (-1 = kInvalidThread).  Thread t calls threadId() prog[t] times.  The    *)
(* only atomic access is the fetch_add of the first call; everything after it     *)
(* (storing the cache, returning, and all later calls, which touch thread-local   *)
(* state only) is non-atomic work that belongs to the same step.                  *)
(* Identifiers are counted relative to `base`, the value of the process-global    *)
(* counter when the execution began (the counter is never reset in a process).    *)
EXTENDS Integers, Sequences, FiniteSets, TLC, ThreadIdOps

CONSTANTS Threads,  \* set of thread names
          Prog      \* [Threads -> Nat] number of threadId() calls of each thread

VARIABLES
  prog,   \* configuration (a variable so that a trace can re-initialise it)
  next,   \* nextThread - base
  cache,  \* cache[t]: currentThread - base of thread t, -1 while invalid
  pc,     \* "Start" | "TidFetchAdd" | "Done"
  obs     \* ghost: obs[t] = sequence of the values threadId() returned to t

vars == <<prog, next, cache, pc, obs>>

T == DOMAIN prog

InitWith(p) ==
  /\ prog = p
  /\ next = 0
  /\ cache = [t \in DOMAIN p |-> -1]
  /\ pc = [t \in DOMAIN p |-> "Start"]
  /\ obs = [t \in DOMAIN p |-> <<>>]

Init == InitWith(Prog)

\* thread start up to the first schedule point: a thread that never calls threadId() is done
Start(t) ==
  /\ pc[t] = "Start"
  /\ pc' = [pc EXCEPT ![t] = IF prog[t] = 0 THEN "Done" ELSE "TidFetchAdd"]
  /\ UNCHANGED <<prog, next, cache, obs>>

\* first call: claim an identifier; the remaining prog[t]-1 calls hit the thread-local cache
TidFetchAdd(t) ==
  /\ pc[t] = "TidFetchAdd"
  /\ cache[t] = -1
  /\ cache' = [cache EXCEPT ![t] = next]
  /\ next' = next + 1
  /\ obs' = [obs EXCEPT ![t] = [i \in 1 .. prog[t] |-> next]]
  /\ pc' = [pc EXCEPT ![t] = "Done"]
  /\ UNCHANGED prog

Next == \E t \in Threads : Start(t) \/ TidFetchAdd(t)

Spec == Init /\ [][Next]_vars

\* ============================================================================ properties
\* StableSeq / Injective come from ThreadIdOps.tla and are shared with the observation-record
\* validator ThreadIdObs.tla

Assigned == {t \in T : cache[t] # -1}

\* (C45) threadId() returns the same value for the whole lifetime of a thread
Stable == \A t \in T : StableSeq(obs[t]) /\ (obs[t] # <<>> => obs[t][1] = cache[t])
\* (C45) distinct threads get distinct values, however their first calls interleave
Unique == Injective([t \in Assigned |-> cache[t]])
\* the identifiers handed out are exactly the counter values consumed so far
Dense == {cache[t] : t \in Assigned} = 0 .. (next - 1)
\* every call of a finished thread returned a value
Complete == \A t \in T : pc[t] = "Done" => Len(obs[t]) = prog[t]

TypeOK ==
  /\ next \in Nat
  /\ \A t \in T : cache[t] \in (Nat \cup {-1}) /\ pc[t] \in {"Start", "TidFetchAdd", "Done"}
==========================================================================
