CONSTANTS
  MaxCpus = 1024
  MaxReasonable = 1048576
  Alphabet = {48, 49, 50, 57, 44, 45}
  MaxLen = 7
  EmitLen = 6
  SmallMax = 6
  TopoN = 4
  TopoMs = {0, 1, 2, 3}
  TopoMaxL2 = 5
SPECIFICATION Spec
CHECK_DEADLOCK FALSE
INVARIANTS ParserOK SetAlgebraSmallOK SetAlgebra1kOK GroupingAlgOK
