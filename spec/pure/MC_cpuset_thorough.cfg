CONSTANTS
  MaxCpus = 1024
  MaxReasonable = 1048576
  Alphabet = {48, 49, 50, 57, 44, 45}
  MaxLen = 7
  SmallMax = 6
  TopoN = 4
  TopoMs = {0, 1, 2, 3, 4}
  TopoMaxL2 = 4
SPECIFICATION Spec
CHECK_DEADLOCK FALSE
INVARIANTS ParserOK SetAlgebraSmallOK SetAlgebra1kOK GroupingAlgOK
