------------------------------ MODULE CpuList ------------------------------
(* dispenso::CpuSet (dispenso/cpu_set.h, cpu_set.cpp), property C43:            *)
(*   - the set algebra add / addRange / remove / removeRange / contains / count  *)
(*     over the representable CPU ids 0 .. MaxCpus-1 (ids outside are ignored),  *)
(*   - detail::parseLinuxCpuList: the denotation of a Linux CPU-list string.     *)
(*                                                                               *)
(* A string is a sequence of character codes (TLA+ has no string indexing).      *)
(* Each part has a mathematical DEFINITION and the ALGORITHM transcribed from    *)
(* the C++ source; MCCpuList.tla / MCCpuSet.tla check algorithm = definition     *)
(* exhaustively on bounded domains, CpuSetTrace.tla checks observed = definition *)
(* on records of the compiled code.                                              *)
EXTENDS Integers, Sequences, FiniteSets

CONSTANTS MaxCpus,         \* CPU_SETSIZE / kMaxCpus = 1024: representable ids are 0 .. MaxCpus-1
          MaxReasonable    \* kMaxReasonableCpuId = 2^20: numerals above it are outside the promised grammar

Range == 0 .. (MaxCpus - 1)

MinI(a, b) == IF a <= b THEN a ELSE b
MaxI(a, b) == IF a >= b THEN a ELSE b

---------------------------------------------------------------------------
(* Set algebra.  S is the abstract value of a CpuSet: a subset of Range.      *)
(* Arguments are arbitrary int32 values (TLC integers are exactly int32).     *)
AddDef(S, x) == IF x \in Range THEN S \cup {x} ELSE S
RemoveDef(S, x) == S \ {x}
AddRangeDef(S, a, b) == S \cup {x \in Range : a <= x /\ x < b}
RemoveRangeDef(S, a, b) == S \ {x \in Range : a <= x /\ x < b}
ContainsDef(S, x) == x \in S
CountDef(S) == Cardinality(S)

\* transcription of the Linux/FreeBSD branch (cpu_set_t):
\*   add:      if (x < 0 || x >= CPU_SETSIZE) return;  CPU_SET(x)
\*   addRange: start = max(start, 0); end = min(end, CPU_SETSIZE); for (i = start; i < end; ++i) CPU_SET(i)
Interval(lo, hiEx) == IF hiEx <= lo THEN {} ELSE lo .. (hiEx - 1)
AddAlg(S, x) == IF x < 0 \/ x >= MaxCpus THEN S ELSE S \cup {x}
RemoveAlg(S, x) == IF x < 0 \/ x >= MaxCpus THEN S ELSE S \ {x}
AddRangeAlg(S, a, b) == S \cup Interval(MaxI(a, 0), MinI(b, MaxCpus))
RemoveRangeAlg(S, a, b) == S \ Interval(MaxI(a, 0), MinI(b, MaxCpus))
ContainsAlg(S, x) == IF x < 0 \/ x >= MaxCpus THEN FALSE ELSE x \in S
\* transcription of the portable branch (uint64_t words_[]): addRange/removeRange loop over add/remove
\*   for (i = start; i < end; ++i) add(i);      -- every i goes through the range check of add
AddRangePortableAlg(S, a, b) == S \cup {x \in Interval(a, b) : ~(x < 0 \/ x >= MaxCpus)}
RemoveRangePortableAlg(S, a, b) == S \ {x \in Interval(a, b) : ~(x < 0 \/ x >= MaxCpus)}

---------------------------------------------------------------------------
(* Character codes                                                            *)
COMMA == 44
DASH == 45
PLUS == 43
Digits == 48 .. 57
Spaces == {32} \cup (9 .. 13)            \* what strtol skips: isspace in the C locale
DigitVal(c) == c - 48

IndexOf(t, c) ==                          \* first position of c in t, 0 if absent (strchr)
  IF \E i \in 1 .. Len(t) : t[i] = c
  THEN CHOOSE i \in 1 .. Len(t) : t[i] = c /\ \A j \in 1 .. (i - 1) : t[j] # c
  ELSE 0
Prefix(t, i) == SubSeq(t, 1, i - 1)       \* before position i
Suffix(t, i) == SubSeq(t, i + 1, Len(t))  \* after position i

RECURSIVE Split(_, _)
Split(t, c) == LET i == IndexOf(t, c) IN
               IF i = 0 THEN <<t>> ELSE <<Prefix(t, i)>> \o Split(Suffix(t, i), c)

\* value of a digit sequence, saturating at Cap (> MaxReasonable > MaxCpus): everything the
\* definitions need to know about a numeral is preserved by the saturation
Cap == MaxReasonable + 1
RECURSIVE NumFrom(_, _, _)
NumFrom(t, i, acc) == IF i > Len(t) THEN acc
                      ELSE NumFrom(t, i + 1, MinI(acc * 10 + DigitVal(t[i]), Cap))
Num(t) == NumFrom(t, 1, 0)
IsNumeral(t) == Len(t) >= 1 /\ \A i \in 1 .. Len(t) : t[i] \in Digits

---------------------------------------------------------------------------
(* DEFINITION.  Grammar:  list ::= item ("," item)*                           *)
(*                        item ::= "" | num | num "-" num     num ::= digit+  *)
(* (empty items: the code and its tests accept "", "1," ; decimal, leading    *)
(* zeros allowed).  An item denotes {num} or {lo..hi}.                        *)
ItemShape(t) ==
  \/ t = <<>>
  \/ IsNumeral(t)
  \/ LET d == IndexOf(t, DASH) IN d > 0 /\ IsNumeral(Prefix(t, d)) /\ IsNumeral(Suffix(t, d))
ItemLo(t) == LET d == IndexOf(t, DASH) IN IF d = 0 THEN Num(t) ELSE Num(Prefix(t, d))
ItemHi(t) == LET d == IndexOf(t, DASH) IN IF d = 0 THEN Num(t) ELSE Num(Suffix(t, d))
\* the ids of Range an item denotes (exact for numerals of any size, see Cap)
ItemIdsDef(t) == IF t = <<>> THEN {}
                 ELSE LET lo == ItemLo(t)
                          hi == ItemHi(t) IN {x \in Range : lo <= x /\ x <= hi}
\* the same set written as an interval (numerals are >= 0), which TLC does not have to filter out of
\* the 1024 ids of Range; MCCpuSet.ParserOK checks ItemIds = ItemIdsDef for every item it enumerates
ItemIds(t) == IF t = <<>> THEN {}
              ELSE LET lo == ItemLo(t)
                       hi == ItemHi(t) IN
                   IF hi < lo THEN {} ELSE lo .. MinI(hi, MaxCpus - 1)

Items(s) == Split(s, COMMA)
ShapeOK(s) == LET its == Items(s) IN \A k \in 1 .. Len(its) : ItemShape(its[k])
\* the judged grammar: numerals within the sanity bound of the code, ranges not reversed
ItemWF(t) == ItemShape(t) /\ (t # <<>> => ItemLo(t) <= ItemHi(t) /\ ItemHi(t) <= MaxReasonable)
WellFormed(s) == LET its == Items(s) IN \A k \in 1 .. Len(its) : ItemWF(its[k])
\* "exactly the in-range ids it denotes"
Denote(s) == LET its == Items(s) IN UNION {ItemIds(its[k]) : k \in 1 .. Len(its)}

---------------------------------------------------------------------------
(* ALGORITHM, transcribed from cpu_set.cpp.                                   *)
(*   parseIntClamped(s): v = strtol(s, &end, 10);                             *)
(*                       if (end == s || v < 0 || v > kMaxReasonableCpuId) return -1; return v; *)
(* strtol: skips white space, optional sign, digits; no digits => end == s.   *)
SkipSpaces(t) == LET P == {i \in 1 .. Len(t) : t[i] \notin Spaces} IN
                 IF P = {} THEN <<>> ELSE SubSeq(t, CHOOSE i \in P : \A j \in P : i <= j, Len(t))
DigitRun(t) == LET P == {i \in 1 .. Len(t) : t[i] \notin Digits} IN      \* longest digit prefix
               IF P = {} THEN t ELSE SubSeq(t, 1, (CHOOSE i \in P : \A j \in P : i <= j) - 1)
ParseIntClamped(t) ==
  LET u == SkipSpaces(t)
      signed == u # <<>> /\ u[1] \in {PLUS, DASH}
      neg == u # <<>> /\ u[1] = DASH
      ds == DigitRun(IF signed THEN Tail(u) ELSE u)
      mag == Num(ds) IN                          \* saturated like LONG_MAX: still > kMaxReasonableCpuId
  IF ds = <<>> THEN -1                           \* end == s
  ELSE IF neg /\ mag > 0 THEN -1                 \* v < 0
  ELSE IF mag > MaxReasonable THEN -1
  ELSE mag
\*   parseAndAddRange(buf, set)
ParseAndAddRange(t, S) ==
  IF t = <<>> THEN S
  ELSE LET d == IndexOf(t, DASH) IN
       IF d > 0
       THEN LET lo == ParseIntClamped(Prefix(t, d))
                hi == ParseIntClamped(Suffix(t, d)) IN
            IF lo >= 0 /\ hi >= 0 THEN AddRangeAlg(S, lo, hi + 1) ELSE S
       ELSE LET x == ParseIntClamped(t) IN
            IF x >= 0 THEN AddAlg(S, x) ELSE S
\*   parseLinuxCpuList: while (comma = strchr(buf, ',')) { parseAndAddRange(item); buf = comma + 1; } parseAndAddRange(buf)
RECURSIVE ParseFrom(_, _)
ParseFrom(t, S) == LET i == IndexOf(t, COMMA) IN
                   IF i = 0 THEN ParseAndAddRange(t, S)
                   ELSE ParseFrom(Suffix(t, i), ParseAndAddRange(Prefix(t, i), S))
ParseAlg(s) == ParseFrom(s, {})
===========================================================================
