------------------------------- MODULE Bits -------------------------------
(* Bit-math helpers of dispenso (dispenso/detail/math.h, dispenso/platform.h,    *)
(* dispenso/util.h), property C44.                                               *)
(*                                                                               *)
(* A W-bit word is represented as the SET OF ITS SET-BIT POSITIONS, a subset of  *)
(* 0..W-1 (TLC integers are 32 bit, so a 64-bit word can never be a number).     *)
(*                                                                               *)
(* Three layers per helper:                                                      *)
(*   xxxV  the mathematical definition over NUMBERS (only evaluable for small W)  *)
(*   xxxB  the same definition phrased over bit sets (width independent)          *)
(*   xxxAlg the algorithm transcribed line by line from the C++ source, built     *)
(*         from the word operations below (all arithmetic modulo 2^W)             *)
(* MCBits.tla checks  Val(xxxAlg(v)) = Val(xxxB(v)) = xxxV(Val(v))  for EVERY     *)
(* W-bit word of reduced widths; BitsTrace.tla checks  compiled(v) = xxxB(v)  and *)
(* xxxAlg(v) = xxxB(v) at the real widths 32/64 for every recorded observation.   *)
EXTENDS Integers, FiniteSets, Sequences

BitPos(W) == 0 .. (W - 1)
Words(W) == SUBSET BitPos(W)

MinOf(S) == CHOOSE x \in S : \A y \in S : x <= y
\* max S, written as -min(-S): TLC enumerates a set in ascending order, so the textbook
\* CHOOSE x \in S : \A y \in S : y <= x costs |S|^2/2 evaluations, this form |S|.
\* MCBits.MaxOfIsMax checks that the two coincide.
MaxOf(S) == LET N == {0 - x : x \in S} IN 0 - MinOf(N)
MaxOfDef(S) == CHOOSE x \in S : \A y \in S : y <= x

---------------------------------------------------------------------------
(* numbers <-> words (small widths only)                                     *)
RECURSIVE Val(_)
Val(v) == IF v = {} THEN 0 ELSE LET b == MaxOf(v) IN 2 ^ b + Val(v \ {b})
OfVal(n, W) == {b \in BitPos(W) : (n \div (2 ^ b)) % 2 = 1}

---------------------------------------------------------------------------
(* word operations, modulo 2^W                                               *)
Shr(v, s) == {b - s : b \in {x \in v : x >= s}}
Or(a, b) == a \cup b
And(a, b) == a \cap b
Not(a, W) == BitPos(W) \ a
LowMask(c) == 0 .. (c - 1)                       \* 2^c - 1
\* v - 1 (borrow ripples through the trailing zeros; 0 - 1 wraps to all ones)
Dec(v, W) == IF v = {} THEN BitPos(W)
             ELSE LET l == MinOf(v) IN (v \ {l}) \cup (0 .. (l - 1))
\* v + 1 (carry ripples through the trailing ones; all ones + 1 wraps to 0)
Inc(v, W) == LET zs == BitPos(W) \ v IN
             IF zs = {} THEN {}
             ELSE LET z == MinOf(zs) IN (v \ (0 .. (z - 1))) \cup {z}
\* a + b, ripple-carry adder
RECURSIVE AddFrom(_, _, _, _, _)
AddFrom(a, b, i, carry, W) ==
  IF i = W THEN {}
  ELSE LET s == (IF i \in a THEN 1 ELSE 0) + (IF i \in b THEN 1 ELSE 0) + carry IN
       (IF s % 2 = 1 THEN {i} ELSE {}) \cup AddFrom(a, b, i + 1, s \div 2, W)
Add(a, b, W) == AddFrom(a, b, 0, 0, W)
\* does a + b overflow W bits?
RECURSIVE CarryOut(_, _, _, _, _)
CarryOut(a, b, i, carry, W) ==
  IF i = W THEN carry
  ELSE CarryOut(a, b, i + 1,
                ((IF i \in a THEN 1 ELSE 0) + (IF i \in b THEN 1 ELSE 0) + carry) \div 2, W)

\* number of doubling levels: least K with 2^K >= W  (6 for W = 64, 5 for W = 32)
Levels(W) == CHOOSE K \in 0 .. 7 : 2 ^ K >= W /\ \A J \in 0 .. 7 : 2 ^ J >= W => K <= J

---------------------------------------------------------------------------
(* nextPow2 : detail::nextPow2(uint64_t)                                      *)
(*   v--; v |= v >> 1; v |= v >> 2; ... v |= v >> 32; v++;                    *)
(* documented: smallest power of two >= v; returns 0 for v = 0; the result   *)
(* must be representable, i.e. v <= 2^(W-1).                                  *)
NextPow2Pre(v, W) == IF v = {} THEN TRUE ELSE (MaxOf(v) < W - 1 \/ v = {W - 1})

RECURSIVE SmearFrom(_, _, _)
SmearFrom(v, i, K) == IF i = K THEN v ELSE SmearFrom(Or(v, Shr(v, 2 ^ i)), i + 1, K)
NextPow2Alg(v, W) == Inc(SmearFrom(Dec(v, W), 0, Levels(W)), W)

NextPow2B(v) == IF v = {} THEN {}
                ELSE IF Cardinality(v) = 1 THEN v ELSE {MaxOf(v) + 1}
NextPow2V(n, W) == IF n = 0 THEN 0
                   ELSE LET P == {2 ^ k : k \in 0 .. (W - 1)} IN
                        CHOOSE p \in P : p >= n /\ \A q \in P : q >= n => p <= q

---------------------------------------------------------------------------
(* log2const : detail::log2const(uint64_t / uint32_t)                          *)
(*   b[] = {0x2, 0xC, 0xF0, 0xFF00, 0xFFFF0000, 0xFFFFFFFF00000000}           *)
(*   S[] = {1, 2, 4, 8, 16, 32}                                                *)
(*   r = 0; for (i = 6; i--;) if (v & b[i]) { v >>= S[i]; r |= S[i]; }         *)
(* documented: floor(log2(v)), v > 0.                                          *)
\* width-parametric table: b[i] = bits 2^i .. 2^(i+1)-1 (cut at W), S[i] = 2^i
TableB(i, W) == {b \in BitPos(W) : 2 ^ i <= b /\ b < 2 ^ (i + 1)}
TableS(i) == 2 ^ i
\* the literal tables of the source, transcribed from the hexadecimal constants
Table64 == <<{1}, {2, 3}, 4 .. 7, 8 .. 15, 16 .. 31, 32 .. 63>>
Table32 == <<{1}, {2, 3}, 4 .. 7, 8 .. 15, 16 .. 31>>
TableLit(i, W) == IF W = 64 THEN Table64[i + 1] ELSE IF W = 32 THEN Table32[i + 1] ELSE TableB(i, W)

\* r is kept as the set of levels taken: r |= S[i] sets bit i of r, r = sum of 2^i
RECURSIVE Log2Loop(_, _, _, _)
Log2Loop(v, r, i, W) ==
  IF i < 0 THEN r
  ELSE IF And(v, TableLit(i, W)) # {} THEN Log2Loop(Shr(v, TableS(i)), r \cup {i}, i - 1, W)
       ELSE Log2Loop(v, r, i - 1, W)
Log2ConstAlg(v, W) == Val(Log2Loop(v, {}, Levels(W) - 1, W))

Log2B(v) == MaxOf(v)
Log2V(n, W) == CHOOSE k \in 0 .. (W - 1) : 2 ^ k <= n /\ n < 2 ^ (k + 1)

---------------------------------------------------------------------------
(* countTrailingZeros (v != 0) and countSetBits; the portable fallbacks        *)
(*   while ((v & 1) == 0) { v >>= 1; ++count; }                                *)
(*   while (v != 0) { v &= v - 1; ++count; }                                   *)
RECURSIVE CtzLoop(_, _)
CtzLoop(v, count) == IF 0 \in v THEN count ELSE CtzLoop(Shr(v, 1), count + 1)
CtzAlg(v) == CtzLoop(v, 0)
CtzB(v) == MinOf(v)
CtzV(n, W) == CHOOSE k \in 0 .. (W - 1) : n % (2 ^ k) = 0 /\ n % (2 ^ (k + 1)) # 0

RECURSIVE PopLoop(_, _, _)
PopLoop(v, count, W) == IF v = {} THEN count ELSE PopLoop(And(v, Dec(v, W)), count + 1, W)
PopAlg(v, W) == PopLoop(v, 0, W)
PopB(v) == Cardinality(v)
RECURSIVE PopV(_)
PopV(n) == IF n = 0 THEN 0 ELSE (n % 2) + PopV(n \div 2)

---------------------------------------------------------------------------
(* alignToCacheLine(val): kMask = 2^c - 1; val += kMask; val &= ~kMask;        *)
(* documented: rounds up to the next multiple of kCacheLineSize = 2^c; the     *)
(* result must be representable (no wrap).                                     *)
AlignPre(v, c, W) == CarryOut(v, LowMask(c), 0, 0, W) = 0
\* the same without the adder: it wraps iff the low part is non-zero and the high part is all ones
AlignPreB(v, c, W) == ~(v \cap LowMask(c) # {} /\ (c .. (W - 1)) \subseteq v)
AlignAlg(v, c, W) == And(Add(v, LowMask(c), W), Not(LowMask(c), W))
\* bit-set definition: already aligned, or drop the low c bits and add 2^c
IncAt(h, c) == LET z == MinOf({p \in c .. (MaxOf(h \cup {c}) + 1) : p \notin h}) IN
               (h \ (c .. (z - 1))) \cup {z}
AlignB(v, c) == IF v \cap LowMask(c) = {} THEN v ELSE IncAt(v \ LowMask(c), c)
AlignV(n, c) == CHOOSE m \in n .. (n + 2 ^ c - 1) : m % (2 ^ c) = 0

---------------------------------------------------------------------------
(* detail::alignedMalloc(bytes, alignment), alignment = 2^k:                   *)
(*   alignment = max(alignment, sizeof(uintptr_t));                            *)
(*   base = malloc(bytes + alignment); old = base;                             *)
(*   base += alignment; base &= ~(alignment - 1);                              *)
(*   ((uintptr_t* )(base - sizeof(uintptr_t)))[0] = old;  return base;         *)
(* P = log2(sizeof(uintptr_t)); malloc returns multiples of 2^P.               *)
EffK(k, P) == IF k < P THEN P ELSE k
AlignedMallocAlg(old, k, P, W) == And(Add(old, {EffK(k, P)}, W), Not(LowMask(EffK(k, P)), W))
\* what the caller needs of the returned address a, given the block [old, old+bytes+2^k'):
\*  aligned, room for the recovery word in front, and `bytes` fit behind it
AlignedMallocOK(a, old, k, P) ==
  /\ a % (2 ^ k) = 0
  /\ a - old >= 2 ^ P
  /\ a - old <= 2 ^ EffK(k, P)
===========================================================================
