CONSTANTS
  Narrow = {4, 8, 12, 16}
  Wide = {32, 64}
SPECIFICATION Spec
CHECK_DEADLOCK FALSE
INVARIANTS TypeOK MaxOfIsMax NextPow2Alg_OK Log2ConstAlg_OK CtzAlg_OK PopAlg_OK AlignAlg_OK NextPow2Def_OK NextPow2WrapsOutside Log2Def_OK CtzDef_OK PopDef_OK AlignDef_OK AlignedMallocModel_OK
