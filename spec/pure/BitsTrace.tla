----------------------------- MODULE BitsTrace -----------------------------
(* E5 for C44: every observation record written by harness/drv/drv_bits.cpp     *)
(* (input word, outputs of the COMPILED 32/64-bit helpers) must satisfy         *)
(*      observed = definition(input)                                             *)
(* (transcribed algorithm = definition at the real widths: MCBitsWide.tla)      *)
(* One TLC step per record; a record that cannot be explained stops the         *)
(* behaviour and TraceAccepted reports its line.                                *)
EXTENDS Bits, TLC, Json, IOUtils

TraceLog == ndJsonDeserialize(IOEnv.TRACE)

VARIABLES l,      \* next line to consume
          nW,     \* word records accepted so far
          nAm     \* alignedMalloc records accepted so far

tvars == <<l, nW, nAm>>

SetOf(seq) == {seq[i] : i \in 1 .. Len(seq)}
Has(ev, f) == f \in DOMAIN ev

\* a well-formed word field: strictly ascending positions below W
WordField(seq, W) ==
  /\ \A i \in 1 .. Len(seq) : seq[i] \in BitPos(W)
  /\ \A i \in 1 .. (Len(seq) - 1) : seq[i] < seq[i + 1]

WordOK(ev) ==
  LET W == ev.W
      v == SetOf(ev.v)
      c == ev.line IN
  /\ W \in {32, 64}
  /\ WordField(ev.v, W)
  \* R1: the driver only calls a helper inside its documented domain
  /\ (Has(ev, "np2") \/ Has(ev, "np2P")) => NextPow2Pre(v, W)
  /\ (Has(ev, "l2c") \/ Has(ev, "l2cP") \/ Has(ev, "l2") \/ Has(ev, "l2P") \/ Has(ev, "ctz")) => v # {}
  /\ (Has(ev, "al") \/ Has(ev, "alP")) => AlignPreB(v, c, W)
  \* observed = definition
  /\ Has(ev, "np2")  => WordField(ev.np2, W)  /\ SetOf(ev.np2)  = NextPow2B(v)
  /\ Has(ev, "np2P") => WordField(ev.np2P, W) /\ SetOf(ev.np2P) = NextPow2B(v)
  /\ Has(ev, "l2c")  => ev.l2c  = Log2B(v)
  /\ Has(ev, "l2cP") => ev.l2cP = Log2B(v)
  /\ Has(ev, "l2")   => ev.l2   = Log2B(v)
  /\ Has(ev, "l2P")  => ev.l2P  = Log2B(v)
  /\ Has(ev, "ctz")  => ev.ctz  = CtzB(v)
  /\ Has(ev, "pop")  => ev.pop  = PopB(v)
  /\ Has(ev, "al")   => WordField(ev.al, W)  /\ SetOf(ev.al)  = AlignB(v, c)
  /\ Has(ev, "alP")  => WordField(ev.alP, W) /\ SetOf(ev.alP) = AlignB(v, c)

\* alignedMalloc(bytes, 2^k): address is a multiple of 2^k, the recovery word fits in front of
\* it and the `bytes` behind it stay inside the malloc'd block of bytes + max(2^k, sizeof(void*))
AmOK(ev) ==
  LET P == CHOOSE p \in 0 .. 4 : 2 ^ p = ev.ptr IN
  /\ ev.k \in 0 .. 16
  /\ ev.dflt = 1 => ev.k = ev.line
  /\ ev.rem = 0
  /\ ev.off >= 2 ^ P
  /\ ev.off <= 2 ^ EffK(ev.k, P)

TraceInit ==
  /\ l = 2 /\ nW = 0 /\ nAm = 0
  /\ TraceLog[1].e = "Reset"

TraceStep ==
  /\ l <= Len(TraceLog)
  /\ LET ev == TraceLog[l] IN
       \/ /\ ev.e \in {"w", "ce"}
          /\ WordOK(ev) = TRUE    \* "= TRUE": evaluated as a value (short-circuit), not split as an action
          /\ nW' = nW + 1 /\ nAm' = nAm
       \/ /\ ev.e = "am"
          /\ AmOK(ev) = TRUE
          /\ nAm' = nAm + 1 /\ nW' = nW
       \/ /\ ev.e = "Reset"
          /\ UNCHANGED <<nW, nAm>>
  /\ l' = l + 1

TraceSpec == TraceInit /\ [][TraceStep]_tvars

Counted == nW + nAm <= l

\* One state per consumed line (TraceInit consumes line 1).
TraceAccepted ==
  LET d == TLCGet("stats").diameter IN
  IF d = Len(TraceLog) THEN TRUE
  ELSE /\ PrintT(<<"TRACE_REJECTED_AT_LINE", d + 1, "OF", Len(TraceLog)>>)
       /\ PrintT(<<"OFFENDING", TraceLog[d + 1]>>)
       /\ FALSE
===========================================================================
