----------------------------- MODULE MCCpuSet -----------------------------
(* E1 and input generation (E2 direction) for property C43, three independent   *)
(* families of states in ONE TLC run (variable `kind`; one JVM start):           *)
(*                                                                               *)
(* "str"   ALL strings over Alphabet up to length MaxLen (Extend appends one      *)
(*         symbol).  ParserOK: the transcribed parser yields exactly the in-range *)
(*         ids a well-formed string denotes; strings of the right shape are       *)
(*         printed (GENSTR) and fed to the compiled parser by the check.          *)
(* "set"   the set algebra over a small id space 0..SmallMax-1: ALL sets S, ALL   *)
(*         arguments in SmallIds (incl. negative, beyond the range, INT_MIN/MAX): *)
(*         the transcribed range-checked operations (Linux and portable branch)   *)
(*         equal the set-theoretic definitions.                                   *)
(* "set1k" the same at the real MaxCpus = 1024 for sets and arguments at the      *)
(*         boundaries 0 / 1023 / 1024 / int32 extremes.                           *)
(* "topo"  ALL well-formed cache topologies over the CPUs 0..TopoN-1 (AddL2       *)
(*         appends one L2 group) x maxGroupSize in TopoMs: the transcribed        *)
(*         packing algorithm satisfies every promised grouping property; the      *)
(*         topologies are printed (GENTOPO) and fed to the compiled function.     *)
EXTENDS CpuList, Grouping, SequencesExt, Json

CONSTANTS Alphabet, MaxLen,        \* "str"
          EmitLen,                 \* "str": strings up to this length are handed to the driver
          SmallMax,                \* "set": MaxCpus of the reduced id space
          TopoN, TopoMs, TopoMaxL2 \* "topo"

VARIABLES kind, s, S, l2, l3, m
vars == <<kind, s, S, l2, l3, m>>

IntMin == -2147483647 - 1
IntMax == 2147483647

Small == INSTANCE CpuList WITH MaxCpus <- SmallMax, MaxReasonable <- 100
SmallIds == (-3 .. (SmallMax + 3)) \cup {IntMin, IntMin + 1, IntMax - 1, IntMax}
NearIds == -3 .. (SmallMax + 3)

BoundaryIds == {-1, 0, 1, MaxCpus - 2, MaxCpus - 1, MaxCpus, MaxCpus + 1, IntMin, IntMax}
BoundarySets == SUBSET {0, 1, MaxCpus - 1}

TopoCpus == 0 .. (TopoN - 1)
SortedSeq(A) == SetToSortSeq(A, LAMBDA a, b : a < b)
\* every set of pairwise disjoint non-empty CPU sets, as a sequence of ascending sequences
L3Choices ==
  LET Ps == {Q \in SUBSET ((SUBSET TopoCpus) \ {{}}) : \A A, B \in Q : A # B => A \cap B = {}} IN
  {LET q == SetToSeq(Q) IN [i \in 1 .. Len(q) |-> SortedSeq(q[i])] : Q \in Ps}

Init ==
  \/ /\ kind = "str" /\ s = <<>> /\ S = {} /\ l2 = <<>> /\ l3 = <<>> /\ m = 0
  \/ /\ kind = "set" /\ s = <<>> /\ S = {} /\ l2 = <<>> /\ l3 = <<>> /\ m = 0
  \/ /\ kind = "set1k" /\ s = <<>> /\ S \in BoundarySets /\ l2 = <<>> /\ l3 = <<>> /\ m = 0
  \/ /\ kind = "topo" /\ s = <<>> /\ S = {} /\ l2 = <<>> /\ l3 \in L3Choices /\ m \in TopoMs

Extend ==
  /\ kind = "str" /\ Len(s) < MaxLen
  /\ \E c \in Alphabet : s' = Append(s, c)
  /\ UNCHANGED <<kind, S, l2, l3, m>>

SetOp ==
  /\ kind = "set"
  /\ \E a, b \in NearIds :
       S' \in {Small!AddDef(S, a), Small!RemoveDef(S, a), Small!AddRangeDef(S, a, b),
               Small!RemoveRangeDef(S, a, b), {}}
  /\ UNCHANGED <<kind, s, l2, l3, m>>

\* the next L2 group: unused CPUs, inside one L3 group or outside all; at most one empty group
AddL2 ==
  /\ kind = "topo" /\ Len(l2) < TopoMaxL2
  /\ \E G \in SUBSET (TopoCpus \ Cpus(l2)) :
       /\ G = {} => \A i \in 1 .. Len(l2) : l2[i] # <<>>
       /\ (G \cap Cpus(l3) = {} \/ \E k \in 1 .. Len(l3) : G \subseteq SetOf(l3[k]))
       /\ l2' = Append(l2, SortedSeq(G))
  /\ UNCHANGED <<kind, s, S, l3, m>>

Next == Extend \/ SetOp \/ AddL2
Spec == Init /\ [][Next]_vars

---------------------------------------------------------------------------
\* one invariant so that TLC evaluates the parser and the denotation once per string:
\*   the parser never yields an unrepresentable id (any string, even malformed);
\*   for a string of the right shape (numerals of any size) never an id that is not denoted;
\*   for a well-formed string exactly the in-range ids it denotes.
ParserOK ==
  kind = "str" =>
    LET p == ParseAlg(s)
        d == Denote(s) IN
    /\ p \subseteq Range
    \* every item occurs as a comma-free string of the enumeration: interval form = filter form
    /\ (IndexOf(s, COMMA) = 0 /\ ItemShape(s)) => ItemIds(s) = ItemIdsDef(s)
    /\ ShapeOK(s) => (p \subseteq d /\ (Len(s) <= EmitLen => PrintT(ToJson(<<"GENSTR", s>>))))
    /\ WellFormed(s) => p = d

SetAlgebraSmallOK ==
  kind = "set" =>
    /\ S \subseteq Small!Range
    /\ \A a \in SmallIds :
         /\ Small!AddAlg(S, a) = Small!AddDef(S, a)
         /\ Small!RemoveAlg(S, a) = Small!RemoveDef(S, a)
         /\ Small!ContainsAlg(S, a) = Small!ContainsDef(S, a)
         /\ \A b \in SmallIds :
              /\ Small!AddRangeAlg(S, a, b) = Small!AddRangeDef(S, a, b)
              /\ Small!RemoveRangeAlg(S, a, b) = Small!RemoveRangeDef(S, a, b)
    /\ \A a, b \in NearIds :
         /\ Small!AddRangePortableAlg(S, a, b) = Small!AddRangeDef(S, a, b)
         /\ Small!RemoveRangePortableAlg(S, a, b) = Small!RemoveRangeDef(S, a, b)

SetAlgebra1kOK ==
  kind = "set1k" =>
    \A a \in BoundaryIds :
      /\ AddAlg(S, a) = AddDef(S, a)
      /\ RemoveAlg(S, a) = RemoveDef(S, a)
      /\ ContainsAlg(S, a) = ContainsDef(S, a)
      /\ \A b \in BoundaryIds :
           /\ AddRangeAlg(S, a, b) = AddRangeDef(S, a, b)
           /\ RemoveRangeAlg(S, a, b) = RemoveRangeDef(S, a, b)

GroupingAlgOK ==
  kind = "topo" =>
    /\ WellFormedTopo(l2, l3)
    /\ PairwiseDisjoint(l2) = PairwiseDisjointDef(l2) /\ PairwiseDisjoint(l3) = PairwiseDisjointDef(l3)
    /\ GroupingOK(l2, l3, m, GroupAlg(l2, l3, m))
    /\ PrintT(ToJson(<<"GENTOPO", m, l2, l3>>))
===========================================================================
