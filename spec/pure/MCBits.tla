------------------------------ MODULE MCBits ------------------------------
(* E1 for C44.  One TLC state per (width, word).                                *)
(*                                                                              *)
(* Narrow widths (W <= 16): EVERY W-bit word.  The algorithms transcribed from  *)
(* the C++ source equal the bit-set definitions, and the bit-set definitions    *)
(* equal the number-level mathematical definitions.                             *)
(*                                                                              *)
(* Wide widths (the real W = 32, 64): the transcribed algorithms equal the      *)
(* bit-set definitions for every word of the structured classes the results     *)
(* depend on -- all words with at most two set bits, all contiguous runs        *)
(* lo..hi, all complements of a single bit.  NOT exhaustive over 2^W.           *)
(*                                                                              *)
(* The words are generated in two stages (seed, then expansion by Next) only so *)
(* that TLC's workers check the invariants in parallel; every word appears      *)
(* exactly once with stage = "full".                                            *)
EXTENDS Bits, TLC

CONSTANTS Narrow,   \* set of reduced widths, all words
          Wide      \* set of real widths, structured classes

VARIABLES w, v, stage
vars == <<w, v, stage>>

\* per-width parameters: log2 cache line, log2 sizeof(uintptr_t), largest alignedMalloc exponent
C == IF w < 12 THEN 2 ELSE 6
P == IF w < 12 THEN 1 ELSE 3
KMax == IF w < 8 THEN w - 2 ELSE IF w < 12 THEN 5 ELSE IF w < 16 THEN 8 ELSE 12   \* 2^KMax is an address of the width

Half(W) == W \div 2
Seeds(W) == IF W \in Narrow THEN SUBSET (0 .. (Half(W) - 1))
            ELSE {{}} \cup {{i} : i \in BitPos(W)}
Expand(W, s) ==
  IF W \in Narrow THEN {s \cup h : h \in SUBSET (Half(W) .. (W - 1))}
  ELSE IF s = {} THEN {{}}
  ELSE LET i == MinOf(s) IN
       {{i, j} : j \in i .. (W - 1)} \cup {i .. j : j \in i .. (W - 1)} \cup {BitPos(W) \ {i}}

Init == /\ w \in Narrow \cup Wide
        /\ v \in Seeds(w)
        /\ stage = "seed"
Grow == /\ stage = "seed"
        /\ stage' = "full"
        /\ w' = w
        /\ v' \in Expand(w, v)
Next == Grow
Spec == Init /\ [][Next]_vars

Full == stage = "full"
IsNarrow == Full /\ w \in Narrow
n == Val(v)

TypeOK == v \subseteq BitPos(w) /\ (IsNarrow => OfVal(n, w) = v)
MaxOfIsMax == (Full /\ v # {}) => MaxOf(v) = MaxOfDef(v)

\* ---- algorithm = bit-set definition (all widths) ------------------------------------------
NextPow2Alg_OK == (Full /\ NextPow2Pre(v, w)) => NextPow2Alg(v, w) = NextPow2B(v)
Log2ConstAlg_OK == (Full /\ v # {}) => Log2ConstAlg(v, w) = Log2B(v)
CtzAlg_OK == (Full /\ v # {}) => CtzAlg(v) = CtzB(v)
PopAlg_OK == Full => PopAlg(v, w) = PopB(v)
AlignAlg_OK ==
  Full => /\ AlignPre(v, C, w) = AlignPreB(v, C, w)
          /\ AlignPre(v, C, w) => AlignAlg(v, C, w) = AlignB(v, C)

\* ---- bit-set definition = number-level definition (narrow widths) ---------------------------
NextPow2Def_OK == (IsNarrow /\ NextPow2Pre(v, w)) => Val(NextPow2B(v)) = NextPow2V(n, w)
\* outside the documented domain the smear algorithm wraps to 0 (not judged; recorded for the notes)
NextPow2WrapsOutside == (IsNarrow /\ ~NextPow2Pre(v, w)) => NextPow2Alg(v, w) = {}
Log2Def_OK == (IsNarrow /\ v # {}) => Log2B(v) = Log2V(n, w)
CtzDef_OK == (IsNarrow /\ v # {}) => CtzB(v) = CtzV(n, w)
PopDef_OK == IsNarrow => PopB(v) = PopV(n)
AlignDef_OK == (IsNarrow /\ AlignPre(v, C, w)) => Val(AlignB(v, C)) = AlignV(n, C)

\* v plays the role of the address returned by malloc (a multiple of 2^P)
AlignedMallocModel_OK ==
  IsNarrow =>
    \A k \in 0 .. KMax :
      (v \cap LowMask(P) = {} /\ EffK(k, P) < w /\ CarryOut(v, {EffK(k, P)}, 0, 0, w) = 0) =>
        AlignedMallocOK(Val(AlignedMallocAlg(v, k, P, w)), n, k, P)

\* the literal 64/32-bit tables of the source are the instances of the parametric table
ASSUME \A i \in 0 .. 5 : Table64[i + 1] = TableB(i, 64)
ASSUME \A i \in 0 .. 4 : Table32[i + 1] = TableB(i, 32)
ASSUME Levels(64) = 6 /\ Levels(32) = 5
===========================================================================
