CONSTANTS
  Threads = {"a", "b", "c", "d"}
  Prog <- Prog_4
INIT Init
NEXT Next
CHECK_DEADLOCK FALSE
INVARIANTS TypeOK Stable Unique Dense Complete
