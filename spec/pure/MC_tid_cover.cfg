CONSTANTS
  Threads = {"a", "b", "c"}
  Prog <- Prog_cover
INIT Init
NEXT Next
CHECK_DEADLOCK FALSE
INVARIANTS TypeOK Stable Unique Dense Complete
