CONSTANTS
  MaxCpus = 1024
  MaxReasonable = 1048576
SPECIFICATION TraceSpec
CHECK_DEADLOCK FALSE
POSTCONDITION TraceAccepted
INVARIANTS TypeOK
