CONSTANTS
  Threads = {}
  Prog = 0
SPECIFICATION TraceSpec
CHECK_DEADLOCK FALSE
POSTCONDITION TraceAccepted
INVARIANTS Stable Unique Dense Complete
