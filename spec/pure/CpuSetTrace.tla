---------------------------- MODULE CpuSetTrace ----------------------------
(* E5 for C43: every observation record written by harness/drv/drv_cpuset.cpp    *)
(* is checked against the definitions of CpuList.tla / Grouping.tla.  One TLC    *)
(* step per record; a record that cannot be explained stops the behaviour and    *)
(* TraceAccepted reports its line.                                               *)
(*                                                                               *)
(*  set operations  S is the abstract value of the CpuSet of the current         *)
(*                  execution: S' = Def(S, op, args), and the value observed      *)
(*                  through contains()/count() after the call equals S'.          *)
(*  parse           well-formed string: observed = Denote(s).  Right shape but a  *)
(*                  numeral beyond the code's sanity bound (outside the promised  *)
(*                  grammar): only "no id that is not denoted".  Malformed: only  *)
(*                  the representation invariants.  The last step prints how many *)
(*                  records of each class there were and on how many not-judged   *)
(*                  records the compiled parser differs from the denotation /     *)
(*                  from the transcribed algorithm (reported, not judged).        *)
(*  group           well-formed topology: GroupingOK and the affinity masks.      *)
EXTENDS CpuList, Grouping, Json, IOUtils

TraceLog == ndJsonDeserialize(IOEnv.TRACE)

VARIABLES l,      \* next line to consume
          S,      \* abstract value of the CpuSet of the current set-operation execution
          st      \* statistics (record of counters)

tvars == <<l, S, st>>

RunsSet(r) == UNION {r[i][1] .. r[i][2] : i \in 1 .. Len(r)}

\* the observation of a CpuSet value V: every accepted id is representable, count() agrees
ObservedIs(ev, V) ==
  /\ RunsSet(ev.runs) = V
  /\ ev.cnt = Cardinality(V)
  /\ ev.oob = <<>>

OpDef(ev) ==
  CASE ev.e = "add"         -> AddDef(S, ev.a)
    [] ev.e = "remove"      -> RemoveDef(S, ev.a)
    [] ev.e = "addRange"    -> AddRangeDef(S, ev.a, ev.b)
    [] ev.e = "removeRange" -> RemoveRangeDef(S, ev.a, ev.b)
    [] ev.e = "clear"       -> {}

OpOK(ev, V) ==
  /\ ObservedIs(ev, V)
  /\ Len(ev.probe) = Len(ev.hit)
  /\ \A i \in 1 .. Len(ev.probe) : (ev.hit[i] = 1) = ContainsDef(V, ev.probe[i])

\* class of a recorded string, the judgement of the observed set, and the two not-judged comparisons
ParseClass(wf, shape) == IF wf THEN "wf" ELSE IF shape THEN "beyond" ELSE "malformed"
ParseOK(ev, obs, wf, shape, d) ==
  /\ obs \subseteq Range /\ ev.cnt = Cardinality(obs) /\ ev.oob = <<>>
  /\ IF wf THEN obs = d
     ELSE IF shape THEN obs \subseteq d
     ELSE TRUE

GroupOK(ev) ==
  IF WellFormedTopo(ev.l2, ev.l3)
  THEN /\ GroupingOK(ev.l2, ev.l3, ev.m, ev.g)
       /\ MasksOK(ev.g, [j \in 1 .. Len(ev.mask) |-> SetOf(ev.mask[j])], MaxCpus)
  ELSE FALSE     \* R1: the driver must only build well-formed topologies

Stat0 == [ops |-> 0, wf |-> 0, beyond |-> 0, beyondDiffers |-> 0, malformed |-> 0, algDiffers |-> 0, groups |-> 0]
Bump(f) == [st EXCEPT ![f] = @ + 1]

TraceInit ==
  /\ l = 2 /\ S = {} /\ st = Stat0
  /\ TraceLog[1].e = "Reset"

TraceStep ==
  /\ l <= Len(TraceLog)
  /\ LET ev == TraceLog[l] IN
       \/ /\ ev.e = "Reset"
          /\ S' = {} /\ st' = st
       \/ /\ ev.e \in {"add", "remove", "addRange", "removeRange", "clear"}
          /\ S' = OpDef(ev)
          /\ OpOK(ev, S') = TRUE      \* "= TRUE": evaluated as a value (short-circuit), not split as an action
          /\ st' = Bump("ops")
       \/ /\ ev.e = "parse"
          /\ LET obs == RunsSet(ev.runs)
                 wf == WellFormed(ev.s)
                 shape == IF wf THEN TRUE ELSE ShapeOK(ev.s)
                 d == IF shape THEN Denote(ev.s) ELSE {}
                 c == ParseClass(wf, shape) IN
             /\ ParseOK(ev, obs, wf, shape, d) = TRUE
             /\ st' = [st EXCEPT ![c] = @ + 1,
                                 !.beyondDiffers = @ + (IF c = "beyond" /\ obs # d THEN 1 ELSE 0),
                                 !.algDiffers = @ + (IF obs # ParseAlg(ev.s) THEN 1 ELSE 0)]
          /\ S' = S
       \/ /\ ev.e = "group"
          /\ GroupOK(ev) = TRUE
          /\ st' = Bump("groups") /\ S' = S
  /\ l' = l + 1
  /\ IF l = Len(TraceLog) THEN PrintT(<<"TRACE_STATS", ToJson(st')>>) ELSE TRUE

TraceSpec == TraceInit /\ [][TraceStep]_tvars

TypeOK == S \subseteq Range

\* One state per consumed line (TraceInit consumes line 1).
TraceAccepted ==
  LET d == TLCGet("stats").diameter IN
  IF d = Len(TraceLog) THEN TRUE
  ELSE /\ PrintT(<<"TRACE_REJECTED_AT_LINE", d + 1, "OF", Len(TraceLog)>>)
       /\ PrintT(<<"OFFENDING", TraceLog[d + 1]>>)
       /\ FALSE
===========================================================================
