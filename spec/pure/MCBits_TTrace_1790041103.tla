---- MODULE MCBits_TTrace_1790041103 ----
EXTENDS Sequences, TLCExt, Toolbox, MCBits, Naturals, TLC

_expression ==
    LET MCBits_TEExpression == INSTANCE MCBits_TEExpression
    IN MCBits_TEExpression!expression
----

_trace ==
    LET MCBits_TETrace == INSTANCE MCBits_TETrace
    IN MCBits_TETrace!trace
----

_inv ==
    ~(
        TLCGet("level") = Len(_TETrace)
        /\
        stage = ("full")
        /\
        v = ({1})
        /\
        w = (4)
    )
----

_init ==
    /\ stage = _TETrace[1].stage
    /\ v = _TETrace[1].v
    /\ w = _TETrace[1].w
----

_next ==
    /\ \E i,j \in DOMAIN _TETrace:
        /\ \/ /\ j = i + 1
              /\ i = TLCGet("level")
        /\ stage  = _TETrace[i].stage
        /\ stage' = _TETrace[j].stage
        /\ v  = _TETrace[i].v
        /\ v' = _TETrace[j].v
        /\ w  = _TETrace[i].w
        /\ w' = _TETrace[j].w

\* Uncomment the ASSUME below to write the states of the error trace
\* to the given file in Json format. Note that you can pass any tuple
\* to `JsonSerialize`. For example, a sub-sequence of _TETrace.
    \* ASSUME
    \*     LET J == INSTANCE Json
    \*         IN J!JsonSerialize("MCBits_TTrace_1790041103.json", _TETrace)

=============================================================================

 Note that you can extract this module `MCBits_TEExpression`
  to a dedicated file to reuse `expression` (the module in the 
  dedicated `MCBits_TEExpression.tla` file takes precedence 
  over the module `MCBits_TEExpression` below).

---- MODULE MCBits_TEExpression ----
EXTENDS Sequences, TLCExt, Toolbox, MCBits, Naturals, TLC

expression == 
    [
        \* To hide variables of the `MCBits` spec from the error trace,
        \* remove the variables below.  The trace will be written in the order
        \* of the fields of this record.
        stage |-> stage
        ,v |-> v
        ,w |-> w
        
        \* Put additional constant-, state-, and action-level expressions here:
        \* ,_stateNumber |-> _TEPosition
        \* ,_stageUnchanged |-> stage = stage'
        
        \* Format the `stage` variable as Json value.
        \* ,_stageJson |->
        \*     LET J == INSTANCE Json
        \*     IN J!ToJson(stage)
        
        \* Lastly, you may build expressions over arbitrary sets of states by
        \* leveraging the _TETrace operator.  For example, this is how to
        \* count the number of times a spec variable changed up to the current
        \* state in the trace.
        \* ,_stageModCount |->
        \*     LET F[s \in DOMAIN _TETrace] ==
        \*         IF s = 1 THEN 0
        \*         ELSE IF _TETrace[s].stage # _TETrace[s-1].stage
        \*             THEN 1 + F[s-1] ELSE F[s-1]
        \*     IN F[_TEPosition - 1]
    ]

=============================================================================



Parsing and semantic processing can take forever if the trace below is long.
 In this case, it is advised to uncomment the module below to deserialize the
 trace from a generated binary file.

\*
\*---- MODULE MCBits_TETrace ----
\*EXTENDS IOUtils, MCBits, TLC
\*
\*trace == IODeserialize("MCBits_TTrace_1790041103.bin", TRUE)
\*
\*=============================================================================
\*

---- MODULE MCBits_TETrace ----
EXTENDS MCBits, TLC

trace == 
    <<
    ([stage |-> "seed",v |-> {1},w |-> 4]),
    ([stage |-> "full",v |-> {1},w |-> 4])
    >>
----


=============================================================================

---- CONFIG MCBits_TTrace_1790041103 ----
CONSTANTS
    Narrow = { 4 , 8 , 12 , 16 }
    Wide = { 32 , 64 }

INVARIANT
    _inv

CHECK_DEADLOCK
    \* CHECK_DEADLOCK off because of PROPERTY or INVARIANT above.
    FALSE

INIT
    _init

NEXT
    _next

CONSTANT
    _TETrace <- _trace

ALIAS
    _expression
=============================================================================
\* Generated on Tue Sep 22 01:38:34 UTC 2026