---------------------------- MODULE MCThreadId ----------------------------
EXTENDS ThreadId
\* cover configuration: every shape of program (0, 1, several calls) on three threads
Prog_cover == [a |-> 2, b |-> 1, c |-> 0]
\* all interleavings of the first calls of four threads, repeated calls
Prog_4 == [a |-> 3, b |-> 1, c |-> 2, d |-> 3]
==========================================================================
