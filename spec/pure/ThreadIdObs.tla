---------------------------- MODULE ThreadIdObs ----------------------------
(* E5 observation-record validator for C45.  The records come from truly         *)
(* concurrent real threads (free-running, so only what each thread itself         *)
(* observed is meaningful -- rule R3):                                            *)
(*   {"e":"Reset"}                                  first line of a process       *)
(*   {"e":"Obs","round":k,"n":n,"k":i,"ids":[..]}   thread i of a round of n      *)
(*        threads released together by a barrier; ids = every value threadId()    *)
(*        returned to that thread during its whole life, in call order            *)
(* One step per record.  `seen` is the set of identifiers observed so far in the  *)
(* whole process (never reset: uniqueness is process-wide, across rounds, i.e.    *)
(* also against threads that have already exited).  StableSeq / Injective are     *)
(* the operators model-checked through ThreadId.tla.                              *)
EXTENDS Integers, Sequences, FiniteSets, TLC, ThreadIdOps, Json, IOUtils

TraceLog == ndJsonDeserialize(IOEnv.TRACE)

VARIABLES l, seen, cnt, round
ovars == <<l, seen, cnt, round>>

ObsInit ==
  /\ l = 2
  /\ TraceLog[1].e = "Reset"
  /\ seen = {}
  /\ cnt = 0
  /\ round = <<>>       \* identifiers of the current round, indexed by thread

ObsStep ==
  /\ l <= Len(TraceLog)
  /\ LET ev == TraceLog[l] IN
       /\ ev.e = "Obs"
       /\ Len(ev.ids) >= 1
       /\ StableSeq(ev.ids)              \* stable for the lifetime of the thread
       /\ ev.ids[1] >= 0
       /\ ev.ids[1] \notin seen          \* distinct from every other thread of the process
       /\ seen' = seen \cup {ev.ids[1]}
       /\ cnt' = cnt + 1
       /\ round' = (IF ev.k = 1 THEN <<ev.ids[1]>> ELSE Append(round, ev.ids[1]))
  /\ l' = l + 1

\* the identifiers of the threads of a round are pairwise distinct (the statement `Unique` of
\* ThreadId.tla on the observed assignment), and so are all identifiers of the process
ObsUnique == Injective(round) /\ Cardinality(seen) = cnt

ObsAccepted ==
  LET d == TLCGet("stats").diameter IN
  IF d = Len(TraceLog) THEN TRUE
  ELSE /\ PrintT(<<"TRACE_REJECTED_AT_LINE", d + 1, "OF", Len(TraceLog)>>)
       /\ PrintT(<<"OFFENDING", TraceLog[d + 1]>>)
       /\ FALSE
==========================================================================
