---------------------------- MODULE ThreadIdObs ----------------------------
(* E5 observation-record validator for C45.  The records come from truly         *)
(* concurrent real threads (free-running, so only what each thread itself         *)
(* observed is meaningful -- rule R3):                                            *)
(*   {"e":"Reset"}                                  first line of a process       *)
(*   {"e":"Obs","round":k,"n":n,"k":i,"ids":[..]}   thread i of a round of n      *)
(*        threads released together by a barrier; ids = every value threadId()    *)
(*        returned to that thread during its whole life, in call order            *)
(*        "via":[..]   translation unit of the driver each call was compiled in   *)
(*        (1 = drv_threadid.cpp, 2 = drv_threadid_tu2.cpp).  The identifier       *)
(*        belongs to the THREAD: the spec has one cache per thread, not one per   *)
(*        (thread, calling .cpp file), so StableSeq ranges over the calls of all  *)
(*        units, and a record is only accepted as evidence if the thread was      *)
(*        really observed from both units (BothUnits).                            *)
(*        "slots":[a,b] "left":[x,y]   header-only user of threadId(), the reader *)
(*        path of DistributedRWLock, on two thread-private locks: a (b) = the     *)
(*        sub-lock that is read-held after lock_shared() compiled in unit 1 (2),  *)
(*        x (y) = number of sub-lock words that are not 0 after the matching      *)
(*        unlock_shared() compiled in the OTHER unit.  lock_shared() and          *)
(*        unlock_shared() both pick the sub-lock with threadId(), so for a stable *)
(*        identifier both units pick the same sub-lock (a = b, exactly one held:  *)
(*        >= 0) and a lock/unlock pair of one thread leaves the lock free         *)
(*        (x = y = 0) wherever the two halves are compiled.                       *)
(* One step per record.  `seen` is the set of identifiers observed so far in the  *)
(* whole process (never reset: uniqueness is process-wide, across rounds, i.e.    *)
(* also against threads that have already exited).  StableSeq / Injective are     *)
(* the operators model-checked through ThreadId.tla.                              *)
EXTENDS Integers, Sequences, FiniteSets, TLC, ThreadIdOps, Json, IOUtils

TraceLog == ndJsonDeserialize(IOEnv.TRACE)

VARIABLES l, seen, cnt, round
ovars == <<l, seen, cnt, round>>

ObsInit ==
  /\ l = 2
  /\ TraceLog[1].e = "Reset"
  /\ seen = {}
  /\ cnt = 0
  /\ round = <<>>       \* identifiers of the current round, indexed by thread

\* the record carries calls compiled in both translation units of the driver
BothUnits(ev) == /\ Len(ev.via) = Len(ev.ids)
                 /\ {ev.via[i] : i \in 1 .. Len(ev.via)} = {1, 2}
\* the header-only reader path picks the same sub-lock from both units, and a lock_shared() /
\* unlock_shared() pair split over the two units leaves a private lock free
SameSubLock(ev) == /\ Len(ev.slots) = 2 /\ Len(ev.left) = 2
                   /\ ev.slots[1] >= 0
                   /\ StableSeq(ev.slots)
                   /\ \A i \in 1 .. Len(ev.left) : ev.left[i] = 0

ObsStep ==
  /\ l <= Len(TraceLog)
  /\ LET ev == TraceLog[l] IN
       /\ ev.e = "Obs"
       /\ Len(ev.ids) >= 1
       /\ StableSeq(ev.ids)              \* stable for the lifetime of the thread, whichever unit asks
       /\ BothUnits(ev)
       /\ SameSubLock(ev)
       /\ ev.ids[1] >= 0
       /\ ev.ids[1] \notin seen          \* distinct from every other thread of the process
       /\ seen' = seen \cup {ev.ids[1]}
       /\ cnt' = cnt + 1
       /\ round' = (IF ev.k = 1 THEN <<ev.ids[1]>> ELSE Append(round, ev.ids[1]))
  /\ l' = l + 1

\* the identifiers of the threads of a round are pairwise distinct (the statement `Unique` of
\* ThreadId.tla on the observed assignment), and so are all identifiers of the process
ObsUnique == Injective(round) /\ Cardinality(seen) = cnt

ObsAccepted ==
  LET d == TLCGet("stats").diameter IN
  IF d = Len(TraceLog) THEN TRUE
  ELSE /\ PrintT(<<"TRACE_REJECTED_AT_LINE", d + 1, "OF", Len(TraceLog)>>)
       /\ PrintT(<<"OFFENDING", TraceLog[d + 1]>>)
       /\ LET ev == TraceLog[d + 1] IN
            ev.e = "Obs" =>
              PrintT(<<"CONJUNCTS", [StableAcrossUnits |-> StableSeq(ev.ids), BothUnits |-> BothUnits(ev),
                                     SameSubLock |-> SameSubLock(ev)]>>)
       /\ FALSE
==========================================================================
