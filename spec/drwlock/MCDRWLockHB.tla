---------------------------- MODULE MCDRWLockHB ----------------------------
EXTENDS DRWLockHB
\* an op is <<name, slot>>
P(s) == [i \in 1 .. Len(s) |-> [op |-> s[i][1], s |-> s[i][2]]]
L == <<"lock", 0>>       TL == <<"try_lock", 0>>      U == <<"unlock", 0>>
LS(s) == <<"lock_shared", s>>   TS(s) == <<"try_lock_shared", s>>   US(s) == <<"unlock_shared", s>>
None == <<>>

\* ---- MC_hb1: N = 2, the three cover programs of C23 (every operation kind, readers on both slots,
\*      roll-back of a failed try_lock, try_lock draining readers)
Prog_h1a == [t1 |-> P(<<L, U>>), t2 |-> P(<<TL, U>>), t3 |-> P(<<LS(1), US(1)>>)]
Prog_h1b == [t1 |-> P(<<L, U>>), t2 |-> P(<<LS(0), US(0)>>), t3 |-> P(<<TS(1), US(1)>>)]
Prog_h1c == [t1 |-> P(<<TL, U>>), t2 |-> P(<<LS(0), US(0)>>), t3 |-> P(<<LS(1), US(1)>>)]
HInit1 == \E c \in {<<Prog_h1a, 2>>, <<Prog_h1b, 2>>, <<Prog_h1c, 2>>} : HInitWith(c[1], c[2])

\* ---- MC_hb2: chains.  N = 1: two blocking writers against a blocking reader (spin loop, 2nd ShAdd
\*      with a whole write section between the spin load and the fetch_add; failing 2nd SetWb);
\*      N = 2: every thread is reader and writer (reader -> writer -> reader chains across slots);
\*      N = 1: try variants in both roles
Prog_h2a == [t1 |-> P(<<L, U>>), t2 |-> P(<<L, U>>), t3 |-> P(<<LS(0), US(0)>>)]
Prog_h2b == [t1 |-> P(<<LS(0), US(0), L, U>>), t2 |-> P(<<L, U, LS(1), US(1)>>), t3 |-> P(None)]
Prog_h2c == [t1 |-> P(<<L, U, TS(0), US(0)>>), t2 |-> P(<<TS(0), US(0), TL, U>>), t3 |-> P(None)]
HInit2 == \E c \in {<<Prog_h2a, 1>>, <<Prog_h2b, 2>>, <<Prog_h2c, 1>>} : HInitWith(c[1], c[2])

\* ---- MC_hb3 (thorough): N = 2, three threads, each writer and reader, all six operation kinds
Prog_h3 == [t1 |-> P(<<L, U, LS(1), US(1)>>), t2 |-> P(<<TL, U, TS(0), US(0)>>),
            t3 |-> P(<<LS(0), US(0), L, U>>)]
==========================================================================
