CONSTANTS
  Threads = {"t1", "t2", "t3"}
  Prog <- Prog_coverA
  NSlots = 2
  Spurious = FALSE
  CePoint <- CePointEnv
SPECIFICATION FairCover
CHECK_DEADLOCK FALSE
INVARIANTS TypeOK ProgOK ExclHold ExclCs WordExact QuiescentZero NoStuck NoLostWake
PROPERTIES TryNeverConflicts Termination BlockedProceeds
