------------------------------ MODULE DRWLockHB ------------------------------
(* C10 for DistributedRWLock / DistributedRWLockImpl<N>: DRWLock.tla composed with the     *)
(* happens-before model spec/lib/MemOrder.tla (no std::atomic_thread_fence in               *)
(* rw_lock_impl.h, distributed_rw_lock_impl.h, completion_event_impl.h).                    *)
(*                                                                                          *)
(* Atomic locations: the lock word of every slot (writer bit + reader count live in ONE     *)
(* std::atomic<int>, so the reader's "announce + check writer" is a single fetch_add and    *)
(* the writer's "announce" a single fetch_or on the same word: mutual exclusion comes from  *)
(* the modification order of that word and the atomicity of RMWs, not from the seq_cst      *)
(* total order - there is no store-buffering pattern and no seq_cst access).                *)
(* Non-atomic location: ONE ghost cell, the data the lock protects.  It is written by      *)
(* "main" before the threads start, written twice inside every exclusive critical section   *)
(* (CsEnter, CsExit of a thread in mode "W"), read twice inside every shared critical       *)
(* section (mode "R"), and written by "main" after it joined all threads.                   *)
(* Memory orders: OrdersDRWLock.tla, extracted at check time from rw_lock_impl.h and        *)
(* completion_event_impl.h (bin/extract_orders.py).                                         *)
(*                                                                                          *)
(* Spinning: a fetch_or / load that finds the writer bit set leaves the base state          *)
(* unchanged but advances the vector clock, so the failed attempts of one waiting episode   *)
(* are bounded by MaxSpin (overlay variable sp).  MaxSpin >= 2 reaches a failing second     *)
(* textual occurrence of SetWb.                                                             *)
EXTENDS DRWLock, MemOrder, OrdersDRWLock

CONSTANT MaxSpin

VARIABLES hb,
          sp,      \* per thread: failed SetWb / ShSpin attempts of the current waiting episode
          again,   \* per thread: the next ShAdd is the one after the spin loop (2nd occurrence)
          fin      \* main has joined the threads and destroyed the data
hvars == <<vars, hb, sp, again, fin>>

HT == Threads \cup {"main"}
Word(i) == <<"word", i>>
Data == <<"data", 0>>
ALocs == {Word(i) : i \in 0 .. (NSlots - 1)}
NLocs == {Data}

\* sites this component executes, with the number of textual occurrences the overlay maps
UsedSites == ("SetWb" :> 2) @@ ("TryWb" :> 1) @@ ("CeWaitLd" :> 1) @@ ("WrUnlock" :> 1) @@
             ("ShAdd" :> 2) @@ ("TryShAdd" :> 1) @@ ("RdRel" :> 1) @@ ("ShSpin" :> 1)
\* DrainLd is the hook before event_.wait(kWriteBit): no atomic operation in that statement
\* ("none"); the load is the one at CeWaitLd inside CompletionEventImpl::wait.
OrdersComplete ==
  \A s \in DOMAIN UsedSites :
     /\ s \in DOMAIN Ord
     /\ Len(Ord[s]) = UsedSites[s]
     /\ \A i \in 1 .. Len(Ord[s]) : Ord[s][i][1] # "none"
O1(site) == Ord[site][1][2]
O2(site, second) == Ord[site][IF second THEN 2 ELSE 1][2]

HInitWith(p, nn) ==
  /\ InitWith(p, nn, Spurious, CePoint)
  /\ hb = NAWrite(HT, HBInit(HT, ALocs, NLocs), "main", Data)
  /\ sp = [t \in Threads |-> 0]
  /\ again = [t \in Threads |-> FALSE]
  /\ fin = FALSE
HInit == HInitWith(Prog, NSlots)

\* the data access of a critical-section step
CsAccess(h, t) == IF mode[t] = "W" THEN NAWrite(HT, h, t, Data) ELSE NARead(HT, h, t, Data)
\* the load inside CompletionEventImpl::wait on the slot the writer drains
WaitLoad(t) == ALoad(HT, hb, t, Word(loc[t].i), O1("CeWaitLd"))

Keep == UNCHANGED <<sp, again>>

HStep(t) ==
  \/ Start(t) /\ hb' = HBSpawn(HT, hb, "main", t) /\ Keep
  \/ CsEnter(t) /\ hb' = CsAccess(hb, t) /\ Keep
  \/ CsExit(t) /\ hb' = CsAccess(hb, t) /\ Keep
  \* setWriteBit: fetch_or, 1st occurrence = first attempt, 2nd = retries in the spin loop
  \/ /\ SetWb(t)
     /\ w[loc[t].i] => sp[t] < MaxSpin
     /\ hb' = ARmw(HT, hb, t, Word(loc[t].i), O2("SetWb", sp[t] > 0))
     /\ sp' = [sp EXCEPT ![t] = IF w[loc[t].i] THEN @ + 1 ELSE 0]
     /\ UNCHANGED again
  \* tryWriteBit: fetch_or (an RMW also when it finds the bit set)
  \/ TryWb(t) /\ hb' = ARmw(HT, hb, t, Word(loc[t].i), O1("TryWb")) /\ Keep
  \* waitForReaderDrain: the hook itself has no atomic access when wait() carries its own point
  \/ DrainLd(t) /\ hb' = (IF cept THEN hb ELSE WaitLoad(t)) /\ Keep
  \/ CeWaitLd(t) /\ hb' = WaitLoad(t) /\ Keep
  \* futex(FUTEX_WAIT): the kernel's compare is not a C++ atomic access; in the layout without
  \* CeWaitLd the next load of the wait loop is part of the step
  \/ /\ FutexWait(t)
     /\ hb' = (IF ~cept /\ ~(w[loc[t].i] = loc[t].cw /\ r[loc[t].i] = loc[t].cr) THEN WaitLoad(t) ELSE hb)
     /\ Keep
  \/ FutexRet(t) /\ hb' = (IF cept THEN hb ELSE WaitLoad(t)) /\ Keep
  \/ FutexSpurious(t) /\ hb' = hb /\ Keep
  \* unlock of one slot (unlock(), roll-back of try_lock): fetch_and
  \/ WrUnlock(t) /\ hb' = ARmw(HT, hb, t, Word(loc[t].i), O1("WrUnlock")) /\ Keep
  \* lock_shared: fetch_add; 1st occurrence on entry, 2nd after the spin loop
  \/ /\ ShAdd(t)
     /\ hb' = ARmw(HT, hb, t, Word(Sl(t)), O2("ShAdd", again[t]))
     /\ again' = [again EXCEPT ![t] = w[Sl(t)]]
     /\ UNCHANGED sp
  \/ TryShAdd(t) /\ hb' = ARmw(HT, hb, t, Word(Sl(t)), O1("TryShAdd")) /\ Keep
  \* readerRelease: fetch_sub (unlock_shared and the back-off of lock_shared / try_lock_shared)
  \/ RdRel(t) /\ hb' = ARmw(HT, hb, t, Word(Sl(t)), O1("RdRel")) /\ Keep
  \* tryNotify = futex(FUTEX_WAKE): no C++ atomic access, no edge claimed
  \/ (\E W \in SUBSET Threads : FutexWake(t, W)) /\ hb' = hb /\ Keep
  \/ /\ ShSpin(t)
     /\ w[Sl(t)] => sp[t] < MaxSpin
     /\ hb' = ALoad(HT, hb, t, Word(Sl(t)), O1("ShSpin"))
     /\ sp' = [sp EXCEPT ![t] = IF w[Sl(t)] THEN @ + 1 ELSE 0]
     /\ UNCHANGED again

RECURSIVE JoinAll(_, _)
JoinAll(h, ts) == IF ts = {} THEN h ELSE LET u == CHOOSE u \in ts : TRUE IN JoinAll(HBJoin(HT, h, "main", u), ts \ {u})

\* main joins every thread, then destroys (writes) the protected data
Finale ==
  /\ AllDone /\ ~fin
  /\ fin' = TRUE
  /\ hb' = NAWrite(HT, JoinAll(hb, Threads), "main", Data)
  /\ UNCHANGED <<vars, sp, again>>

HNext == (\E t \in Threads : HStep(t) /\ UNCHANGED fin) \/ Finale
HSpec == HInit /\ [][HNext]_hvars

RaceFree == NoRace(hb)
HTypeOK == /\ \A t \in Threads : sp[t] \in 0 .. MaxSpin /\ again[t] \in BOOLEAN
           /\ fin \in BOOLEAN
==========================================================================
