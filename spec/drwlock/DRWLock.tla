------------------------------- MODULE DRWLock -------------------------------
(* Implementation-level specification of dispenso::detail::DistributedRWLockImpl<N>    *)
(* (dispenso/detail/distributed_rw_lock_impl.h; dispenso::DistributedRWLock<N> only    *)
(* forwards to it with index = threadId()).  N sub-locks ("slots"), each an RWLockImpl  *)
(* (dispenso/detail/rw_lock_impl.h): one int on a futex, writer bit w[i] + reader      *)
(* count r[i].  Readers use one slot (index & (N-1)); writers visit all slots:          *)
(*   lock      setWriteBit on slots 0..N-1 (spinning on each), then waitForReaderDrain *)
(*             on slots 0..N-1 (futex wait until the word is exactly the writer bit)   *)
(*   try_lock  tryWriteBit on slots 0..N-1; on the first slot owned by another writer  *)
(*             unlock() the slots claimed so far (ascending) and return false;         *)
(*             otherwise drain all slots as lock does, return true                     *)
(*   unlock    unlock() slots 0..N-1 (ascending)                                       *)
(* One action per atomic access; action name = DISPENSO_VERIF_POINT site placed        *)
(* immediately before it (all sites are in rw_lock_impl.h).  Futex = the harness'       *)
(* modelled futex (FutexWait / FutexWake / FutexRet / FutexSpurious).                   *)
(*                                                                                      *)
(* Programs: sequences of [op |-> o, s |-> slot], o one of                              *)
(*   lock try_lock unlock lock_shared try_lock_shared unlock_shared                     *)
(* (s is meaningful for the shared operations).  Operations whose precondition does     *)
(* not hold in the thread's mode are skipped (driver and spec alike).  After every      *)
(* successful acquisition: critical section with occupancy counters (CsEnter/CsExit).   *)
EXTENDS Integers, Sequences, FiniteSets, TLC

CONSTANTS Threads,   \* set of thread names
          Prog,      \* [Threads -> Seq([op : STRING, s : Nat])]
          NSlots,    \* N
          Spurious,  \* may futex waits return spuriously
          CePoint    \* CompletionEventImpl::wait has its own point "CeWaitLd" before every load

VARIABLES
  prog, n, spur, cept,   \* configuration (variables so that a trace can re-initialise them)
  w, r,                  \* per slot: writer bit, reader count
  pc, ip, loc,           \* per thread: program counter, index of current op, locals
  mode,                  \* per thread: "N" none, "R" holds shared, "W" holds exclusive
  inW, inR               \* ghost: critical-section occupancy (driver CsEnter / CsExit)

cfgv == <<prog, n, spur, cept>>
vars == <<prog, n, spur, cept, w, r, pc, ip, loc, mode, inW, inR>>

T == DOMAIN prog
Slots == 0 .. (n - 1)

AcqOps == {"lock", "try_lock", "lock_shared", "try_lock_shared"}
TryOps == {"try_lock", "try_lock_shared"}
WriterOps == {"lock", "try_lock", "unlock"}

Applicable(o, m) ==
  CASE o \in AcqOps -> m = "N"
    [] o = "unlock" -> m = "W"
    [] o = "unlock_shared" -> m = "R"

FirstPcOf(o) ==
  CASE o = "lock" -> "SetWb"
    [] o = "try_lock" -> "TryWb"
    [] o = "unlock" -> "WrUnlock"
    [] o = "lock_shared" -> "ShAdd"
    [] o = "try_lock_shared" -> "TryShAdd"
    [] o = "unlock_shared" -> "RdRel"

MinOf(S) == CHOOSE x \in S : \A y \in S : x <= y
NextIp(t, i, m) ==
  LET S == {j \in i .. Len(prog[t]) : Applicable(prog[t][j].op, m)}
  IN IF S = {} THEN Len(prog[t]) + 1 ELSE MinOf(S)
PcAt(t, i) == IF i > Len(prog[t]) THEN "Done" ELSE FirstPcOf(prog[t][i].op)

Op(t) == prog[t][ip[t]].op
Sl(t) == prog[t][ip[t]].s      \* slot of the current (shared) operation

\* i: slot the writer-side loop is at; k: number of slots to roll back; cw/cr: value loaded by wait
EmptyLoc == [i |-> 0, k |-> 0, cw |-> FALSE, cr |-> 0, reason |-> 0]

InitWith(p, nn, su, ce) ==
  /\ prog = p /\ n = nn /\ spur = su /\ cept = ce
  /\ w = [i \in 0 .. (nn - 1) |-> FALSE]
  /\ r = [i \in 0 .. (nn - 1) |-> 0]
  /\ pc = [t \in DOMAIN p |-> "Start"]
  /\ ip = [t \in DOMAIN p |-> 1]
  /\ loc = [t \in DOMAIN p |-> EmptyLoc]
  /\ mode = [t \in DOMAIN p |-> "N"]
  /\ inW = 0 /\ inR = 0

Init == InitWith(Prog, NSlots, Spurious, CePoint)

BlockedOn(s) == {u \in T : pc[u] = "FutexBlocked" /\ loc[u].i = s}

\* ---------------------------------------------------------------- bookkeeping helpers
Goto(t, l) == pc' = [pc EXCEPT ![t] = l]

Finish(t, m2) ==
  LET j == NextIp(t, ip[t] + 1, m2) IN
  /\ ip' = [ip EXCEPT ![t] = j]
  /\ mode' = [mode EXCEPT ![t] = m2]
  /\ loc' = [loc EXCEPT ![t] = EmptyLoc]
  /\ Goto(t, IF m2 # "N" THEN "CsEnter" ELSE PcAt(t, j))

Start(t) ==
  /\ pc[t] = "Start"
  /\ LET j == NextIp(t, 1, "N") IN
       /\ ip' = [ip EXCEPT ![t] = j]
       /\ Goto(t, PcAt(t, j))
  /\ UNCHANGED <<cfgv, w, r, loc, mode, inW, inR>>

CsEnter(t) ==
  /\ pc[t] = "CsEnter"
  /\ (IF mode[t] = "W" THEN inW' = inW + 1 /\ UNCHANGED inR
                       ELSE inR' = inR + 1 /\ UNCHANGED inW)
  /\ Goto(t, "CsExit")
  /\ UNCHANGED <<cfgv, w, r, ip, loc, mode>>

CsExit(t) ==
  /\ pc[t] = "CsExit"
  /\ (IF mode[t] = "W" THEN inW' = inW - 1 /\ UNCHANGED inR
                       ELSE inR' = inR - 1 /\ UNCHANGED inW)
  /\ Goto(t, PcAt(t, ip[t]))
  /\ UNCHANGED <<cfgv, w, r, ip, loc, mode>>

\* --------------------------------------------------- lock, phase 1: setWriteBit per slot
SetWb(t) ==
  /\ pc[t] = "SetWb"
  /\ LET i == loc[t].i IN
       IF w[i]
         THEN UNCHANGED <<w, pc, loc>>                     \* spin on this slot
         ELSE /\ w' = [w EXCEPT ![i] = TRUE]
              /\ (IF i + 1 < n
                    THEN loc' = [loc EXCEPT ![t].i = i + 1] /\ UNCHANGED pc
                    ELSE loc' = [loc EXCEPT ![t].i = 0] /\ Goto(t, "DrainLd"))
  /\ UNCHANGED <<cfgv, r, ip, mode, inW, inR>>

\* ----------------------------------------------- try_lock, phase 1: tryWriteBit per slot
TryWb(t) ==
  /\ pc[t] = "TryWb"
  /\ LET i == loc[t].i IN
       IF w[i]
         THEN /\ UNCHANGED w
              /\ (IF i = 0
                    THEN Finish(t, "N")                                \* nothing to roll back
                    ELSE /\ loc' = [loc EXCEPT ![t].i = 0, ![t].k = i]
                         /\ Goto(t, "WrUnlock")
                         /\ UNCHANGED <<ip, mode>>)
         ELSE /\ w' = [w EXCEPT ![i] = TRUE]
              /\ (IF i + 1 < n
                    THEN loc' = [loc EXCEPT ![t].i = i + 1] /\ UNCHANGED pc
                    ELSE loc' = [loc EXCEPT ![t].i = 0] /\ Goto(t, "DrainLd"))
              /\ UNCHANGED <<ip, mode>>
  /\ UNCHANGED <<cfgv, r, inW, inR>>

\* --------------------------------- phase 2: waitForReaderDrain per slot = event_.wait(kWriteBit)
AfterLoad(t) ==
  LET i == loc[t].i IN
  IF w[i] /\ r[i] = 0
    THEN IF i + 1 < n
           THEN /\ loc' = [loc EXCEPT ![t] = [EmptyLoc EXCEPT !.i = i + 1]]
                /\ Goto(t, "DrainLd")
                /\ UNCHANGED <<ip, mode>>
           ELSE Finish(t, "W")
    ELSE /\ loc' = [loc EXCEPT ![t].cw = w[i], ![t].cr = r[i], ![t].reason = 0]
         /\ Goto(t, "FutexWait")
         /\ UNCHANGED <<ip, mode>>
ToLoad(t) ==
  IF cept
    THEN /\ Goto(t, "CeWaitLd")
         /\ loc' = [loc EXCEPT ![t].reason = 0]
         /\ UNCHANGED <<ip, mode>>
    ELSE AfterLoad(t)

DrainLd(t) ==
  /\ pc[t] = "DrainLd"
  /\ ToLoad(t)
  /\ UNCHANGED <<cfgv, w, r, inW, inR>>

CeWaitLd(t) ==
  /\ pc[t] = "CeWaitLd"
  /\ AfterLoad(t)
  /\ UNCHANGED <<cfgv, w, r, inW, inR>>

FutexWait(t) ==
  /\ pc[t] = "FutexWait"
  /\ (IF w[loc[t].i] = loc[t].cw /\ r[loc[t].i] = loc[t].cr
        THEN Goto(t, "FutexBlocked") /\ UNCHANGED <<ip, mode, loc>>
        ELSE ToLoad(t))
  /\ UNCHANGED <<cfgv, w, r, inW, inR>>

FutexRet(t) ==
  /\ pc[t] = "FutexRet"
  /\ ToLoad(t)
  /\ UNCHANGED <<cfgv, w, r, inW, inR>>

FutexSpurious(t) ==
  /\ spur
  /\ pc[t] = "FutexBlocked"
  /\ Goto(t, "FutexRet")
  /\ loc' = [loc EXCEPT ![t].reason = 3]
  /\ UNCHANGED <<cfgv, w, r, ip, mode, inW, inR>>

\* ----------------------------- unlock (all slots, ascending) / roll-back of a failed try_lock
WrUnlock(t) ==
  /\ pc[t] = "WrUnlock"
  /\ LET i == loc[t].i
         lim == IF Op(t) = "unlock" THEN n ELSE loc[t].k
     IN /\ w' = [w EXCEPT ![i] = FALSE]
        /\ (IF i + 1 < lim
              THEN /\ loc' = [loc EXCEPT ![t].i = i + 1]
                   /\ mode' = [mode EXCEPT ![t] = "N"]      \* released as soon as one slot is open
                   /\ UNCHANGED <<pc, ip>>
              ELSE Finish(t, "N"))
  /\ UNCHANGED <<cfgv, r, inW, inR>>

\* ---------------------------------------- shared side: RWLockImpl operations on one slot
ShAdd(t) ==
  /\ pc[t] = "ShAdd"
  /\ r' = [r EXCEPT ![Sl(t)] = @ + 1]
  /\ (IF w[Sl(t)]
        THEN Goto(t, "RdRel") /\ UNCHANGED <<ip, mode, loc>>
        ELSE Finish(t, "R"))
  /\ UNCHANGED <<cfgv, w, inW, inR>>

TryShAdd(t) ==
  /\ pc[t] = "TryShAdd"
  /\ r' = [r EXCEPT ![Sl(t)] = @ + 1]
  /\ (IF w[Sl(t)]
        THEN Goto(t, "RdRel") /\ UNCHANGED <<ip, mode, loc>>
        ELSE Finish(t, "R"))
  /\ UNCHANGED <<cfgv, w, inW, inR>>

AfterRel(t) ==
  IF Op(t) = "lock_shared"
    THEN Goto(t, "ShSpin") /\ UNCHANGED <<ip, mode, loc>>
    ELSE Finish(t, "N")

RdRel(t) ==
  /\ pc[t] = "RdRel"
  /\ r' = [r EXCEPT ![Sl(t)] = @ - 1]
  /\ (IF w[Sl(t)] /\ r[Sl(t)] = 1
        THEN /\ Goto(t, "FutexWake")
             /\ mode' = [mode EXCEPT ![t] = "N"]
             /\ UNCHANGED <<ip, loc>>
        ELSE AfterRel(t))
  /\ UNCHANGED <<cfgv, w, inW, inR>>

\* tryNotify on the slot's word: FUTEX_WAKE(INT_MAX) wakes every waiter on THAT word
FutexWake(t, W) ==
  /\ pc[t] = "FutexWake"
  /\ W = BlockedOn(Sl(t))
  /\ LET j == NextIp(t, ip[t] + 1, "N")
         spinning == Op(t) = "lock_shared"
     IN /\ pc' = [u \in T |-> IF u \in W THEN "FutexRet"
                              ELSE IF u = t THEN (IF spinning THEN "ShSpin" ELSE PcAt(t, j))
                              ELSE pc[u]]
        /\ loc' = [u \in T |-> IF u \in W THEN [loc[u] EXCEPT !.reason = 1] ELSE loc[u]]
        /\ ip' = [ip EXCEPT ![t] = IF spinning THEN @ ELSE j]
  /\ UNCHANGED <<cfgv, w, r, mode, inW, inR>>

ShSpin(t) ==
  /\ pc[t] = "ShSpin"
  /\ (IF w[Sl(t)] THEN UNCHANGED pc ELSE Goto(t, "ShAdd"))
  /\ UNCHANGED <<cfgv, w, r, ip, loc, mode, inW, inR>>

Next ==
  \E t \in Threads :
     \/ Start(t) \/ CsEnter(t) \/ CsExit(t)
     \/ SetWb(t) \/ TryWb(t) \/ DrainLd(t) \/ CeWaitLd(t)
     \/ FutexWait(t) \/ FutexRet(t) \/ FutexSpurious(t)
     \/ WrUnlock(t)
     \/ ShAdd(t) \/ TryShAdd(t) \/ RdRel(t) \/ ShSpin(t)
     \/ \E W \in SUBSET Threads : FutexWake(t, W)

Spec == Init /\ [][Next]_vars

ThreadStep(t) ==
  \/ Start(t) \/ CsEnter(t) \/ CsExit(t)
  \/ SetWb(t) \/ TryWb(t) \/ DrainLd(t) \/ CeWaitLd(t)
  \/ FutexWait(t) \/ FutexRet(t)
  \/ WrUnlock(t)
  \/ ShAdd(t) \/ TryShAdd(t) \/ RdRel(t) \/ ShSpin(t)
  \/ \E W \in SUBSET Threads : FutexWake(t, W)

FairSpec == Spec /\ \A t \in Threads : WF_vars(ThreadStep(t))

\* ============================================================================ properties
AllDone == \A t \in T : pc[t] = "Done"
Holders(m) == {t \in T : mode[t] = m}

\* (C23) exclusive access against all readers and writers on EVERY slot
ExclHold ==
  /\ Cardinality(Holders("W")) <= 1
  /\ (Holders("W") # {} => Holders("R") = {})
ExclCs == inW <= 1 /\ (inW >= 1 => inR = 0) /\ inW >= 0 /\ inR >= 0

\* exact accounting of every slot word
InDrain(t) == pc[t] \in {"DrainLd", "CeWaitLd", "FutexWait", "FutexBlocked", "FutexRet"}
OwnsBit(t, i) ==
  CASE pc[t] \in {"SetWb", "TryWb"} -> i < loc[t].i
    [] InDrain(t) -> TRUE
    [] pc[t] = "WrUnlock" -> (IF Op(t) = "unlock" THEN i >= loc[t].i
                                                ELSE i >= loc[t].i /\ i < loc[t].k)
    [] OTHER -> mode[t] = "W"
HasUnit(t, i) ==
  /\ (mode[t] = "R" \/ (pc[t] = "RdRel" /\ mode[t] = "N"))
  /\ ip[t] <= Len(prog[t])
  /\ Sl(t) = i
\* (C23) a failed try_lock leaves no trace: every word is exactly what the OTHER threads make it
WordExact ==
  \A i \in Slots :
    /\ r[i] = Cardinality({t \in T : HasUnit(t, i)})
    /\ w[i] = (\E t \in T : OwnsBit(t, i))
    /\ Cardinality({t \in T : OwnsBit(t, i)}) <= 1
QuiescentZero ==
  AllDone => (\A i \in Slots : ~w[i] /\ r[i] = 0) /\ (\A t \in T : mode[t] = "N")

\* (C23) progress: see RWLock.tla
CanMove(t) ==
  /\ pc[t] \notin {"Done", "FutexBlocked"}
  /\ ~(pc[t] = "SetWb" /\ w[loc[t].i])
  /\ ~(pc[t] = "ShSpin" /\ w[Sl(t)])
NoStuck == AllDone \/ \E t \in T : CanMove(t)
NoLostWake ==
  \A t \in T : pc[t] = "FutexBlocked" =>
     LET i == loc[t].i IN
     w[i] /\ (r[i] > 0 \/ \E u \in T : pc[u] = "FutexWake" /\ Sl(u) = i)

\* the programs are well formed: unlock_shared names the slot of the acquisition it releases
ProgOK ==
  \A t \in T : \A j \in 1 .. Len(prog[t]) :
     /\ prog[t][j].s \in Slots
     /\ (prog[t][j].op = "unlock_shared" =>
           j > 1 /\ prog[t][j - 1].op \in {"lock_shared", "try_lock_shared"}
                 /\ prog[t][j - 1].s = prog[t][j].s)

Moved(t) == pc'[t] # pc[t] \/ ip'[t] # ip[t] \/ loc'[t] # loc[t]
InWriterOp(t) == pc[t] \notin {"Start", "Done", "CsEnter", "CsExit"} /\ Op(t) \in WriterOps
\* (C23) try variants never acquire a conflicting lock; writers never touch a reader count; a
\* try_lock that fails leaves every word as the other threads have it
TryNeverConflicts ==
  [][\A t \in Threads :
       /\ (InWriterOp(t) /\ Op(t) = "try_lock" /\ Moved(t) /\ mode'[t] = "W")
             => (\A u \in T \ {t} : mode[u] \notin {"R", "W"})
       /\ (pc[t] = "TryShAdd" /\ Moved(t) /\ mode'[t] = "R")
             => (\A u \in T \ {t} : mode[u] # "W")
       /\ (InWriterOp(t) /\ Moved(t)) => r' = r
       /\ (InWriterOp(t) /\ Op(t) = "try_lock" /\ ip'[t] # ip[t] /\ mode'[t] = "N")
             => (\A i \in Slots : w'[i] = (\E u \in T \ {t} : OwnsBit(u, i)))]_vars

Termination == <>AllDone
BlockedProceeds == \A t \in Threads : [](pc[t] = "FutexBlocked" => <>(pc[t] # "FutexBlocked"))

TypeOK ==
  /\ \A i \in Slots : w[i] \in BOOLEAN /\ r[i] \in 0 .. Cardinality(T)
  /\ \A t \in T : /\ ip[t] \in 1 .. (Len(prog[t]) + 1)
                  /\ mode[t] \in {"N", "R", "W"}
                  /\ loc[t].i \in 0 .. n /\ loc[t].k \in 0 .. n
==========================================================================
