CONSTANTS
  Threads = {"t1", "t2", "t3", "t4"}
  Prog <- Prog_n1
  NSlots = 1
  Spurious = FALSE
  CePoint <- CePointEnv
SPECIFICATION FairSpec
CHECK_DEADLOCK FALSE
INVARIANTS TypeOK ProgOK ExclHold ExclCs WordExact QuiescentZero NoStuck NoLostWake
PROPERTIES TryNeverConflicts Termination BlockedProceeds
