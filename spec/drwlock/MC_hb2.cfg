CONSTANTS
  Threads = {"t1", "t2", "t3"}
  Prog <- Prog_h2a
  NSlots = 2
  Spurious = FALSE
  CePoint = TRUE
  MaxSpin = 2
INIT HInit2
NEXT HNext
CHECK_DEADLOCK FALSE
INVARIANTS RaceFree OrdersComplete HTypeOK TypeOK ProgOK ExclHold ExclCs WordExact
