CONSTANTS
  Threads = {"t1", "t2", "t3"}
  Prog <- Prog_q1
  NSlots = 2
  Spurious = TRUE
  CePoint <- CePointEnv
INIT InitQuick
NEXT Next
CHECK_DEADLOCK FALSE
INVARIANTS TypeOK ProgOK ExclHold ExclCs WordExact QuiescentZero NoStuck NoLostWake
PROPERTIES TryNeverConflicts
