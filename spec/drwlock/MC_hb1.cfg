CONSTANTS
  Threads = {"t1", "t2", "t3"}
  Prog <- Prog_h1a
  NSlots = 2
  Spurious = FALSE
  CePoint = TRUE
  MaxSpin = 1
INIT HInit1
NEXT HNext
CHECK_DEADLOCK FALSE
INVARIANTS RaceFree OrdersComplete HTypeOK TypeOK ProgOK ExclHold ExclCs WordExact
