CONSTANTS
  Threads = {"t1", "t2", "t3"}
  Prog <- Prog_n2b
  NSlots = 2
  Spurious = TRUE
  CePoint <- CePointEnv
SPECIFICATION FairSpec
CHECK_DEADLOCK FALSE
INVARIANTS TypeOK ProgOK ExclHold ExclCs WordExact QuiescentZero NoStuck NoLostWake
PROPERTIES TryNeverConflicts Termination BlockedProceeds
