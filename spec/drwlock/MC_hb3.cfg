CONSTANTS
  Threads = {"t1", "t2", "t3"}
  Prog <- Prog_h3
  NSlots = 2
  Spurious = FALSE
  CePoint = TRUE
  MaxSpin = 1
INIT HInit
NEXT HNext
CHECK_DEADLOCK FALSE
INVARIANTS RaceFree OrdersComplete HTypeOK TypeOK ProgOK ExclHold ExclCs WordExact
