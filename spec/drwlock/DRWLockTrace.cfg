CONSTANTS
  Threads = {}
  Prog = 0
  NSlots = 2
  Spurious = FALSE
  CePoint = FALSE
SPECIFICATION TraceSpec
CHECK_DEADLOCK FALSE
POSTCONDITION TraceAccepted
INVARIANTS ProgOK ExclHold ExclCs WordExact QuiescentZero NoStuck NoLostWake
