CONSTANTS
  Threads = {"t1", "t2", "t3", "t4"}
  Prog <- Prog_n2
  NSlots = 2
  Spurious = FALSE
  CePoint <- CePointEnv
INIT Init
NEXT Next
CHECK_DEADLOCK FALSE
INVARIANTS TypeOK ProgOK ExclHold ExclCs WordExact QuiescentZero NoStuck NoLostWake
PROPERTIES TryNeverConflicts
