------------------------------ MODULE MCDRWLock ------------------------------
EXTENDS DRWLock, IOUtils
\* CompletionEventImpl::wait has its own schedule point iff the hooks of the CompletionEvent
\* component are merged; the check asks the driver (--calibrate) and tells TLC through $CEPT
CePointEnv == ("CEPT" \in DOMAIN IOEnv) /\ (IOEnv.CEPT = "1")
\* an op is <<name, slot>>
P(s) == [i \in 1 .. Len(s) |-> [op |-> s[i][1], s |-> s[i][2]]]
L == <<"lock", 0>>       TL == <<"try_lock", 0>>      U == <<"unlock", 0>>
LS(s) == <<"lock_shared", s>>   TS(s) == <<"try_lock_shared", s>>   US(s) == <<"unlock_shared", s>>

\* ---- cover configurations (N = 2; replayed transition by transition in the real code)
\* blocking writer vs. try writer vs. a reader on the LAST slot (try_lock rolls back slot 0)
Prog_coverA == [t1 |-> P(<<L, U>>), t2 |-> P(<<TL, U>>), t3 |-> P(<<LS(1), US(1)>>)]
\* writers vs. readers on both slots, try reader
Prog_coverB == [t1 |-> P(<<L, U>>), t2 |-> P(<<LS(0), US(0)>>), t3 |-> P(<<TS(1), US(1)>>)]
\* try writer draining readers on both slots
Prog_coverC == [t1 |-> P(<<TL, U>>), t2 |-> P(<<LS(0), US(0)>>), t3 |-> P(<<LS(1), US(1)>>)]

\* ---- exhaustive configurations
Prog_n1 == [t1 |-> P(<<L, U, TS(0), US(0)>>), t2 |-> P(<<TL, U, LS(0), US(0)>>),
            t3 |-> P(<<LS(0), US(0), TL, U>>), t4 |-> P(<<TS(0), US(0), LS(0), US(0)>>)]
Prog_n2 == [t1 |-> P(<<L, U, LS(1), US(1)>>), t2 |-> P(<<TL, U, TL, U>>),
            t3 |-> P(<<LS(0), US(0), TS(1), US(1)>>), t4 |-> P(<<LS(1), US(1), TL, U>>)]
Prog_n2b == [t1 |-> P(<<L, U, TL, U, LS(0), US(0)>>), t2 |-> P(<<TL, U, L, U, TS(1), US(1)>>),
             t3 |-> P(<<LS(1), US(1), TS(0), US(0), L, U>>)]
Prog_n4 == [t1 |-> P(<<L, U, LS(3), US(3)>>), t2 |-> P(<<TL, U, LS(2), US(2)>>),
            t3 |-> P(<<LS(3), US(3), TL, U>>), t4 |-> P(<<TS(1), US(1), LS(0), US(0)>>)]

\* several (program, N) pairs in one run: both are part of the state, so the runs do not mix
Prog_q1 == [t1 |-> P(<<L, U, TS(0), US(0)>>), t2 |-> P(<<TL, U, LS(0), US(0)>>),
            t3 |-> P(<<LS(0), US(0), TL, U>>)]
Prog_q2 == [t1 |-> P(<<TL, U, LS(1), US(1)>>), t2 |-> P(<<LS(0), US(0), L, U>>),
            t3 |-> P(<<TS(1), US(1), LS(0), US(0), TL, U>>)]
\* the three cover programs in one run (one dumped graph per initial state)
InitCover == \E p \in {Prog_coverA, Prog_coverB, Prog_coverC} : InitWith(p, NSlots, Spurious, CePoint)
FairCover == InitCover /\ [][Next]_vars /\ \A t \in Threads : WF_vars(ThreadStep(t))
InitQuick == \E c \in {<<Prog_q1, 1>>, <<Prog_q2, 2>>, <<Prog_n2b, 2>>} :
                InitWith(c[1], c[2], Spurious, CePoint)
==========================================================================
