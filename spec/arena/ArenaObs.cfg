SPECIFICATION ObsSpec
CHECK_DEADLOCK FALSE
INVARIANTS RecordsOK
POSTCONDITION ObsAccepted
