------------------------------ MODULE MCArena ------------------------------
EXTENDS Arena
O(op, ar, src, x, y, z) == [op |-> op, ar |-> ar, src |-> src, x |-> x, y |-> y, z |-> z]
Grow(a, d) == O("grow", a, "", d, 0, 0)
Wr(a, g, off, v) == O("write", a, "", g, off, v)
Rd(a, g, off) == O("read", a, "", g, off, 0)
Wri(a, i, v) == O("writei", a, "", i, 0, v)
Rdi(a, i) == O("readi", a, "", i, 0, 0)
Size(a) == O("size", a, "", 0, 0, 0)
CapO(a) == O("cap", a, "", 0, 0, 0)
NumB(a) == O("numbuf", a, "", 0, 0, 0)
GetB(a, k) == O("getbuf", a, "", k, 0, 0)
BufSz(a, k) == O("bufsize", a, "", k, 0, 0)
New(a, mb, init) == O("new", a, "", mb, init, 0)
Copy(d, s) == O("copy", d, s, 0, 0, 0)
Move(d, s) == O("move", d, s, 0, 0, 0)
Assign(d, s) == O("assign", d, s, 0, 0, 0)
MAssign(d, s) == O("massign", d, s, 0, 0, 0)
Swap(a, b) == O("swap", a, b, 0, 0, 0)
Del(a) == O("del", a, "", 0, 0, 0)
Ph(a, b, m) == [g1 |-> a, g2 |-> b, m |-> m]
N == <<>>

\* cover (E2): buffer size 1; two growers reach 5 buffers (table capacity 8); copy of a 5-buffer
\* arena, copy assignment, move, swap, getters
Prog_cover ==
  << Ph(N, N, <<New("A", 1, 0)>>),
     Ph(<<Grow("A", 2), Wr("A", 1, 1, 11)>>, <<Grow("A", 2), Size("A")>>, N),
     Ph(N, N, <<Copy("B", "A"), Rdi("B", 1), BufSz("A", 4), New("C", 2, 1), Assign("C", "A"),
                Swap("A", "B"), Del("B"), Move("B", "C"), MAssign("A", "B"), Rdi("A", 3)>>) >>

\* fine-grained critical section (FineLock): a lock-free grower interleaves with the locked one
Prog_fine ==
  << Ph(N, N, <<New("A", 2, 0)>>),
     Ph(<<Grow("A", 2), Wr("A", 1, 0, 4), Grow("A", 3)>>, <<Grow("A", 3), CapO("A"), Grow("A", 1), Rd("A", 2, 0)>>, N),
     Ph(N, N, <<Copy("B", "A"), Rdi("B", 0)>>) >>

\* buffer size 2, initial size 1, growth through 1..3 buffers, all concurrent observers
Prog_b2 ==
  << Ph(N, N, <<New("A", 2, 1)>>),
     Ph(<<Grow("A", 1), Wr("A", 1, 0, 7), Grow("A", 2), Rd("A", 1, 0)>>,
        <<Grow("A", 3), NumB("A"), GetB("A", 0), Wr("A", 1, 2, 9), CapO("A")>>, N),
     Ph(N, N, <<Copy("B", "A"), Grow("B", 1), Rdi("B", 5), Rdi("A", 1), BufSz("B", 0), Assign("A", "A"),
                Rdi("A", 3), Del("A"), Rdi("B", 3)>>) >>

\* buffer size 4 (minBuffSize 3 rounds up), growth by 0 and across a buffer boundary
Prog_b4 ==
  << Ph(N, N, <<New("A", 3, 3)>>),
     Ph(<<Grow("A", 0), Grow("A", 1), Wr("A", 2, 0, 5), Size("A")>>,
        <<Grow("A", 5), Wr("A", 1, 4, 6), Grow("A", 0)>>, N),
     Ph(N, N, <<Copy("B", "A"), Move("C", "B"), Assign("B", "C"), Rdi("B", 8), Swap("B", "C"),
                MAssign("C", "A"), Rdi("C", 3), BufSz("C", 2)>>) >>

\* three ops each, buffer size 1: every grow allocates; reaches 6 buffers
Prog_b1 ==
  << Ph(N, N, <<New("A", 1, 1)>>),
     Ph(<<Grow("A", 1), Grow("A", 2), Rd("A", 2, 1)>>, <<Grow("A", 1), Wr("A", 1, 0, 3), Grow("A", 1)>>, N),
     Ph(N, N, <<Copy("B", "A"), Rdi("B", 2), Copy("C", "B"), Del("A"), Rdi("C", 5)>>) >>
=============================================================================
