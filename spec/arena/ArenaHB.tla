------------------------------ MODULE ArenaHB ------------------------------
(* C10 for dispenso::ConcurrentObjectArena: Arena.tla (FineLock = TRUE: the        *)
(* resizeMutex_ section is split into its atomic accesses) composed with the        *)
(* happens-before model spec/lib/MemOrder.tla (concurrent_object_arena.h has no     *)
(* std::atomic_thread_fence).  Memory orders come from OrdersArena.tla              *)
(* (bin/extract_orders.py, working tree) for every hooked access.                   *)
(*                                                                                  *)
(* Atomic locations (per arena object a)                                            *)
(*   <<"pos",a>> pos_   <<"alloc",a>> allocatedSize_   <<"bufs",a>> buffers_        *)
(*   ghost: <<"mtx",a>> resizeMutex_ (lock = acquire RMW, unlock = release store);  *)
(*          <<"ho",t>>  the user's hand-over channel of thread t: "t tells another  *)
(*          thread an index it obtained from grow_by" (release store at `pub`,      *)
(*          acquire load at `acq`) - the external synchronisation the header asks   *)
(*          the user for ("it is still the users responsibility to avoid racing on  *)
(*          the element itself").                                                   *)
(* Non-atomic locations                                                             *)
(*   <<"tab",i,k>> entry k of pointer table i (the plain T*[] that buffers_ points  *)
(*                 to): written by allocateBuffer() under the mutex - IN PLACE in   *)
(*                 the published table, or into the new table before it is          *)
(*                 published by buffers_.store - and by the memcpy of the doubling; *)
(*                 read by operator[], getBuffer(), constructObjects() after their  *)
(*                 load of buffers_, by the doubling memcpy, by the copy            *)
(*                 constructor; freed (= written) by the destructor, old tables     *)
(*                 (deleteLater_) included                                          *)
(*   <<"el",b,s>>  slot s of buffer b: constructed by constructObjects() of the     *)
(*                 thread whose CAS claimed the index, read / written through       *)
(*                 operator[] by its owner and by threads that obtained the index   *)
(*                 through the hand-over channel, memcpy'd by the copy constructor, *)
(*                 freed by the destructor                                          *)
(*   <<"npos",a>>  buffersPos_: read and incremented by allocateBuffer() under the  *)
(*                 mutex, read by numBuffers() WITHOUT the mutex (documented        *)
(*                 "Concurrency safe"), by getBufferSize / copy / destructor        *)
(*   <<"cap",a>>   buffersSize_ and deleteLater_ (only touched under the mutex and  *)
(*                 by the sequential operations)                                    *)
(* kLog2BuffSize / kBufferSize / kMask are written only by constructors and swap    *)
(* (not concurrency safe) and are not modelled.                                     *)
(*                                                                                  *)
(* Contract (header): grow_by "thread safe"; operator[], size(), capacity(),        *)
(* numBuffers(), getBuffer() "Concurrency safe"; copy / move assignment, swap,      *)
(* getBufferSize "not concurrency safe"; constructors and the destructor by one     *)
(* thread while nobody else uses the object.  A program is a sequence of phases     *)
(* (Arena.tla); the threads of a phase are joined before the next one starts        *)
(* (Barrier); sequential operations appear only in single-thread phases.  In a      *)
(* concurrent phase a thread uses operator[] only with indices it owns (its own     *)
(* grow_by), that existed when the phase started, or that it received through the   *)
(* hand-over channel; getBuffer(k) only for buffers that hold such an index.        *)
(* The ghost operation `szidx` (poll size() until it is >= x, then use index x-1)   *)
(* is OUTSIDE what the header promises (size() counts elements whose construction   *)
(* has not finished: the CAS on pos_ precedes constructObjects) and is checked by   *)
(* separate configurations only (the MC_hbx_size cfgs).                             *)
(*                                                                                  *)
(* Accesses without a DISPENSO_VERIF_POINT (bin/extract_orders.py cannot see them;  *)
(* no schedule point may sit inside the std::mutex section, and the GrowCas point   *)
(* precedes a `} while (std::atomic_compare_exchange_weak_explicit(...))` that the   *)
(* extractor skips): their orders are the defaults below, READ FROM THE SOURCE ON   *)
(* 2026-09-22.  If a later hook / extractor makes a site of that name appear in     *)
(* OrdersArena, the extracted order is used instead (OU):                           *)
(*   LkLdAlloc  allocatedSize_.load(relaxed)   under the mutex                      *)
(*   LkStAlloc  allocatedSize_.store(release)  under the mutex (NOTE LkStAlloc)     *)
(*   AbLdBuf    buffers_.load(acquire) in allocateBuffer(): occurrence 1 in-place   *)
(*              path, occurrence 2 doubling path                                    *)
(*   AbStBuf    buffers_.store(newBuffers, release) in allocateBuffer()             *)
(*   GrowCas    compare_exchange_weak(pos_, release, relaxed)                       *)
(* The accesses of constructors, destructor, swap are sequential (ordered by the    *)
(* phase barrier whatever their order) and are written with the orders of the code. *)
(*                                                                                  *)
(* Configurations: MC_hb1 / MC_hb2 / MC_hb3 (RaceFree, must pass), MC_hb_nb_rest    *)
(* (program with a concurrent numBuffers(): every location kind except buffersPos_, *)
(* must pass), MC_hbx_nb (same program, NumBuffersRaceFree: VIOLATED on the         *)
(* unchanged sources - numBuffers() reads the plain buffersPos_ that                *)
(* allocateBuffer() increments under the mutex), MC_hbx_size / MC_hbx_size_el       *)
(* (szidx, outside the contract: RaceFreeTab / RaceFreeEl violated; with an acquire *)
(* load in size() the table part passes, the element part cannot).                  *)
EXTENDS Arena, MemOrder, OrdersArena

CONSTANTS MaxTabs, MaxCap, MaxBufs, MaxBS    \* bounds of the location universe (heap ids are never reused)

ASSUME FineLock /\ ~WeakCas      \* a spurious CAS failure loop would tick the vector clocks for ever

VARIABLE hb
hvars == <<vars, hb>>

HT == Threads \cup {"main"}      \* "main" destroys what is left after the last phase

LPos(a) == <<"pos", a>>
LAlloc(a) == <<"alloc", a>>
LBufs(a) == <<"bufs", a>>
LMtx(a) == <<"mtx", a>>
LHo(t) == <<"ho", t>>
LTab(i, k) == <<"tab", i, k>>
LEl(b, s) == <<"el", b, s>>
LNpos(a) == <<"npos", a>>
\* since /repo fix (buffersPos_ made a std::atomic<Index>): the concurrent accesses of buffersPos_ are atomic
\* (allocateBuffer: relaxed load, release store AFTER the entry is written and the table published;
\* numBuffers(): acquire load); no hook sits on them, the orders are read from the source
LNposA(a) == <<"nposa", a>>
LCap(a) == <<"cap", a>>

ALocs == {<<k, a>> : k \in {"pos", "alloc", "bufs", "mtx", "nposa"}, a \in ArenaNames} \cup {LHo(t) : t \in Threads}
TabLocs == {LTab(i, k) : i \in 0 .. (MaxTabs - 1), k \in 0 .. (MaxCap - 1)}
ElLocs == {LEl(b, s) : b \in 0 .. (MaxBufs - 1), s \in 0 .. (MaxBS - 1)}
NposLocs == {LNpos(a) : a \in ArenaNames}
CapLocs == {LCap(a) : a \in ArenaNames}
NLocs == TabLocs \cup ElLocs \cup NposLocs \cup CapLocs

\* ------------------------------------------------------------------------ memory orders
OSo(site, occ) == Ord[site][occ][2]
OS(site) == OSo(site, 1)
\* unhooked accesses: extracted if a site of that name exists, otherwise the order read from the source
OUo(site, occ, dflt) == IF site \in DOMAIN Ord THEN Ord[site][occ][2] ELSE dflt
OU(site, dflt) == OUo(site, 1, dflt)
CasS == IF "GrowCas" \in DOMAIN Ord THEN Ord["GrowCas"][1][2] ELSE "release"
CasF == IF "GrowCas" \in DOMAIN Ord THEN Ord["GrowCas"][1][3] ELSE "relaxed"

HookedSites == {"GrowLdPos", "GrowLdAlloc", "CtorLdBuf", "IdxLdBuf", "SizeLd", "CapLd", "GetBufLd"}
NonAtomicSites == {"GrowLock", "CopyRdBuf"}    \* the lock_guard of resizeMutex_; the memcpy of the copy constructor (a NOTE)
OrdersComplete ==
  /\ HookedSites \subseteq DOMAIN Ord
  /\ \A s \in (DOMAIN Ord) \ NonAtomicSites : \A i \in 1 .. Len(Ord[s]) : Ord[s][i][1] # "none"
  /\ \A s \in HookedSites : \A i \in 1 .. Len(Ord[s]) : Ord[s][i][1] = "load"
  /\ \A s \in HookedSites \ {"GetBufLd"} : Len(Ord[s]) = 1
  /\ Len(Ord["GetBufLd"]) = 2        \* const overload first, non-const second
  /\ "AbLdBuf" \in DOMAIN Ord => Len(Ord["AbLdBuf"]) = 2

\* ------------------------------------------------------------------------ helpers
NW(h, t, x) == NAWrite(HT, h, t, x)
NR(h, t, x) == NARead(HT, h, t, x)
Ld(h, t, a, o) == ALoad(HT, h, t, a, o)
Sto(h, t, a, o) == AStore(HT, h, t, a, o)
Rmw(h, t, a, o) == ARmw(HT, h, t, a, o)
RECURSIVE NWSet(_, _, _)
NWSet(h, t, xs) == IF xs = {} THEN h ELSE LET x == CHOOSE x \in xs : TRUE IN NWSet(NW(h, t, x), t, xs \ {x})
RECURSIVE NRSet(_, _, _)
NRSet(h, t, xs) == IF xs = {} THEN h ELSE LET x == CHOOSE x \in xs : TRUE IN NRSet(NR(h, t, x), t, xs \ {x})

HeapP == [ars |-> ars', tabs |-> tabs', tl |-> tabLive', bufs |-> bufs', bl |-> bufLive']
TabEntryLocs(H, tid) == IF tid = Null THEN {} ELSE {LTab(tid, k) : k \in 0 .. (Len(H.tabs[tid + 1]) - 1)}
BufSlotLocs(H, b) == IF b = Uninit THEN {} ELSE {LEl(b, s) : s \in 0 .. (Len(H.bufs[b + 1].v) - 1)}
\* everything arena a owns in heap H: all its tables (the current one and deleteLater_) and its buffers
OwnedLocs(H, a) ==
  UNION {TabEntryLocs(H, tid) : tid \in TabsOf(H, a)} \cup UNION {BufSlotLocs(H, b) : b \in BufsOf(H, a)}
FldLocs(a) == {LNpos(a), LCap(a)}
\* what the copy constructor reads of its source: the fields, the used entries of the current table, whole buffers
CopiedLocs(H, a) ==
  {LTab(H.ars[a].tab, k) : k \in 0 .. (H.ars[a].npos - 1)} \cup UNION {BufSlotLocs(H, b) : b \in BufsOf(H, a)}
\* the member initialisers / swap stores of the atomics of a
StoAll(h, t, a) == Sto(Sto(Sto(h, t, LPos(a), "relaxed"), t, LAlloc(a), "relaxed"), t, LBufs(a), "release")
LdAll(h, t, a) == Ld(Ld(Ld(h, t, LPos(a), "relaxed"), t, LAlloc(a), "relaxed"), t, LBufs(a), "acquire")

\* allocateBuffer() of arena a whose record is r, next table id tid
HAllocBufR(h, t, a, r, tid) ==
  LET h0 == NR(Ld(h, t, LNposA(a), "relaxed"), t, LCap(a))     \* pos = buffersPos_.load(relaxed); if (pos < buffersSize_)
  IN IF r.npos < r.cap
       THEN \* buffers_.load(acquire)[buffersPos_++] = ptr: written IN PLACE in the published table
            Sto(NW(Ld(h0, t, LBufs(a), OUo("AbLdBuf", 1, "acquire")), t, LTab(r.tab, r.npos)), t, LNposA(a), "release")
       ELSE LET h1 == NW(Ld(h0, t, LBufs(a), OUo("AbLdBuf", 2, "acquire")), t, LCap(a))     \* buffersSize_ = ...
                old == IF r.tab = Null THEN {} ELSE 0 .. (r.cap - 1)
                h2 == NWSet(NRSet(h1, t, {LTab(r.tab, k) : k \in old}), t, {LTab(tid, k) : k \in old})  \* memcpy
                h3 == IF r.tab = Null THEN h2 ELSE NW(h2, t, LCap(a))                       \* deleteLater_.push_back
                h4 == NW(h3, t, LTab(tid, r.npos))                                          \* newBuffers[pos] = ptr
            IN Sto(Sto(h4, t, LBufs(a), OU("AbStBuf", "release")), t, LNposA(a), "release")   \* buffers_.store(newBuffers); buffersPos_.store(pos + 1, release)

\* ------------------------------------------------------------------------ the hooked accesses
HCas(t) ==
  IF pc'[t] = "CtorLdBuf" THEN Rmw(hb, t, LPos(Op(t).ar), CasS) ELSE Ld(hb, t, LPos(Op(t).ar), CasF)

HCtor(t) ==           \* buf = buffers_.load()[b]; new (buf + i) T() ...
  LET a == Op(t).ar
      r == ars[a]
      bs == BS(r)
      endIndex == loc[t].old + Delta(t)
      endBuffer == endIndex \div bs
      b == loc[t].b
      e == TabEntry(Heap, r.tab, b)
      bufEnd == IF b = endBuffer THEN endIndex % bs ELSE bs
      slots == {k \in 1 .. bs : loc[t].bstart < k /\ k <= bufEnd}
      h1 == NR(Ld(hb, t, LBufs(a), OS("CtorLdBuf")), t, LTab(r.tab, b))
  IN IF e = Uninit THEN h1 ELSE NWSet(h1, t, {LEl(e, k - 1) : k \in slots})

HIdx(t) ==            \* buffers_.load()[index >> log2][index & mask], then the user's access to the element
  LET a == Op(t).ar
      r == ars[a]
      i == IndexOf(t)
      l == Locate(Heap, a, i)
      h1 == NR(Ld(hb, t, LBufs(a), OS("IdxLdBuf")), t, LTab(r.tab, i \div BS(r)))
  IN IF l[1] = Uninit THEN h1
     ELSE IF Op(t).op \in {"write", "writei"} THEN NW(h1, t, LEl(l[1], l[2])) ELSE NR(h1, t, LEl(l[1], l[2]))

HGetBuf(t) ==         \* z = 1: the const overload (first in the file), otherwise the non-const one
  LET a == Op(t).ar IN
  NR(Ld(hb, t, LBufs(a), OSo("GetBufLd", IF Op(t).z = 1 THEN 1 ELSE 2)), t, LTab(ars[a].tab, Op(t).x))

\* ------------------------------------------------------------------------ sequential operations (one step)
HSeq(t) ==
  LET o == Op(t)
      H == Heap
      P == HeapP
  IN CASE o.op = "new" ->        \* member initialisers, allocateBuffer(), allocatedSize_.store(relaxed)
            LET r0 == [NoArena EXCEPT !.ex = TRUE]
                h1 == StoAll(NWSet(hb, t, FldLocs(o.ar)), t, o.ar)
            IN Sto(HAllocBufR(h1, t, o.ar, r0, Len(tabs)), t, LAlloc(o.ar), "relaxed")
       [] o.op = "copy" ->
            LET h1 == NRSet(LdAll(NRSet(hb, t, FldLocs(o.src)), t, o.src), t, CopiedLocs(H, o.src))
            IN StoAll(NWSet(h1, t, FldLocs(o.ar) \cup OwnedLocs(P, o.ar)), t, o.ar)
       [] o.op = "assign" ->     \* copy into a temporary, swap, destroy the temporary (= the old contents of ar)
            LET h1 == NRSet(LdAll(NRSet(hb, t, FldLocs(o.src)), t, o.src), t, CopiedLocs(H, o.src))
                h2 == NWSet(h1, t, FldLocs(o.ar) \cup OwnedLocs(P, o.ar))
                h3 == StoAll(h2, t, o.ar)
            IN NWSet(h3, t, OwnedLocs(H, o.ar))
       [] o.op \in {"move", "massign", "swap"} ->
            StoAll(StoAll(LdAll(LdAll(NWSet(hb, t, FldLocs(o.ar) \cup FldLocs(o.src)), t, o.ar), t, o.src), t, o.ar), t, o.src)
       [] o.op = "del" ->
            NWSet(Ld(NRSet(hb, t, FldLocs(o.ar)), t, LBufs(o.ar), "acquire"), t, OwnedLocs(H, o.ar))
       [] o.op = "bufsize" ->
            Ld(Ld(hb, t, LNposA(o.ar), "acquire"), t, LPos(o.ar), "relaxed")

\* ------------------------------------------------------------------------ ghost operations of the overlay
GhostOps == {"pub", "acq", "szidx"}
\* pub(x): the thread makes the result of its x-th grow_by known (release store on its channel)
Pub(t) ==
  /\ pc[t] = "SeqOp" /\ Op(t).op = "pub"
  /\ Finish(t, << <<"pub", Op(t).x, 0>> >>)
  /\ UNCHANGED <<prog, phase, mutex, heap, alive, loc, ghost>>
  /\ hb' = Sto(hb, t, LHo(t), "release")
\* acq(src, x): wait until thread src published its x-th grow_by, learn its first index (acquire load); the index is
\* recorded like a grow of this thread, so that read / write (g, off) address it
Acq(t) ==
  /\ pc[t] = "SeqOp" /\ Op(t).op = "acq"
  /\ <<"pub", Op(t).x, 0>> \in Range(hist[Op(t).src])
  /\ Finish(t, << <<"grow", GrowStarts(Op(t).src)[Op(t).x][2], 0>> >>)
  /\ UNCHANGED <<prog, phase, mutex, heap, alive, loc, ghost>>
  /\ hb' = Ld(hb, t, LHo(Op(t).src), "acquire")
\* szidx(x): poll size() until it returns >= x (every poll is the SizeLd load; only the last one is a step), then
\* use index x - 1 - NOT within the documented contract
SzIdx(t) ==
  /\ pc[t] = "SeqOp" /\ Op(t).op = "szidx"
  /\ ars[Op(t).ar].pos >= Op(t).x
  /\ Finish(t, << <<"size", ars[Op(t).ar].pos, 0>>, <<"grow", Op(t).x - 1, 0>> >>)
  /\ UNCHANGED <<prog, phase, mutex, heap, alive, loc, ghost>>
  /\ hb' = Ld(hb, t, LPos(Op(t).ar), OS("SizeLd"))

\* ------------------------------------------------------------------------ composition
HInit == Init /\ hb = HBInit(HT, ALocs, NLocs)

HStep(t) ==
  \/ Start(t) /\ hb' = hb
  \/ GrowLdPos(t) /\ hb' = Ld(hb, t, LPos(Op(t).ar), OS("GrowLdPos"))
  \/ GrowLdAlloc(t) /\ hb' = Ld(hb, t, LAlloc(Op(t).ar), OS("GrowLdAlloc"))
  \/ GrowLock(t) /\ hb' = Rmw(hb, t, LMtx(Op(t).ar), "acquire")                    \* std::mutex::lock
  \/ LkLdAlloc(t) /\ hb' = Ld(hb, t, LAlloc(Op(t).ar), OU("LkLdAlloc", "relaxed"))
  \/ LkAllocBuf(t) /\ hb' = HAllocBufR(hb, t, Op(t).ar, ars[Op(t).ar], Len(tabs))
  \/ LkStAlloc(t) /\ hb' = Sto(hb, t, LAlloc(Op(t).ar), OU("LkStAlloc", "release"))
  \/ LkUnlock(t) /\ hb' = Sto(hb, t, LMtx(Op(t).ar), "release")                    \* std::mutex::unlock
  \/ GrowCas(t) /\ hb' = HCas(t)
  \/ CtorLdBuf(t) /\ hb' = HCtor(t)
  \/ IdxLdBuf(t) /\ hb' = HIdx(t)
  \/ SizeLd(t) /\ hb' = Ld(hb, t, LPos(Op(t).ar), OS("SizeLd"))
  \/ CapLd(t) /\ hb' = Ld(hb, t, LAlloc(Op(t).ar), OS("CapLd"))
  \/ NumBuf(t) /\ hb' = Ld(hb, t, LNposA(Op(t).ar), "acquire")                     \* return buffersPos_.load(acquire);
  \/ GetBufLd(t) /\ hb' = HGetBuf(t)
  \/ pc[t] = "SeqOp" /\ Op(t).op \notin GhostOps /\ SeqOp(t) /\ hb' = HSeq(t)
  \/ Pub(t) \/ Acq(t) \/ SzIdx(t)

RECURSIVE JoinAll(_, _)
JoinAll(h, ts) == IF ts = {} THEN h ELSE LET u == CHOOSE u \in ts : TRUE IN JoinAll(HBJoin(HT, h, "main", u), ts \ {u})
\* the threads of a phase are joined, the threads of the next phase are created afterwards
Barrier(h) ==
  LET j == JoinAll(h, Threads).vc["main"]
  IN [h EXCEPT !.vc = [u \in HT |-> Join(HT, h.vc[u], j)]]

HNext ==
  \/ \E t \in Threads : HStep(t)
  \/ NextPhase /\ hb' = Barrier(hb)
  \/ Destroy /\ hb' = NWSet(JoinAll(hb, Threads), "main",
                            UNION {OwnedLocs(Heap, a) \cup FldLocs(a) : a \in Existing(Heap)})

\* ------------------------------------------------------------------------ properties
RaceFree == NoRace(hb)
\* the parts, so that a finding on one kind of location does not hide the others
RaceFreeTab == hb.race \cap TabLocs = {}
RaceFreeEl == hb.race \cap ElLocs = {}
RaceFreeCap == hb.race \cap CapLocs = {}
NumBuffersRaceFree == hb.race \cap NposLocs = {}
=============================================================================
