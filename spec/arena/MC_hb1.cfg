CONSTANTS
  Threads = {"g1", "g2", "m"}
  Prog <- Prog_hb1
  CopyToCapacity = FALSE
  WeakCas = FALSE
  FineLock = TRUE
  StoreFirst = FALSE
  MaxTabs = 3
  MaxCap = 2
  MaxBufs = 6
  MaxBS = 2
INIT HInit
NEXT HNext
CHECK_DEADLOCK FALSE
INVARIANTS OrdersComplete RaceFree TypeOK ElementsConstructed CopiesEqual NoUninitRead AllocCovered LifetimeBalance
