---- MODULE MCArena_TTrace_1790035044 ----
EXTENDS Sequences, TLCExt, Toolbox, Naturals, TLC, MCArena

_expression ==
    LET MCArena_TEExpression == INSTANCE MCArena_TEExpression
    IN MCArena_TEExpression!expression
----

_trace ==
    LET MCArena_TETrace == INSTANCE MCArena_TETrace
    IN MCArena_TETrace!trace
----

_inv ==
    ~(
        TLCGet("level") = Len(_TETrace)
        /\
        phase = (2)
        /\
        loc = ([g1 |-> [b |-> 0, old |-> 0, bstart |-> 0, cur |-> 4], g2 |-> [b |-> 0, old |-> 0, bstart |-> 0, cur |-> 0], m |-> [b |-> 0, old |-> 0, bstart |-> 0, cur |-> 0]])
        /\
        tabLive = ({0})
        /\
        ars = ([A |-> [ex |-> TRUE, mv |-> FALSE, lg |-> 1, pos |-> 0, alloc |-> 4, tab |-> 0, cap |-> 2, npos |-> 1, dl |-> <<>>, rg |-> <<>>, rf |-> <<>>], B |-> [ex |-> FALSE, mv |-> FALSE, lg |-> 0, pos |-> 0, alloc |-> 0, tab |-> -1, cap |-> 0, npos |-> 0, dl |-> <<>>, rg |-> <<>>, rf |-> <<>>], C |-> [ex |-> FALSE, mv |-> FALSE, lg |-> 0, pos |-> 0, alloc |-> 0, tab |-> -1, cap |-> 0, npos |-> 0, dl |-> <<>>, rg |-> <<>>, rf |-> <<>>], tmp |-> [ex |-> FALSE, mv |-> FALSE, lg |-> 0, pos |-> 0, alloc |-> 0, tab |-> -1, cap |-> 0, npos |-> 0, dl |-> <<>>, rg |-> <<>>, rf |-> <<>>]])
        /\
        alive = (TRUE)
        /\
        copyBad = (FALSE)
        /\
        ip = ([g1 |-> 1, g2 |-> 1, m |-> 1])
        /\
        tabs = (<<<<0, -1>>>>)
        /\
        uninitRead = (FALSE)
        /\
        mutex = ("g1")
        /\
        prog = (<<[g1 |-> <<>>, g2 |-> <<>>, m |-> <<[op |-> "new", ar |-> "A", src |-> "", x |-> 2, y |-> 0, z |-> 0]>>], [g1 |-> <<[op |-> "grow", ar |-> "A", src |-> "", x |-> 2, y |-> 0, z |-> 0], [op |-> "write", ar |-> "A", src |-> "", x |-> 1, y |-> 0, z |-> 4], [op |-> "grow", ar |-> "A", src |-> "", x |-> 3, y |-> 0, z |-> 0]>>, g2 |-> <<[op |-> "grow", ar |-> "A", src |-> "", x |-> 3, y |-> 0, z |-> 0], [op |-> "cap", ar |-> "A", src |-> "", x |-> 0, y |-> 0, z |-> 0], [op |-> "grow", ar |-> "A", src |-> "", x |-> 1, y |-> 0, z |-> 0], [op |-> "read", ar |-> "A", src |-> "", x |-> 2, y |-> 0, z |-> 0]>>, m |-> <<>>], [g1 |-> <<>>, g2 |-> <<>>, m |-> <<[op |-> "copy", ar |-> "B", src |-> "A", x |-> 0, y |-> 0, z |-> 0], [op |-> "readi", ar |-> "B", src |-> "", x |-> 0, y |-> 0, z |-> 0]>>]>>)
        /\
        bufs = (<<[v |-> <<-1, -1>>, c |-> <<0, 0>>]>>)
        /\
        hist = ([g1 |-> <<>>, g2 |-> <<>>, m |-> <<>>])
        /\
        pc = ([g1 |-> "LkAllocBuf", g2 |-> "Start", m |-> "Done"])
        /\
        bufLive = ({0})
        /\
        freeBad = (FALSE)
        /\
        ctorBad = (FALSE)
    )
----

_init ==
    /\ phase = _TETrace[1].phase
    /\ prog = _TETrace[1].prog
    /\ tabLive = _TETrace[1].tabLive
    /\ freeBad = _TETrace[1].freeBad
    /\ alive = _TETrace[1].alive
    /\ loc = _TETrace[1].loc
    /\ pc = _TETrace[1].pc
    /\ tabs = _TETrace[1].tabs
    /\ hist = _TETrace[1].hist
    /\ ctorBad = _TETrace[1].ctorBad
    /\ bufLive = _TETrace[1].bufLive
    /\ copyBad = _TETrace[1].copyBad
    /\ ip = _TETrace[1].ip
    /\ uninitRead = _TETrace[1].uninitRead
    /\ bufs = _TETrace[1].bufs
    /\ ars = _TETrace[1].ars
    /\ mutex = _TETrace[1].mutex
----

_next ==
    /\ \E i,j \in DOMAIN _TETrace:
        /\ \/ /\ j = i + 1
              /\ i = TLCGet("level")
        /\ phase  = _TETrace[i].phase
        /\ phase' = _TETrace[j].phase
        /\ prog  = _TETrace[i].prog
        /\ prog' = _TETrace[j].prog
        /\ tabLive  = _TETrace[i].tabLive
        /\ tabLive' = _TETrace[j].tabLive
        /\ freeBad  = _TETrace[i].freeBad
        /\ freeBad' = _TETrace[j].freeBad
        /\ alive  = _TETrace[i].alive
        /\ alive' = _TETrace[j].alive
        /\ loc  = _TETrace[i].loc
        /\ loc' = _TETrace[j].loc
        /\ pc  = _TETrace[i].pc
        /\ pc' = _TETrace[j].pc
        /\ tabs  = _TETrace[i].tabs
        /\ tabs' = _TETrace[j].tabs
        /\ hist  = _TETrace[i].hist
        /\ hist' = _TETrace[j].hist
        /\ ctorBad  = _TETrace[i].ctorBad
        /\ ctorBad' = _TETrace[j].ctorBad
        /\ bufLive  = _TETrace[i].bufLive
        /\ bufLive' = _TETrace[j].bufLive
        /\ copyBad  = _TETrace[i].copyBad
        /\ copyBad' = _TETrace[j].copyBad
        /\ ip  = _TETrace[i].ip
        /\ ip' = _TETrace[j].ip
        /\ uninitRead  = _TETrace[i].uninitRead
        /\ uninitRead' = _TETrace[j].uninitRead
        /\ bufs  = _TETrace[i].bufs
        /\ bufs' = _TETrace[j].bufs
        /\ ars  = _TETrace[i].ars
        /\ ars' = _TETrace[j].ars
        /\ mutex  = _TETrace[i].mutex
        /\ mutex' = _TETrace[j].mutex

\* Uncomment the ASSUME below to write the states of the error trace
\* to the given file in Json format. Note that you can pass any tuple
\* to `JsonSerialize`. For example, a sub-sequence of _TETrace.
    \* ASSUME
    \*     LET J == INSTANCE Json
    \*         IN J!JsonSerialize("MCArena_TTrace_1790035044.json", _TETrace)

=============================================================================

 Note that you can extract this module `MCArena_TEExpression`
  to a dedicated file to reuse `expression` (the module in the 
  dedicated `MCArena_TEExpression.tla` file takes precedence 
  over the module `MCArena_TEExpression` below).

---- MODULE MCArena_TEExpression ----
EXTENDS Sequences, TLCExt, Toolbox, Naturals, TLC, MCArena

expression == 
    [
        \* To hide variables of the `MCArena` spec from the error trace,
        \* remove the variables below.  The trace will be written in the order
        \* of the fields of this record.
        phase |-> phase
        ,prog |-> prog
        ,tabLive |-> tabLive
        ,freeBad |-> freeBad
        ,alive |-> alive
        ,loc |-> loc
        ,pc |-> pc
        ,tabs |-> tabs
        ,hist |-> hist
        ,ctorBad |-> ctorBad
        ,bufLive |-> bufLive
        ,copyBad |-> copyBad
        ,ip |-> ip
        ,uninitRead |-> uninitRead
        ,bufs |-> bufs
        ,ars |-> ars
        ,mutex |-> mutex
        
        \* Put additional constant-, state-, and action-level expressions here:
        \* ,_stateNumber |-> _TEPosition
        \* ,_phaseUnchanged |-> phase = phase'
        
        \* Format the `phase` variable as Json value.
        \* ,_phaseJson |->
        \*     LET J == INSTANCE Json
        \*     IN J!ToJson(phase)
        
        \* Lastly, you may build expressions over arbitrary sets of states by
        \* leveraging the _TETrace operator.  For example, this is how to
        \* count the number of times a spec variable changed up to the current
        \* state in the trace.
        \* ,_phaseModCount |->
        \*     LET F[s \in DOMAIN _TETrace] ==
        \*         IF s = 1 THEN 0
        \*         ELSE IF _TETrace[s].phase # _TETrace[s-1].phase
        \*             THEN 1 + F[s-1] ELSE F[s-1]
        \*     IN F[_TEPosition - 1]
    ]

=============================================================================



Parsing and semantic processing can take forever if the trace below is long.
 In this case, it is advised to uncomment the module below to deserialize the
 trace from a generated binary file.

\*
\*---- MODULE MCArena_TETrace ----
\*EXTENDS IOUtils, TLC, MCArena
\*
\*trace == IODeserialize("MCArena_TTrace_1790035044.bin", TRUE)
\*
\*=============================================================================
\*

---- MODULE MCArena_TETrace ----
EXTENDS TLC, MCArena

trace == 
    <<
    ([phase |-> 1,loc |-> [g1 |-> [b |-> 0, old |-> 0, bstart |-> 0, cur |-> 0], g2 |-> [b |-> 0, old |-> 0, bstart |-> 0, cur |-> 0], m |-> [b |-> 0, old |-> 0, bstart |-> 0, cur |-> 0]],tabLive |-> {},ars |-> [A |-> [ex |-> FALSE, mv |-> FALSE, lg |-> 0, pos |-> 0, alloc |-> 0, tab |-> -1, cap |-> 0, npos |-> 0, dl |-> <<>>, rg |-> <<>>, rf |-> <<>>], B |-> [ex |-> FALSE, mv |-> FALSE, lg |-> 0, pos |-> 0, alloc |-> 0, tab |-> -1, cap |-> 0, npos |-> 0, dl |-> <<>>, rg |-> <<>>, rf |-> <<>>], C |-> [ex |-> FALSE, mv |-> FALSE, lg |-> 0, pos |-> 0, alloc |-> 0, tab |-> -1, cap |-> 0, npos |-> 0, dl |-> <<>>, rg |-> <<>>, rf |-> <<>>], tmp |-> [ex |-> FALSE, mv |-> FALSE, lg |-> 0, pos |-> 0, alloc |-> 0, tab |-> -1, cap |-> 0, npos |-> 0, dl |-> <<>>, rg |-> <<>>, rf |-> <<>>]],alive |-> TRUE,copyBad |-> FALSE,ip |-> [g1 |-> 1, g2 |-> 1, m |-> 1],tabs |-> <<>>,uninitRead |-> FALSE,mutex |-> "",prog |-> <<[g1 |-> <<>>, g2 |-> <<>>, m |-> <<[op |-> "new", ar |-> "A", src |-> "", x |-> 2, y |-> 0, z |-> 0]>>], [g1 |-> <<[op |-> "grow", ar |-> "A", src |-> "", x |-> 2, y |-> 0, z |-> 0], [op |-> "write", ar |-> "A", src |-> "", x |-> 1, y |-> 0, z |-> 4], [op |-> "grow", ar |-> "A", src |-> "", x |-> 3, y |-> 0, z |-> 0]>>, g2 |-> <<[op |-> "grow", ar |-> "A", src |-> "", x |-> 3, y |-> 0, z |-> 0], [op |-> "cap", ar |-> "A", src |-> "", x |-> 0, y |-> 0, z |-> 0], [op |-> "grow", ar |-> "A", src |-> "", x |-> 1, y |-> 0, z |-> 0], [op |-> "read", ar |-> "A", src |-> "", x |-> 2, y |-> 0, z |-> 0]>>, m |-> <<>>], [g1 |-> <<>>, g2 |-> <<>>, m |-> <<[op |-> "copy", ar |-> "B", src |-> "A", x |-> 0, y |-> 0, z |-> 0], [op |-> "readi", ar |-> "B", src |-> "", x |-> 0, y |-> 0, z |-> 0]>>]>>,bufs |-> <<>>,hist |-> [g1 |-> <<>>, g2 |-> <<>>, m |-> <<>>],pc |-> [g1 |-> "Done", g2 |-> "Done", m |-> "Start"],bufLive |-> {},freeBad |-> FALSE,ctorBad |-> FALSE]),
    ([phase |-> 1,loc |-> [g1 |-> [b |-> 0, old |-> 0, bstart |-> 0, cur |-> 0], g2 |-> [b |-> 0, old |-> 0, bstart |-> 0, cur |-> 0], m |-> [b |-> 0, old |-> 0, bstart |-> 0, cur |-> 0]],tabLive |-> {},ars |-> [A |-> [ex |-> FALSE, mv |-> FALSE, lg |-> 0, pos |-> 0, alloc |-> 0, tab |-> -1, cap |-> 0, npos |-> 0, dl |-> <<>>, rg |-> <<>>, rf |-> <<>>], B |-> [ex |-> FALSE, mv |-> FALSE, lg |-> 0, pos |-> 0, alloc |-> 0, tab |-> -1, cap |-> 0, npos |-> 0, dl |-> <<>>, rg |-> <<>>, rf |-> <<>>], C |-> [ex |-> FALSE, mv |-> FALSE, lg |-> 0, pos |-> 0, alloc |-> 0, tab |-> -1, cap |-> 0, npos |-> 0, dl |-> <<>>, rg |-> <<>>, rf |-> <<>>], tmp |-> [ex |-> FALSE, mv |-> FALSE, lg |-> 0, pos |-> 0, alloc |-> 0, tab |-> -1, cap |-> 0, npos |-> 0, dl |-> <<>>, rg |-> <<>>, rf |-> <<>>]],alive |-> TRUE,copyBad |-> FALSE,ip |-> [g1 |-> 1, g2 |-> 1, m |-> 1],tabs |-> <<>>,uninitRead |-> FALSE,mutex |-> "",prog |-> <<[g1 |-> <<>>, g2 |-> <<>>, m |-> <<[op |-> "new", ar |-> "A", src |-> "", x |-> 2, y |-> 0, z |-> 0]>>], [g1 |-> <<[op |-> "grow", ar |-> "A", src |-> "", x |-> 2, y |-> 0, z |-> 0], [op |-> "write", ar |-> "A", src |-> "", x |-> 1, y |-> 0, z |-> 4], [op |-> "grow", ar |-> "A", src |-> "", x |-> 3, y |-> 0, z |-> 0]>>, g2 |-> <<[op |-> "grow", ar |-> "A", src |-> "", x |-> 3, y |-> 0, z |-> 0], [op |-> "cap", ar |-> "A", src |-> "", x |-> 0, y |-> 0, z |-> 0], [op |-> "grow", ar |-> "A", src |-> "", x |-> 1, y |-> 0, z |-> 0], [op |-> "read", ar |-> "A", src |-> "", x |-> 2, y |-> 0, z |-> 0]>>, m |-> <<>>], [g1 |-> <<>>, g2 |-> <<>>, m |-> <<[op |-> "copy", ar |-> "B", src |-> "A", x |-> 0, y |-> 0, z |-> 0], [op |-> "readi", ar |-> "B", src |-> "", x |-> 0, y |-> 0, z |-> 0]>>]>>,bufs |-> <<>>,hist |-> [g1 |-> <<>>, g2 |-> <<>>, m |-> <<>>],pc |-> [g1 |-> "Done", g2 |-> "Done", m |-> "SeqOp"],bufLive |-> {},freeBad |-> FALSE,ctorBad |-> FALSE]),
    ([phase |-> 1,loc |-> [g1 |-> [b |-> 0, old |-> 0, bstart |-> 0, cur |-> 0], g2 |-> [b |-> 0, old |-> 0, bstart |-> 0, cur |-> 0], m |-> [b |-> 0, old |-> 0, bstart |-> 0, cur |-> 0]],tabLive |-> {0},ars |-> [A |-> [ex |-> TRUE, mv |-> FALSE, lg |-> 1, pos |-> 0, alloc |-> 2, tab |-> 0, cap |-> 2, npos |-> 1, dl |-> <<>>, rg |-> <<>>, rf |-> <<>>], B |-> [ex |-> FALSE, mv |-> FALSE, lg |-> 0, pos |-> 0, alloc |-> 0, tab |-> -1, cap |-> 0, npos |-> 0, dl |-> <<>>, rg |-> <<>>, rf |-> <<>>], C |-> [ex |-> FALSE, mv |-> FALSE, lg |-> 0, pos |-> 0, alloc |-> 0, tab |-> -1, cap |-> 0, npos |-> 0, dl |-> <<>>, rg |-> <<>>, rf |-> <<>>], tmp |-> [ex |-> FALSE, mv |-> FALSE, lg |-> 0, pos |-> 0, alloc |-> 0, tab |-> -1, cap |-> 0, npos |-> 0, dl |-> <<>>, rg |-> <<>>, rf |-> <<>>]],alive |-> TRUE,copyBad |-> FALSE,ip |-> [g1 |-> 1, g2 |-> 1, m |-> 2],tabs |-> <<<<0, -1>>>>,uninitRead |-> FALSE,mutex |-> "",prog |-> <<[g1 |-> <<>>, g2 |-> <<>>, m |-> <<[op |-> "new", ar |-> "A", src |-> "", x |-> 2, y |-> 0, z |-> 0]>>], [g1 |-> <<[op |-> "grow", ar |-> "A", src |-> "", x |-> 2, y |-> 0, z |-> 0], [op |-> "write", ar |-> "A", src |-> "", x |-> 1, y |-> 0, z |-> 4], [op |-> "grow", ar |-> "A", src |-> "", x |-> 3, y |-> 0, z |-> 0]>>, g2 |-> <<[op |-> "grow", ar |-> "A", src |-> "", x |-> 3, y |-> 0, z |-> 0], [op |-> "cap", ar |-> "A", src |-> "", x |-> 0, y |-> 0, z |-> 0], [op |-> "grow", ar |-> "A", src |-> "", x |-> 1, y |-> 0, z |-> 0], [op |-> "read", ar |-> "A", src |-> "", x |-> 2, y |-> 0, z |-> 0]>>, m |-> <<>>], [g1 |-> <<>>, g2 |-> <<>>, m |-> <<[op |-> "copy", ar |-> "B", src |-> "A", x |-> 0, y |-> 0, z |-> 0], [op |-> "readi", ar |-> "B", src |-> "", x |-> 0, y |-> 0, z |-> 0]>>]>>,bufs |-> <<[v |-> <<-1, -1>>, c |-> <<0, 0>>]>>,hist |-> [g1 |-> <<>>, g2 |-> <<>>, m |-> <<>>],pc |-> [g1 |-> "Done", g2 |-> "Done", m |-> "Done"],bufLive |-> {0},freeBad |-> FALSE,ctorBad |-> FALSE]),
    ([phase |-> 2,loc |-> [g1 |-> [b |-> 0, old |-> 0, bstart |-> 0, cur |-> 0], g2 |-> [b |-> 0, old |-> 0, bstart |-> 0, cur |-> 0], m |-> [b |-> 0, old |-> 0, bstart |-> 0, cur |-> 0]],tabLive |-> {0},ars |-> [A |-> [ex |-> TRUE, mv |-> FALSE, lg |-> 1, pos |-> 0, alloc |-> 2, tab |-> 0, cap |-> 2, npos |-> 1, dl |-> <<>>, rg |-> <<>>, rf |-> <<>>], B |-> [ex |-> FALSE, mv |-> FALSE, lg |-> 0, pos |-> 0, alloc |-> 0, tab |-> -1, cap |-> 0, npos |-> 0, dl |-> <<>>, rg |-> <<>>, rf |-> <<>>], C |-> [ex |-> FALSE, mv |-> FALSE, lg |-> 0, pos |-> 0, alloc |-> 0, tab |-> -1, cap |-> 0, npos |-> 0, dl |-> <<>>, rg |-> <<>>, rf |-> <<>>], tmp |-> [ex |-> FALSE, mv |-> FALSE, lg |-> 0, pos |-> 0, alloc |-> 0, tab |-> -1, cap |-> 0, npos |-> 0, dl |-> <<>>, rg |-> <<>>, rf |-> <<>>]],alive |-> TRUE,copyBad |-> FALSE,ip |-> [g1 |-> 1, g2 |-> 1, m |-> 1],tabs |-> <<<<0, -1>>>>,uninitRead |-> FALSE,mutex |-> "",prog |-> <<[g1 |-> <<>>, g2 |-> <<>>, m |-> <<[op |-> "new", ar |-> "A", src |-> "", x |-> 2, y |-> 0, z |-> 0]>>], [g1 |-> <<[op |-> "grow", ar |-> "A", src |-> "", x |-> 2, y |-> 0, z |-> 0], [op |-> "write", ar |-> "A", src |-> "", x |-> 1, y |-> 0, z |-> 4], [op |-> "grow", ar |-> "A", src |-> "", x |-> 3, y |-> 0, z |-> 0]>>, g2 |-> <<[op |-> "grow", ar |-> "A", src |-> "", x |-> 3, y |-> 0, z |-> 0], [op |-> "cap", ar |-> "A", src |-> "", x |-> 0, y |-> 0, z |-> 0], [op |-> "grow", ar |-> "A", src |-> "", x |-> 1, y |-> 0, z |-> 0], [op |-> "read", ar |-> "A", src |-> "", x |-> 2, y |-> 0, z |-> 0]>>, m |-> <<>>], [g1 |-> <<>>, g2 |-> <<>>, m |-> <<[op |-> "copy", ar |-> "B", src |-> "A", x |-> 0, y |-> 0, z |-> 0], [op |-> "readi", ar |-> "B", src |-> "", x |-> 0, y |-> 0, z |-> 0]>>]>>,bufs |-> <<[v |-> <<-1, -1>>, c |-> <<0, 0>>]>>,hist |-> [g1 |-> <<>>, g2 |-> <<>>, m |-> <<>>],pc |-> [g1 |-> "Start", g2 |-> "Start", m |-> "Done"],bufLive |-> {0},freeBad |-> FALSE,ctorBad |-> FALSE]),
    ([phase |-> 2,loc |-> [g1 |-> [b |-> 0, old |-> 0, bstart |-> 0, cur |-> 0], g2 |-> [b |-> 0, old |-> 0, bstart |-> 0, cur |-> 0], m |-> [b |-> 0, old |-> 0, bstart |-> 0, cur |-> 0]],tabLive |-> {0},ars |-> [A |-> [ex |-> TRUE, mv |-> FALSE, lg |-> 1, pos |-> 0, alloc |-> 2, tab |-> 0, cap |-> 2, npos |-> 1, dl |-> <<>>, rg |-> <<>>, rf |-> <<>>], B |-> [ex |-> FALSE, mv |-> FALSE, lg |-> 0, pos |-> 0, alloc |-> 0, tab |-> -1, cap |-> 0, npos |-> 0, dl |-> <<>>, rg |-> <<>>, rf |-> <<>>], C |-> [ex |-> FALSE, mv |-> FALSE, lg |-> 0, pos |-> 0, alloc |-> 0, tab |-> -1, cap |-> 0, npos |-> 0, dl |-> <<>>, rg |-> <<>>, rf |-> <<>>], tmp |-> [ex |-> FALSE, mv |-> FALSE, lg |-> 0, pos |-> 0, alloc |-> 0, tab |-> -1, cap |-> 0, npos |-> 0, dl |-> <<>>, rg |-> <<>>, rf |-> <<>>]],alive |-> TRUE,copyBad |-> FALSE,ip |-> [g1 |-> 1, g2 |-> 1, m |-> 1],tabs |-> <<<<0, -1>>>>,uninitRead |-> FALSE,mutex |-> "",prog |-> <<[g1 |-> <<>>, g2 |-> <<>>, m |-> <<[op |-> "new", ar |-> "A", src |-> "", x |-> 2, y |-> 0, z |-> 0]>>], [g1 |-> <<[op |-> "grow", ar |-> "A", src |-> "", x |-> 2, y |-> 0, z |-> 0], [op |-> "write", ar |-> "A", src |-> "", x |-> 1, y |-> 0, z |-> 4], [op |-> "grow", ar |-> "A", src |-> "", x |-> 3, y |-> 0, z |-> 0]>>, g2 |-> <<[op |-> "grow", ar |-> "A", src |-> "", x |-> 3, y |-> 0, z |-> 0], [op |-> "cap", ar |-> "A", src |-> "", x |-> 0, y |-> 0, z |-> 0], [op |-> "grow", ar |-> "A", src |-> "", x |-> 1, y |-> 0, z |-> 0], [op |-> "read", ar |-> "A", src |-> "", x |-> 2, y |-> 0, z |-> 0]>>, m |-> <<>>], [g1 |-> <<>>, g2 |-> <<>>, m |-> <<[op |-> "copy", ar |-> "B", src |-> "A", x |-> 0, y |-> 0, z |-> 0], [op |-> "readi", ar |-> "B", src |-> "", x |-> 0, y |-> 0, z |-> 0]>>]>>,bufs |-> <<[v |-> <<-1, -1>>, c |-> <<0, 0>>]>>,hist |-> [g1 |-> <<>>, g2 |-> <<>>, m |-> <<>>],pc |-> [g1 |-> "GrowLdPos", g2 |-> "Start", m |-> "Done"],bufLive |-> {0},freeBad |-> FALSE,ctorBad |-> FALSE]),
    ([phase |-> 2,loc |-> [g1 |-> [b |-> 0, old |-> 0, bstart |-> 0, cur |-> 0], g2 |-> [b |-> 0, old |-> 0, bstart |-> 0, cur |-> 0], m |-> [b |-> 0, old |-> 0, bstart |-> 0, cur |-> 0]],tabLive |-> {0},ars |-> [A |-> [ex |-> TRUE, mv |-> FALSE, lg |-> 1, pos |-> 0, alloc |-> 2, tab |-> 0, cap |-> 2, npos |-> 1, dl |-> <<>>, rg |-> <<>>, rf |-> <<>>], B |-> [ex |-> FALSE, mv |-> FALSE, lg |-> 0, pos |-> 0, alloc |-> 0, tab |-> -1, cap |-> 0, npos |-> 0, dl |-> <<>>, rg |-> <<>>, rf |-> <<>>], C |-> [ex |-> FALSE, mv |-> FALSE, lg |-> 0, pos |-> 0, alloc |-> 0, tab |-> -1, cap |-> 0, npos |-> 0, dl |-> <<>>, rg |-> <<>>, rf |-> <<>>], tmp |-> [ex |-> FALSE, mv |-> FALSE, lg |-> 0, pos |-> 0, alloc |-> 0, tab |-> -1, cap |-> 0, npos |-> 0, dl |-> <<>>, rg |-> <<>>, rf |-> <<>>]],alive |-> TRUE,copyBad |-> FALSE,ip |-> [g1 |-> 1, g2 |-> 1, m |-> 1],tabs |-> <<<<0, -1>>>>,uninitRead |-> FALSE,mutex |-> "",prog |-> <<[g1 |-> <<>>, g2 |-> <<>>, m |-> <<[op |-> "new", ar |-> "A", src |-> "", x |-> 2, y |-> 0, z |-> 0]>>], [g1 |-> <<[op |-> "grow", ar |-> "A", src |-> "", x |-> 2, y |-> 0, z |-> 0], [op |-> "write", ar |-> "A", src |-> "", x |-> 1, y |-> 0, z |-> 4], [op |-> "grow", ar |-> "A", src |-> "", x |-> 3, y |-> 0, z |-> 0]>>, g2 |-> <<[op |-> "grow", ar |-> "A", src |-> "", x |-> 3, y |-> 0, z |-> 0], [op |-> "cap", ar |-> "A", src |-> "", x |-> 0, y |-> 0, z |-> 0], [op |-> "grow", ar |-> "A", src |-> "", x |-> 1, y |-> 0, z |-> 0], [op |-> "read", ar |-> "A", src |-> "", x |-> 2, y |-> 0, z |-> 0]>>, m |-> <<>>], [g1 |-> <<>>, g2 |-> <<>>, m |-> <<[op |-> "copy", ar |-> "B", src |-> "A", x |-> 0, y |-> 0, z |-> 0], [op |-> "readi", ar |-> "B", src |-> "", x |-> 0, y |-> 0, z |-> 0]>>]>>,bufs |-> <<[v |-> <<-1, -1>>, c |-> <<0, 0>>]>>,hist |-> [g1 |-> <<>>, g2 |-> <<>>, m |-> <<>>],pc |-> [g1 |-> "GrowLdAlloc", g2 |-> "Start", m |-> "Done"],bufLive |-> {0},freeBad |-> FALSE,ctorBad |-> FALSE]),
    ([phase |-> 2,loc |-> [g1 |-> [b |-> 0, old |-> 0, bstart |-> 0, cur |-> 0], g2 |-> [b |-> 0, old |-> 0, bstart |-> 0, cur |-> 0], m |-> [b |-> 0, old |-> 0, bstart |-> 0, cur |-> 0]],tabLive |-> {0},ars |-> [A |-> [ex |-> TRUE, mv |-> FALSE, lg |-> 1, pos |-> 0, alloc |-> 2, tab |-> 0, cap |-> 2, npos |-> 1, dl |-> <<>>, rg |-> <<>>, rf |-> <<>>], B |-> [ex |-> FALSE, mv |-> FALSE, lg |-> 0, pos |-> 0, alloc |-> 0, tab |-> -1, cap |-> 0, npos |-> 0, dl |-> <<>>, rg |-> <<>>, rf |-> <<>>], C |-> [ex |-> FALSE, mv |-> FALSE, lg |-> 0, pos |-> 0, alloc |-> 0, tab |-> -1, cap |-> 0, npos |-> 0, dl |-> <<>>, rg |-> <<>>, rf |-> <<>>], tmp |-> [ex |-> FALSE, mv |-> FALSE, lg |-> 0, pos |-> 0, alloc |-> 0, tab |-> -1, cap |-> 0, npos |-> 0, dl |-> <<>>, rg |-> <<>>, rf |-> <<>>]],alive |-> TRUE,copyBad |-> FALSE,ip |-> [g1 |-> 1, g2 |-> 1, m |-> 1],tabs |-> <<<<0, -1>>>>,uninitRead |-> FALSE,mutex |-> "",prog |-> <<[g1 |-> <<>>, g2 |-> <<>>, m |-> <<[op |-> "new", ar |-> "A", src |-> "", x |-> 2, y |-> 0, z |-> 0]>>], [g1 |-> <<[op |-> "grow", ar |-> "A", src |-> "", x |-> 2, y |-> 0, z |-> 0], [op |-> "write", ar |-> "A", src |-> "", x |-> 1, y |-> 0, z |-> 4], [op |-> "grow", ar |-> "A", src |-> "", x |-> 3, y |-> 0, z |-> 0]>>, g2 |-> <<[op |-> "grow", ar |-> "A", src |-> "", x |-> 3, y |-> 0, z |-> 0], [op |-> "cap", ar |-> "A", src |-> "", x |-> 0, y |-> 0, z |-> 0], [op |-> "grow", ar |-> "A", src |-> "", x |-> 1, y |-> 0, z |-> 0], [op |-> "read", ar |-> "A", src |-> "", x |-> 2, y |-> 0, z |-> 0]>>, m |-> <<>>], [g1 |-> <<>>, g2 |-> <<>>, m |-> <<[op |-> "copy", ar |-> "B", src |-> "A", x |-> 0, y |-> 0, z |-> 0], [op |-> "readi", ar |-> "B", src |-> "", x |-> 0, y |-> 0, z |-> 0]>>]>>,bufs |-> <<[v |-> <<-1, -1>>, c |-> <<0, 0>>]>>,hist |-> [g1 |-> <<>>, g2 |-> <<>>, m |-> <<>>],pc |-> [g1 |-> "GrowLock", g2 |-> "Start", m |-> "Done"],bufLive |-> {0},freeBad |-> FALSE,ctorBad |-> FALSE]),
    ([phase |-> 2,loc |-> [g1 |-> [b |-> 0, old |-> 0, bstart |-> 0, cur |-> 0], g2 |-> [b |-> 0, old |-> 0, bstart |-> 0, cur |-> 0], m |-> [b |-> 0, old |-> 0, bstart |-> 0, cur |-> 0]],tabLive |-> {0},ars |-> [A |-> [ex |-> TRUE, mv |-> FALSE, lg |-> 1, pos |-> 0, alloc |-> 2, tab |-> 0, cap |-> 2, npos |-> 1, dl |-> <<>>, rg |-> <<>>, rf |-> <<>>], B |-> [ex |-> FALSE, mv |-> FALSE, lg |-> 0, pos |-> 0, alloc |-> 0, tab |-> -1, cap |-> 0, npos |-> 0, dl |-> <<>>, rg |-> <<>>, rf |-> <<>>], C |-> [ex |-> FALSE, mv |-> FALSE, lg |-> 0, pos |-> 0, alloc |-> 0, tab |-> -1, cap |-> 0, npos |-> 0, dl |-> <<>>, rg |-> <<>>, rf |-> <<>>], tmp |-> [ex |-> FALSE, mv |-> FALSE, lg |-> 0, pos |-> 0, alloc |-> 0, tab |-> -1, cap |-> 0, npos |-> 0, dl |-> <<>>, rg |-> <<>>, rf |-> <<>>]],alive |-> TRUE,copyBad |-> FALSE,ip |-> [g1 |-> 1, g2 |-> 1, m |-> 1],tabs |-> <<<<0, -1>>>>,uninitRead |-> FALSE,mutex |-> "g1",prog |-> <<[g1 |-> <<>>, g2 |-> <<>>, m |-> <<[op |-> "new", ar |-> "A", src |-> "", x |-> 2, y |-> 0, z |-> 0]>>], [g1 |-> <<[op |-> "grow", ar |-> "A", src |-> "", x |-> 2, y |-> 0, z |-> 0], [op |-> "write", ar |-> "A", src |-> "", x |-> 1, y |-> 0, z |-> 4], [op |-> "grow", ar |-> "A", src |-> "", x |-> 3, y |-> 0, z |-> 0]>>, g2 |-> <<[op |-> "grow", ar |-> "A", src |-> "", x |-> 3, y |-> 0, z |-> 0], [op |-> "cap", ar |-> "A", src |-> "", x |-> 0, y |-> 0, z |-> 0], [op |-> "grow", ar |-> "A", src |-> "", x |-> 1, y |-> 0, z |-> 0], [op |-> "read", ar |-> "A", src |-> "", x |-> 2, y |-> 0, z |-> 0]>>, m |-> <<>>], [g1 |-> <<>>, g2 |-> <<>>, m |-> <<[op |-> "copy", ar |-> "B", src |-> "A", x |-> 0, y |-> 0, z |-> 0], [op |-> "readi", ar |-> "B", src |-> "", x |-> 0, y |-> 0, z |-> 0]>>]>>,bufs |-> <<[v |-> <<-1, -1>>, c |-> <<0, 0>>]>>,hist |-> [g1 |-> <<>>, g2 |-> <<>>, m |-> <<>>],pc |-> [g1 |-> "LkLdAlloc", g2 |-> "Start", m |-> "Done"],bufLive |-> {0},freeBad |-> FALSE,ctorBad |-> FALSE]),
    ([phase |-> 2,loc |-> [g1 |-> [b |-> 0, old |-> 0, bstart |-> 0, cur |-> 2], g2 |-> [b |-> 0, old |-> 0, bstart |-> 0, cur |-> 0], m |-> [b |-> 0, old |-> 0, bstart |-> 0, cur |-> 0]],tabLive |-> {0},ars |-> [A |-> [ex |-> TRUE, mv |-> FALSE, lg |-> 1, pos |-> 0, alloc |-> 2, tab |-> 0, cap |-> 2, npos |-> 1, dl |-> <<>>, rg |-> <<>>, rf |-> <<>>], B |-> [ex |-> FALSE, mv |-> FALSE, lg |-> 0, pos |-> 0, alloc |-> 0, tab |-> -1, cap |-> 0, npos |-> 0, dl |-> <<>>, rg |-> <<>>, rf |-> <<>>], C |-> [ex |-> FALSE, mv |-> FALSE, lg |-> 0, pos |-> 0, alloc |-> 0, tab |-> -1, cap |-> 0, npos |-> 0, dl |-> <<>>, rg |-> <<>>, rf |-> <<>>], tmp |-> [ex |-> FALSE, mv |-> FALSE, lg |-> 0, pos |-> 0, alloc |-> 0, tab |-> -1, cap |-> 0, npos |-> 0, dl |-> <<>>, rg |-> <<>>, rf |-> <<>>]],alive |-> TRUE,copyBad |-> FALSE,ip |-> [g1 |-> 1, g2 |-> 1, m |-> 1],tabs |-> <<<<0, -1>>>>,uninitRead |-> FALSE,mutex |-> "g1",prog |-> <<[g1 |-> <<>>, g2 |-> <<>>, m |-> <<[op |-> "new", ar |-> "A", src |-> "", x |-> 2, y |-> 0, z |-> 0]>>], [g1 |-> <<[op |-> "grow", ar |-> "A", src |-> "", x |-> 2, y |-> 0, z |-> 0], [op |-> "write", ar |-> "A", src |-> "", x |-> 1, y |-> 0, z |-> 4], [op |-> "grow", ar |-> "A", src |-> "", x |-> 3, y |-> 0, z |-> 0]>>, g2 |-> <<[op |-> "grow", ar |-> "A", src |-> "", x |-> 3, y |-> 0, z |-> 0], [op |-> "cap", ar |-> "A", src |-> "", x |-> 0, y |-> 0, z |-> 0], [op |-> "grow", ar |-> "A", src |-> "", x |-> 1, y |-> 0, z |-> 0], [op |-> "read", ar |-> "A", src |-> "", x |-> 2, y |-> 0, z |-> 0]>>, m |-> <<>>], [g1 |-> <<>>, g2 |-> <<>>, m |-> <<[op |-> "copy", ar |-> "B", src |-> "A", x |-> 0, y |-> 0, z |-> 0], [op |-> "readi", ar |-> "B", src |-> "", x |-> 0, y |-> 0, z |-> 0]>>]>>,bufs |-> <<[v |-> <<-1, -1>>, c |-> <<0, 0>>]>>,hist |-> [g1 |-> <<>>, g2 |-> <<>>, m |-> <<>>],pc |-> [g1 |-> "LkStAlloc", g2 |-> "Start", m |-> "Done"],bufLive |-> {0},freeBad |-> FALSE,ctorBad |-> FALSE]),
    ([phase |-> 2,loc |-> [g1 |-> [b |-> 0, old |-> 0, bstart |-> 0, cur |-> 4], g2 |-> [b |-> 0, old |-> 0, bstart |-> 0, cur |-> 0], m |-> [b |-> 0, old |-> 0, bstart |-> 0, cur |-> 0]],tabLive |-> {0},ars |-> [A |-> [ex |-> TRUE, mv |-> FALSE, lg |-> 1, pos |-> 0, alloc |-> 4, tab |-> 0, cap |-> 2, npos |-> 1, dl |-> <<>>, rg |-> <<>>, rf |-> <<>>], B |-> [ex |-> FALSE, mv |-> FALSE, lg |-> 0, pos |-> 0, alloc |-> 0, tab |-> -1, cap |-> 0, npos |-> 0, dl |-> <<>>, rg |-> <<>>, rf |-> <<>>], C |-> [ex |-> FALSE, mv |-> FALSE, lg |-> 0, pos |-> 0, alloc |-> 0, tab |-> -1, cap |-> 0, npos |-> 0, dl |-> <<>>, rg |-> <<>>, rf |-> <<>>], tmp |-> [ex |-> FALSE, mv |-> FALSE, lg |-> 0, pos |-> 0, alloc |-> 0, tab |-> -1, cap |-> 0, npos |-> 0, dl |-> <<>>, rg |-> <<>>, rf |-> <<>>]],alive |-> TRUE,copyBad |-> FALSE,ip |-> [g1 |-> 1, g2 |-> 1, m |-> 1],tabs |-> <<<<0, -1>>>>,uninitRead |-> FALSE,mutex |-> "g1",prog |-> <<[g1 |-> <<>>, g2 |-> <<>>, m |-> <<[op |-> "new", ar |-> "A", src |-> "", x |-> 2, y |-> 0, z |-> 0]>>], [g1 |-> <<[op |-> "grow", ar |-> "A", src |-> "", x |-> 2, y |-> 0, z |-> 0], [op |-> "write", ar |-> "A", src |-> "", x |-> 1, y |-> 0, z |-> 4], [op |-> "grow", ar |-> "A", src |-> "", x |-> 3, y |-> 0, z |-> 0]>>, g2 |-> <<[op |-> "grow", ar |-> "A", src |-> "", x |-> 3, y |-> 0, z |-> 0], [op |-> "cap", ar |-> "A", src |-> "", x |-> 0, y |-> 0, z |-> 0], [op |-> "grow", ar |-> "A", src |-> "", x |-> 1, y |-> 0, z |-> 0], [op |-> "read", ar |-> "A", src |-> "", x |-> 2, y |-> 0, z |-> 0]>>, m |-> <<>>], [g1 |-> <<>>, g2 |-> <<>>, m |-> <<[op |-> "copy", ar |-> "B", src |-> "A", x |-> 0, y |-> 0, z |-> 0], [op |-> "readi", ar |-> "B", src |-> "", x |-> 0, y |-> 0, z |-> 0]>>]>>,bufs |-> <<[v |-> <<-1, -1>>, c |-> <<0, 0>>]>>,hist |-> [g1 |-> <<>>, g2 |-> <<>>, m |-> <<>>],pc |-> [g1 |-> "LkAllocBuf", g2 |-> "Start", m |-> "Done"],bufLive |-> {0},freeBad |-> FALSE,ctorBad |-> FALSE])
    >>
----


=============================================================================

---- CONFIG MCArena_TTrace_1790035044 ----
CONSTANTS
    Threads = { "g1" , "g2" , "m" }
    Prog <- Prog_fine
    CopyToCapacity = FALSE
    WeakCas = FALSE
    FineLock = TRUE
    StoreFirst = TRUE

INVARIANT
    _inv

CHECK_DEADLOCK
    \* CHECK_DEADLOCK off because of PROPERTY or INVARIANT above.
    FALSE

INIT
    _init

NEXT
    _next

CONSTANT
    _TETrace <- _trace

ALIAS
    _expression
=============================================================================
\* Generated on Mon Sep 21 23:57:34 UTC 2026