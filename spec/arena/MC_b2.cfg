CONSTANTS
  Threads = {"g1", "g2", "m"}
  Prog <- Prog_b2
  CopyToCapacity = FALSE
  WeakCas = TRUE
  FineLock = FALSE
  StoreFirst = FALSE
INIT Init
NEXT Next
CHECK_DEADLOCK FALSE
INVARIANTS TypeOK RangesExact ConstructedOnce ElementsConstructed StableRefs CopiesEqual NoUninitRead Bookkeeping AllocCovered NoLeakNoSharing LifetimeBalance BufSizesExact
