------------------------------- MODULE Arena -------------------------------
(* Implementation-level specification of dispenso::ConcurrentObjectArena          *)
(* (dispenso/concurrent_object_arena.h).  One action per atomic access of the     *)
(* code that can run concurrently; the action name is the DISPENSO_VERIF_POINT    *)
(* site placed immediately before that access.  The std::mutex critical section   *)
(* of grow_by (re-read of allocatedSize_, allocateBuffer loop with the capacity   *)
(* doubling of the buffer-pointer table) is ONE action (GrowLock, the point is    *)
(* immediately before the lock_guard).  Operations the documentation declares     *)
(* "not concurrency safe" (copy/move construction and assignment, swap,           *)
(* getBufferSize, destruction) and the constructor are one step that starts at a  *)
(* point placed by the driver immediately before the call (SeqOp); numBuffers()   *)
(* has no atomic access and is the driver-placed point NumBuf.                    *)
(*                                                                                *)
(* Memory is abstract and allocation-ordered: the k-th buffer obtained from       *)
(* alignedMalloc is buffer k, the k-th pointer table obtained from new T*[] is    *)
(* table k (k = 0, 1, ...).  A fresh buffer holds Garbage in every slot, a fresh   *)
(* table holds Uninit in every entry; dereferencing an Uninit entry yields a       *)
(* buffer full of Poison (and sets the ghost uninitRead).                          *)
(*                                                                                *)
(* A program is a sequence of phases; all threads of a phase are joined before    *)
(* the next phase starts.  prog[ph][t] = operation list of thread t in phase ph.  *)
(* Operations [op, ar, src, x, y, z]:                                             *)
(*   grow    ar.grow_by(x)                        -> ("grow", first index)        *)
(*   write   ar[ start of my x-th grow + y ] = z   (own elements only)            *)
(*   read    ar[ start of my x-th grow + y ]       -> value, location, value via  *)
(*                                                    the reference taken first   *)
(*   writei / readi  same with the absolute index x (sequential phases)           *)
(*   size / cap / numbuf / getbuf(x)              observers, concurrency safe     *)
(*   bufsize(x)                                   getBufferSize, sequential       *)
(*   new     ar = Arena(minBuffSize = x, initialSize = y)                         *)
(*   copy    ar = Arena(src)        move   ar = Arena(std::move(src))             *)
(*   assign  ar = src               massign ar = std::move(src)                   *)
(*   swap    swap(ar, src)          del    destroy ar                             *)
EXTENDS Integers, Sequences, FiniteSets, TLC

CONSTANTS Threads,         \* set of all thread names (strings)
          Prog,            \* Seq([Threads -> Seq(op records)])
          CopyToCapacity,  \* TRUE: the copy constructor loops to the table CAPACITY (the code as
                           \* found); FALSE: to the number of buffers (the repaired code)
          WeakCas,         \* TRUE: compare_exchange_weak may fail spuriously
          FineLock,        \* TRUE (model checking only): the resizeMutex_ critical section is split
                           \* into its atomic accesses (lock; re-read allocatedSize_; allocateBuffer;
                           \* store allocatedSize_; unlock) so that lock-free readers interleave with
                           \* it.  FALSE: the section is the single action GrowLock (what the
                           \* controlled scheduler can replay: no point while a std::mutex is held)
          StoreFirst       \* TRUE (negative control, FineLock only): allocatedSize_ is published
                           \* BEFORE the buffer is in the table

VARIABLES
  prog, phase,
  mutex,              \* FineLock only: holder of resizeMutex_ ("" = free)
  ars,                \* arena name -> arena object (record, see NoArena)
  tabs, tabLive,      \* pointer tables: Seq(Seq(buffer id | Uninit)); ids of the live ones
  bufs, bufLive,      \* buffers: Seq([v: Seq(value), c: Seq(#default constructions)]); live ids
  alive,
  pc, ip, loc, hist,
  uninitRead,         \* ghost: an uninitialised pointer-table entry was read
  copyBad,            \* ghost: a copy / move / swap did not produce the required contents
  ctorBad,            \* ghost: a grow_by returned a range with an element not default-constructed once
  freeBad             \* ghost: a buffer/table was freed twice or a wild pointer was freed

heap  == <<ars, tabs, tabLive, bufs, bufLive>>
ghost == <<uninitRead, copyBad, ctorBad, freeBad>>
vars  == <<prog, phase, mutex, ars, tabs, tabLive, bufs, bufLive, alive, pc, ip, loc, hist,
           uninitRead, copyBad, ctorBad, freeBad>>

ArenaNames == {"A", "B", "C", "tmp"}   \* "tmp" is the temporary of copy assignment
Uninit == -1        \* a table entry never written
Null == -1          \* buffers_ == nullptr
Garbage == -1       \* content of malloc'd memory never written
Poison == -2        \* content reached through an uninitialised pointer

NoArena == [ex |-> FALSE, mv |-> FALSE, lg |-> 0, pos |-> 0, alloc |-> 0, tab |-> Null, cap |-> 0,
            npos |-> 0, dl |-> <<>>,
            rg |-> <<>>,    \* ghost: <<first, count>> of every successful claim, in claim order
            rf |-> <<>>]    \* ghost: rf[i+1] = <<buffer, slot>> of element i when it was claimed

T == DOMAIN prog[1]
Range(s) == {s[i] : i \in 1 .. Len(s)}
RECURSIVE Log2Floor(_)
Log2Floor(n) == IF n <= 1 THEN 0 ELSE 1 + Log2Floor(n \div 2)
Log2Ceil(n) == Log2Floor(n) + (IF 2 ^ Log2Floor(n) = n THEN 0 ELSE 1)
BS(r) == 2 ^ r.lg                          \* kBufferSize

Heap == [ars |-> ars, tabs |-> tabs, tl |-> tabLive, bufs |-> bufs, bl |-> bufLive]
SetHeap(H) ==
  /\ ars' = H.ars /\ tabs' = H.tabs /\ tabLive' = H.tl /\ bufs' = H.bufs /\ bufLive' = H.bl

\* ------------------------------------------------------------------- heap operators
TabEntry(H, tid, k) ==
  IF tid = Null \/ k < 0 \/ k >= Len(H.tabs[tid + 1]) THEN Uninit ELSE H.tabs[tid + 1][k + 1]

NewBuf(H, vals) ==
  [H EXCEPT !.bufs = Append(@, [v |-> vals, c |-> [i \in 1 .. Len(vals) |-> 0]]),
            !.bl = @ \cup {Len(H.bufs)}]

Fill(n, x) == [i \in 1 .. n |-> x]

\* allocateBuffer()
AllocBuf(H, a) ==
  LET r == H.ars[a]
      bid == Len(H.bufs)
      H1 == NewBuf(H, Fill(BS(r), Garbage))
  IN IF r.npos < r.cap
       THEN [H1 EXCEPT !.tabs[r.tab + 1][r.npos + 1] = bid, !.ars[a].npos = r.npos + 1]
       ELSE LET ncap == IF r.cap = 0 THEN 2 ELSE 2 * r.cap
                tid == Len(H.tabs)
                nt == [k \in 1 .. ncap |->
                         IF k = r.npos + 1 THEN bid
                         ELSE IF k <= r.cap THEN TabEntry(H, r.tab, k - 1) ELSE Uninit]
            IN [H1 EXCEPT !.tabs = Append(@, nt), !.tl = @ \cup {tid},
                          !.ars[a] = [r EXCEPT !.tab = tid, !.cap = ncap, !.npos = r.npos + 1,
                                               !.dl = IF r.tab = Null THEN r.dl ELSE Append(r.dl, r.tab)]]

\* while (oldPos + delta >= curSize) { allocateBuffer(); allocatedSize_ += kBufferSize; }
RECURSIVE AllocUntil(_, _, _)
AllocUntil(H, a, target) ==
  IF target < H.ars[a].alloc THEN H
  ELSE AllocUntil([AllocBuf(H, a) EXCEPT !.ars[a].alloc = @ + BS(H.ars[a])], a, target)

\* what the NOTE placed immediately before that store reports for every iteration of the loop:
\* <<"LkStAlloc", value about to be stored, number of buffers in the table at that moment>>
RECURSIVE AllocNotes(_, _, _)
AllocNotes(H, a, target) ==
  IF target < H.ars[a].alloc THEN <<>>
  ELSE LET H1 == AllocBuf(H, a)
           na == H.ars[a].alloc + BS(H.ars[a])
       IN << <<"LkStAlloc", na, H1.ars[a].npos>> >> \o AllocNotes([H1 EXCEPT !.ars[a].alloc = na], a, target)

\* ConcurrentObjectArena(minBuffSize, .) up to (not including) grow_by(initialSize)
NewArena(H, a, minBuf) ==
  LET r0 == [NoArena EXCEPT !.ex = TRUE, !.lg = Log2Ceil(minBuf)]
      H1 == AllocBuf([H EXCEPT !.ars[a] = r0], a)
  IN [H1 EXCEPT !.ars[a].alloc = BS(r0)]

Locate(H, a, i) ==
  LET r == H.ars[a] IN <<TabEntry(H, r.tab, i \div BS(r)), i % BS(r)>>
ValAtLoc(H, l) == IF l[1] = Uninit THEN Poison ELSE H.bufs[l[1] + 1].v[l[2] + 1]
ValAt(H, a, i) == ValAtLoc(H, Locate(H, a, i))
Content(H, a) == [i \in 1 .. H.ars[a].pos |-> ValAt(H, a, i - 1)]
BufsOf(H, a) == {TabEntry(H, H.ars[a].tab, k) : k \in 0 .. (H.ars[a].npos - 1)}
TabsOf(H, a) == (IF H.ars[a].tab = Null THEN {} ELSE {H.ars[a].tab}) \cup Range(H.ars[a].dl)

\* copy constructor; n = number of table entries the loop reads
RECURSIVE CopyLoop(_, _, _, _, _, _)
CopyLoop(H, H0, src, tid, i, n) ==      \* H0: the heap before the copy (source of the memcpy)
  IF i >= n THEN H
  ELSE LET e == TabEntry(H0, H0.ars[src].tab, i)
           bs == BS(H0.ars[src])
           vals == IF e = Uninit THEN Fill(bs, Poison) ELSE H0.bufs[e + 1].v
           bid == Len(H.bufs)
           H1 == NewBuf(H, vals)
           H2 == IF i < Len(H1.tabs[tid + 1]) THEN [H1 EXCEPT !.tabs[tid + 1][i + 1] = bid] ELSE H1
       IN CopyLoop(H2, H0, src, tid, i + 1, n)

CopyCtor(H, dst, src, n) ==
  LET r == H.ars[src]
      tid == Len(H.tabs)
      H1 == [H EXCEPT !.tabs = Append(@, Fill(r.cap, Uninit)), !.tl = @ \cup {tid}]
      H2 == CopyLoop(H1, H, src, tid, 0, n)
      H3 == [H2 EXCEPT !.ars[dst] = [r EXCEPT !.tab = tid, !.dl = <<>>, !.mv = FALSE]]
  IN [H3 EXCEPT !.ars[dst].rf = [i \in 1 .. r.pos |-> Locate(H3, dst, i - 1)]]
CopyReadsUninit(H, src, n) == \E i \in 0 .. (n - 1) : TabEntry(H, H.ars[src].tab, i) = Uninit

SwapAr(H, x, y) == [H EXCEPT !.ars[x] = H.ars[y], !.ars[y] = H.ars[x]]

\* ~ConcurrentObjectArena()
DestroyAr(H, a) ==
  [H EXCEPT !.bl = @ \ BufsOf(H, a), !.tl = @ \ TabsOf(H, a), !.ars[a] = NoArena]
DestroyBad(H, a) ==
  \/ ~(BufsOf(H, a) \subseteq H.bl)
  \/ ~(TabsOf(H, a) \subseteq H.tl)
  \/ Cardinality(BufsOf(H, a)) # H.ars[a].npos
  \/ Cardinality(TabsOf(H, a)) # (IF H.ars[a].tab = Null THEN 0 ELSE 1) + Len(H.ars[a].dl)

\* getBufferSize(index)
GetBufferSize(r, k) == IF k < r.npos - 1 THEN BS(r) ELSE r.pos - BS(r) * (r.npos - 1)

\* ------------------------------------------------------------------- program plumbing
FirstPcOf(o) ==
  CASE o.op = "grow" -> "GrowLdPos"
    [] o.op \in {"write", "read", "writei", "readi"} -> "IdxLdBuf"
    [] o.op = "size" -> "SizeLd"
    [] o.op = "cap" -> "CapLd"
    [] o.op = "numbuf" -> "NumBuf"
    [] o.op = "getbuf" -> "GetBufLd"
    [] OTHER -> "SeqOp"
FirstPc(ph, t, i) == IF i > Len(prog[ph][t]) THEN "Done" ELSE FirstPcOf(prog[ph][t][i])
Op(t) == prog[phase][t][ip[t]]
Delta(t) == IF Op(t).op = "new" THEN Op(t).y ELSE Op(t).x

EmptyLoc == [old |-> 0, b |-> 0, bstart |-> 0, cur |-> 0]

InitWith(p) ==
  /\ prog = p /\ phase = 1 /\ mutex = ""
  /\ ars = [a \in ArenaNames |-> NoArena]
  /\ tabs = <<>> /\ tabLive = {} /\ bufs = <<>> /\ bufLive = {} /\ alive = TRUE
  /\ pc = [t \in DOMAIN p[1] |-> IF Len(p[1][t]) = 0 THEN "Done" ELSE "Start"]
  /\ ip = [t \in DOMAIN p[1] |-> 1]
  /\ loc = [t \in DOMAIN p[1] |-> EmptyLoc]
  /\ hist = [t \in DOMAIN p[1] |-> <<>>]
  /\ uninitRead = FALSE /\ copyBad = FALSE /\ ctorBad = FALSE /\ freeBad = FALSE

Init == InitWith(Prog)

Goto(t, l) == pc' = [pc EXCEPT ![t] = l]
Finish(t, outs) ==
  /\ hist' = [hist EXCEPT ![t] = @ \o outs]
  /\ ip' = [ip EXCEPT ![t] = @ + 1]
  /\ Goto(t, FirstPc(phase, t, ip[t] + 1))

\* start index of the x-th grow_by of thread t (from what was returned to it)
GrowStarts(t) == SelectSeq(hist[t], LAMBDA e : e[1] = "grow")
IndexOf(t) ==
  IF Op(t).op \in {"writei", "readi"} THEN Op(t).x ELSE GrowStarts(t)[Op(t).x][2] + Op(t).y

Start(t) ==
  /\ pc[t] = "Start"
  /\ Goto(t, FirstPc(phase, t, 1))
  /\ UNCHANGED <<prog, phase, mutex, heap, alive, ip, loc, hist, ghost>>

\* ----------------------------------------------------------------------------- grow_by
GrowLdPos(t) ==                     \* oldPos = pos_.load
  /\ pc[t] = "GrowLdPos"
  /\ loc' = [loc EXCEPT ![t].old = ars[Op(t).ar].pos]
  /\ Goto(t, "GrowLdAlloc")
  /\ UNCHANGED <<prog, phase, mutex, heap, alive, ip, hist, ghost>>

GrowLdAlloc(t) ==                   \* curSize = allocatedSize_.load; if (oldPos + delta >= curSize)
  /\ pc[t] = "GrowLdAlloc"
  /\ Goto(t, IF loc[t].old + Delta(t) >= ars[Op(t).ar].alloc THEN "GrowLock" ELSE "GrowCas")
  /\ UNCHANGED <<prog, phase, mutex, heap, alive, ip, loc, hist, ghost>>

GrowLock(t) ==                      \* the whole resizeMutex_ critical section (FineLock: lock())
  /\ pc[t] = "GrowLock"
  /\ IF FineLock
       THEN /\ mutex = ""             \* blocks while another thread holds the mutex
            /\ mutex' = t
            /\ Goto(t, "LkLdAlloc")
            /\ UNCHANGED <<heap, hist>>
       ELSE /\ SetHeap(AllocUntil(Heap, Op(t).ar, loc[t].old + Delta(t)))
            /\ hist' = [hist EXCEPT ![t] = @ \o AllocNotes(Heap, Op(t).ar, loc[t].old + Delta(t))]
            /\ Goto(t, "GrowCas")
            /\ UNCHANGED mutex
  /\ UNCHANGED <<prog, phase, alive, ip, loc, ghost>>

\* ---- FineLock only: the atomic accesses inside the critical section
LkNext(t, cur) == IF loc[t].old + Delta(t) >= cur THEN (IF StoreFirst THEN "LkStAlloc" ELSE "LkAllocBuf")
                  ELSE "LkUnlock"
LkLdAlloc(t) ==                     \* curSize = allocatedSize_.load (under the lock)
  /\ pc[t] = "LkLdAlloc"
  /\ loc' = [loc EXCEPT ![t].cur = ars[Op(t).ar].alloc]
  /\ Goto(t, LkNext(t, ars[Op(t).ar].alloc))
  /\ UNCHANGED <<prog, phase, mutex, heap, alive, ip, hist, ghost>>
LkAllocBuf(t) ==                    \* allocateBuffer()
  /\ pc[t] = "LkAllocBuf"
  /\ SetHeap(AllocBuf(Heap, Op(t).ar))
  /\ Goto(t, IF StoreFirst THEN LkNext(t, loc[t].cur) ELSE "LkStAlloc")
  /\ UNCHANGED <<prog, phase, mutex, alive, ip, loc, hist, ghost>>
LkStAlloc(t) ==                     \* allocatedSize_.store(curSize + kBufferSize); curSize += kBufferSize
  /\ pc[t] = "LkStAlloc"
  /\ LET a == Op(t).ar
         na == loc[t].cur + BS(ars[a])
     IN /\ ars' = [ars EXCEPT ![a].alloc = na]
        /\ loc' = [loc EXCEPT ![t].cur = na]
        /\ Goto(t, IF StoreFirst THEN "LkAllocBuf" ELSE LkNext(t, na))
  /\ UNCHANGED <<prog, phase, mutex, tabs, tabLive, bufs, bufLive, alive, ip, hist, ghost>>
LkUnlock(t) ==                      \* ~lock_guard
  /\ pc[t] = "LkUnlock"
  /\ mutex' = ""
  /\ Goto(t, "GrowCas")
  /\ UNCHANGED <<prog, phase, heap, alive, ip, loc, hist, ghost>>

GrowCas(t) ==                       \* compare_exchange_weak(pos_, oldPos, oldPos + delta)
  /\ pc[t] = "GrowCas"
  /\ LET a == Op(t).ar
         r == ars[a]
         old == loc[t].old
     IN \/ /\ r.pos = old           \* success: the range [old, old + delta) is claimed
           /\ ars' = [ars EXCEPT ![a] =
                        [r EXCEPT !.pos = old + Delta(t),
                                  !.rg = Append(@, <<old, Delta(t)>>),
                                  !.rf = @ \o [i \in 1 .. Delta(t) |-> Locate(Heap, a, old + i - 1)]]]
           /\ loc' = [loc EXCEPT ![t].b = old \div BS(r), ![t].bstart = old % BS(r)]
           /\ Goto(t, "CtorLdBuf")
        \/ /\ r.pos # old           \* failure: oldPos := pos_, retry
           /\ loc' = [loc EXCEPT ![t].old = r.pos]
           /\ Goto(t, "GrowLdAlloc")
           /\ UNCHANGED ars
        \/ /\ WeakCas /\ r.pos = old   \* spurious failure
           /\ Goto(t, "GrowLdAlloc")
           /\ UNCHANGED <<ars, loc>>
  /\ UNCHANGED <<prog, phase, mutex, tabs, tabLive, bufs, bufLive, alive, ip, hist, ghost>>

CtorLdBuf(t) ==                     \* constructObjects: buf = buffers_.load()[b]; construct slots
  /\ pc[t] = "CtorLdBuf"
  /\ LET a == Op(t).ar
         r == ars[a]
         bs == BS(r)
         old == loc[t].old
         endIndex == old + Delta(t)
         endBuffer == endIndex \div bs
         b == loc[t].b
         e == TabEntry(Heap, r.tab, b)
         bufEnd == IF b = endBuffer THEN endIndex % bs ELSE bs
         slots == {k \in 1 .. bs : loc[t].bstart < k /\ k <= bufEnd}     \* 1-based
         nb == IF e = Uninit THEN bufs
               ELSE [bufs EXCEPT ![e + 1] = [v |-> [k \in 1 .. bs |-> IF k \in slots THEN 0 ELSE @.v[k]],
                                             c |-> [k \in 1 .. bs |-> IF k \in slots THEN @.c[k] + 1 ELSE @.c[k]]]]
     IN /\ bufs' = nb
        /\ uninitRead' = (uninitRead \/ e = Uninit)
        /\ IF b < endBuffer
             THEN /\ loc' = [loc EXCEPT ![t].b = b + 1, ![t].bstart = 0]
                  /\ UNCHANGED <<pc, ip, hist, ctorBad>>
             ELSE /\ Finish(t, IF Op(t).op = "grow" THEN << <<"grow", old, 0>> >> ELSE <<>>)
                  /\ loc' = [loc EXCEPT ![t] = EmptyLoc]
                  /\ ctorBad' = (ctorBad \/
                       \E i \in old .. (endIndex - 1) :
                          LET l == Locate(Heap, a, i) IN
                          l[1] = Uninit \/ nb[l[1] + 1].c[l[2] + 1] # 1 \/ nb[l[1] + 1].v[l[2] + 1] # 0)
  /\ UNCHANGED <<prog, phase, mutex, ars, tabs, tabLive, bufLive, alive, copyBad, freeBad>>

\* ---------------------------------------------------------------- operator[] and the observers
IdxLdBuf(t) ==                      \* buffers_.load()[index >> log2][index & mask]
  /\ pc[t] = "IdxLdBuf"
  /\ LET a == Op(t).ar
         i == IndexOf(t)
         l == Locate(Heap, a, i)
         wr == Op(t).op \in {"write", "writei"}
     IN /\ uninitRead' = (uninitRead \/ l[1] = Uninit)
        /\ IF wr /\ l[1] # Uninit
             THEN bufs' = [bufs EXCEPT ![l[1] + 1].v[l[2] + 1] = Op(t).z]
             ELSE UNCHANGED bufs
        /\ Finish(t, IF wr THEN << <<"loc", l[1], l[2]>> >>
                     ELSE << <<"val", ValAtLoc(Heap, l), 0>>, <<"loc", l[1], l[2]>>,
                             <<"via", ValAtLoc(Heap, ars[a].rf[i + 1]), 0>> >>)
  /\ UNCHANGED <<prog, phase, mutex, ars, tabs, tabLive, bufLive, alive, loc, copyBad, ctorBad, freeBad>>

SizeLd(t) ==
  /\ pc[t] = "SizeLd"
  /\ Finish(t, << <<"size", ars[Op(t).ar].pos, 0>> >>)
  /\ UNCHANGED <<prog, phase, mutex, heap, alive, loc, ghost>>

CapLd(t) ==
  /\ pc[t] = "CapLd"
  /\ Finish(t, << <<"cap", ars[Op(t).ar].alloc, 0>> >>)
  /\ UNCHANGED <<prog, phase, mutex, heap, alive, loc, ghost>>

NumBuf(t) ==
  /\ pc[t] = "NumBuf"
  /\ Finish(t, << <<"numbuf", ars[Op(t).ar].npos, 0>> >>)
  /\ UNCHANGED <<prog, phase, mutex, heap, alive, loc, ghost>>

GetBufLd(t) ==
  /\ pc[t] = "GetBufLd"
  /\ LET e == TabEntry(Heap, ars[Op(t).ar].tab, Op(t).x) IN
       /\ uninitRead' = (uninitRead \/ e = Uninit)
       /\ Finish(t, << <<"getbuf", e, 0>> >>)
  /\ UNCHANGED <<prog, phase, mutex, heap, alive, loc, copyBad, ctorBad, freeBad>>

\* -------------------------------------------------------- sequential (not concurrency safe) ops
CopyNotes(n) == [i \in 1 .. n |-> <<"CopyRdBuf", i - 1, 0>>]
DefaultCopyN(t) ==
  IF Op(t).op \in {"copy", "assign"}
    THEN (IF CopyToCapacity THEN ars[Op(t).src].cap ELSE ars[Op(t).src].npos)
    ELSE 0

SeqOpN(t, n) ==
  /\ pc[t] = "SeqOp"
  /\ LET o == Op(t)
         H == Heap
     IN CASE o.op = "new" ->
               /\ SetHeap(NewArena(H, o.ar, o.x))
               /\ (IF o.y > 0
                     THEN Goto(t, "GrowLdPos") /\ UNCHANGED <<ip, hist>>
                     ELSE Finish(t, <<>>))
               /\ UNCHANGED ghost
          [] o.op = "copy" ->
               LET H1 == CopyCtor(H, o.ar, o.src, n) IN
               /\ SetHeap(H1)
               /\ Finish(t, CopyNotes(n))
               /\ uninitRead' = (uninitRead \/ CopyReadsUninit(H, o.src, n))
               /\ copyBad' = (copyBad \/ Content(H1, o.ar) # Content(H, o.src)
                                      \/ Content(H1, o.src) # Content(H, o.src)
                                      \/ H1.ars[o.ar].pos # H.ars[o.src].pos
                                      \/ BufsOf(H1, o.ar) \cap BufsOf(H1, o.src) # {})
               /\ UNCHANGED <<ctorBad, freeBad>>
          [] o.op = "assign" ->
               LET H1 == CopyCtor(H, "tmp", o.src, n)
                   H2 == SwapAr(H1, o.ar, "tmp")
                   H3 == DestroyAr(H2, "tmp")
               IN
               /\ SetHeap(H3)
               /\ Finish(t, CopyNotes(n))
               /\ uninitRead' = (uninitRead \/ CopyReadsUninit(H, o.src, n))
               /\ copyBad' = (copyBad \/ Content(H3, o.ar) # Content(H, o.src)
                                      \/ Content(H3, o.src) # Content(H, o.src)
                                      \/ (o.ar # o.src /\ BufsOf(H3, o.ar) \cap BufsOf(H3, o.src) # {}))
               /\ freeBad' = (freeBad \/ DestroyBad(H2, "tmp"))
               /\ UNCHANGED ctorBad
          [] o.op = "move" ->
               LET H1 == [H EXCEPT !.ars[o.ar] = H.ars[o.src],
                                   !.ars[o.src] = [NoArena EXCEPT !.ex = TRUE, !.mv = TRUE]] IN
               /\ SetHeap(H1)
               /\ Finish(t, <<>>)
               /\ copyBad' = (copyBad \/ Content(H1, o.ar) # Content(H, o.src))
               /\ UNCHANGED <<uninitRead, ctorBad, freeBad>>
          [] o.op = "massign" ->
               LET H1 == SwapAr(H, o.ar, o.src)
                   H2 == IF o.ar = o.src THEN H1 ELSE [H1 EXCEPT !.ars[o.src].mv = TRUE] IN
               /\ SetHeap(H2)
               /\ Finish(t, <<>>)
               /\ copyBad' = (copyBad \/ Content(H2, o.ar) # Content(H, o.src))
               /\ UNCHANGED <<uninitRead, ctorBad, freeBad>>
          [] o.op = "swap" ->
               LET H1 == SwapAr(H, o.ar, o.src) IN
               /\ SetHeap(H1)
               /\ Finish(t, <<>>)
               /\ copyBad' = (copyBad \/ Content(H1, o.ar) # Content(H, o.src)
                                      \/ Content(H1, o.src) # Content(H, o.ar))
               /\ UNCHANGED <<uninitRead, ctorBad, freeBad>>
          [] o.op = "del" ->
               /\ SetHeap(DestroyAr(H, o.ar))
               /\ Finish(t, <<>>)
               /\ freeBad' = (freeBad \/ DestroyBad(H, o.ar))
               /\ UNCHANGED <<uninitRead, copyBad, ctorBad>>
          [] o.op = "bufsize" ->
               /\ Finish(t, << <<"bufsize", GetBufferSize(ars[o.ar], o.x), 0>> >>)
               /\ UNCHANGED <<heap, ghost>>
  /\ UNCHANGED <<prog, phase, mutex, alive, loc>>

\* (a conjunction, not a bare application, so that TLC labels the edge SeqOp(t))
SeqOp(t) ==
  /\ pc[t] = "SeqOp"
  /\ SeqOpN(t, DefaultCopyN(t))

\* ----------------------------------------------------------------- phases and final destruction
AllDone == \A t \in T : pc[t] = "Done"

NextPhase ==
  /\ alive /\ AllDone /\ phase < Len(prog)
  /\ phase' = phase + 1
  /\ pc' = [t \in T |-> IF Len(prog[phase + 1][t]) = 0 THEN "Done" ELSE "Start"]
  /\ ip' = [t \in T |-> 1]
  /\ UNCHANGED <<prog, mutex, heap, alive, loc, hist, ghost>>

Existing(H) == {a \in ArenaNames : H.ars[a].ex}
RECURSIVE DestroyAll(_, _)
DestroyAll(H, S) ==
  IF S = {} THEN H ELSE LET a == CHOOSE x \in S : TRUE IN DestroyAll(DestroyAr(H, a), S \ {a})
RECURSIVE DestroyAllBad(_, _)
DestroyAllBad(H, S) ==
  IF S = {} THEN FALSE
  ELSE LET a == CHOOSE x \in S : TRUE IN DestroyBad(H, a) \/ DestroyAllBad(DestroyAr(H, a), S \ {a})

Destroy ==
  /\ alive /\ AllDone /\ phase = Len(prog)
  /\ alive' = FALSE
  /\ SetHeap(DestroyAll(Heap, Existing(Heap)))
  /\ freeBad' = (freeBad \/ DestroyAllBad(Heap, Existing(Heap)))
  /\ UNCHANGED <<prog, phase, mutex, pc, ip, loc, hist, uninitRead, copyBad, ctorBad>>

Next ==
  \/ \E t \in Threads :
        \/ Start(t)
        \/ GrowLdPos(t) \/ GrowLdAlloc(t) \/ GrowLock(t) \/ GrowCas(t) \/ CtorLdBuf(t)
        \/ LkLdAlloc(t) \/ LkAllocBuf(t) \/ LkStAlloc(t) \/ LkUnlock(t)
        \/ IdxLdBuf(t) \/ SizeLd(t) \/ CapLd(t) \/ NumBuf(t) \/ GetBufLd(t)
        \/ SeqOp(t)
  \/ NextPhase
  \/ Destroy

Spec == Init /\ [][Next]_vars

\* ============================================================================ properties (C37)
Live == {a \in ArenaNames : ars[a].ex /\ ~ars[a].mv}
Growing(a) == \E t \in T : pc[t] \in {"GrowLdPos", "GrowLdAlloc", "GrowLock", "GrowCas", "CtorLdBuf",
                                      "LkLdAlloc", "LkAllocBuf", "LkStAlloc", "LkUnlock"}
                           /\ Op(t).ar = a
Idx(rng) == rng[1] .. (rng[1] + rng[2] - 1)

\* grow_by results are disjoint index ranges whose union is [0, size())
RangesExact ==
  \A a \in Live :
    LET rg == ars[a].rg IN
    /\ \A i, j \in 1 .. Len(rg) : i # j => Idx(rg[i]) \cap Idx(rg[j]) = {}
    /\ UNION {Idx(rg[i]) : i \in 1 .. Len(rg)} = 0 .. (ars[a].pos - 1)
\* no slot is default-constructed twice, and nothing is constructed outside a claimed range
ConstructedOnce ==
  /\ \A b \in bufLive : \A k \in 1 .. Len(bufs[b + 1].c) : bufs[b + 1].c[k] <= 1
  /\ \A a \in Live : \A k \in 0 .. (ars[a].npos - 1) :
       LET e == TabEntry(Heap, ars[a].tab, k) IN
       e # Uninit => \A s \in 1 .. BS(ars[a]) :
                        bufs[e + 1].c[s] = 1 => k * BS(ars[a]) + (s - 1) < ars[a].pos
\* when grow_by returns, every element of its range has been default-constructed exactly once
ElementsConstructed == ~ctorBad
\* references stay valid: element i is where it was when it was claimed, in a live buffer
StableRefs ==
  \A a \in Live : \A i \in 1 .. Len(ars[a].rf) :
     /\ Locate(Heap, a, i - 1) = ars[a].rf[i]
     /\ ars[a].rf[i][1] \in bufLive
\* copy construction / assignment, move construction / assignment and swap transfer size + contents
CopiesEqual == ~copyBad
\* no uninitialised pointer-table entry is ever read
NoUninitRead == ~uninitRead
\* the bookkeeping is exact: capacity covers the size with room for the one-past-the-end buffer
\* lookup of constructObjects; the first numBuffers() table entries are distinct live buffers
Bookkeeping ==
  \A a \in Live :
    LET r == ars[a] IN
    /\ r.pos < r.alloc /\ r.npos <= r.cap
    /\ (mutex = "" => r.alloc = r.npos * BS(r))
    /\ r.cap = Len(tabs[r.tab + 1])
    /\ \A k \in 0 .. (r.npos - 1) : TabEntry(Heap, r.tab, k) \in bufLive
    /\ Cardinality(BufsOf(Heap, a)) = r.npos
\* the published capacity never exceeds the buffers that are in the table (a lock-free grower that
\* sees allocatedSize_ finds the buffers it needs)
AllocCovered == \A a \in Live : ars[a].alloc <= ars[a].npos * BS(ars[a])
\* arenas are independent and nothing leaks: every live buffer / table belongs to exactly one arena
NoLeakNoSharing ==
  alive =>
    /\ \A a, b \in Existing(Heap) : a # b => /\ BufsOf(Heap, a) \cap BufsOf(Heap, b) = {}
                                             /\ TabsOf(Heap, a) \cap TabsOf(Heap, b) = {}
    /\ bufLive = UNION {BufsOf(Heap, a) : a \in Existing(Heap)}
    /\ tabLive = UNION {TabsOf(Heap, a) : a \in Existing(Heap)}
\* lifetime balance: everything is released exactly once at destruction
LifetimeBalance == (~alive => bufLive = {} /\ tabLive = {}) /\ ~freeBad
\* getBufferSize is exact while nobody grows: used sizes are within [0, kBufferSize] and sum to size()
RECURSIVE SumTo(_, _)
SumTo(r, k) == IF k < 0 THEN 0 ELSE GetBufferSize(r, k) + SumTo(r, k - 1)
BufSizesExact ==
  \A a \in Live : ~Growing(a) =>
    /\ \A k \in 0 .. (ars[a].npos - 1) : GetBufferSize(ars[a], k) \in 0 .. BS(ars[a])
    /\ SumTo(ars[a], ars[a].npos - 1) = ars[a].pos

TypeOK ==
  /\ phase \in 1 .. Len(prog)
  /\ \A t \in T : ip[t] \in 1 .. (Len(prog[phase][t]) + 1)
  /\ \A a \in ArenaNames : ars[a].pos \in Nat /\ ars[a].alloc \in Nat /\ ars[a].npos \in Nat
=============================================================================
