------------------------------ MODULE ArenaObs ------------------------------
(* E5 record validator for C37 (ConcurrentObjectArena growth is exact).                     *)
(*                                                                                         *)
(* Every line is ONE free-running round of harness/drv/drv_arena.cpp --stress: 2-4 real     *)
(* threads call grow_by() on one fresh arena truly concurrently (no controller, the hook     *)
(* points are inert, no memory observation).  The record holds what a user of the public    *)
(* API can observe:                                                                          *)
(*   {"e":"Arena","round":r,"stuck":0|1,"mb": minBuffSize,"bs": buffer size,                *)
(*    "n0": initialSize (the constructing thread wrote i + 1 into element i),               *)
(*    "thr":[ per grower {"mis": m, "ops":[ in program order                                 *)
(*        [n = delta, v = value tag, p = what grow_by returned, s = size() after it] ]} ],   *)
(*    after all threads were joined: "size": size(), "cap": capacity(), "nb": numBuffers(), *)
(*    "bsum": sum of getBufferSize(k), "data": [ element i's value through operator[] ],    *)
(*    "cx": [[i, c]] for every element i < size whose default constructor ran c # 1 times,   *)
(*    "moved": references taken during the round that operator[] no longer reproduces,      *)
(*    "bufmis": elements i with &arena[i] # getBuffer(i / bs) + i % bs}                       *)
(* Operation k (0-based) of grower t checks that the elements of the range it was handed    *)
(* are default-constructed exactly once and writes v + j, v = t*100000 + k*100, into the     *)
(* j-th of them; "mis" counts failed checks (see RefsValid).                                 *)
(* "nz" (per grower) / "nz0" (initialSize elements): the grower repeats its program on an    *)
(* arena of int and on an arena of a plain aggregate (no user-provided default constructor), *)
(* on a heap whose blocks are handed out filled with 0xAB; nz / nz0 count the handed-out     *)
(* elements that differ from T() (see ValueInitialised).                                      *)
(*                                                                                         *)
(* There are no timestamps and no cross-thread order in a record: RecordsOK is the part of   *)
(* C37 (Arena.tla: RangesExact, ConstructedOnce, ElementsConstructed, StableRefs,            *)
(* Bookkeeping, BufSizesExact) that holds for EVERY interleaving of grow_by calls - also     *)
(* for interleavings inside what Arena.tla treats as one step (the resizeMutex_ section,     *)
(* the compare-exchange) - because it only uses: pos_ changes only by a successful           *)
(* compare-exchange from oldPos to oldPos + delta, the caller owns [oldPos, oldPos + delta), *)
(* and buffers are only ever added.                                                          *)
EXTENDS Integers, Sequences, FiniteSets, TLC, Json, IOUtils

ObsLog == ndJsonDeserialize(IOEnv.TRACE)

VARIABLE l
ObsInit == l = 1
ObsNext == l <= Len(ObsLog) /\ l' = l + 1
ObsSpec == ObsInit /\ [][ObsNext]_l

\* an operation is the tuple <<n, v, p, s>> (see above)
OpN(o) == o[1]
OpV(o) == o[2]
OpP(o) == o[3]
OpS(o) == o[4]

RECURSIVE SumN(_, _, _)
SumN(thr, t, i) ==
  IF t > Len(thr) THEN 0
  ELSE IF i > Len(thr[t].ops) THEN SumN(thr, t + 1, 1)
  ELSE OpN(thr[t].ops[i]) + SumN(thr, t, i + 1)

\* (a) every grow_by returns (the compare-exchange loop is lock-free, the mutex section is finite).
\*     The driver writes stuck = 1 if a round did not finish within 10 s of wall-clock time.
Finished(rec) == rec.stuck = 0

\* (configuration) the buffer size is the smallest power of two >= minBuffSize
BufSizeOK(rec) == rec.bs \in {1, 2, 4, 8} /\ rec.mb <= rec.bs /\ rec.bs < 2 * rec.mb

\* (b) the contents are readable up to size(), and the elements constructed by the constructor
\*     (initialSize) still hold what the constructing thread wrote: no range handed out later
\*     contains an index below n0.
InitialKept(rec) ==
  /\ rec.size >= 0
  /\ Len(rec.data) = rec.size
  /\ rec.n0 <= rec.size
  /\ \A i \in 1 .. rec.n0 : rec.data[i] = i

\* (input) the driver's value tags: operation i of grower t writes t*100000 + (i-1)*100 + j, j < n < 100,
\*     so no value is written by two operations.  A fact about the program issued, not about the arena.
TagsOK(rec) ==
  \A t \in 1 .. Len(rec.thr) : \A i \in 1 .. Len(rec.thr[t].ops) :
    LET o == rec.thr[t].ops[i] IN
    OpV(o) = t * 100000 + (i - 1) * 100 /\ OpN(o) >= 0 /\ OpN(o) < 100

\* (c) RangesExact: grow_by(n) returns the first index of a range [p, p + n) inside [n0, size())
\*     (pos_ never decreases, the final size is the value after the last successful exchange) that
\*     belongs to the caller alone: after the join every element of it holds what the caller wrote.
\*     Because no value is written by two operations (TagsOK) this also says that the ranges of two
\*     operations are DISJOINT: an index in two ranges would have to hold two different values.
\*     grow_by(0) returns the size at its exchange.
RangeOK(rec, o) ==
  /\ rec.n0 <= OpP(o)
  /\ OpP(o) + OpN(o) <= rec.size
  /\ \A j \in 0 .. (OpN(o) - 1) : rec.data[OpP(o) + j + 1] = OpV(o) + j

\* (d) RangesExact: the union of the ranges is [n0, size()): with (c), the sizes add up.
SizeExact(rec) == rec.size = rec.n0 + SumN(rec.thr, 1, 1)

\* (e) per-thread program order: the values ONE thread sees of pos_ (loads, successful exchanges)
\*     never decrease: size() after a call is at least the end of the range it returned and at most
\*     the final size; the next call's range starts at or after that size().
ProgramOrderOK(rec) ==
  \A t \in 1 .. Len(rec.thr) :
    LET ops == rec.thr[t].ops IN
    \A i \in 1 .. Len(ops) :
      /\ OpS(ops[i]) <= rec.size
      /\ OpS(ops[i]) >= OpP(ops[i]) + OpN(ops[i])
      /\ (i > 1 => OpP(ops[i]) >= OpS(ops[i - 1]))

\* (f) ConstructedOnce + ElementsConstructed: every element below size() was default-constructed
\*     exactly once (the sparse list of exceptions is empty) ...
ConstructedOnce(rec) == rec.cx = <<>>

\* (g) ... ElementsConstructed + StableRefs: the elements of a returned range are default-constructed
\*     (exactly once, default value) when grow_by returns; every reference taken earlier by a grower to
\*     an element of its own ranges still is what operator[] yields and still holds what the grower
\*     wrote, whenever it is checked again (after each later call of that grower: mis; after the join:
\*     moved); operator[] and getBuffer agree on where an element lives (bufmis).
RefsValid(rec) ==
  /\ \A t \in 1 .. Len(rec.thr) : rec.thr[t].mis = 0
  /\ rec.moved = 0
  /\ rec.bufmis = 0

\* (g') ElementsConstructed for element types WITHOUT a user-provided default constructor (int, a plain
\*     aggregate): the arena constructs every element with `new (p) T()`, i.e. value-initialisation, which
\*     zero-initialises such a T; so every element handed out by grow_by / by the initialSize constructor
\*     equals T() whatever the malloc'ed block held before (the driver's malloc hands out 0xAB-filled
\*     blocks).  Holds for every interleaving: the caller owns its range and nobody else writes to it.
ValueInitialised(rec) ==
  /\ rec.nz0 = 0
  /\ \A t \in 1 .. Len(rec.thr) : rec.thr[t].nz = 0

\* (h) Bookkeeping / BufSizesExact at quiescence: size() < capacity() = numBuffers() * buffer size
\*     (grow_by allocates while oldPos + delta >= allocatedSize_), and the used sizes of the buffers
\*     sum to size().
BookkeepingOK(rec) ==
  /\ rec.size < rec.cap
  /\ rec.cap = rec.nb * rec.bs
  /\ rec.bsum = rec.size

RecOK(rec) ==
  rec.e = "Arena" =>
    /\ Finished(rec)
    /\ BufSizeOK(rec)
    /\ InitialKept(rec)
    /\ TagsOK(rec)
    /\ \A t \in 1 .. Len(rec.thr) : \A i \in 1 .. Len(rec.thr[t].ops) : RangeOK(rec, rec.thr[t].ops[i])
    /\ SizeExact(rec)
    /\ ProgramOrderOK(rec)
    /\ ConstructedOnce(rec)
    /\ RefsValid(rec)
    /\ ValueInitialised(rec)
    /\ BookkeepingOK(rec)

RecordsOK == l > Len(ObsLog) \/ RecOK(ObsLog[l])

ObsAccepted ==
  LET d == TLCGet("stats").diameter IN
  IF d = Len(ObsLog) + 1 THEN TRUE
  ELSE /\ PrintT(<<"TRACE_REJECTED_AT_LINE", d, "OF", Len(ObsLog)>>)
       /\ FALSE
=============================================================================
