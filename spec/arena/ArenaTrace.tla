----------------------------- MODULE ArenaTrace -----------------------------
(* Trace validation for Arena.tla: every line of the ndjson trace recorded from   *)
(* the real ConcurrentObjectArena must be explained by the specification action   *)
(* of the same name taken by the same thread.  Compared after every step: for     *)
(* every arena object its log2 buffer size, pos_, allocatedSize_, pointer-table   *)
(* id / capacity / used entries (as buffer ids), deleteLater_ tables, and its     *)
(* contents read through operator[]; for the heap the set of live buffers with    *)
(* the raw content and the number of default constructions of every slot, and the *)
(* set of live pointer tables; plus everything returned to the caller.  The        *)
(* number of table entries the copy constructor reads is taken from the trace      *)
(* (CopyRdBuf notes), so a copy that reads an uninitialised entry is judged by     *)
(* the invariant NoUninitRead.  All invariants of Arena.tla are evaluated in       *)
(* every state of the validated behaviour.                                         *)
EXTENDS Arena, Json, IOUtils

TraceLog == ndJsonDeserialize(IOEnv.TRACE)

VARIABLE l   \* next line to consume

tvars == <<vars, l>>

TraceInit ==
  /\ l = 2
  /\ TraceLog[1].e = "Reset"
  /\ InitWith(TraceLog[1].prog)

ResetTo(p) ==
  /\ prog' = p /\ phase' = 1 /\ mutex' = ""
  /\ ars' = [a \in ArenaNames |-> NoArena]
  /\ tabs' = <<>> /\ tabLive' = {} /\ bufs' = <<>> /\ bufLive' = {} /\ alive' = TRUE
  /\ pc' = [t \in DOMAIN p[1] |-> IF Len(p[1][t]) = 0 THEN "Done" ELSE "Start"]
  /\ ip' = [t \in DOMAIN p[1] |-> 1]
  /\ loc' = [t \in DOMAIN p[1] |-> EmptyLoc]
  /\ hist' = [t \in DOMAIN p[1] |-> <<>>]
  /\ uninitRead' = FALSE /\ copyBad' = FALSE /\ ctorBad' = FALSE /\ freeBad' = FALSE

NumCopyNotes(r) == Len(SelectSeq(r, LAMBDA e : e[1] = "CopyRdBuf"))

Dispatch(ev, t) ==
  LET e == ev.e IN
  CASE e = "Start"       -> Start(t)
    [] e = "GrowLdPos"   -> GrowLdPos(t)
    [] e = "GrowLdAlloc" -> GrowLdAlloc(t)
    [] e = "GrowLock"    -> GrowLock(t)
    [] e = "GrowCas"     -> GrowCas(t)
    [] e = "CtorLdBuf"   -> CtorLdBuf(t)
    [] e = "IdxLdBuf"    -> IdxLdBuf(t)
    [] e = "SizeLd"      -> SizeLd(t)
    [] e = "CapLd"       -> CapLd(t)
    [] e = "NumBuf"      -> NumBuf(t)
    [] e = "GetBufLd"    -> GetBufLd(t)
    [] e = "SeqOp"       -> SeqOpN(t, NumCopyNotes(ev.r))
    [] OTHER             -> FALSE

SeqEq(a, b) == Len(a) = Len(b) /\ \A i \in 1 .. Len(a) : a[i] = b[i]

NewHeap == [ars |-> ars', tabs |-> tabs', tl |-> tabLive', bufs |-> bufs', bl |-> bufLive']

ArenaOK(o, a) ==
  LET r == ars'[a] IN
  /\ o.ex = (IF r.ex THEN 1 ELSE 0)
  /\ o.mv = (IF r.ex /\ r.mv THEN 1 ELSE 0)
  /\ (r.ex /\ ~r.mv) =>                      \* R6: a moved-from arena is not compared
       /\ o.lg = r.lg /\ o.pos = r.pos /\ o.alloc = r.alloc
       /\ o.tab = r.tab /\ o.cap = r.cap /\ o.npos = r.npos
       /\ SeqEq(o.ent, [k \in 1 .. r.npos |-> TabEntry(NewHeap, r.tab, k - 1)])
       /\ SeqEq(o.dl, r.dl)
       /\ SeqEq(o.c, Content(NewHeap, a))

ProjOK(ev) ==
  /\ \A a \in {"A", "B", "C"} : ArenaOK(ev.s.ar[a], a)
  /\ Len(ev.s.bl) = Cardinality(bufLive')
  /\ {ev.s.bl[i] : i \in 1 .. Len(ev.s.bl)} = bufLive'
  /\ \A i \in 1 .. Len(ev.s.bl) :
       /\ SeqEq(ev.s.bv[i], bufs'[ev.s.bl[i] + 1].v)
       /\ SeqEq(ev.s.bc[i], bufs'[ev.s.bl[i] + 1].c)
  /\ Len(ev.s.tl) = Cardinality(tabLive')
  /\ {ev.s.tl[i] : i \in 1 .. Len(ev.s.tl)} = tabLive'

Reported(t) == SubSeq(hist'[t], Len(hist[t]) + 1, Len(hist'[t]))
SameNotes(a, b) ==
  /\ Len(a) = Len(b)
  /\ \A i \in 1 .. Len(a) : a[i][1] = b[i][1] /\ a[i][2] = b[i][2] /\ a[i][3] = b[i][3]

TraceStep ==
  /\ l <= Len(TraceLog)
  /\ LET ev == TraceLog[l] IN
       \/ /\ ev.e = "Reset"
          /\ ResetTo(ev.prog)
       \/ /\ ev.e = "NextPhase"
          /\ NextPhase
       \/ /\ ev.e = "Destroy"
          /\ Destroy
          /\ ev.bufs = Cardinality(bufLive')
          /\ ev.tabs = Cardinality(tabLive')
       \/ /\ ev.e \notin {"Reset", "NextPhase", "Destroy"}
          /\ {"t", "r", "s"} \subseteq DOMAIN ev      \* (Diverged / Deadlock lines are not explained)
          /\ ev.t \in T
          /\ Dispatch(ev, ev.t)
          /\ ProjOK(ev)
          /\ SameNotes(ev.r, Reported(ev.t))
  /\ l' = l + 1

TraceSpec == TraceInit /\ [][TraceStep]_tvars

\* One state per consumed line (TraceInit consumes line 1); with WeakCas a step may have two
\* explanations for a while, the depth of the search is still the number of lines explained.
TraceAccepted ==
  LET d == TLCGet("stats").diameter IN
  IF d = Len(TraceLog) THEN TRUE
  ELSE /\ PrintT(<<"TRACE_REJECTED_AT_LINE", d + 1, "OF", Len(TraceLog)>>)
       /\ PrintT(<<"OFFENDING", TraceLog[d + 1]>>)
       /\ FALSE
=============================================================================
