CONSTANTS
  Threads = {"g1", "g2", "m"}
  Prog <- Prog_nb
  CopyToCapacity = FALSE
  WeakCas = FALSE
  FineLock = TRUE
  StoreFirst = FALSE
  MaxTabs = 1
  MaxCap = 2
  MaxBufs = 2
  MaxBS = 2
INIT HInit
NEXT HNext
CHECK_DEADLOCK FALSE
INVARIANTS OrdersComplete RaceFreeTab RaceFreeEl RaceFreeCap TypeOK ElementsConstructed CopiesEqual NoUninitRead AllocCovered LifetimeBalance
