------------------------------ MODULE MCArenaHB ------------------------------
EXTENDS ArenaHB
O(op, ar, src, x, y, z) == [op |-> op, ar |-> ar, src |-> src, x |-> x, y |-> y, z |-> z]
Grow(a, d) == O("grow", a, "", d, 0, 0)
Wr(a, g, off, v) == O("write", a, "", g, off, v)
Rd(a, g, off) == O("read", a, "", g, off, 0)
Wri(a, i, v) == O("writei", a, "", i, 0, v)
Rdi(a, i) == O("readi", a, "", i, 0, 0)
Size(a) == O("size", a, "", 0, 0, 0)
CapO(a) == O("cap", a, "", 0, 0, 0)
NumB(a) == O("numbuf", a, "", 0, 0, 0)
GetB(a, k) == O("getbuf", a, "", k, 0, 0)      \* T* getBuffer(index)
GetBc(a, k) == O("getbuf", a, "", k, 0, 1)     \* const T* getBuffer(index) const
BufSz(a, k) == O("bufsize", a, "", k, 0, 0)
New(a, mb, init) == O("new", a, "", mb, init, 0)
Copy(d, s) == O("copy", d, s, 0, 0, 0)
Move(d, s) == O("move", d, s, 0, 0, 0)
Assign(d, s) == O("assign", d, s, 0, 0, 0)
MAssign(d, s) == O("massign", d, s, 0, 0, 0)
Swap(a, b) == O("swap", a, b, 0, 0, 0)
Del(a) == O("del", a, "", 0, 0, 0)
\* ghost operations of ArenaHB
PubG(g) == O("pub", "", "", g, 0, 0)           \* publish the result of my g-th grow_by
AcqG(t, g) == O("acq", "", t, g, 0, 0)         \* learn the result of the g-th grow_by of thread t
SzIdxG(a, n) == O("szidx", a, "", n, 0, 0)      \* poll size() >= n, then use index n - 1 (outside the contract)
Ph(a, b, m) == [g1 |-> a, g2 |-> b, m |-> m]
N == <<>>

\* hb1 - buffer size 2.  The second buffer is entered IN PLACE into the published table; the only thing that orders
\* that entry before the lock-free grower's constructObjects (and before the reader that got the index handed over) is
\* allocatedSize_.store(release) -> allocatedSize_.load(acquire) (g1 always takes the mutex, g2 never; m reads the
\* element of g2 - possibly in the second buffer - after g2 handed its index over: m <- g2 <- g1).  size() / capacity()
\* observers; then copy construction, copy assignment (temporary + swap + destruction), destruction.
Prog_hb1 ==
  << Ph(N, N, <<New("A", 2, 0)>>),
     Ph(<<Grow("A", 2), Wr("A", 1, 0, 7), PubG(1)>>,
        <<Grow("A", 1), Wr("A", 1, 0, 5), PubG(1), Rd("A", 1, 0)>>,
        <<AcqG("g1", 1), Rd("A", 1, 0), Size("A"), AcqG("g2", 1), Rd("A", 2, 0), CapO("A")>>),
     Ph(N, N, <<Copy("B", "A"), Rdi("B", 0), Assign("A", "B"), Rdi("A", 2), Del("B")>>) >>

\* hb2 - buffer size 1, table capacity 2 -> 4 -> 8.  The table is doubled (memcpy + buffers_.store(release)) while
\* other threads use operator[] / getBuffer (both overloads) on elements that exist since the phase started and on
\* their own elements: buffers_.load(acquire) is what orders the copied entries.
Prog_hb2 ==
  << Ph(N, N, <<New("A", 1, 1)>>),
     Ph(<<Grow("A", 1), Grow("A", 2)>>,
        <<Rdi("A", 0), GetB("A", 0), GetBc("A", 1)>>,
        <<Grow("A", 1), Wr("A", 1, 0, 3)>>),
     Ph(N, N, <<Rdi("A", 2), BufSz("A", 0), Del("A")>>) >>

\* hb3 - buffer size 2.  grow_by(4) allocates two buffers in one critical section (in place, then doubling); a
\* lock-free grower that loaded allocatedSize_ BEFORE the doubling constructs AFTER it (its load of buffers_ in
\* constructObjects must be an acquire); hand-over from the lock-free grower; third grower; copy, swap, move.
Prog_hb3 ==
  << Ph(N, N, <<New("A", 2, 0)>>),
     Ph(<<Grow("A", 4)>>,
        <<Grow("A", 1), Wr("A", 1, 0, 9), PubG(1)>>,
        <<AcqG("g2", 1), Rd("A", 1, 0), Grow("A", 1)>>),
     Ph(N, N, <<Copy("B", "A"), Rdi("B", 0), Swap("A", "B"), Move("C", "A"), MAssign("B", "C"), Rdi("B", 1)>>) >>

\* nb - numBuffers() ("Concurrency safe") while another thread's grow_by allocates a buffer
Prog_nb ==
  << Ph(N, N, <<New("A", 2, 0)>>),
     Ph(<<Grow("A", 2)>>, <<Grow("A", 1), GetBc("A", 0)>>, <<NumB("A"), GetB("A", 0)>>) >>

\* size - a thread polls size() and then takes arena[size() - 1] (not promised by the header; see ArenaHB)
Prog_size ==
  << Ph(N, N, <<New("A", 2, 0)>>),
     Ph(<<Grow("A", 2)>>, <<Grow("A", 1)>>, <<SzIdxG("A", 3), Rd("A", 1, 0)>>) >>
=============================================================================
