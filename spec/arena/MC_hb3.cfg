CONSTANTS
  Threads = {"g1", "g2", "m"}
  Prog <- Prog_hb3
  CopyToCapacity = FALSE
  WeakCas = FALSE
  FineLock = TRUE
  StoreFirst = FALSE
  MaxTabs = 3
  MaxCap = 4
  MaxBufs = 8
  MaxBS = 2
INIT HInit
NEXT HNext
CHECK_DEADLOCK FALSE
INVARIANTS OrdersComplete RaceFree TypeOK ElementsConstructed CopiesEqual NoUninitRead AllocCovered LifetimeBalance
