CONSTANTS
  Threads = {"g1", "g2", "m"}
  Prog <- Prog_fine
  CopyToCapacity = FALSE
  WeakCas = FALSE
  FineLock = TRUE
  StoreFirst = TRUE
INIT Init
NEXT Next
CHECK_DEADLOCK FALSE
INVARIANTS TypeOK RangesExact ConstructedOnce ElementsConstructed StableRefs CopiesEqual NoUninitRead Bookkeeping AllocCovered NoLeakNoSharing LifetimeBalance BufSizesExact
