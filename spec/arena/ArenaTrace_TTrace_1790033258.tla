---- MODULE ArenaTrace_TTrace_1790033258 ----
EXTENDS ArenaTrace, Sequences, TLCExt, Toolbox, Naturals, TLC

_expression ==
    LET ArenaTrace_TEExpression == INSTANCE ArenaTrace_TEExpression
    IN ArenaTrace_TEExpression!expression
----

_trace ==
    LET ArenaTrace_TETrace == INSTANCE ArenaTrace_TETrace
    IN ArenaTrace_TETrace!trace
----

_inv ==
    ~(
        TLCGet("level") = Len(_TETrace)
        /\
        phase = (1)
        /\
        loc = ([m |-> [b |-> 0, old |-> 0, bstart |-> 0], g1 |-> [b |-> 0, old |-> 0, bstart |-> 0], g2 |-> [b |-> 0, old |-> 0, bstart |-> 0]])
        /\
        tabLive = ({})
        /\
        ars = ([A |-> [ex |-> FALSE, mv |-> FALSE, lg |-> 0, pos |-> 0, alloc |-> 0, tab |-> -1, cap |-> 0, npos |-> 0, dl |-> <<>>, rg |-> <<>>, rf |-> <<>>], B |-> [ex |-> FALSE, mv |-> FALSE, lg |-> 0, pos |-> 0, alloc |-> 0, tab |-> -1, cap |-> 0, npos |-> 0, dl |-> <<>>, rg |-> <<>>, rf |-> <<>>], C |-> [ex |-> FALSE, mv |-> FALSE, lg |-> 0, pos |-> 0, alloc |-> 0, tab |-> -1, cap |-> 0, npos |-> 0, dl |-> <<>>, rg |-> <<>>, rf |-> <<>>], tmp |-> [ex |-> FALSE, mv |-> FALSE, lg |-> 0, pos |-> 0, alloc |-> 0, tab |-> -1, cap |-> 0, npos |-> 0, dl |-> <<>>, rg |-> <<>>, rf |-> <<>>]])
        /\
        alive = (TRUE)
        /\
        copyBad = (FALSE)
        /\
        ip = ([m |-> 1, g1 |-> 1, g2 |-> 1])
        /\
        tabs = (<<>>)
        /\
        uninitRead = (FALSE)
        /\
        l = (3)
        /\
        prog = (<<[m |-> <<[ar |-> "A", x |-> 1, src |-> "", y |-> 0, op |-> "new", z |-> 0]>>, g1 |-> <<>>, g2 |-> <<>>], [m |-> <<>>, g1 |-> <<[ar |-> "A", x |-> 2, src |-> "", y |-> 0, op |-> "grow", z |-> 0], [ar |-> "A", x |-> 1, src |-> "", y |-> 1, op |-> "write", z |-> 11]>>, g2 |-> <<[ar |-> "A", x |-> 2, src |-> "", y |-> 0, op |-> "grow", z |-> 0], [ar |-> "A", x |-> 0, src |-> "", y |-> 0, op |-> "size", z |-> 0]>>], [m |-> <<[ar |-> "B", x |-> 0, src |-> "A", y |-> 0, op |-> "copy", z |-> 0], [ar |-> "B", x |-> 1, src |-> "", y |-> 0, op |-> "readi", z |-> 0], [ar |-> "A", x |-> 4, src |-> "", y |-> 0, op |-> "bufsize", z |-> 0], [ar |-> "C", x |-> 2, src |-> "", y |-> 1, op |-> "new", z |-> 0], [ar |-> "C", x |-> 0, src |-> "A", y |-> 0, op |-> "assign", z |-> 0], [ar |-> "A", x |-> 0, src |-> "B", y |-> 0, op |-> "swap", z |-> 0], [ar |-> "B", x |-> 0, src |-> "", y |-> 0, op |-> "del", z |-> 0], [ar |-> "B", x |-> 0, src |-> "C", y |-> 0, op |-> "move", z |-> 0], [ar |-> "A", x |-> 0, src |-> "B", y |-> 0, op |-> "massign", z |-> 0], [ar |-> "A", x |-> 3, src |-> "", y |-> 0, op |-> "readi", z |-> 0]>>, g1 |-> <<>>, g2 |-> <<>>]>>)
        /\
        bufs = (<<>>)
        /\
        hist = ([m |-> <<>>, g1 |-> <<>>, g2 |-> <<>>])
        /\
        pc = ([m |-> "SeqOp", g1 |-> "Done", g2 |-> "Done"])
        /\
        bufLive = ({})
        /\
        freeBad = (FALSE)
        /\
        ctorBad = (FALSE)
    )
----

_init ==
    /\ phase = _TETrace[1].phase
    /\ prog = _TETrace[1].prog
    /\ tabLive = _TETrace[1].tabLive
    /\ freeBad = _TETrace[1].freeBad
    /\ alive = _TETrace[1].alive
    /\ loc = _TETrace[1].loc
    /\ l = _TETrace[1].l
    /\ pc = _TETrace[1].pc
    /\ tabs = _TETrace[1].tabs
    /\ hist = _TETrace[1].hist
    /\ ctorBad = _TETrace[1].ctorBad
    /\ bufLive = _TETrace[1].bufLive
    /\ copyBad = _TETrace[1].copyBad
    /\ ip = _TETrace[1].ip
    /\ uninitRead = _TETrace[1].uninitRead
    /\ bufs = _TETrace[1].bufs
    /\ ars = _TETrace[1].ars
----

_next ==
    /\ \E i,j \in DOMAIN _TETrace:
        /\ \/ /\ j = i + 1
              /\ i = TLCGet("level")
        /\ phase  = _TETrace[i].phase
        /\ phase' = _TETrace[j].phase
        /\ prog  = _TETrace[i].prog
        /\ prog' = _TETrace[j].prog
        /\ tabLive  = _TETrace[i].tabLive
        /\ tabLive' = _TETrace[j].tabLive
        /\ freeBad  = _TETrace[i].freeBad
        /\ freeBad' = _TETrace[j].freeBad
        /\ alive  = _TETrace[i].alive
        /\ alive' = _TETrace[j].alive
        /\ loc  = _TETrace[i].loc
        /\ loc' = _TETrace[j].loc
        /\ l  = _TETrace[i].l
        /\ l' = _TETrace[j].l
        /\ pc  = _TETrace[i].pc
        /\ pc' = _TETrace[j].pc
        /\ tabs  = _TETrace[i].tabs
        /\ tabs' = _TETrace[j].tabs
        /\ hist  = _TETrace[i].hist
        /\ hist' = _TETrace[j].hist
        /\ ctorBad  = _TETrace[i].ctorBad
        /\ ctorBad' = _TETrace[j].ctorBad
        /\ bufLive  = _TETrace[i].bufLive
        /\ bufLive' = _TETrace[j].bufLive
        /\ copyBad  = _TETrace[i].copyBad
        /\ copyBad' = _TETrace[j].copyBad
        /\ ip  = _TETrace[i].ip
        /\ ip' = _TETrace[j].ip
        /\ uninitRead  = _TETrace[i].uninitRead
        /\ uninitRead' = _TETrace[j].uninitRead
        /\ bufs  = _TETrace[i].bufs
        /\ bufs' = _TETrace[j].bufs
        /\ ars  = _TETrace[i].ars
        /\ ars' = _TETrace[j].ars

\* Uncomment the ASSUME below to write the states of the error trace
\* to the given file in Json format. Note that you can pass any tuple
\* to `JsonSerialize`. For example, a sub-sequence of _TETrace.
    \* ASSUME
    \*     LET J == INSTANCE Json
    \*         IN J!JsonSerialize("ArenaTrace_TTrace_1790033258.json", _TETrace)

=============================================================================

 Note that you can extract this module `ArenaTrace_TEExpression`
  to a dedicated file to reuse `expression` (the module in the 
  dedicated `ArenaTrace_TEExpression.tla` file takes precedence 
  over the module `ArenaTrace_TEExpression` below).

---- MODULE ArenaTrace_TEExpression ----
EXTENDS ArenaTrace, Sequences, TLCExt, Toolbox, Naturals, TLC

expression == 
    [
        \* To hide variables of the `ArenaTrace` spec from the error trace,
        \* remove the variables below.  The trace will be written in the order
        \* of the fields of this record.
        phase |-> phase
        ,prog |-> prog
        ,tabLive |-> tabLive
        ,freeBad |-> freeBad
        ,alive |-> alive
        ,loc |-> loc
        ,l |-> l
        ,pc |-> pc
        ,tabs |-> tabs
        ,hist |-> hist
        ,ctorBad |-> ctorBad
        ,bufLive |-> bufLive
        ,copyBad |-> copyBad
        ,ip |-> ip
        ,uninitRead |-> uninitRead
        ,bufs |-> bufs
        ,ars |-> ars
        
        \* Put additional constant-, state-, and action-level expressions here:
        \* ,_stateNumber |-> _TEPosition
        \* ,_phaseUnchanged |-> phase = phase'
        
        \* Format the `phase` variable as Json value.
        \* ,_phaseJson |->
        \*     LET J == INSTANCE Json
        \*     IN J!ToJson(phase)
        
        \* Lastly, you may build expressions over arbitrary sets of states by
        \* leveraging the _TETrace operator.  For example, this is how to
        \* count the number of times a spec variable changed up to the current
        \* state in the trace.
        \* ,_phaseModCount |->
        \*     LET F[s \in DOMAIN _TETrace] ==
        \*         IF s = 1 THEN 0
        \*         ELSE IF _TETrace[s].phase # _TETrace[s-1].phase
        \*             THEN 1 + F[s-1] ELSE F[s-1]
        \*     IN F[_TEPosition - 1]
    ]

=============================================================================



Parsing and semantic processing can take forever if the trace below is long.
 In this case, it is advised to uncomment the module below to deserialize the
 trace from a generated binary file.

\*
\*---- MODULE ArenaTrace_TETrace ----
\*EXTENDS ArenaTrace, IOUtils, TLC
\*
\*trace == IODeserialize("ArenaTrace_TTrace_1790033258.bin", TRUE)
\*
\*=============================================================================
\*

---- MODULE ArenaTrace_TETrace ----
EXTENDS ArenaTrace, TLC

trace == 
    <<
    ([phase |-> 1,loc |-> [m |-> [b |-> 0, old |-> 0, bstart |-> 0], g1 |-> [b |-> 0, old |-> 0, bstart |-> 0], g2 |-> [b |-> 0, old |-> 0, bstart |-> 0]],tabLive |-> {},ars |-> [A |-> [ex |-> FALSE, mv |-> FALSE, lg |-> 0, pos |-> 0, alloc |-> 0, tab |-> -1, cap |-> 0, npos |-> 0, dl |-> <<>>, rg |-> <<>>, rf |-> <<>>], B |-> [ex |-> FALSE, mv |-> FALSE, lg |-> 0, pos |-> 0, alloc |-> 0, tab |-> -1, cap |-> 0, npos |-> 0, dl |-> <<>>, rg |-> <<>>, rf |-> <<>>], C |-> [ex |-> FALSE, mv |-> FALSE, lg |-> 0, pos |-> 0, alloc |-> 0, tab |-> -1, cap |-> 0, npos |-> 0, dl |-> <<>>, rg |-> <<>>, rf |-> <<>>], tmp |-> [ex |-> FALSE, mv |-> FALSE, lg |-> 0, pos |-> 0, alloc |-> 0, tab |-> -1, cap |-> 0, npos |-> 0, dl |-> <<>>, rg |-> <<>>, rf |-> <<>>]],alive |-> TRUE,copyBad |-> FALSE,ip |-> [m |-> 1, g1 |-> 1, g2 |-> 1],tabs |-> <<>>,uninitRead |-> FALSE,l |-> 2,prog |-> <<[m |-> <<[ar |-> "A", x |-> 1, src |-> "", y |-> 0, op |-> "new", z |-> 0]>>, g1 |-> <<>>, g2 |-> <<>>], [m |-> <<>>, g1 |-> <<[ar |-> "A", x |-> 2, src |-> "", y |-> 0, op |-> "grow", z |-> 0], [ar |-> "A", x |-> 1, src |-> "", y |-> 1, op |-> "write", z |-> 11]>>, g2 |-> <<[ar |-> "A", x |-> 2, src |-> "", y |-> 0, op |-> "grow", z |-> 0], [ar |-> "A", x |-> 0, src |-> "", y |-> 0, op |-> "size", z |-> 0]>>], [m |-> <<[ar |-> "B", x |-> 0, src |-> "A", y |-> 0, op |-> "copy", z |-> 0], [ar |-> "B", x |-> 1, src |-> "", y |-> 0, op |-> "readi", z |-> 0], [ar |-> "A", x |-> 4, src |-> "", y |-> 0, op |-> "bufsize", z |-> 0], [ar |-> "C", x |-> 2, src |-> "", y |-> 1, op |-> "new", z |-> 0], [ar |-> "C", x |-> 0, src |-> "A", y |-> 0, op |-> "assign", z |-> 0], [ar |-> "A", x |-> 0, src |-> "B", y |-> 0, op |-> "swap", z |-> 0], [ar |-> "B", x |-> 0, src |-> "", y |-> 0, op |-> "del", z |-> 0], [ar |-> "B", x |-> 0, src |-> "C", y |-> 0, op |-> "move", z |-> 0], [ar |-> "A", x |-> 0, src |-> "B", y |-> 0, op |-> "massign", z |-> 0], [ar |-> "A", x |-> 3, src |-> "", y |-> 0, op |-> "readi", z |-> 0]>>, g1 |-> <<>>, g2 |-> <<>>]>>,bufs |-> <<>>,hist |-> [m |-> <<>>, g1 |-> <<>>, g2 |-> <<>>],pc |-> [m |-> "Start", g1 |-> "Done", g2 |-> "Done"],bufLive |-> {},freeBad |-> FALSE,ctorBad |-> FALSE]),
    ([phase |-> 1,loc |-> [m |-> [b |-> 0, old |-> 0, bstart |-> 0], g1 |-> [b |-> 0, old |-> 0, bstart |-> 0], g2 |-> [b |-> 0, old |-> 0, bstart |-> 0]],tabLive |-> {},ars |-> [A |-> [ex |-> FALSE, mv |-> FALSE, lg |-> 0, pos |-> 0, alloc |-> 0, tab |-> -1, cap |-> 0, npos |-> 0, dl |-> <<>>, rg |-> <<>>, rf |-> <<>>], B |-> [ex |-> FALSE, mv |-> FALSE, lg |-> 0, pos |-> 0, alloc |-> 0, tab |-> -1, cap |-> 0, npos |-> 0, dl |-> <<>>, rg |-> <<>>, rf |-> <<>>], C |-> [ex |-> FALSE, mv |-> FALSE, lg |-> 0, pos |-> 0, alloc |-> 0, tab |-> -1, cap |-> 0, npos |-> 0, dl |-> <<>>, rg |-> <<>>, rf |-> <<>>], tmp |-> [ex |-> FALSE, mv |-> FALSE, lg |-> 0, pos |-> 0, alloc |-> 0, tab |-> -1, cap |-> 0, npos |-> 0, dl |-> <<>>, rg |-> <<>>, rf |-> <<>>]],alive |-> TRUE,copyBad |-> FALSE,ip |-> [m |-> 1, g1 |-> 1, g2 |-> 1],tabs |-> <<>>,uninitRead |-> FALSE,l |-> 3,prog |-> <<[m |-> <<[ar |-> "A", x |-> 1, src |-> "", y |-> 0, op |-> "new", z |-> 0]>>, g1 |-> <<>>, g2 |-> <<>>], [m |-> <<>>, g1 |-> <<[ar |-> "A", x |-> 2, src |-> "", y |-> 0, op |-> "grow", z |-> 0], [ar |-> "A", x |-> 1, src |-> "", y |-> 1, op |-> "write", z |-> 11]>>, g2 |-> <<[ar |-> "A", x |-> 2, src |-> "", y |-> 0, op |-> "grow", z |-> 0], [ar |-> "A", x |-> 0, src |-> "", y |-> 0, op |-> "size", z |-> 0]>>], [m |-> <<[ar |-> "B", x |-> 0, src |-> "A", y |-> 0, op |-> "copy", z |-> 0], [ar |-> "B", x |-> 1, src |-> "", y |-> 0, op |-> "readi", z |-> 0], [ar |-> "A", x |-> 4, src |-> "", y |-> 0, op |-> "bufsize", z |-> 0], [ar |-> "C", x |-> 2, src |-> "", y |-> 1, op |-> "new", z |-> 0], [ar |-> "C", x |-> 0, src |-> "A", y |-> 0, op |-> "assign", z |-> 0], [ar |-> "A", x |-> 0, src |-> "B", y |-> 0, op |-> "swap", z |-> 0], [ar |-> "B", x |-> 0, src |-> "", y |-> 0, op |-> "del", z |-> 0], [ar |-> "B", x |-> 0, src |-> "C", y |-> 0, op |-> "move", z |-> 0], [ar |-> "A", x |-> 0, src |-> "B", y |-> 0, op |-> "massign", z |-> 0], [ar |-> "A", x |-> 3, src |-> "", y |-> 0, op |-> "readi", z |-> 0]>>, g1 |-> <<>>, g2 |-> <<>>]>>,bufs |-> <<>>,hist |-> [m |-> <<>>, g1 |-> <<>>, g2 |-> <<>>],pc |-> [m |-> "SeqOp", g1 |-> "Done", g2 |-> "Done"],bufLive |-> {},freeBad |-> FALSE,ctorBad |-> FALSE])
    >>
----


=============================================================================

---- CONFIG ArenaTrace_TTrace_1790033258 ----
CONSTANTS
    Threads = { }
    Prog = 0
    CopyToCapacity = FALSE
    WeakCas = TRUE

INVARIANT
    _inv

CHECK_DEADLOCK
    \* CHECK_DEADLOCK off because of PROPERTY or INVARIANT above.
    FALSE

INIT
    _init

NEXT
    _next

CONSTANT
    _TETrace <- _trace

ALIAS
    _expression
=============================================================================
\* Generated on Mon Sep 21 23:27:54 UTC 2026