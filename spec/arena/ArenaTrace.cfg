CONSTANTS
  Threads = {}
  Prog = 0
  CopyToCapacity = FALSE
  WeakCas = TRUE
  FineLock = FALSE
  StoreFirst = FALSE
SPECIFICATION TraceSpec
CHECK_DEADLOCK FALSE
POSTCONDITION TraceAccepted
INVARIANTS RangesExact ConstructedOnce ElementsConstructed StableRefs CopiesEqual NoUninitRead Bookkeeping AllocCovered NoLeakNoSharing LifetimeBalance BufSizesExact
