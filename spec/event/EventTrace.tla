----------------------------- MODULE EventTrace -----------------------------
(* Trace validation for Event.tla: every line of the ndjson trace recorded from the *)
(* real CompletionEvent / Latch under the controlled scheduler (modelled futex) must *)
(* be explained by the specification action of the same name taken by the same       *)
(* thread; the projected status word, the values noted during the step (futex        *)
(* outcome, result of a completed call), the set of waiters a FUTEX_WAKE woke and the *)
(* timespec of an expired timed wait must equal the specification's.  All invariants *)
(* of Event.tla are evaluated in every state of the validated behaviour.             *)
(*                                                                                    *)
(* {"e":"Deadlock"} (the controller found nothing runnable) is accepted only if the   *)
(* specification agrees that nothing is runnable; if the object is completed in that  *)
(* state the invariant NoLostWakeup reports the lost wake-up (C21).                   *)
EXTENDS Event, Json, IOUtils

TraceLog == ndJsonDeserialize(IOEnv.TRACE)

VARIABLE l   \* next line to consume

tvars == <<vars, l>>

TraceInit ==
  /\ l = 2
  /\ TraceLog[1].e = "Reset"
  /\ InitWith(0, TraceLog[1].kind, TraceLog[1].init, TraceLog[1].tgt, TraceLog[1].prog)

ResetTo(k, c, g, p) ==
  /\ scen' = 0 /\ kind' = k /\ init' = c /\ tgt' = g /\ prog' = p
  /\ status' = c
  /\ pc' = [t \in DOMAIN p |-> "Start"]
  /\ ip' = [t \in DOMAIN p |-> 1]
  /\ loc' = [t \in DOMAIN p |-> EmptyLoc]
  /\ wr' = [t \in DOMAIN p |-> 0]
  /\ now' = 0
  /\ hist' = [t \in DOMAIN p |-> <<>>]
  /\ decr' = 0
  /\ done' = (c = g)
  /\ earlyReady' = FALSE /\ earlyTimeout' = FALSE /\ shortTs' = FALSE

SeqToSet(s) == {s[i] : i \in 1 .. Len(s)}

Dispatch(ev) ==
  LET e == ev.e
      t == ev.t
  IN CASE e = "Start"       -> Start(t)
       [] e = "CeNotifySt"  -> CeNotifySt(t)
       [] e = "FutexWake"   -> "w" \in DOMAIN ev /\ FutexWake(t, SeqToSet(ev.w))
       [] e = "CeWaitLd"    -> CeWaitLd(t)
       [] e = "FutexWait"   -> FutexWait(t)
       [] e = "FutexRet"    -> FutexRet(t)
       [] e = "CeWfLd0"     -> CeWfLd0(t)
       [] e = "CeWfLd"      -> CeWfLd(t)
       [] e = "CeWuLd"      -> CeWuLd(t)
       [] e = "EvCompleted" -> EvCompleted(t)
       [] e = "EvReset"     -> EvReset(t)
       [] e = "LtCdSub"     -> LtCdSub(t)
       [] e = "LtTryLd"     -> LtTryLd(t)
       [] e = "LtAwSub"     -> LtAwSub(t)
       [] OTHER             -> FALSE

\* values the modelled futex notes during the step (before the result of a completed call)
FutexNote(ev) ==
  CASE ev.e = "FutexWait" -> <<FutexWaitNote(ev.t)>>
    [] ev.e = "FutexRet"  -> <<wr[ev.t]>>
    [] OTHER              -> <<>>

\* projected shared state: the status word and the futex wait queue (names of the sleeping threads)
ProjOK(ev) ==
  /\ status' = ev.s.status
  /\ {u \in T : pc'[u] = "FutexBlocked"} = SeqToSet(ev.s.q)

EnvEvents  == {"FutexTimeout", "FutexSpurious"}
MetaEvents == {"Reset", "End", "Deadlock"}

TraceStep ==
  /\ l <= Len(TraceLog)
  /\ LET ev == TraceLog[l] IN
       \/ /\ ev.e = "Reset"
          /\ ResetTo(ev.kind, ev.init, ev.tgt, ev.prog)
       \/ /\ ev.e = "End"                       \* the real program ran to completion
          /\ AllDone
          /\ ev.status = status
          /\ UNCHANGED vars
       \/ /\ ev.e = "Deadlock"                  \* the controller found no runnable thread
          /\ Quiescent /\ ~AllDone
          /\ UNCHANGED vars
          /\ ProjOK(ev)
       \/ /\ ev.e = "FutexTimeout"
          /\ ev.t \in T
          /\ FutexTimeoutUs(ev.t, ev.us)
          /\ ProjOK(ev)
       \/ /\ ev.e = "FutexSpurious"
          /\ FutexSpurious(ev.t)
          /\ ProjOK(ev)
       \/ /\ ev.e \notin (EnvEvents \cup MetaEvents)
          /\ {"t", "r", "s"} \subseteq DOMAIN ev
          /\ ev.t \in T
          /\ Dispatch(ev)
          /\ ProjOK(ev)
          /\ ev.r = FutexNote(ev) \o (IF ip'[ev.t] > ip[ev.t] THEN <<hist'[ev.t][Len(hist'[ev.t])]>> ELSE <<>>)
  /\ l' = l + 1

TraceSpec == TraceInit /\ [][TraceStep]_tvars

\* One state per consumed line (TraceInit consumes line 1).
TraceAccepted ==
  LET d == TLCGet("stats").diameter IN
  IF d = Len(TraceLog) THEN TRUE
  ELSE /\ PrintT(<<"TRACE_REJECTED_AT_LINE", d + 1, "OF", Len(TraceLog)>>)
       /\ PrintT(<<"OFFENDING", TraceLog[d + 1]>>)
       /\ FALSE
==========================================================================
