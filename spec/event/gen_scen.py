#!/usr/bin/env python3
"""Generates the scenario files of spec/event (single source for TLC and for drv_event).

  scen_cover_c21.ndjson   cover configuration for C21 (wait / notify / latch; spurious wake-ups on)
  scen_cover_c20.ndjson   cover configuration for C20 (timed waits; time-outs and spurious wake-ups on)
  scen_live.ndjson        the exhaustive family for the progress property: latch counts 1..3,
                          every way to reach zero with count_down(n) (n in 1..3) / arrive_and_wait
                          calls spread over threads or issued by one thread, 1-2 waiters; events with
                          1-2 waiters
  scen_live_quick.ndjson  the members of that family with at most three threads (quick tier)
  scen_bug.ndjson         the smallest program on which dispenso's original count_down(n) loses a wake-up
  scen_stuck.ndjson       a program that legitimately never completes (count never reaches zero)

One scenario per line: {"kind","init","tgt","prog":{thread:[{"op","n","us","clk","tol"},...]}}.
All programs respect the documented contracts (R1): one publisher per event, reset only when nobody else
uses the event, decrements never exceed the latch count.
The files are committed; re-run this script only when the families change.
"""
import itertools
import json
import os

HERE = os.path.dirname(os.path.abspath(__file__))


def op(name, n=0, us=0, clk=0, tol=None):
    if tol is None:
        # waitFor receives a double number of seconds; the timespec is exact when us/1e6 is a dyadic
        # rational with few bits (multiples of 15625 us = 1/64 s), otherwise truncation to whole
        # nanoseconds may lose 1 ns, i.e. the logged microseconds may be 1 short.
        rel = us - clk
        tol = 0 if rel % 15625 == 0 else 1
    return {"op": name, "n": n, "us": us, "clk": clk, "tol": tol}


def ev(prog):
    return {"kind": "event", "init": 0, "tgt": 1, "prog": prog}


def latch(count, prog):
    return {"kind": "latch", "init": count, "tgt": 0, "prog": prog}


def write(name, scens):
    with open(os.path.join(HERE, name), 'w') as f:
        for s in scens:
            f.write(json.dumps(s, separators=(',', ':')) + '\n')
    print(name, len(scens))


W, N, CD, AW, TW = op("wait"), op("notify"), (lambda n: op("cd", n=n)), op("aw"), op("trywait")
CP, RS = op("completed"), op("reset")


def wf(us):
    return op("waitfor", us=us)


def wu(abs_, clk):
    return op("waituntil", us=abs_, clk=clk)


cover_c21 = [
    ev({"d1": [N], "w1": [W], "w2": [W]}),
    ev({"d1": [N, CP], "w1": [CP, W]}),
    ev({"d1": [N, W, CP, RS, CP, N, N, W]}),
    latch(1, {"d1": [CD(1)], "w1": [W], "w2": [TW, W]}),
    latch(2, {"d1": [CD(2)], "w1": [W], "w2": [W]}),
    latch(3, {"d1": [CD(3)], "w1": [W]}),
    latch(3, {"d1": [CD(1)], "d2": [CD(2)], "w1": [W]}),
    latch(3, {"d1": [CD(2), CD(1)], "w1": [W], "w2": [TW]}),
    latch(2, {"d1": [AW], "d2": [AW]}),
    latch(3, {"d1": [AW], "d2": [CD(2)], "w1": [TW, W]}),
    latch(2, {"d1": [AW], "d2": [CD(1)], "w1": [W]}),
    latch(1, {"d1": [CD(0), CD(1)], "w1": [W]}),
]

cover_c20 = [
    ev({"d1": [N], "w1": [wf(1500000)]}),
    ev({"d1": [N], "w1": [wu(2000000, 500000)], "w2": [W]}),
    ev({"d1": [wf(0), wf(-5), wu(100, 100), wu(50, 100), wf(65), N, wf(0), wu(50, 100), wf(100)]}),
    ev({"w1": [wf(15625)], "w2": [wf(31250), CP]}),
    ev({"d1": [N], "w1": [wf(300), CP]}),
    ev({"d1": [N], "w1": [wu(1000700, 1000000)], "w2": [wf(2000000000)]}),
]


def compositions(c):
    if c == 0:
        yield ()
        return
    for first in range(1, c + 1):
        for rest in compositions(c - first):
            yield (first,) + rest


live = []
for nw in (1, 2):
    waiters = {"w%d" % (i + 1): [W] for i in range(nw)}
    live.append(ev(dict({"d1": [N]}, **waiters)))
    for count in (1, 2, 3):
        for parts in compositions(count):
            ones = [i for i, p in enumerate(parts) if p == 1]
            # every subset of the 1-decrements is done by arrive_and_wait instead of count_down(1)
            for k in range(len(ones) + 1):
                for aws in itertools.combinations(ones, k):
                    prog = dict(waiters)
                    for i, p in enumerate(parts):
                        prog["d%d" % (i + 1)] = [AW] if i in aws else [CD(p)]
                    live.append(latch(count, prog))
            # all decrements issued by one thread, in sequence
            if len(parts) > 1:
                live.append(latch(count, dict({"d1": [CD(p) for p in parts]}, **waiters)))
# a waiter that first polls, and an arriver mixed with a big count_down
live.append(latch(3, {"d1": [AW], "d2": [CD(2)], "w1": [TW, W]}))
live.append(latch(3, {"d1": [AW], "d2": [AW], "d3": [CD(1)], "w1": [W]}))

# quick tier: the members of the family with at most three threads (still counts 1..3, count_down(1..3),
# arrive_and_wait, 1-2 waiters)
live_quick = [s for s in live if len(s["prog"]) <= 3]

bug = [latch(2, {"d1": [CD(2)], "w1": [W]})]
stuck = [latch(2, {"d1": [CD(1)], "w1": [W]})]

if __name__ == '__main__':
    write('scen_cover_c21.ndjson', cover_c21)
    write('scen_cover_c20.ndjson', cover_c20)
    write('scen_live.ndjson', live)
    write('scen_live_quick.ndjson', live_quick)
    write('scen_bug.ndjson', bug)
    write('scen_stuck.ndjson', stuck)
    names = set()
    for s in cover_c21 + cover_c20 + live + bug + stuck:
        names |= set(s["prog"])
    print('Threads = {' + ', '.join('"%s"' % n for n in sorted(names)) + '}')
