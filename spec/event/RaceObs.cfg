SPECIFICATION ObsSpec
CHECK_DEADLOCK FALSE
INVARIANTS NoLostWakeupObs
POSTCONDITION ObsAccepted
