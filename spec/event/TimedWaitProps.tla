--------------------------- MODULE TimedWaitProps ---------------------------
(* The two judgements of property C20 ("timed waits: ready means done, timeout      *)
(* means time elapsed"), shared by                                                  *)
(*   - Event.tla        (model level: logical clock, ghost completion flag),        *)
(*   - TimedObs.tla     (E5: real-time observation records of free-running code),   *)
(*   - any other timed wait built on CompletionEventImpl (Future::wait_for/until).  *)
(* All times are integers in one unit (microseconds in this project).               *)
EXTENDS Integers

\* a timed wait that was asked to wait `req` (may be <= 0) may report "timeout" only when at least
\* `req` has elapsed since the call started; `res` = resolution of the elapsed-time measurement
TimeoutLegal(req, elapsed, res) == elapsed + res >= req

\* a wait may report "ready" only when the completion has really happened
ReadyLegal(completed) == completed
==========================================================================
