------------------------------ MODULE RaceObs ------------------------------
(* E5 record validator for C21: each line is one free-running round in which a waiter   *)
(* (CompletionEvent::wait / Latch::wait / Latch::arrive_and_wait) raced the call that   *)
(* completes the object (notify / the last count_down), truly concurrently on the real   *)
(* futex:  {"e":"Race","kind":..,"round":r,"returned":0|1,"done":0|1}.                   *)
(* NoLostWakeupObs is NoLostWakeup of Event.tla at observation level: once the          *)
(* completing call has returned, the object reports completion and every waiter that    *)
(* had entered its wait comes back (returned = 1; the driver gives it a grace period of *)
(* 10 s of wall-clock time before it writes returned = 0).                               *)
EXTENDS Integers, Sequences, TLC, Json, IOUtils

ObsLog == ndJsonDeserialize(IOEnv.TRACE)
VARIABLE l
ObsInit == l = 1
ObsNext == l <= Len(ObsLog) /\ l' = l + 1
ObsSpec == ObsInit /\ [][ObsNext]_l

RecOK(rec) == rec.e = "Race" => (rec.done = 1 /\ rec.returned = 1)
NoLostWakeupObs == l > Len(ObsLog) \/ RecOK(ObsLog[l])

ObsAccepted ==
  LET d == TLCGet("stats").diameter IN
  IF d = Len(ObsLog) + 1 THEN TRUE
  ELSE /\ PrintT(<<"TRACE_REJECTED_AT_LINE", d, "OF", Len(ObsLog)>>)
       /\ FALSE
=============================================================================
