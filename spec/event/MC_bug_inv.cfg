CONSTANTS
  Threads = {"d1", "d2", "d3", "w1", "w2"}
  Scenarios <- BugScen
  LatchFix = FALSE
  AllowTimeout = FALSE
  AllowSpurious = FALSE
INIT Init
NEXT Next
CHECK_DEADLOCK FALSE
INVARIANTS TypeOK NeverEarly WordOK ResultsOK NoLostWakeup
