CONSTANTS
  Threads = {"d1", "d2", "w1", "w2"}
  Scenarios <- HbScen
  LatchFix = TRUE
  AllowTimeout = TRUE
  AllowSpurious = FALSE
INIT HInit
NEXT HNext
CHECK_DEADLOCK FALSE
INVARIANTS RaceFree OrdersComplete NeverEarly
