CONSTANTS
  Threads = {}
  Scenarios = 0
  LatchFix = TRUE
  AllowTimeout = TRUE
  AllowSpurious = TRUE
SPECIFICATION TraceSpec
CHECK_DEADLOCK FALSE
POSTCONDITION TraceAccepted
INVARIANTS NeverEarly TimeoutAfterElapsed TimespecCoversRemaining NoLostWakeup WakeOwed WordOK ResultsOK
