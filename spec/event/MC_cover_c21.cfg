CONSTANTS
  Threads = {"d1", "d2", "d3", "w1", "w2"}
  Scenarios <- CoverC21
  LatchFix = TRUE
  AllowTimeout = TRUE
  AllowSpurious = TRUE
INIT Init
NEXT Next
CHECK_DEADLOCK FALSE
INVARIANTS TypeOK NeverEarly TimeoutAfterElapsed TimespecCoversRemaining NoLostWakeup WakeOwed WordOK ResultsOK RunnableIsEnabled
