------------------------------- MODULE Event -------------------------------
(* Implementation-level specification of the Linux (futex) CompletionEventImpl    *)
(* (dispenso/detail/completion_event_impl.h) and of its two public wrappers,        *)
(* dispenso::CompletionEvent (completion_event.h) and dispenso::Latch (latch.h).    *)
(*                                                                                  *)
(* One action per atomic access / futex call of the code; the action name is the    *)
(* DISPENSO_VERIF_POINT site placed immediately before that access (FutexWait,      *)
(* FutexWake, FutexRet, FutexTimeout, FutexSpurious are the sites / environment     *)
(* events of the modelled futex of harness/ctl).  Failure / early exits are folded  *)
(* into the deciding step.                                                          *)
(*                                                                                  *)
(* One object per behaviour: kind = "event" (status 0, completed status tgt = 1) or *)
(* kind = "latch" (status = the count, completed status tgt = 0).  `tgt` is a       *)
(* variable so that other users of CompletionEventImpl (futures: tgt = kReady) can  *)
(* re-use the wait / timed-wait / notify actions unchanged.                         *)
(*                                                                                  *)
(* Threads run programs: sequences of op records [op, n, us, clk, tol]              *)
(*   event:  "notify" | "wait" | "completed" | "reset"                              *)
(*           "waitfor"   us = requested relative time in microseconds (may be <= 0) *)
(*           "waituntil" us = absolute deadline, clk = what Clock::now() reads when *)
(*                       waitUntil samples it (both in microseconds of that clock)  *)
(*   latch:  "cd" n (count_down(n)) | "trywait" | "wait" | "aw" (arrive_and_wait)   *)
(*   tol = measurement resolution of the logged timespec in microseconds (0 when    *)
(*         the request is exactly representable as a double number of seconds)      *)
(*                                                                                  *)
(* Time: `now` is a logical clock in microseconds.  The trace carries no time, so   *)
(* the clock is the LEAST time consistent with what happened: it only moves when a  *)
(* timed futex wait expires (to the wait's start + the timespec handed to the       *)
(* kernel).  C20 is judged against that clock.                                      *)
EXTENDS Integers, Sequences, FiniteSets, TLC, TimedWaitProps

CONSTANTS Threads,        \* superset of the thread names of all scenarios (strings)
          Scenarios,      \* sequence of [kind, init, tgt, prog] records
          LatchFix,       \* TRUE: count_down(n) notifies when the previous count = n (repaired code)
                          \* FALSE: when the previous count = 1 (dispenso before the fix)
          AllowTimeout,   \* may the environment expire timed futex waits
          AllowSpurious   \* may the environment return spuriously from futex waits

VARIABLES
  scen,                   \* index of the scenario (0 in validated traces)
  kind, init, tgt, prog,  \* configuration (variables so that a trace can re-initialise them)
  status,                 \* the status word == the futex word
  pc, ip, loc,            \* per thread: program counter, index of current op, locals
  wr,                     \* per thread: reason delivered to a resumed futex waiter (1 woken 2 timeout 3 spurious)
  now,                    \* logical clock, microseconds
  hist,                   \* ghost: per thread, results of the completed ops
  decr,                   \* ghost: sum of the decrements applied to a latch
  done,                   \* ghost: the completion really happened (event: notify's store, not reset since;
                          \*        latch: decrements sum up to the initial count)
  earlyReady,             \* ghost: some wait / timed wait / try_wait reported "ready" while ~done
  earlyTimeout,           \* ghost: some timed wait reported "timeout" before the requested time had elapsed
  shortTs                 \* ghost: a timespec handed to the futex was shorter than the remaining time

cfgv   == <<scen, kind, init, tgt, prog>>
ghost  == <<hist, decr, done, earlyReady, earlyTimeout, shortTs>>
vars   == <<scen, kind, init, tgt, prog, status, pc, ip, loc, wr, now,
            hist, decr, done, earlyReady, earlyTimeout, shortTs>>

T == DOMAIN prog
Max(a, b) == IF a >= b THEN a ELSE b

FirstPcOf(o) ==
  CASE o.op = "notify"    -> "CeNotifySt"
    [] o.op = "wait"      -> "CeWaitLd"
    [] o.op = "completed" -> "EvCompleted"
    [] o.op = "reset"     -> "EvReset"
    [] o.op = "waitfor"   -> "CeWfLd0"
    [] o.op = "waituntil" -> "CeWuLd"
    [] o.op = "cd"        -> "LtCdSub"
    [] o.op = "trywait"   -> "LtTryLd"
    [] o.op = "aw"        -> "LtAwSub"

FirstPc(t, i) == IF i > Len(prog[t]) THEN "Done" ELSE FirstPcOf(prog[t][i])
Op(t) == prog[t][ip[t]]

\* cur: value loaded before the futex wait; req/t0: requested relative time and clock at the start of a
\* timed wait; ts: timespec computed from req; ws: clock when the futex wait began; timed: 1 for waitFor's
\* futex wait; back: the load the loop returns to after the futex call
EmptyLoc == [cur |-> 0, req |-> 0, t0 |-> 0, ts |-> 0, ws |-> 0, timed |-> 0, back |-> ""]

InitWith(i, k, c, g, p) ==
  /\ scen = i /\ kind = k /\ init = c /\ tgt = g /\ prog = p
  /\ status = c
  /\ pc = [t \in DOMAIN p |-> "Start"]
  /\ ip = [t \in DOMAIN p |-> 1]
  /\ loc = [t \in DOMAIN p |-> EmptyLoc]
  /\ wr = [t \in DOMAIN p |-> 0]
  /\ now = 0
  /\ hist = [t \in DOMAIN p |-> <<>>]
  /\ decr = 0
  /\ done = (c = g)
  /\ earlyReady = FALSE /\ earlyTimeout = FALSE /\ shortTs = FALSE

Init == \E i \in 1 .. Len(Scenarios) :
          InitWith(i, Scenarios[i].kind, Scenarios[i].init, Scenarios[i].tgt, Scenarios[i].prog)

\* ---------------------------------------------------------------- bookkeeping helpers
Goto(t, l) == pc' = [pc EXCEPT ![t] = l]

\* complete the current op of t with result r (locals die with the call)
Finish(t, r) ==
  /\ hist' = [hist EXCEPT ![t] = Append(@, r)]
  /\ ip' = [ip EXCEPT ![t] = @ + 1]
  /\ loc' = [loc EXCEPT ![t] = EmptyLoc]
  /\ Goto(t, FirstPc(t, ip[t] + 1))

\* ... reporting "ready" (the wait returned / returned true): legal only if the completion happened
FinishReady(t, r) ==
  /\ Finish(t, r)
  /\ earlyReady' = (earlyReady \/ ~ReadyLegal(done))

\* ... reporting "timeout": legal only if the requested time elapsed (up to the logging resolution)
FinishTimeout(t, req, t0) ==
  /\ Finish(t, 0)
  /\ earlyTimeout' = (earlyTimeout \/ ~TimeoutLegal(req, now - t0, Op(t).tol))

Start(t) ==
  /\ t \in T /\ pc[t] = "Start"
  /\ Goto(t, FirstPc(t, 1))
  /\ UNCHANGED <<cfgv, status, ip, loc, wr, now, ghost>>

\* ------------------------------------------------------- CompletionEventImpl::notify(tgt)
CeNotifySt(t) ==
  /\ t \in T /\ pc[t] = "CeNotifySt"
  /\ status' = tgt
  /\ done' = (IF kind = "event" THEN TRUE ELSE done)
  /\ Goto(t, "FutexWake")
  /\ UNCHANGED <<cfgv, ip, loc, wr, now, hist, decr, earlyReady, earlyTimeout, shortTs>>

Blocked == {u \in T : pc[u] = "FutexBlocked"}

\* FUTEX_WAKE(INT_MAX): the kernel wakes every waiter queued on the word; W is the set it wakes
FutexWake(t, W) ==
  /\ t \in T /\ pc[t] = "FutexWake"
  /\ W = Blocked
  /\ hist' = [hist EXCEPT ![t] = Append(@, 1)]
  /\ ip' = [ip EXCEPT ![t] = @ + 1]
  /\ loc' = [loc EXCEPT ![t] = EmptyLoc]
  /\ pc' = [u \in T |-> IF u = t THEN FirstPc(t, ip[t] + 1)
                        ELSE IF u \in W THEN "FutexRet" ELSE pc[u]]
  /\ wr' = [u \in T |-> IF u \in W THEN 1 ELSE wr[u]]
  /\ UNCHANGED <<cfgv, status, now, decr, done, earlyReady, earlyTimeout, shortTs>>

\* --------------------------------------------------------- CompletionEventImpl::wait(tgt)
CeWaitLd(t) ==
  /\ t \in T /\ pc[t] = "CeWaitLd"
  /\ (IF status = tgt
        THEN FinishReady(t, 1)
        ELSE /\ loc' = [loc EXCEPT ![t].cur = status, ![t].timed = 0, ![t].back = "CeWaitLd"]
             /\ Goto(t, "FutexWait")
             /\ UNCHANGED <<ip, hist, earlyReady>>)
  /\ UNCHANGED <<cfgv, status, wr, now, decr, done, earlyTimeout, shortTs>>

\* FUTEX_WAIT(cur [, ts]): compare-and-block, atomically inside the kernel
FutexWait(t) ==
  /\ t \in T /\ pc[t] = "FutexWait"
  /\ (IF status = loc[t].cur
        THEN /\ Goto(t, "FutexBlocked")
             /\ loc' = [loc EXCEPT ![t].ws = now]
        ELSE /\ Goto(t, loc[t].back)
             /\ UNCHANGED loc)
  /\ UNCHANGED <<cfgv, status, ip, wr, now, ghost>>

\* the value FUTEX_WAIT's step reports to the trace: 1 blocked, 0 value mismatch (EAGAIN)
FutexWaitNote(t) == IF status = loc[t].cur THEN 1 ELSE 0

\* environment: the timer of a timed futex wait expires; us = the timespec the kernel was given.
\* Time has advanced at least to (start of the wait + us).
FutexTimeoutUs(t, us) ==
  /\ AllowTimeout
  /\ t \in T /\ pc[t] = "FutexBlocked" /\ loc[t].timed = 1
  /\ Goto(t, "FutexRet")
  /\ wr' = [wr EXCEPT ![t] = 2]
  /\ now' = Max(now, loc[t].ws + us)
  /\ shortTs' = (shortTs \/ ~TimeoutLegal(loc[t].req - (loc[t].ws - loc[t].t0), us, Op(t).tol))
  /\ UNCHANGED <<cfgv, status, ip, loc, hist, decr, done, earlyReady, earlyTimeout>>

FutexTimeout(t) == t \in T /\ FutexTimeoutUs(t, loc[t].ts)

\* environment: a futex wait returns although nobody woke it (R4)
FutexSpurious(t) ==
  /\ AllowSpurious
  /\ t \in T /\ pc[t] = "FutexBlocked"
  /\ Goto(t, "FutexRet")
  /\ wr' = [wr EXCEPT ![t] = 3]
  /\ UNCHANGED <<cfgv, status, ip, loc, now, ghost>>

\* the waiter resumes from the futex call; waitFor returns false on ETIMEDOUT without re-checking
FutexRet(t) ==
  /\ t \in T /\ pc[t] = "FutexRet"
  /\ (IF wr[t] = 2 /\ loc[t].timed = 1
        THEN FinishTimeout(t, loc[t].req, loc[t].t0)
        ELSE /\ Goto(t, loc[t].back)
             /\ UNCHANGED <<ip, loc, hist, earlyTimeout>>)
  /\ wr' = [wr EXCEPT ![t] = 0]
  /\ UNCHANGED <<cfgv, status, now, decr, done, earlyReady, shortTs>>

\* ------------------------------------------ CompletionEventImpl::waitFor / waitUntil(tgt, ...)
\* first load of waitFor: ready / non-positive request / compute the timespec and enter the loop
CeWfLd0(t) ==
  /\ t \in T /\ pc[t] = "CeWfLd0"
  /\ LET req == IF Op(t).op = "waitfor" THEN Op(t).us ELSE loc[t].req
         t0  == IF Op(t).op = "waitfor" THEN now ELSE loc[t].t0
     IN IF status = tgt
          THEN FinishReady(t, 1) /\ UNCHANGED earlyTimeout
          ELSE IF req <= 0
                 THEN FinishTimeout(t, req, t0) /\ UNCHANGED earlyReady
                 ELSE /\ loc' = [loc EXCEPT ![t].req = req, ![t].t0 = t0, ![t].ts = req]
                      /\ Goto(t, "CeWfLd")
                      /\ UNCHANGED <<ip, hist, earlyReady, earlyTimeout>>
  /\ UNCHANGED <<cfgv, status, wr, now, decr, done, shortTs>>

CeWfLd(t) ==
  /\ t \in T /\ pc[t] = "CeWfLd"
  /\ (IF status = tgt
        THEN FinishReady(t, 1)
        ELSE /\ loc' = [loc EXCEPT ![t].cur = status, ![t].timed = 1, ![t].back = "CeWfLd"]
             /\ Goto(t, "FutexWait")
             /\ UNCHANGED <<ip, hist, earlyReady>>)
  /\ UNCHANGED <<cfgv, status, wr, now, decr, done, earlyTimeout, shortTs>>

\* first load of waitUntil; on "not ready" the clock is sampled (in this step) and waitFor is entered
CeWuLd(t) ==
  /\ t \in T /\ pc[t] = "CeWuLd"
  /\ (IF status = tgt
        THEN FinishReady(t, 1)
        ELSE /\ loc' = [loc EXCEPT ![t].req = Op(t).us - Op(t).clk, ![t].t0 = now]
             /\ Goto(t, "CeWfLd0")
             /\ UNCHANGED <<ip, hist, earlyReady>>)
  /\ UNCHANGED <<cfgv, status, wr, now, decr, done, earlyTimeout, shortTs>>

\* ----------------------------------------------------- CompletionEvent::completed / reset
EvCompleted(t) ==
  /\ t \in T /\ pc[t] = "EvCompleted"
  /\ (IF status # 0 THEN FinishReady(t, 1) ELSE Finish(t, 0) /\ UNCHANGED earlyReady)
  /\ UNCHANGED <<cfgv, status, wr, now, decr, done, earlyTimeout, shortTs>>

EvReset(t) ==
  /\ t \in T /\ pc[t] = "EvReset"
  /\ status' = 0
  /\ done' = FALSE
  /\ Finish(t, 1)
  /\ UNCHANGED <<cfgv, wr, now, decr, earlyReady, earlyTimeout, shortTs>>

\* ----------------------------------------------------------------------------- Latch
NotifyCond(prev, n) == IF LatchFix THEN prev = n ELSE prev = 1

\* count_down(n): fetch_sub(n), then notify iff this call took the count to zero
LtCdSub(t) ==
  /\ t \in T /\ pc[t] = "LtCdSub"
  /\ status' = status - Op(t).n
  /\ decr' = decr + Op(t).n
  /\ done' = (decr + Op(t).n >= init)
  /\ (IF NotifyCond(status, Op(t).n)
        THEN Goto(t, "CeNotifySt") /\ UNCHANGED <<ip, loc, hist>>
        ELSE Finish(t, 1))
  /\ UNCHANGED <<cfgv, wr, now, earlyReady, earlyTimeout, shortTs>>

LtTryLd(t) ==
  /\ t \in T /\ pc[t] = "LtTryLd"
  /\ (IF status = 0 THEN FinishReady(t, 1) ELSE Finish(t, 0) /\ UNCHANGED earlyReady)
  /\ UNCHANGED <<cfgv, status, wr, now, decr, done, earlyTimeout, shortTs>>

\* arrive_and_wait: fetch_sub(1); previous > 1 -> wait(0), else notify(0)
LtAwSub(t) ==
  /\ t \in T /\ pc[t] = "LtAwSub"
  /\ status' = status - 1
  /\ decr' = decr + 1
  /\ done' = (decr + 1 >= init)
  /\ Goto(t, IF status > 1 THEN "CeWaitLd" ELSE "CeNotifySt")
  /\ UNCHANGED <<cfgv, ip, loc, wr, now, hist, earlyReady, earlyTimeout, shortTs>>

\* (the disjunction is spelled out inside Next so that TLC labels every edge of the dumped state
\*  graph with the action name and its arguments)
Next ==
  \E t \in Threads :
     \/ Start(t)
     \/ CeNotifySt(t) \/ (\E W \in SUBSET Threads : FutexWake(t, W))
     \/ CeWaitLd(t) \/ FutexWait(t) \/ FutexRet(t)
     \/ CeWfLd0(t) \/ CeWfLd(t) \/ CeWuLd(t)
     \/ EvCompleted(t) \/ EvReset(t)
     \/ LtCdSub(t) \/ LtTryLd(t) \/ LtAwSub(t)
     \/ FutexTimeout(t) \/ FutexSpurious(t)

Spec == Init /\ [][Next]_vars

\* what a thread does by itself (everything except the environment's time-outs / spurious returns)
ThreadStep(t) ==
  \/ Start(t)
  \/ CeNotifySt(t) \/ (\E W \in SUBSET Threads : FutexWake(t, W))
  \/ CeWaitLd(t) \/ FutexWait(t) \/ FutexRet(t)
  \/ CeWfLd0(t) \/ CeWfLd(t) \/ CeWuLd(t)
  \/ EvCompleted(t) \/ EvReset(t)
  \/ LtCdSub(t) \/ LtTryLd(t) \/ LtAwSub(t)

\* weak fairness of every thread (a woken waiter is scheduled again); none for the environment
FairSpec == Spec /\ \A t \in Threads : WF_vars(ThreadStep(t))
\* The same fairness spelled out (WF_v(A) == []<>~ENABLED<A>_v \/ []<><A>_v) with the enabling condition
\* written as a state predicate: a thread can step iff it is neither finished nor asleep in the futex.
\* TLC evaluates this form about twice as fast as WF (no ENABLED); RunnableIsEnabled (an invariant of
\* the safety runs) shows that it is the same formula.
Runnable(t) == t \in T /\ pc[t] \notin {"Done", "FutexBlocked"}
FairSpecFast == Spec /\ \A t \in Threads : ([]<>(~Runnable(t)) \/ []<><<ThreadStep(t)>>_vars)
RunnableIsEnabled == \A t \in Threads : Runnable(t) <=> ENABLED <<ThreadStep(t)>>_vars

\* ============================================================================ properties
AllDone   == \A t \in T : pc[t] = "Done"
Quiescent == \A t \in T : pc[t] \in {"Done", "FutexBlocked"}
Completed == status = tgt
InWait(t) == pc[t] \in {"CeWaitLd", "CeWfLd0", "CeWfLd", "CeWuLd", "FutexWait", "FutexBlocked", "FutexRet"}

\* (C21, C20) a wait never returns / reports ready before the completion happened
NeverEarly == ~earlyReady
\* (C20) a timed wait reports time-out only after the requested time elapsed
TimeoutAfterElapsed == ~earlyTimeout
\* (C20) the relative timespec handed to the kernel covers the time that remains
TimespecCoversRemaining == ~shortTs
\* (C21) lost wake-up, state form: the object is completed, a thread sleeps in the futex, and
\* nobody is left who will wake it
NoLostWakeup == ~(Completed /\ Blocked # {} /\ Quiescent)
\* (C21) stronger, inductive form: whenever the object is completed and somebody sleeps in the futex,
\* some thread still owes the wake (is between its completing access and its FUTEX_WAKE)
WakeOwed == (Completed /\ Blocked # {}) => \E u \in T : pc[u] \in {"CeNotifySt", "FutexWake"}
\* the word is what the ghost accounting says (programs respect the contract: no underflow)
WordOK ==
  /\ kind = "latch" => status = init - decr /\ status >= 0 /\ done = (status = 0)
  /\ kind = "event" => status \in {0, tgt} /\ done = (status = tgt)
\* results: every op that cannot fail returned 1; a thread that is Done recorded all its results
ResultsOK == \A t \in T : Len(hist[t]) = ip[t] - 1

TypeOK ==
  /\ status \in Int /\ now \in Nat /\ decr \in Nat
  /\ \A t \in T : ip[t] \in 1 .. (Len(prog[t]) + 1) /\ wr[t] \in 0 .. 3

\* (C21) progress: once completed, every thread inside a wait gets out -- under FairSpec, and checked
\* with AllowTimeout = AllowSpurious = FALSE so that nothing but the wake-up can rescue a waiter
WaitersReturn == [](Completed => <>(\A t \in T : ~InWait(t)))
\* programs whose notifies / decrements complete the object terminate
Termination == <>AllDone
==========================================================================
