CONSTANTS
  Threads = {"d1", "d2", "d3", "w1", "w2"}
  Scenarios <- BugScen
  LatchFix = FALSE
  AllowTimeout = FALSE
  AllowSpurious = FALSE
SPECIFICATION FairSpecFast
CHECK_DEADLOCK FALSE
INVARIANTS TypeOK NeverEarly WordOK ResultsOK
PROPERTIES WaitersReturn
