------------------------------ MODULE TimedObs ------------------------------
(* E5 record validator for C20: each line of the observation file is one timed wait  *)
(* executed by free-running (truly concurrent, real futex, real clock) code:         *)
(*   {"e":"Obs","t":thread,"kind":"waitFor"|"waitUntil"|...,"req":us,"el":us,         *)
(*    "res":0|1,"done":0|1,"pre":0|1}                                                  *)
(* req  requested relative time (for waitUntil: deadline - clock read before the call)*)
(* el   elapsed time measured OUTSIDE the call with steady_clock, rounded down (R5)   *)
(* res  what the call reported: 1 ready, 0 timeout                                    *)
(* done completed flag sampled after the call returned (completion is monotone)       *)
(* pre  the publisher had entered notify() when the call returned                     *)
(* One step per record; RecordsOK is evaluated on every record.  `kind` is free text, *)
(* so the futures component can feed its wait_for / wait_until records unchanged.     *)
EXTENDS Integers, Sequences, TLC, Json, IOUtils, TimedWaitProps

ObsLog == ndJsonDeserialize(IOEnv.TRACE)

VARIABLE l   \* record under judgement

ObsInit == l = 1
ObsNext == l <= Len(ObsLog) /\ l' = l + 1
ObsSpec == ObsInit /\ [][ObsNext]_l

RecOK(rec) ==
  /\ rec.res \in {0, 1}
  /\ (rec.res = 0 => TimeoutLegal(rec.req, rec.el, 0))
  /\ (rec.res = 1 => ReadyLegal(rec.done = 1 /\ rec.pre = 1))

RecordsOK == l > Len(ObsLog) \/ RecOK(ObsLog[l])

ObsAccepted ==
  LET d == TLCGet("stats").diameter IN
  IF d = Len(ObsLog) + 1 THEN TRUE
  ELSE /\ PrintT(<<"TRACE_REJECTED_AT_LINE", d, "OF", Len(ObsLog)>>)
       /\ FALSE
==========================================================================
