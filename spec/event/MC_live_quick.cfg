CONSTANTS
  Threads = {"d1", "d2", "d3", "w1", "w2"}
  Scenarios <- LiveQuick
  LatchFix = TRUE
  AllowTimeout = FALSE
  AllowSpurious = FALSE
SPECIFICATION FairSpecFast
CHECK_DEADLOCK FALSE
INVARIANTS TypeOK NeverEarly TimeoutAfterElapsed TimespecCoversRemaining NoLostWakeup WakeOwed WordOK ResultsOK
PROPERTIES WaitersReturn Termination
