---- MODULE EventTrace_TTrace_1790035401 ----
EXTENDS Sequences, TLCExt, Toolbox, Naturals, TLC, EventTrace

_expression ==
    LET EventTrace_TEExpression == INSTANCE EventTrace_TEExpression
    IN EventTrace_TEExpression!expression
----

_trace ==
    LET EventTrace_TETrace == INSTANCE EventTrace_TETrace
    IN EventTrace_TETrace!trace
----

_inv ==
    ~(
        TLCGet("level") = Len(_TETrace)
        /\
        tgt = (0)
        /\
        init = (2)
        /\
        loc = ([d1 |-> [cur |-> 0, req |-> 0, t0 |-> 0, ts |-> 0, ws |-> 0, timed |-> 0, back |-> ""], w1 |-> [cur |-> 2, req |-> 0, t0 |-> 0, ts |-> 0, ws |-> 0, timed |-> 0, back |-> "CeWaitLd"]])
        /\
        kind = ("latch")
        /\
        ip = ([d1 |-> 2, w1 |-> 1])
        /\
        l = (27)
        /\
        scen = (0)
        /\
        done = (TRUE)
        /\
        shortTs = (FALSE)
        /\
        prog = ([d1 |-> <<[us |-> 0, op |-> "cd", tol |-> 0, clk |-> 0, n |-> 2]>>, w1 |-> <<[us |-> 0, op |-> "wait", tol |-> 0, clk |-> 0, n |-> 0]>>])
        /\
        hist = ([d1 |-> <<1>>, w1 |-> <<>>])
        /\
        pc = ([d1 |-> "Done", w1 |-> "FutexBlocked"])
        /\
        now = (0)
        /\
        earlyTimeout = (FALSE)
        /\
        earlyReady = (FALSE)
        /\
        wr = ([d1 |-> 0, w1 |-> 0])
        /\
        decr = (2)
        /\
        status = (0)
    )
----

_init ==
    /\ done = _TETrace[1].done
    /\ prog = _TETrace[1].prog
    /\ init = _TETrace[1].init
    /\ decr = _TETrace[1].decr
    /\ loc = _TETrace[1].loc
    /\ l = _TETrace[1].l
    /\ now = _TETrace[1].now
    /\ pc = _TETrace[1].pc
    /\ earlyReady = _TETrace[1].earlyReady
    /\ kind = _TETrace[1].kind
    /\ earlyTimeout = _TETrace[1].earlyTimeout
    /\ shortTs = _TETrace[1].shortTs
    /\ hist = _TETrace[1].hist
    /\ tgt = _TETrace[1].tgt
    /\ ip = _TETrace[1].ip
    /\ status = _TETrace[1].status
    /\ wr = _TETrace[1].wr
    /\ scen = _TETrace[1].scen
----

_next ==
    /\ \E i,j \in DOMAIN _TETrace:
        /\ \/ /\ j = i + 1
              /\ i = TLCGet("level")
        /\ done  = _TETrace[i].done
        /\ done' = _TETrace[j].done
        /\ prog  = _TETrace[i].prog
        /\ prog' = _TETrace[j].prog
        /\ init  = _TETrace[i].init
        /\ init' = _TETrace[j].init
        /\ decr  = _TETrace[i].decr
        /\ decr' = _TETrace[j].decr
        /\ loc  = _TETrace[i].loc
        /\ loc' = _TETrace[j].loc
        /\ l  = _TETrace[i].l
        /\ l' = _TETrace[j].l
        /\ now  = _TETrace[i].now
        /\ now' = _TETrace[j].now
        /\ pc  = _TETrace[i].pc
        /\ pc' = _TETrace[j].pc
        /\ earlyReady  = _TETrace[i].earlyReady
        /\ earlyReady' = _TETrace[j].earlyReady
        /\ kind  = _TETrace[i].kind
        /\ kind' = _TETrace[j].kind
        /\ earlyTimeout  = _TETrace[i].earlyTimeout
        /\ earlyTimeout' = _TETrace[j].earlyTimeout
        /\ shortTs  = _TETrace[i].shortTs
        /\ shortTs' = _TETrace[j].shortTs
        /\ hist  = _TETrace[i].hist
        /\ hist' = _TETrace[j].hist
        /\ tgt  = _TETrace[i].tgt
        /\ tgt' = _TETrace[j].tgt
        /\ ip  = _TETrace[i].ip
        /\ ip' = _TETrace[j].ip
        /\ status  = _TETrace[i].status
        /\ status' = _TETrace[j].status
        /\ wr  = _TETrace[i].wr
        /\ wr' = _TETrace[j].wr
        /\ scen  = _TETrace[i].scen
        /\ scen' = _TETrace[j].scen

\* Uncomment the ASSUME below to write the states of the error trace
\* to the given file in Json format. Note that you can pass any tuple
\* to `JsonSerialize`. For example, a sub-sequence of _TETrace.
    \* ASSUME
    \*     LET J == INSTANCE Json
    \*         IN J!JsonSerialize("EventTrace_TTrace_1790035401.json", _TETrace)

=============================================================================

 Note that you can extract this module `EventTrace_TEExpression`
  to a dedicated file to reuse `expression` (the module in the 
  dedicated `EventTrace_TEExpression.tla` file takes precedence 
  over the module `EventTrace_TEExpression` below).

---- MODULE EventTrace_TEExpression ----
EXTENDS Sequences, TLCExt, Toolbox, Naturals, TLC, EventTrace

expression == 
    [
        \* To hide variables of the `EventTrace` spec from the error trace,
        \* remove the variables below.  The trace will be written in the order
        \* of the fields of this record.
        done |-> done
        ,prog |-> prog
        ,init |-> init
        ,decr |-> decr
        ,loc |-> loc
        ,l |-> l
        ,now |-> now
        ,pc |-> pc
        ,earlyReady |-> earlyReady
        ,kind |-> kind
        ,earlyTimeout |-> earlyTimeout
        ,shortTs |-> shortTs
        ,hist |-> hist
        ,tgt |-> tgt
        ,ip |-> ip
        ,status |-> status
        ,wr |-> wr
        ,scen |-> scen
        
        \* Put additional constant-, state-, and action-level expressions here:
        \* ,_stateNumber |-> _TEPosition
        \* ,_doneUnchanged |-> done = done'
        
        \* Format the `done` variable as Json value.
        \* ,_doneJson |->
        \*     LET J == INSTANCE Json
        \*     IN J!ToJson(done)
        
        \* Lastly, you may build expressions over arbitrary sets of states by
        \* leveraging the _TETrace operator.  For example, this is how to
        \* count the number of times a spec variable changed up to the current
        \* state in the trace.
        \* ,_doneModCount |->
        \*     LET F[s \in DOMAIN _TETrace] ==
        \*         IF s = 1 THEN 0
        \*         ELSE IF _TETrace[s].done # _TETrace[s-1].done
        \*             THEN 1 + F[s-1] ELSE F[s-1]
        \*     IN F[_TEPosition - 1]
    ]

=============================================================================



Parsing and semantic processing can take forever if the trace below is long.
 In this case, it is advised to uncomment the module below to deserialize the
 trace from a generated binary file.

\*
\*---- MODULE EventTrace_TETrace ----
\*EXTENDS IOUtils, TLC, EventTrace
\*
\*trace == IODeserialize("EventTrace_TTrace_1790035401.bin", TRUE)
\*
\*=============================================================================
\*

---- MODULE EventTrace_TETrace ----
EXTENDS TLC, EventTrace

trace == 
    <<
    ([tgt |-> 0,init |-> 2,loc |-> [d1 |-> [cur |-> 0, req |-> 0, t0 |-> 0, ts |-> 0, ws |-> 0, timed |-> 0, back |-> ""], w1 |-> [cur |-> 0, req |-> 0, t0 |-> 0, ts |-> 0, ws |-> 0, timed |-> 0, back |-> ""]],kind |-> "latch",ip |-> [d1 |-> 1, w1 |-> 1],l |-> 2,scen |-> 0,done |-> FALSE,shortTs |-> FALSE,prog |-> [d1 |-> <<[us |-> 0, op |-> "cd", tol |-> 0, clk |-> 0, n |-> 2]>>, w1 |-> <<[us |-> 0, op |-> "wait", tol |-> 0, clk |-> 0, n |-> 0]>>],hist |-> [d1 |-> <<>>, w1 |-> <<>>],pc |-> [d1 |-> "Start", w1 |-> "Start"],now |-> 0,earlyTimeout |-> FALSE,earlyReady |-> FALSE,wr |-> [d1 |-> 0, w1 |-> 0],decr |-> 0,status |-> 2]),
    ([tgt |-> 0,init |-> 2,loc |-> [d1 |-> [cur |-> 0, req |-> 0, t0 |-> 0, ts |-> 0, ws |-> 0, timed |-> 0, back |-> ""], w1 |-> [cur |-> 0, req |-> 0, t0 |-> 0, ts |-> 0, ws |-> 0, timed |-> 0, back |-> ""]],kind |-> "latch",ip |-> [d1 |-> 1, w1 |-> 1],l |-> 3,scen |-> 0,done |-> FALSE,shortTs |-> FALSE,prog |-> [d1 |-> <<[us |-> 0, op |-> "cd", tol |-> 0, clk |-> 0, n |-> 2]>>, w1 |-> <<[us |-> 0, op |-> "wait", tol |-> 0, clk |-> 0, n |-> 0]>>],hist |-> [d1 |-> <<>>, w1 |-> <<>>],pc |-> [d1 |-> "LtCdSub", w1 |-> "Start"],now |-> 0,earlyTimeout |-> FALSE,earlyReady |-> FALSE,wr |-> [d1 |-> 0, w1 |-> 0],decr |-> 0,status |-> 2]),
    ([tgt |-> 0,init |-> 2,loc |-> [d1 |-> [cur |-> 0, req |-> 0, t0 |-> 0, ts |-> 0, ws |-> 0, timed |-> 0, back |-> ""], w1 |-> [cur |-> 0, req |-> 0, t0 |-> 0, ts |-> 0, ws |-> 0, timed |-> 0, back |-> ""]],kind |-> "latch",ip |-> [d1 |-> 2, w1 |-> 1],l |-> 4,scen |-> 0,done |-> TRUE,shortTs |-> FALSE,prog |-> [d1 |-> <<[us |-> 0, op |-> "cd", tol |-> 0, clk |-> 0, n |-> 2]>>, w1 |-> <<[us |-> 0, op |-> "wait", tol |-> 0, clk |-> 0, n |-> 0]>>],hist |-> [d1 |-> <<1>>, w1 |-> <<>>],pc |-> [d1 |-> "Done", w1 |-> "Start"],now |-> 0,earlyTimeout |-> FALSE,earlyReady |-> FALSE,wr |-> [d1 |-> 0, w1 |-> 0],decr |-> 2,status |-> 0]),
    ([tgt |-> 0,init |-> 2,loc |-> [d1 |-> [cur |-> 0, req |-> 0, t0 |-> 0, ts |-> 0, ws |-> 0, timed |-> 0, back |-> ""], w1 |-> [cur |-> 0, req |-> 0, t0 |-> 0, ts |-> 0, ws |-> 0, timed |-> 0, back |-> ""]],kind |-> "latch",ip |-> [d1 |-> 2, w1 |-> 1],l |-> 5,scen |-> 0,done |-> TRUE,shortTs |-> FALSE,prog |-> [d1 |-> <<[us |-> 0, op |-> "cd", tol |-> 0, clk |-> 0, n |-> 2]>>, w1 |-> <<[us |-> 0, op |-> "wait", tol |-> 0, clk |-> 0, n |-> 0]>>],hist |-> [d1 |-> <<1>>, w1 |-> <<>>],pc |-> [d1 |-> "Done", w1 |-> "CeWaitLd"],now |-> 0,earlyTimeout |-> FALSE,earlyReady |-> FALSE,wr |-> [d1 |-> 0, w1 |-> 0],decr |-> 2,status |-> 0]),
    ([tgt |-> 0,init |-> 2,loc |-> [d1 |-> [cur |-> 0, req |-> 0, t0 |-> 0, ts |-> 0, ws |-> 0, timed |-> 0, back |-> ""], w1 |-> [cur |-> 0, req |-> 0, t0 |-> 0, ts |-> 0, ws |-> 0, timed |-> 0, back |-> ""]],kind |-> "latch",ip |-> [d1 |-> 2, w1 |-> 2],l |-> 6,scen |-> 0,done |-> TRUE,shortTs |-> FALSE,prog |-> [d1 |-> <<[us |-> 0, op |-> "cd", tol |-> 0, clk |-> 0, n |-> 2]>>, w1 |-> <<[us |-> 0, op |-> "wait", tol |-> 0, clk |-> 0, n |-> 0]>>],hist |-> [d1 |-> <<1>>, w1 |-> <<1>>],pc |-> [d1 |-> "Done", w1 |-> "Done"],now |-> 0,earlyTimeout |-> FALSE,earlyReady |-> FALSE,wr |-> [d1 |-> 0, w1 |-> 0],decr |-> 2,status |-> 0]),
    ([tgt |-> 0,init |-> 2,loc |-> [d1 |-> [cur |-> 0, req |-> 0, t0 |-> 0, ts |-> 0, ws |-> 0, timed |-> 0, back |-> ""], w1 |-> [cur |-> 0, req |-> 0, t0 |-> 0, ts |-> 0, ws |-> 0, timed |-> 0, back |-> ""]],kind |-> "latch",ip |-> [d1 |-> 2, w1 |-> 2],l |-> 7,scen |-> 0,done |-> TRUE,shortTs |-> FALSE,prog |-> [d1 |-> <<[us |-> 0, op |-> "cd", tol |-> 0, clk |-> 0, n |-> 2]>>, w1 |-> <<[us |-> 0, op |-> "wait", tol |-> 0, clk |-> 0, n |-> 0]>>],hist |-> [d1 |-> <<1>>, w1 |-> <<1>>],pc |-> [d1 |-> "Done", w1 |-> "Done"],now |-> 0,earlyTimeout |-> FALSE,earlyReady |-> FALSE,wr |-> [d1 |-> 0, w1 |-> 0],decr |-> 2,status |-> 0]),
    ([tgt |-> 0,init |-> 2,loc |-> [d1 |-> [cur |-> 0, req |-> 0, t0 |-> 0, ts |-> 0, ws |-> 0, timed |-> 0, back |-> ""], w1 |-> [cur |-> 0, req |-> 0, t0 |-> 0, ts |-> 0, ws |-> 0, timed |-> 0, back |-> ""]],kind |-> "latch",ip |-> [d1 |-> 1, w1 |-> 1],l |-> 8,scen |-> 0,done |-> FALSE,shortTs |-> FALSE,prog |-> [d1 |-> <<[us |-> 0, op |-> "cd", tol |-> 0, clk |-> 0, n |-> 2]>>, w1 |-> <<[us |-> 0, op |-> "wait", tol |-> 0, clk |-> 0, n |-> 0]>>],hist |-> [d1 |-> <<>>, w1 |-> <<>>],pc |-> [d1 |-> "Start", w1 |-> "Start"],now |-> 0,earlyTimeout |-> FALSE,earlyReady |-> FALSE,wr |-> [d1 |-> 0, w1 |-> 0],decr |-> 0,status |-> 2]),
    ([tgt |-> 0,init |-> 2,loc |-> [d1 |-> [cur |-> 0, req |-> 0, t0 |-> 0, ts |-> 0, ws |-> 0, timed |-> 0, back |-> ""], w1 |-> [cur |-> 0, req |-> 0, t0 |-> 0, ts |-> 0, ws |-> 0, timed |-> 0, back |-> ""]],kind |-> "latch",ip |-> [d1 |-> 1, w1 |-> 1],l |-> 9,scen |-> 0,done |-> FALSE,shortTs |-> FALSE,prog |-> [d1 |-> <<[us |-> 0, op |-> "cd", tol |-> 0, clk |-> 0, n |-> 2]>>, w1 |-> <<[us |-> 0, op |-> "wait", tol |-> 0, clk |-> 0, n |-> 0]>>],hist |-> [d1 |-> <<>>, w1 |-> <<>>],pc |-> [d1 |-> "Start", w1 |-> "CeWaitLd"],now |-> 0,earlyTimeout |-> FALSE,earlyReady |-> FALSE,wr |-> [d1 |-> 0, w1 |-> 0],decr |-> 0,status |-> 2]),
    ([tgt |-> 0,init |-> 2,loc |-> [d1 |-> [cur |-> 0, req |-> 0, t0 |-> 0, ts |-> 0, ws |-> 0, timed |-> 0, back |-> ""], w1 |-> [cur |-> 0, req |-> 0, t0 |-> 0, ts |-> 0, ws |-> 0, timed |-> 0, back |-> ""]],kind |-> "latch",ip |-> [d1 |-> 1, w1 |-> 1],l |-> 10,scen |-> 0,done |-> FALSE,shortTs |-> FALSE,prog |-> [d1 |-> <<[us |-> 0, op |-> "cd", tol |-> 0, clk |-> 0, n |-> 2]>>, w1 |-> <<[us |-> 0, op |-> "wait", tol |-> 0, clk |-> 0, n |-> 0]>>],hist |-> [d1 |-> <<>>, w1 |-> <<>>],pc |-> [d1 |-> "LtCdSub", w1 |-> "CeWaitLd"],now |-> 0,earlyTimeout |-> FALSE,earlyReady |-> FALSE,wr |-> [d1 |-> 0, w1 |-> 0],decr |-> 0,status |-> 2]),
    ([tgt |-> 0,init |-> 2,loc |-> [d1 |-> [cur |-> 0, req |-> 0, t0 |-> 0, ts |-> 0, ws |-> 0, timed |-> 0, back |-> ""], w1 |-> [cur |-> 0, req |-> 0, t0 |-> 0, ts |-> 0, ws |-> 0, timed |-> 0, back |-> ""]],kind |-> "latch",ip |-> [d1 |-> 2, w1 |-> 1],l |-> 11,scen |-> 0,done |-> TRUE,shortTs |-> FALSE,prog |-> [d1 |-> <<[us |-> 0, op |-> "cd", tol |-> 0, clk |-> 0, n |-> 2]>>, w1 |-> <<[us |-> 0, op |-> "wait", tol |-> 0, clk |-> 0, n |-> 0]>>],hist |-> [d1 |-> <<1>>, w1 |-> <<>>],pc |-> [d1 |-> "Done", w1 |-> "CeWaitLd"],now |-> 0,earlyTimeout |-> FALSE,earlyReady |-> FALSE,wr |-> [d1 |-> 0, w1 |-> 0],decr |-> 2,status |-> 0]),
    ([tgt |-> 0,init |-> 2,loc |-> [d1 |-> [cur |-> 0, req |-> 0, t0 |-> 0, ts |-> 0, ws |-> 0, timed |-> 0, back |-> ""], w1 |-> [cur |-> 0, req |-> 0, t0 |-> 0, ts |-> 0, ws |-> 0, timed |-> 0, back |-> ""]],kind |-> "latch",ip |-> [d1 |-> 2, w1 |-> 2],l |-> 12,scen |-> 0,done |-> TRUE,shortTs |-> FALSE,prog |-> [d1 |-> <<[us |-> 0, op |-> "cd", tol |-> 0, clk |-> 0, n |-> 2]>>, w1 |-> <<[us |-> 0, op |-> "wait", tol |-> 0, clk |-> 0, n |-> 0]>>],hist |-> [d1 |-> <<1>>, w1 |-> <<1>>],pc |-> [d1 |-> "Done", w1 |-> "Done"],now |-> 0,earlyTimeout |-> FALSE,earlyReady |-> FALSE,wr |-> [d1 |-> 0, w1 |-> 0],decr |-> 2,status |-> 0]),
    ([tgt |-> 0,init |-> 2,loc |-> [d1 |-> [cur |-> 0, req |-> 0, t0 |-> 0, ts |-> 0, ws |-> 0, timed |-> 0, back |-> ""], w1 |-> [cur |-> 0, req |-> 0, t0 |-> 0, ts |-> 0, ws |-> 0, timed |-> 0, back |-> ""]],kind |-> "latch",ip |-> [d1 |-> 2, w1 |-> 2],l |-> 13,scen |-> 0,done |-> TRUE,shortTs |-> FALSE,prog |-> [d1 |-> <<[us |-> 0, op |-> "cd", tol |-> 0, clk |-> 0, n |-> 2]>>, w1 |-> <<[us |-> 0, op |-> "wait", tol |-> 0, clk |-> 0, n |-> 0]>>],hist |-> [d1 |-> <<1>>, w1 |-> <<1>>],pc |-> [d1 |-> "Done", w1 |-> "Done"],now |-> 0,earlyTimeout |-> FALSE,earlyReady |-> FALSE,wr |-> [d1 |-> 0, w1 |-> 0],decr |-> 2,status |-> 0]),
    ([tgt |-> 0,init |-> 2,loc |-> [d1 |-> [cur |-> 0, req |-> 0, t0 |-> 0, ts |-> 0, ws |-> 0, timed |-> 0, back |-> ""], w1 |-> [cur |-> 0, req |-> 0, t0 |-> 0, ts |-> 0, ws |-> 0, timed |-> 0, back |-> ""]],kind |-> "latch",ip |-> [d1 |-> 1, w1 |-> 1],l |-> 14,scen |-> 0,done |-> FALSE,shortTs |-> FALSE,prog |-> [d1 |-> <<[us |-> 0, op |-> "cd", tol |-> 0, clk |-> 0, n |-> 2]>>, w1 |-> <<[us |-> 0, op |-> "wait", tol |-> 0, clk |-> 0, n |-> 0]>>],hist |-> [d1 |-> <<>>, w1 |-> <<>>],pc |-> [d1 |-> "Start", w1 |-> "Start"],now |-> 0,earlyTimeout |-> FALSE,earlyReady |-> FALSE,wr |-> [d1 |-> 0, w1 |-> 0],decr |-> 0,status |-> 2]),
    ([tgt |-> 0,init |-> 2,loc |-> [d1 |-> [cur |-> 0, req |-> 0, t0 |-> 0, ts |-> 0, ws |-> 0, timed |-> 0, back |-> ""], w1 |-> [cur |-> 0, req |-> 0, t0 |-> 0, ts |-> 0, ws |-> 0, timed |-> 0, back |-> ""]],kind |-> "latch",ip |-> [d1 |-> 1, w1 |-> 1],l |-> 15,scen |-> 0,done |-> FALSE,shortTs |-> FALSE,prog |-> [d1 |-> <<[us |-> 0, op |-> "cd", tol |-> 0, clk |-> 0, n |-> 2]>>, w1 |-> <<[us |-> 0, op |-> "wait", tol |-> 0, clk |-> 0, n |-> 0]>>],hist |-> [d1 |-> <<>>, w1 |-> <<>>],pc |-> [d1 |-> "Start", w1 |-> "CeWaitLd"],now |-> 0,earlyTimeout |-> FALSE,earlyReady |-> FALSE,wr |-> [d1 |-> 0, w1 |-> 0],decr |-> 0,status |-> 2]),
    ([tgt |-> 0,init |-> 2,loc |-> [d1 |-> [cur |-> 0, req |-> 0, t0 |-> 0, ts |-> 0, ws |-> 0, timed |-> 0, back |-> ""], w1 |-> [cur |-> 2, req |-> 0, t0 |-> 0, ts |-> 0, ws |-> 0, timed |-> 0, back |-> "CeWaitLd"]],kind |-> "latch",ip |-> [d1 |-> 1, w1 |-> 1],l |-> 16,scen |-> 0,done |-> FALSE,shortTs |-> FALSE,prog |-> [d1 |-> <<[us |-> 0, op |-> "cd", tol |-> 0, clk |-> 0, n |-> 2]>>, w1 |-> <<[us |-> 0, op |-> "wait", tol |-> 0, clk |-> 0, n |-> 0]>>],hist |-> [d1 |-> <<>>, w1 |-> <<>>],pc |-> [d1 |-> "Start", w1 |-> "FutexWait"],now |-> 0,earlyTimeout |-> FALSE,earlyReady |-> FALSE,wr |-> [d1 |-> 0, w1 |-> 0],decr |-> 0,status |-> 2]),
    ([tgt |-> 0,init |-> 2,loc |-> [d1 |-> [cur |-> 0, req |-> 0, t0 |-> 0, ts |-> 0, ws |-> 0, timed |-> 0, back |-> ""], w1 |-> [cur |-> 2, req |-> 0, t0 |-> 0, ts |-> 0, ws |-> 0, timed |-> 0, back |-> "CeWaitLd"]],kind |-> "latch",ip |-> [d1 |-> 1, w1 |-> 1],l |-> 17,scen |-> 0,done |-> FALSE,shortTs |-> FALSE,prog |-> [d1 |-> <<[us |-> 0, op |-> "cd", tol |-> 0, clk |-> 0, n |-> 2]>>, w1 |-> <<[us |-> 0, op |-> "wait", tol |-> 0, clk |-> 0, n |-> 0]>>],hist |-> [d1 |-> <<>>, w1 |-> <<>>],pc |-> [d1 |-> "LtCdSub", w1 |-> "FutexWait"],now |-> 0,earlyTimeout |-> FALSE,earlyReady |-> FALSE,wr |-> [d1 |-> 0, w1 |-> 0],decr |-> 0,status |-> 2]),
    ([tgt |-> 0,init |-> 2,loc |-> [d1 |-> [cur |-> 0, req |-> 0, t0 |-> 0, ts |-> 0, ws |-> 0, timed |-> 0, back |-> ""], w1 |-> [cur |-> 2, req |-> 0, t0 |-> 0, ts |-> 0, ws |-> 0, timed |-> 0, back |-> "CeWaitLd"]],kind |-> "latch",ip |-> [d1 |-> 2, w1 |-> 1],l |-> 18,scen |-> 0,done |-> TRUE,shortTs |-> FALSE,prog |-> [d1 |-> <<[us |-> 0, op |-> "cd", tol |-> 0, clk |-> 0, n |-> 2]>>, w1 |-> <<[us |-> 0, op |-> "wait", tol |-> 0, clk |-> 0, n |-> 0]>>],hist |-> [d1 |-> <<1>>, w1 |-> <<>>],pc |-> [d1 |-> "Done", w1 |-> "FutexWait"],now |-> 0,earlyTimeout |-> FALSE,earlyReady |-> FALSE,wr |-> [d1 |-> 0, w1 |-> 0],decr |-> 2,status |-> 0]),
    ([tgt |-> 0,init |-> 2,loc |-> [d1 |-> [cur |-> 0, req |-> 0, t0 |-> 0, ts |-> 0, ws |-> 0, timed |-> 0, back |-> ""], w1 |-> [cur |-> 2, req |-> 0, t0 |-> 0, ts |-> 0, ws |-> 0, timed |-> 0, back |-> "CeWaitLd"]],kind |-> "latch",ip |-> [d1 |-> 2, w1 |-> 1],l |-> 19,scen |-> 0,done |-> TRUE,shortTs |-> FALSE,prog |-> [d1 |-> <<[us |-> 0, op |-> "cd", tol |-> 0, clk |-> 0, n |-> 2]>>, w1 |-> <<[us |-> 0, op |-> "wait", tol |-> 0, clk |-> 0, n |-> 0]>>],hist |-> [d1 |-> <<1>>, w1 |-> <<>>],pc |-> [d1 |-> "Done", w1 |-> "CeWaitLd"],now |-> 0,earlyTimeout |-> FALSE,earlyReady |-> FALSE,wr |-> [d1 |-> 0, w1 |-> 0],decr |-> 2,status |-> 0]),
    ([tgt |-> 0,init |-> 2,loc |-> [d1 |-> [cur |-> 0, req |-> 0, t0 |-> 0, ts |-> 0, ws |-> 0, timed |-> 0, back |-> ""], w1 |-> [cur |-> 0, req |-> 0, t0 |-> 0, ts |-> 0, ws |-> 0, timed |-> 0, back |-> ""]],kind |-> "latch",ip |-> [d1 |-> 2, w1 |-> 2],l |-> 20,scen |-> 0,done |-> TRUE,shortTs |-> FALSE,prog |-> [d1 |-> <<[us |-> 0, op |-> "cd", tol |-> 0, clk |-> 0, n |-> 2]>>, w1 |-> <<[us |-> 0, op |-> "wait", tol |-> 0, clk |-> 0, n |-> 0]>>],hist |-> [d1 |-> <<1>>, w1 |-> <<1>>],pc |-> [d1 |-> "Done", w1 |-> "Done"],now |-> 0,earlyTimeout |-> FALSE,earlyReady |-> FALSE,wr |-> [d1 |-> 0, w1 |-> 0],decr |-> 2,status |-> 0]),
    ([tgt |-> 0,init |-> 2,loc |-> [d1 |-> [cur |-> 0, req |-> 0, t0 |-> 0, ts |-> 0, ws |-> 0, timed |-> 0, back |-> ""], w1 |-> [cur |-> 0, req |-> 0, t0 |-> 0, ts |-> 0, ws |-> 0, timed |-> 0, back |-> ""]],kind |-> "latch",ip |-> [d1 |-> 2, w1 |-> 2],l |-> 21,scen |-> 0,done |-> TRUE,shortTs |-> FALSE,prog |-> [d1 |-> <<[us |-> 0, op |-> "cd", tol |-> 0, clk |-> 0, n |-> 2]>>, w1 |-> <<[us |-> 0, op |-> "wait", tol |-> 0, clk |-> 0, n |-> 0]>>],hist |-> [d1 |-> <<1>>, w1 |-> <<1>>],pc |-> [d1 |-> "Done", w1 |-> "Done"],now |-> 0,earlyTimeout |-> FALSE,earlyReady |-> FALSE,wr |-> [d1 |-> 0, w1 |-> 0],decr |-> 2,status |-> 0]),
    ([tgt |-> 0,init |-> 2,loc |-> [d1 |-> [cur |-> 0, req |-> 0, t0 |-> 0, ts |-> 0, ws |-> 0, timed |-> 0, back |-> ""], w1 |-> [cur |-> 0, req |-> 0, t0 |-> 0, ts |-> 0, ws |-> 0, timed |-> 0, back |-> ""]],kind |-> "latch",ip |-> [d1 |-> 1, w1 |-> 1],l |-> 22,scen |-> 0,done |-> FALSE,shortTs |-> FALSE,prog |-> [d1 |-> <<[us |-> 0, op |-> "cd", tol |-> 0, clk |-> 0, n |-> 2]>>, w1 |-> <<[us |-> 0, op |-> "wait", tol |-> 0, clk |-> 0, n |-> 0]>>],hist |-> [d1 |-> <<>>, w1 |-> <<>>],pc |-> [d1 |-> "Start", w1 |-> "Start"],now |-> 0,earlyTimeout |-> FALSE,earlyReady |-> FALSE,wr |-> [d1 |-> 0, w1 |-> 0],decr |-> 0,status |-> 2]),
    ([tgt |-> 0,init |-> 2,loc |-> [d1 |-> [cur |-> 0, req |-> 0, t0 |-> 0, ts |-> 0, ws |-> 0, timed |-> 0, back |-> ""], w1 |-> [cur |-> 0, req |-> 0, t0 |-> 0, ts |-> 0, ws |-> 0, timed |-> 0, back |-> ""]],kind |-> "latch",ip |-> [d1 |-> 1, w1 |-> 1],l |-> 23,scen |-> 0,done |-> FALSE,shortTs |-> FALSE,prog |-> [d1 |-> <<[us |-> 0, op |-> "cd", tol |-> 0, clk |-> 0, n |-> 2]>>, w1 |-> <<[us |-> 0, op |-> "wait", tol |-> 0, clk |-> 0, n |-> 0]>>],hist |-> [d1 |-> <<>>, w1 |-> <<>>],pc |-> [d1 |-> "LtCdSub", w1 |-> "Start"],now |-> 0,earlyTimeout |-> FALSE,earlyReady |-> FALSE,wr |-> [d1 |-> 0, w1 |-> 0],decr |-> 0,status |-> 2]),
    ([tgt |-> 0,init |-> 2,loc |-> [d1 |-> [cur |-> 0, req |-> 0, t0 |-> 0, ts |-> 0, ws |-> 0, timed |-> 0, back |-> ""], w1 |-> [cur |-> 0, req |-> 0, t0 |-> 0, ts |-> 0, ws |-> 0, timed |-> 0, back |-> ""]],kind |-> "latch",ip |-> [d1 |-> 1, w1 |-> 1],l |-> 24,scen |-> 0,done |-> FALSE,shortTs |-> FALSE,prog |-> [d1 |-> <<[us |-> 0, op |-> "cd", tol |-> 0, clk |-> 0, n |-> 2]>>, w1 |-> <<[us |-> 0, op |-> "wait", tol |-> 0, clk |-> 0, n |-> 0]>>],hist |-> [d1 |-> <<>>, w1 |-> <<>>],pc |-> [d1 |-> "LtCdSub", w1 |-> "CeWaitLd"],now |-> 0,earlyTimeout |-> FALSE,earlyReady |-> FALSE,wr |-> [d1 |-> 0, w1 |-> 0],decr |-> 0,status |-> 2]),
    ([tgt |-> 0,init |-> 2,loc |-> [d1 |-> [cur |-> 0, req |-> 0, t0 |-> 0, ts |-> 0, ws |-> 0, timed |-> 0, back |-> ""], w1 |-> [cur |-> 2, req |-> 0, t0 |-> 0, ts |-> 0, ws |-> 0, timed |-> 0, back |-> "CeWaitLd"]],kind |-> "latch",ip |-> [d1 |-> 1, w1 |-> 1],l |-> 25,scen |-> 0,done |-> FALSE,shortTs |-> FALSE,prog |-> [d1 |-> <<[us |-> 0, op |-> "cd", tol |-> 0, clk |-> 0, n |-> 2]>>, w1 |-> <<[us |-> 0, op |-> "wait", tol |-> 0, clk |-> 0, n |-> 0]>>],hist |-> [d1 |-> <<>>, w1 |-> <<>>],pc |-> [d1 |-> "LtCdSub", w1 |-> "FutexWait"],now |-> 0,earlyTimeout |-> FALSE,earlyReady |-> FALSE,wr |-> [d1 |-> 0, w1 |-> 0],decr |-> 0,status |-> 2]),
    ([tgt |-> 0,init |-> 2,loc |-> [d1 |-> [cur |-> 0, req |-> 0, t0 |-> 0, ts |-> 0, ws |-> 0, timed |-> 0, back |-> ""], w1 |-> [cur |-> 2, req |-> 0, t0 |-> 0, ts |-> 0, ws |-> 0, timed |-> 0, back |-> "CeWaitLd"]],kind |-> "latch",ip |-> [d1 |-> 1, w1 |-> 1],l |-> 26,scen |-> 0,done |-> FALSE,shortTs |-> FALSE,prog |-> [d1 |-> <<[us |-> 0, op |-> "cd", tol |-> 0, clk |-> 0, n |-> 2]>>, w1 |-> <<[us |-> 0, op |-> "wait", tol |-> 0, clk |-> 0, n |-> 0]>>],hist |-> [d1 |-> <<>>, w1 |-> <<>>],pc |-> [d1 |-> "LtCdSub", w1 |-> "FutexBlocked"],now |-> 0,earlyTimeout |-> FALSE,earlyReady |-> FALSE,wr |-> [d1 |-> 0, w1 |-> 0],decr |-> 0,status |-> 2]),
    ([tgt |-> 0,init |-> 2,loc |-> [d1 |-> [cur |-> 0, req |-> 0, t0 |-> 0, ts |-> 0, ws |-> 0, timed |-> 0, back |-> ""], w1 |-> [cur |-> 2, req |-> 0, t0 |-> 0, ts |-> 0, ws |-> 0, timed |-> 0, back |-> "CeWaitLd"]],kind |-> "latch",ip |-> [d1 |-> 2, w1 |-> 1],l |-> 27,scen |-> 0,done |-> TRUE,shortTs |-> FALSE,prog |-> [d1 |-> <<[us |-> 0, op |-> "cd", tol |-> 0, clk |-> 0, n |-> 2]>>, w1 |-> <<[us |-> 0, op |-> "wait", tol |-> 0, clk |-> 0, n |-> 0]>>],hist |-> [d1 |-> <<1>>, w1 |-> <<>>],pc |-> [d1 |-> "Done", w1 |-> "FutexBlocked"],now |-> 0,earlyTimeout |-> FALSE,earlyReady |-> FALSE,wr |-> [d1 |-> 0, w1 |-> 0],decr |-> 2,status |-> 0])
    >>
----


=============================================================================

---- CONFIG EventTrace_TTrace_1790035401 ----
CONSTANTS
    Threads = { }
    Scenarios = 0
    LatchFix = FALSE
    AllowTimeout = TRUE
    AllowSpurious = TRUE

INVARIANT
    _inv

CHECK_DEADLOCK
    \* CHECK_DEADLOCK off because of PROPERTY or INVARIANT above.
    FALSE

INIT
    _init

NEXT
    _next

CONSTANT
    _TETrace <- _trace

ALIAS
    _expression
=============================================================================
\* Generated on Tue Sep 22 00:03:31 UTC 2026