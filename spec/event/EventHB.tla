------------------------------ MODULE EventHB ------------------------------
(* C10 for CompletionEvent and Latch: Event.tla composed with the happens-before *)
(* model (spec/lib/MemOrder.tla).  Every thread that notifies / counts down      *)
(* first writes its own non-atomic cell ("the data the event publishes"); every  *)
(* wait / try_wait / timed wait that reports "ready" then reads the cells of all *)
(* threads that had written.  Memory orders come from OrdersEvent.tla, extracted *)
(* from latch.h / completion_event_impl.h of the working tree at check time.     *)
EXTENDS Event, MemOrder, OrdersEvent

VARIABLES hb, written
hvars == <<vars, hb, written>>

ALocs == {<<"status", 0>>}
NLocs == {<<"cell", t>> : t \in Threads}
St == <<"status", 0>>
O1(site) == Ord[site][1][2]
OrdersComplete == \A s \in DOMAIN Ord : \A i \in 1 .. Len(Ord[s]) : Ord[s][i][1] # "none"

HInit == Init /\ hb = HBInit(Threads, ALocs, NLocs) /\ written = {}

RECURSIVE ReadAll(_, _, _)
ReadAll(h, t, ws) == IF ws = {} THEN h ELSE LET u == CHOOSE u \in ws : TRUE IN ReadAll(NARead(Threads, h, t, <<"cell", u>>), t, ws \ {u})

\* did this step of t complete an op with result "ready"?
Ready(t) == Len(hist'[t]) > Len(hist[t]) /\ hist'[t][Len(hist'[t])] = 1
\* an acquire-side access that may report ready: load, then (if ready) read every published cell
LoadThenRead(t, site) ==
  LET h1 == ALoad(Threads, hb, t, St, O1(site)) IN
  IF Ready(t) THEN ReadAll(h1, t, written \ {t}) ELSE h1

IsWriterOp(t) == Op(t).op \in {"notify", "cd", "aw"}

HStep(t) ==
  \/ Start(t) /\ hb' = hb /\ written' = written
  \* notify(): (first step of a plain notify: publish the cell), then the release store
  \/ /\ CeNotifySt(t)
     /\ LET h0 == IF Op(t).op = "notify" THEN NAWrite(Threads, hb, t, <<"cell", t>>) ELSE hb IN
        hb' = AStore(Threads, h0, t, St, O1("CeNotifySt"))
     /\ written' = IF Op(t).op = "notify" THEN written \cup {t} ELSE written
  \/ (\E W \in SUBSET Threads : FutexWake(t, W)) /\ hb' = hb /\ written' = written
  \/ CeWaitLd(t) /\ hb' = LoadThenRead(t, "CeWaitLd") /\ written' = written
  \/ FutexWait(t) /\ hb' = hb /\ written' = written
  \/ FutexRet(t) /\ hb' = hb /\ written' = written
  \/ CeWfLd0(t) /\ hb' = LoadThenRead(t, "CeWfLd0") /\ written' = written
  \/ CeWfLd(t) /\ hb' = LoadThenRead(t, "CeWfLd") /\ written' = written
  \/ CeWuLd(t) /\ hb' = LoadThenRead(t, "CeWuLd") /\ written' = written
  \* count_down / arrive_and_wait: publish the cell, then the read-modify-write
  \/ /\ LtCdSub(t)
     /\ hb' = ARmw(Threads, NAWrite(Threads, hb, t, <<"cell", t>>), t, St, O1("LtCdSub"))
     /\ written' = written \cup {t}
  \/ /\ LtAwSub(t)
     /\ hb' = ARmw(Threads, NAWrite(Threads, hb, t, <<"cell", t>>), t, St, O1("LtAwSub"))
     /\ written' = written \cup {t}
  \/ LtTryLd(t) /\ hb' = LoadThenRead(t, "LtTryLd") /\ written' = written
  \/ FutexTimeout(t) /\ hb' = hb /\ written' = written
  \/ FutexSpurious(t) /\ hb' = hb /\ written' = written

HNext == \E t \in Threads : HStep(t)
HSpec == HInit /\ [][HNext]_hvars
RaceFree == NoRace(hb)
==========================================================================
