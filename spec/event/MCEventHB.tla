---- MODULE MCEventHB ----
EXTENDS EventHB
O(op, n) == [op |-> op, n |-> n, us |-> 0, clk |-> 0, tol |-> 0]
HbScen == <<
  [kind |-> "event", init |-> 0, tgt |-> 1, prog |-> [d1 |-> <<O("notify", 0)>>, w1 |-> <<O("wait", 0)>>, w2 |-> <<O("waitfor", 0)>>]],
  [kind |-> "latch", init |-> 2, tgt |-> 0, prog |-> [d1 |-> <<O("cd", 1)>>, d2 |-> <<O("cd", 1)>>, w1 |-> <<O("wait", 0)>>, w2 |-> <<O("trywait", 0)>>]],
  [kind |-> "latch", init |-> 2, tgt |-> 0, prog |-> [d1 |-> <<O("aw", 0)>>, d2 |-> <<O("aw", 0)>>, w1 |-> <<O("wait", 0)>>]],
  [kind |-> "latch", init |-> 3, tgt |-> 0, prog |-> [d1 |-> <<O("cd", 2)>>, d2 |-> <<O("aw", 0)>>, w1 |-> <<O("wait", 0)>>]]
>>
====
