CONSTANT CfgSet <- Set_c04_unfixed
INIT MCInit
NEXT Next
CHECK_DEADLOCK FALSE
INVARIANTS WaitIsBarrier AtMostOnce SkippedOnlyIfCancelled CounterExact AllFinishedAtEnd NoStartAfterCancel CancelReported DeliveredWereCaptured DeliveredOnce NoExceptionLost GuardSane ForceQueuedNotInline
