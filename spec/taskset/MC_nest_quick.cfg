\* all programs x pools 0..2, repaired waiters
CONSTANTS
  SS = 2
  MaxW = 3
  Progs <- MCProgs
  Configs <- CfgQuick
SPECIFICATION FairSpec
CHECK_DEADLOCK TRUE
INVARIANTS TypeOK AtMostOnce BarrierOK SleepersIdle NoStarvation
