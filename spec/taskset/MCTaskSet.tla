----------------------------- MODULE MCTaskSet -----------------------------
(* Model-checking configurations of TaskSet.tla (E1).  Every configuration is one record:   *)
(* pool size and load multiplier, the sets, the programs of the driver threads, the body    *)
(* (program) of every task and which tasks throw.                                            *)
EXTENDS TaskSet
CONSTANT CfgSet      \* the configurations explored by one TLC run (one initial state each)
MCInit == \E c \in CfgSet : InitWith(c)
MCSpec == MCInit /\ [][Next]_vars

O(op, s, k, n) == [op |-> op, s |-> s, k |-> k, n |-> n]
SetR(kind, heavy, mult, casc) == [kind |-> kind, heavy |-> heavy, mult |-> mult, casc |-> casc]
Mk(nt, mult, sets, prog, body, throws, fixed, workers) ==
  [nt |-> nt, mult |-> mult, sets |-> sets, prog |-> prog, body |-> body, throws |-> throws,
   fixed |-> fixed, trace |-> 0, workers |-> workers]
NoBody(n) == [k \in 1 .. n |-> <<>>]
NoThrow(n) == [k \in 1 .. n |-> 0]

\* TaskSet on a 1-thread pool, multipliers 1: inline path, queued path, pool-inline path, the bulk
\* paths (ring fast path, interleaved with inline execution), a thrower, tryWait then wait, destructor
Cfg_ts1 == Mk(1, 1, <<SetR("ts", 0, 1, 0)>>,
   [d1 |-> <<O("new", 1, 0, 0), O("sched", 1, 1, 0), O("sched", 1, 2, 0), O("bulk", 1, 3, 2),
             O("trywait", 1, 0, 1), O("wait", 1, 0, 0), O("del", 1, 0, 0)>>],
   NoBody(4), <<0, 1, 0, 0>>, 1, {"w0"})
\* ... force-queued variants and the ring fast path on a 2-thread pool
Cfg_ts2 == Mk(2, 1, <<SetR("ts", 0, 1, 0)>>,
   [d1 |-> <<O("new", 1, 0, 0), O("bulk", 1, 1, 2), O("schedfq", 1, 3, 0), O("bulkfq", 1, 4, 1),
             O("wait", 1, 0, 0), O("del", 1, 0, 0)>>],
   NoBody(4), <<0, 0, 1, 0>>, 1, {"w0", "w1"})
\* pool without threads: everything runs on the caller or in wait()
Cfg_pool0 == Mk(0, 1, <<SetR("ts", 0, 1, 0), SetR("cts", 1, 1, 0)>>,
   [d1 |-> <<O("new", 1, 0, 0), O("new", 2, 0, 0), O("sched", 1, 1, 0), O("schedfq", 1, 2, 0), O("bulkfq", 1, 3, 1),
             O("sched", 2, 4, 0), O("trywait", 1, 0, 1), O("wait", 1, 0, 0), O("wait", 2, 0, 0),
             O("del", 2, 0, 0), O("del", 1, 0, 0)>>],
   NoBody(4), <<0, 0, 0, 1>>, 1, {})
\* ConcurrentTaskSet (kLightweight), a second thread cancels at any point (C04)
CtsCancel(fixed) == Mk(1, 1, <<SetR("cts", 0, 1, 0)>>,
   [d1 |-> <<O("new", 1, 0, 0), O("sched", 1, 1, 0), O("sched", 1, 2, 0), O("sched", 1, 3, 0),
             O("wait", 1, 0, 0), O("sync", 0, 0, 0), O("del", 1, 0, 0)>>,
    d2 |-> <<O("await", 1, 0, 0), O("cancel", 1, 0, 0)>>],
   NoBody(3), NoThrow(3), fixed, {"w0"})
Cfg_cts_cancel == CtsCancel(1)
Cfg_cts_cancel_unfixed == CtsCancel(0)
\* the deterministic sequential program: cancel; overload; schedule (single thread, 0 interleaving needed)
SeqCancel(fixed, heavy) == Mk(1, 1, <<SetR("cts", heavy, 1, 0)>>,
   [d1 |-> <<O("new", 1, 0, 0), O("schedfq", 1, 1, 0), O("schedfq", 1, 2, 0), O("cancel", 1, 0, 0),
             O("sched", 1, 3, 0), O("wait", 1, 0, 0), O("del", 1, 0, 0)>>],
   NoBody(3), NoThrow(3), fixed, {})
Cfg_seq_cancel_unfixed == SeqCancel(0, 0)
Cfg_seq_cancel_unfixed_heavy == SeqCancel(0, 1)
Cfg_seq_cancel == SeqCancel(1, 0)
\* the same on a pool WITHOUT threads: no schedule luck at all (bulk FQ queues one task: workRemaining_ 1 > load factor 0)
Seq0Cancel(fixed, heavy) == Mk(0, 1, <<SetR("cts", heavy, 1, 0)>>,
   [d1 |-> <<O("new", 1, 0, 0), O("bulkfq", 1, 1, 1), O("cancel", 1, 0, 0), O("sched", 1, 2, 0),
             O("wait", 1, 0, 0), O("del", 1, 0, 0)>>],
   NoBody(2), NoThrow(2), fixed, {})
Cfg_seq0_cancel == Seq0Cancel(1, 0)
Cfg_seq0_cancel_heavy == Seq0Cancel(1, 1)
Cfg_seq0_cancel_unfixed == Seq0Cancel(0, 0)
Cfg_seq0_cancel_unfixed_heavy == Seq0Cancel(0, 1)
\* cancellation by an exception: the thrower cancels the set, later bodies are skipped (C04/C05)
Cfg_exc_cancel == Mk(1, 1, <<SetR("ts", 0, 4, 0)>>,
   [d1 |-> <<O("new", 1, 0, 0), O("schedfq", 1, 1, 0), O("schedfq", 1, 2, 0), O("sched", 1, 3, 0),
             O("wait", 1, 0, 0), O("wait", 1, 0, 0), O("del", 1, 0, 0)>>],
   NoBody(3), <<1, 0, 0>>, 1, {"w0"})
\* two racing throwers, tryWait polling, repeated wait (small)
Cfg_exc2 == Mk(2, 4, <<SetR("cts", 0, 4, 0)>>,
   [d1 |-> <<O("new", 1, 0, 0), O("schedfq", 1, 1, 0), O("schedfq", 1, 2, 0),
             O("trywait", 1, 0, 1), O("wait", 1, 0, 0), O("wait", 1, 0, 0), O("del", 1, 0, 0)>>],
   NoBody(2), <<1, 1>>, 1, {"w0", "w1"})
\* ConcurrentTaskSet (kHeavy), 2 threads: schedulePlaced, bulk placed, FQ, skipRecheck, cancel by exception
Cfg_heavy == Mk(2, 1, <<SetR("cts", 1, 1, 0)>>,
   [d1 |-> <<O("new", 1, 0, 0), O("sched", 1, 1, 0), O("schedskip", 1, 2, 0), O("bulk", 1, 3, 2),
             O("wait", 1, 0, 0), O("del", 1, 0, 0)>>],
   NoBody(4), <<0, 1, 0, 0>>, 1, {"w0", "w1"})
\* a set nested in a task (ParentCascadeCancel::kOn) while the parent is cancelled from outside
Cfg_nested == Mk(1, 1, <<SetR("cts", 0, 2, 0), SetR("ts", 0, 1, 1)>>,
   [d1 |-> <<O("new", 1, 0, 0), O("schedfq", 1, 1, 0), O("wait", 1, 0, 0), O("sync", 0, 0, 0), O("del", 1, 0, 0)>>,
    d2 |-> <<O("await", 1, 0, 0), O("cancel", 1, 0, 0)>>],
   <<(<<O("new", 2, 0, 0), O("sched", 2, 2, 0), O("sched", 2, 3, 0), O("wait", 2, 0, 0), O("del", 2, 0, 0)>>), <<>>, <<>>>>,
   NoThrow(3), 1, {"w0"})
\* the same with one inner task (small enough for the quick tier)
Cfg_nested1 == Mk(1, 1, <<SetR("cts", 0, 2, 0), SetR("ts", 0, 1, 1)>>,
   [d1 |-> <<O("new", 1, 0, 0), O("schedfq", 1, 1, 0), O("wait", 1, 0, 0), O("sync", 0, 0, 0), O("del", 1, 0, 0)>>,
    d2 |-> <<O("await", 1, 0, 0), O("cancel", 1, 0, 0)>>],
   <<(<<O("new", 2, 0, 0), O("sched", 2, 2, 0), O("wait", 2, 0, 0), O("del", 2, 0, 0)>>), <<>>>>,
   NoThrow(2), 1, {"w0"})
\* racing throwers, repeated tryWait/wait (C05)
Cfg_exc == Mk(2, 4, <<SetR("cts", 0, 4, 0)>>,
   [d1 |-> <<O("new", 1, 0, 0), O("schedfq", 1, 1, 0), O("schedfq", 1, 2, 0), O("bulkfq", 1, 3, 1),
             O("trywait", 1, 0, 2), O("wait", 1, 0, 0), O("wait", 1, 0, 0), O("del", 1, 0, 0)>>],
   NoBody(3), <<1, 1, 0>>, 1, {"w0", "w1"})
\* tasks that schedule into their own ConcurrentTaskSet (fork-join recursion) + tryWait polling
Cfg_recursive == Mk(1, 1, <<SetR("cts", 0, 1, 0)>>,
   [d1 |-> <<O("new", 1, 0, 0), O("sched", 1, 1, 0), O("trywait", 1, 0, 1), O("wait", 1, 0, 0), O("del", 1, 0, 0)>>],
   <<(<<O("sched", 1, 2, 0), O("sched", 1, 3, 0)>>), <<>>, <<>>>>, <<0, 0, 1>>, 1, {"w0"})

\* ---- sets of configurations per check and tier (one TLC run each)
S_ts1 == {Cfg_ts1}
S_ts2 == {Cfg_ts2}
S_pool0 == {Cfg_pool0}
S_cts_cancel == {Cfg_cts_cancel}
S_cts_cancel_unfixed == {Cfg_cts_cancel_unfixed}
S_seq_cancel == {Cfg_seq_cancel}
S_seq_cancel_unfixed == {Cfg_seq_cancel_unfixed}
S_seq_cancel_unfixed_heavy == {Cfg_seq_cancel_unfixed_heavy}
S_heavy == {Cfg_heavy}
S_nested == {Cfg_nested}
S_nested1 == {Cfg_nested1}
S_exc == {Cfg_exc}
S_exc2 == {Cfg_exc2}
S_exc_cancel == {Cfg_exc_cancel}
S_recursive == {Cfg_recursive}
S_seq0_cancel == {Cfg_seq0_cancel}
S_seq0_cancel_heavy == {Cfg_seq0_cancel_heavy}
S_seq0_cancel_unfixed == {Cfg_seq0_cancel_unfixed}
S_seq0_cancel_unfixed_heavy == {Cfg_seq0_cancel_unfixed_heavy}
Set_c02_quick == {Cfg_ts1, Cfg_pool0, Cfg_recursive, Cfg_ts2}
Set_c02_thorough == {Cfg_ts1, Cfg_pool0, Cfg_recursive, Cfg_ts2, Cfg_heavy, Cfg_nested}
Set_c04_quick == {Cfg_seq0_cancel, Cfg_seq0_cancel_heavy, Cfg_exc_cancel, Cfg_nested1, Cfg_cts_cancel}
Set_c04_thorough == {Cfg_seq0_cancel, Cfg_seq0_cancel_heavy, Cfg_exc_cancel, Cfg_nested1, Cfg_cts_cancel, Cfg_nested, Cfg_seq_cancel}
Set_c04_unfixed == {Cfg_seq0_cancel_unfixed, Cfg_seq0_cancel_unfixed_heavy}
Set_c05_quick == {Cfg_exc2, Cfg_exc_cancel, Cfg_ts1}
Set_c05_thorough == {Cfg_exc2, Cfg_exc_cancel, Cfg_ts1, Cfg_exc, Cfg_heavy, Cfg_recursive}
Set_c47_quick == {Cfg_ts2}
Set_c47_thorough == {Cfg_ts2, Cfg_exc2, Cfg_heavy}
=============================================================================
