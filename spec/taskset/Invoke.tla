------------------------------- MODULE Invoke -------------------------------
(* C16 - parallel_invoke runs each functor exactly once, the last one on the caller.            *)
(*                                                                                              *)
(* A program is a tree of functors: functor k passes the functors Kids[k] (a sequence, empty =  *)
(* leaf) to parallel_invoke(tasks, ...) on ONE shared ConcurrentTaskSet (divide and conquer);    *)
(* functor 0 is the main thread, which calls parallel_invoke once and then tasks.wait().         *)
(* parallel_invoke.h: for every functor but the last: tasks.schedule(f, skipRecheck = true);     *)
(* the last one is called directly.  ConcurrentTaskSet::schedule (task_set.h):                   *)
(*   IF outstanding > threshold /\ inlineDepth < kMaxInlineDepth                                 *)
(*     THEN run f on the caller under an InlineDepthGuard (not packaged: outstanding unchanged)  *)
(*     ELSE outstanding++ and hand the packaged task to the pool (ForceQueuingTag); a pool with  *)
(*          zero threads runs it on the caller right away.                                       *)
(* threshold = max(threads + 1, loadFactor / 2) for TaskCost::kHeavy, loadFactor for lightweight,*)
(* loadFactor = multiplier * threads.  The pool is a bag of queued functors; idle workers and    *)
(* the thread inside tasks.wait() take from it.  The schedule decision is ONE step (hook site    *)
(* PiSchedule), the direct call of the last functor starts at hook site PiRunLast.               *)
EXTENDS Integers, Sequences, FiniteSets, TLC

CONSTANTS
  MaxW,       \* worker names w0 .. w(MaxW-1)
  Trees,      \* the program table: each a sequence Kids, Kids[k + 1] = kids of functor k (k = 0 .. N)
  Configs     \* scenarios [nw, p, mult, heavy, maxinl]; chosen by Init, never changed

VARIABLE conf
NW == conf.nw
Kids(k) == Trees[conf.p][k + 1]
NF == Len(Trees[conf.p]) - 1          \* functors 1 .. NF (0 is main)
Funs == 1 .. NF
MaxInline == conf.maxinl              \* kMaxInlineDepth
LoadFactor == conf.mult * NW
Thr == IF conf.heavy THEN (IF NW + 1 > LoadFactor \div 2 THEN NW + 1 ELSE LoadFactor \div 2) ELSE LoadFactor

WName(i) == CASE i = 0 -> "w0" [] i = 1 -> "w1" [] i = 2 -> "w2" [] OTHER -> "w3"
Workers == {WName(i) : i \in 0 .. NW - 1}
AllThreads == {"main"} \cup {WName(i) : i \in 0 .. MaxW - 1}

VARIABLES
  stk,      \* per thread: stack of frames [k, i, m, pkg]
  st,       \* per functor: "new" | "queued" | "running" | "done"
  out,      \* outstandingTaskCount_ of the task set
  depth,    \* per thread: PerThreadInfo::inlineDepth
  cnt,      \* ghost: invocations of functor k
  runner,   \* ghost: thread that invoked functor k ("" = none)
  retd      \* ghost: parallel_invoke called by functor k has returned (0 = main)
vars == <<conf, stk, st, out, depth, cnt, runner, retd>>

Top(t) == stk[t][Len(stk[t])]
Idle(t) == stk[t] = <<>>
SetTop(t, f) == [stk EXCEPT ![t] = [@ EXCEPT ![Len(@)] = f]]
Frame(k, pkg) == [k |-> k, i |-> 1, m |-> "body", pkg |-> pkg]
Last(k) == Kids(k)[Len(Kids(k))]

InitFor(c) ==
  /\ conf = c
  /\ stk = [t \in AllThreads |-> IF t = "main" THEN <<Frame(0, FALSE)>> ELSE <<>>]
  /\ st = [k \in 1 .. Len(Trees[c.p]) - 1 |-> "new"]
  /\ out = 0
  /\ depth = [t \in AllThreads |-> 0]
  /\ cnt = [k \in 1 .. Len(Trees[c.p]) - 1 |-> 0]
  /\ runner = [k \in 0 .. Len(Trees[c.p]) - 1 |-> IF k = 0 THEN "main" ELSE ""]
  /\ retd = [k \in 0 .. Len(Trees[c.p]) - 1 |-> FALSE]
Init == \E c \in Configs : InitFor(c)

(* starting functor k on thread t *)
Start(t, k, pkg, s) ==
  /\ stk' = [s EXCEPT ![t] = Append(@, Frame(k, pkg))]
  /\ st' = [st EXCEPT ![k] = "running"]
  /\ cnt' = [cnt EXCEPT ![k] = @ + 1]
  /\ runner' = [runner EXCEPT ![k] = t]

(* the functor's body calls parallel_invoke (leaf bodies do not) *)
PiCall(t) ==
  /\ ~Idle(t) /\ Top(t).m = "body" /\ Kids(Top(t).k) # <<>>
  /\ stk' = SetTop(t, [Top(t) EXCEPT !.m = "pi"])
  /\ UNCHANGED <<conf, st, out, depth, cnt, runner, retd>>

(* tasks.schedule(f_i, skipRecheck): the decision and its immediate effect are one step *)
PiSchedule(t) ==
  /\ ~Idle(t) /\ Top(t).m = "pi" /\ Top(t).i < Len(Kids(Top(t).k))
  /\ LET c == Kids(Top(t).k)[Top(t).i] IN
       IF out > Thr /\ depth[t] < MaxInline
         THEN \* run on the caller, guarded, not packaged
              /\ depth' = [depth EXCEPT ![t] = @ + 1]
              /\ Start(t, c, FALSE, SetTop(t, [Top(t) EXCEPT !.m = "piinl"]))
              /\ UNCHANGED <<conf, out, retd>>
         ELSE \* package it and hand it to the pool; with no pool thread the caller runs it next
              /\ out' = out + 1
              /\ st' = [st EXCEPT ![c] = "queued"]
              /\ stk' = SetTop(t, IF NW = 0 THEN [Top(t) EXCEPT !.m = "pisub0"]
                                            ELSE [Top(t) EXCEPT !.i = @ + 1])
              /\ UNCHANGED <<conf, depth, cnt, runner, retd>>

(* zero-thread pool: forceEnqueue calls the packaged task on the caller *)
RunSub0(t) ==
  /\ ~Idle(t) /\ Top(t).m = "pisub0"
  /\ Start(t, Kids(Top(t).k)[Top(t).i], TRUE, SetTop(t, [Top(t) EXCEPT !.m = "pisub"]))
  /\ UNCHANGED <<conf, out, depth, retd>>

(* the last functor: called directly by parallel_invoke *)
PiRunLast(t) ==
  /\ ~Idle(t) /\ Top(t).m = "pi" /\ Top(t).i = Len(Kids(Top(t).k))
  /\ Start(t, Last(Top(t).k), FALSE, SetTop(t, [Top(t) EXCEPT !.m = "pilast"]))
  /\ UNCHANGED <<conf, out, depth, retd>>

PiReturn(t) ==
  /\ ~Idle(t) /\ Top(t).m = "piret"
  /\ stk' = SetTop(t, [Top(t) EXCEPT !.m = "after"])
  /\ retd' = [retd EXCEPT ![Top(t).k] = TRUE]
  /\ UNCHANGED <<conf, st, out, depth, cnt, runner>>

(* a queued functor is taken by an idle worker or by the thread inside tasks.wait() *)
RunQueued(t, k) ==
  /\ st[k] = "queued"
  /\ \/ t \in Workers /\ Idle(t)
     \/ ~Idle(t) /\ Top(t).m = "wait"
  /\ Start(t, k, TRUE, stk)
  /\ UNCHANGED <<conf, out, depth, retd>>

(* the functor returns: to the worker loop / wait loop, or into the parallel_invoke that called it *)
End(t) ==
  /\ ~Idle(t) /\ Top(t).k # 0
  /\ Top(t).m = (IF Kids(Top(t).k) = <<>> THEN "body" ELSE "after")
  /\ LET f == Top(t)
         below == SubSeq(stk[t], 1, Len(stk[t]) - 1)
         pm == IF below = <<>> THEN "" ELSE below[Len(below)].m IN
       /\ st' = [st EXCEPT ![f.k] = "done"]
       /\ out' = IF f.pkg THEN out - 1 ELSE out
       /\ depth' = IF pm = "piinl" THEN [depth EXCEPT ![t] = @ - 1] ELSE depth
       /\ stk' = [stk EXCEPT ![t] =
            IF pm \in {"piinl", "pisub"} THEN [below EXCEPT ![Len(below)] = [@ EXCEPT !.m = "pi", !.i = @ + 1]]
            ELSE IF pm = "pilast" THEN [below EXCEPT ![Len(below)] = [@ EXCEPT !.m = "piret"]]
            ELSE below]
  /\ UNCHANGED <<conf, cnt, runner, retd>>

WaitCall(t) ==
  /\ t = "main" /\ ~Idle(t) /\ Top(t).k = 0 /\ Top(t).m = "after"
  /\ stk' = SetTop(t, [Top(t) EXCEPT !.m = "wait"])
  /\ UNCHANGED <<conf, st, out, depth, cnt, runner, retd>>

WaitReturn(t) ==
  /\ t = "main" /\ ~Idle(t) /\ Top(t).m = "wait" /\ out = 0
  /\ stk' = [stk EXCEPT ![t] = <<>>]
  /\ UNCHANGED <<conf, st, out, depth, cnt, runner, retd>>

AllDone == Idle("main")
Finished == AllDone /\ UNCHANGED vars

Next ==
  \/ \E t \in AllThreads :
       \/ PiCall(t) \/ PiSchedule(t) \/ RunSub0(t) \/ PiRunLast(t) \/ PiReturn(t)
       \/ (\E k \in Funs : RunQueued(t, k))
       \/ End(t) \/ WaitCall(t) \/ WaitReturn(t)
  \/ Finished

Spec == Init /\ [][Next]_vars

-----------------------------------------------------------------------------
(* C16 *)
ExactlyOnce ==
  /\ \A k \in Funs : cnt[k] <= 1
  /\ AllDone => \A k \in Funs : cnt[k] = 1 /\ st[k] = "done"
(* once parallel_invoke has returned to functor k, its last functor has run, on k's thread, and is finished *)
LastOnCaller ==
  \A k \in 0 .. NF : retd[k] => /\ st[Last(k)] = "done"
                               /\ runner[Last(k)] = runner[k]
(* ... and nobody else ever runs it: it is never handed to the pool *)
LastNeverQueued == \A k \in 0 .. NF : Kids(k) # <<>> => st[Last(k)] # "queued"
WaitBarrier == AllDone => (out = 0 /\ \A k \in Funs : st[k] = "done")
(* C46 side: the guard bounds the depth *)
DepthBounded == \A t \in AllThreads : depth[t] >= 0 /\ depth[t] <= MaxInline
TypeOK == out >= 0 /\ \A k \in Funs : st[k] \in {"new", "queued", "running", "done"}
=============================================================================
