------------------------------- MODULE Nested -------------------------------
(* C06 - nested waits never deadlock through pool starvation.                          *)
(*                                                                                      *)
(* Programs are small acyclic nestings: task bodies that schedule tasks into task sets  *)
(* (ConcurrentTaskSet heavy = placed scheduling, ConcurrentTaskSet lightweight, TaskSet),*)
(* launch futures on the pool (placed), bulk-schedule (the parallel_for path), wait() on *)
(* a set, get() a future, or run a waiting parallel loop.  The pool is modelled by its   *)
(* TIERS and by WHO POLLS WHAT, exactly as in thread_pool.h/.cpp and task_set.cpp:       *)
(*   central queue            workers, waiters                                           *)
(*   locality ring i          worker i, waiters (tryExecuteNextFromRings scans all)      *)
(*   steal ring g             workers of group g (i \div SS = g); any worker whose sticky*)
(*                            preferRing hint is set (cross steal);  waiters ONLY IF     *)
(*                            WaitPollSteal (= the repaired tryExecuteNextFromRings)     *)
(* Placed scheduling (heavy cost, futures) pushes to the steal ring of a sleeper it      *)
(* claimed (and wakes it), else to the central queue.  A thread inside wait() never      *)
(* parks: it only polls.  A thread inside Future::wait runs a not-yet-started functor    *)
(* inline, else blocks until the future is ready.  Failed polls are not modelled (they   *)
(* change nothing), so "every thread spins in a wait and the needed task sits in a tier  *)
(* nobody polls" is a state without enabled progress step: predicate Starved.            *)
EXTENDS Integers, Sequences, FiniteSets, TLC

CONSTANTS
  SS,             \* workers per steal ring (DISPENSO_TUNE_STEAL_RING_SHARING)
  MaxW,           \* largest pool (worker names w0 .. w(MaxW-1))
  Progs,          \* the program table (a sequence of programs)
  Configs         \* the scenarios: records [nw, p, wps, inl] (p indexes Progs); one is chosen by Init and never changes

(* The scenario is a variable fixed at Init so that ONE model-checking run (and one trace-validation *)
(* run) covers the whole program x pool-size matrix.                                                *)
VARIABLE conf
NW == conf.nw                \* pool threads
Prog == Progs[conf.p]        \* [sets |-> <<kind,...>>, tasks |-> <<[set, body],...>>, main |-> <<op,...>>]
WaitPollSteal == conf.wps    \* waiters also pop steal rings (TRUE = repaired code)
AllowInline == conf.inl      \* a non-forced schedule may run the task on the caller (load decisions abstracted)

WName(i) == CASE i = 0 -> "w0" [] i = 1 -> "w1" [] i = 2 -> "w2" [] OTHER -> "w3"
WIdx(t) == CASE t = "w0" -> 0 [] t = "w1" -> 1 [] t = "w2" -> 2 [] OTHER -> 3
Workers == {WName(i) : i \in 0 .. NW - 1}
Threads == {"main"} \cup Workers
AllWorkers == {WName(i) : i \in 0 .. MaxW - 1}
AllThreads == {"main"} \cup AllWorkers
Tasks == 1 .. Len(Prog.tasks)
Sets == 1 .. Len(Prog.sets)
NSteal == IF NW = 0 THEN 0 ELSE (NW + SS - 1) \div SS

None == <<"none", 0>>
Taken == <<"taken", 0>>
Central == <<"central", 0>>
RingT(i) == <<"ring", i>>
StealT(g) == <<"steal", g>>

SetOf(k) == Prog.tasks[k].set
Kind(k) == IF SetOf(k) = 0 THEN "fut" ELSE Prog.sets[SetOf(k)]
Body(k) == IF k = 0 THEN Prog.main ELSE Prog.tasks[k].body

VARIABLES
  stk,     \* per thread: stack of frames [k, pc, m]; k = 0 is main's program
  tier,    \* per task: where its queue entry is
  run,     \* per task: "ns" | "running" | "done"
  out,     \* per set: outstanding count
  asleep,  \* workers whose sleep bit is set (claimable)
  prefer,  \* per worker index: the sticky preferRing hint
  cnt      \* ghost: how many times the body of task k was started
vars == <<conf, stk, tier, run, out, asleep, prefer, cnt>>

Top(t) == stk[t][Len(stk[t])]
Idle(t) == stk[t] = <<>>
HasOp(t) == ~Idle(t) /\ Top(t).pc <= Len(Body(Top(t).k))
CurOp(t) == Body(Top(t).k)[Top(t).pc]
SetTop(s, t, f) == [s EXCEPT ![t] = [@ EXCEPT ![Len(@)] = f]]
WithMode(t, m) == SetTop(stk, t, [Top(t) EXCEPT !.m = m])
Advance(t) == SetTop(stk, t, [Top(t) EXCEPT !.m = "run", !.pc = @ + 1])
PushFrame(s, t, k) == [s EXCEPT ![t] = Append(@, [k |-> k, pc |-> 1, m |-> "run"])]
SeqSet(s) == {s[i] : i \in 1 .. Len(s)}
Unscheduled(K) == {k \in K : tier[k] = None /\ run[k] = "ns"}

InitFor(c) ==
  /\ conf = c
  /\ stk = [t \in AllThreads |-> IF t = "main" THEN <<[k |-> 0, pc |-> 1, m |-> "run"]>> ELSE <<>>]
  /\ tier = [k \in Tasks |-> None]
  /\ run = [k \in Tasks |-> "ns"]
  /\ out = [s \in Sets |-> 0]
  /\ asleep = {}
  /\ prefer = [i \in 0 .. MaxW - 1 |-> FALSE]
  /\ cnt = [k \in Tasks |-> 0]
Init == \E c \in Configs : InitFor(c)

IncOut(k) == IF SetOf(k) = 0 THEN out ELSE [out EXCEPT ![SetOf(k)] = @ + 1]
DecOut(k) == IF SetOf(k) = 0 THEN out ELSE [out EXCEPT ![SetOf(k)] = @ - 1]

-----------------------------------------------------------------------------
(* schedule / async: call, then exactly one of push-central, push-steal, run-inline, then return *)
CallSched(t) ==
  /\ HasOp(t) /\ Top(t).m = "run" /\ CurOp(t).op \in {"sched", "async"}
  /\ tier[CurOp(t).a] = None /\ run[CurOp(t).a] = "ns"
  /\ stk' = WithMode(t, "sched")
  /\ out' = IncOut(CurOp(t).a)
  /\ UNCHANGED <<conf, tier, run, asleep, prefer, cnt>>

PushCentral(t) ==
  /\ ~Idle(t) /\ Top(t).m = "sched" /\ NW > 0
  /\ tier' = [tier EXCEPT ![CurOp(t).a] = Central]
  /\ stk' = WithMode(t, "schedret")
  /\ UNCHANGED <<conf, run, out, asleep, prefer, cnt>>

(* the placed path: only heavy task sets and futures, only into a steal ring *)
PushStealTo(t, g) ==
  /\ ~Idle(t) /\ Top(t).m = "sched" /\ NW > 0 /\ g \in 0 .. NSteal - 1
  /\ Kind(CurOp(t).a) \in {"heavy", "fut"}
  /\ tier' = [tier EXCEPT ![CurOp(t).a] = StealT(g)]
  /\ stk' = WithMode(t, "schedret")
  /\ UNCHANGED <<conf, run, out, prefer, cnt>>

(* ... of the sleeper c it claimed; the claim clears c's sleep bit and wakes it *)
PushSteal(t, c) ==
  /\ c \in asleep
  /\ PushStealTo(t, WIdx(c) \div SS)
  /\ asleep' = asleep \ {c}

RunInline(t) ==
  /\ ~Idle(t) /\ Top(t).m = "sched"
  /\ NW = 0 \/ (AllowInline /\ CurOp(t).op = "sched")
  /\ LET k == CurOp(t).a IN
       /\ stk' = PushFrame(WithMode(t, "inl"), t, k)
       /\ run' = [run EXCEPT ![k] = "running"]
       /\ cnt' = [cnt EXCEPT ![k] = @ + 1]
  /\ UNCHANGED <<conf, tier, out, asleep, prefer>>

RetSched(t) ==
  /\ ~Idle(t) /\ Top(t).m = "schedret"
  /\ stk' = Advance(t)
  /\ UNCHANGED <<conf, tier, run, out, asleep, prefer, cnt>>

-----------------------------------------------------------------------------
(* bulk scheduling (TaskSet::scheduleBulk, the path parallel_for uses) and the waiting loop *)
CallBulk(t) ==
  /\ HasOp(t) /\ Top(t).m = "run" /\ CurOp(t).op \in {"bulk", "pfor"}
  /\ Unscheduled(SeqSet(CurOp(t).ks)) = SeqSet(CurOp(t).ks)
  /\ stk' = WithMode(t, CurOp(t).op)
  /\ out' = [out EXCEPT ![CurOp(t).a] = @ + Len(CurOp(t).ks)]
  /\ UNCHANGED <<conf, tier, run, asleep, prefer, cnt>>

BulkItems(t) == IF ~Idle(t) /\ Top(t).m \in {"bulk", "pfor"} THEN SeqSet(CurOp(t).ks) ELSE {}
BulkTiers(t, k) ==
  IF Kind(k) = "heavy" THEN {Central} \cup {StealT(g) : g \in 0 .. NSteal - 1}
  ELSE {Central} \cup (IF t = "main" THEN {RingT(i) : i \in 0 .. NW - 1} ELSE {})

BulkPushTo(t, K, tr) ==
  /\ ~Idle(t) /\ Top(t).m \in {"bulk", "pfor"} /\ NW > 0
  /\ K # {} /\ K \subseteq Unscheduled(SeqSet(CurOp(t).ks))
  /\ \A k \in K : tr \in BulkTiers(t, k)
  /\ tr[1] = "steal" => Cardinality(K) = 1
  /\ tier' = [k \in Tasks |-> IF k \in K THEN tr ELSE tier[k]]
  /\ UNCHANGED <<conf, stk, run, out, prefer, cnt>>

BulkPush(t, K, tr) == tr[1] # "steal" /\ BulkPushTo(t, K, tr) /\ UNCHANGED asleep

(* placed bulk item: into the steal ring of the sleeper it claimed *)
BulkPushSteal(t, k, c) ==
  /\ c \in asleep
  /\ BulkPushTo(t, {k}, StealT(WIdx(c) \div SS))
  /\ asleep' = asleep \ {c}

(* the caller runs an item itself (overload / zero threads / the loop's own share) *)
BulkInline(t, k) ==
  /\ ~Idle(t) /\ Top(t).m \in {"bulk", "pfor"}
  /\ k \in Unscheduled(SeqSet(CurOp(t).ks))
  /\ stk' = PushFrame(stk, t, k)
  /\ run' = [run EXCEPT ![k] = "running"]
  /\ cnt' = [cnt EXCEPT ![k] = @ + 1]
  /\ UNCHANGED <<conf, tier, out, asleep, prefer>>

RetBulk(t) ==
  /\ ~Idle(t) /\ Top(t).m = "bulk"
  /\ Unscheduled(SeqSet(CurOp(t).ks)) = {}
  /\ stk' = Advance(t)
  /\ UNCHANGED <<conf, tier, run, out, asleep, prefer, cnt>>

RetPfor(t) ==
  /\ ~Idle(t) /\ Top(t).m = "pfor"
  /\ Unscheduled(SeqSet(CurOp(t).ks)) = {}
  /\ out[CurOp(t).a] = 0
  /\ stk' = Advance(t)
  /\ UNCHANGED <<conf, tier, run, out, asleep, prefer, cnt>>

-----------------------------------------------------------------------------
(* who polls what *)
AllRings == {RingT(i) : i \in 0 .. NW - 1}
AllSteal == {StealT(g) : g \in 0 .. NSteal - 1}
WorkerPolled(i) ==
  {Central, RingT(i), StealT(i \div SS)} \cup (IF prefer[i] THEN AllSteal ELSE {})
WaiterPolled == {Central} \cup AllRings \cup (IF WaitPollSteal THEN AllSteal ELSE {})
Polled(t) ==
  IF Idle(t) THEN (IF t \in Workers /\ t \notin asleep THEN WorkerPolled(WIdx(t)) ELSE {})
  ELSE IF Top(t).m \in {"wait", "pfor"} THEN WaiterPolled ELSE {}

(* a thread pops task k from a tier it polls and runs it (a future already run by a getter *)
(* leaves a husk: popping it runs nothing)                                                 *)
TakeTier(t, k) ==
  /\ tier[k] \in Polled(t)
  /\ tier' = [tier EXCEPT ![k] = Taken]
  /\ prefer' = IF Idle(t) /\ tier[k][1] = "ring" THEN [prefer EXCEPT ![WIdx(t)] = TRUE]
               ELSE IF Idle(t) /\ tier[k][1] = "central" THEN [prefer EXCEPT ![WIdx(t)] = FALSE]
               ELSE prefer
TakeRun(t, k) ==
  IF run[k] = "ns"
    THEN /\ stk' = PushFrame(stk, t, k)
         /\ run' = [run EXCEPT ![k] = "running"]
         /\ cnt' = [cnt EXCEPT ![k] = @ + 1]
    ELSE UNCHANGED <<stk, run, cnt>>
Take(t, k) == TakeTier(t, k) /\ TakeRun(t, k) /\ UNCHANGED <<conf, out, asleep>>

EnterWait(t) ==
  /\ HasOp(t) /\ Top(t).m = "run" /\ CurOp(t).op = "wait"
  /\ stk' = WithMode(t, "wait")
  /\ UNCHANGED <<conf, tier, run, out, asleep, prefer, cnt>>

WaitReturn(t) ==
  /\ ~Idle(t) /\ Top(t).m = "wait"
  /\ out[CurOp(t).a] = 0
  /\ stk' = Advance(t)
  /\ UNCHANGED <<conf, tier, run, out, asleep, prefer, cnt>>

EnterGet(t) ==
  /\ HasOp(t) /\ Top(t).m = "run" /\ CurOp(t).op = "get"
  /\ stk' = WithMode(t, "get")
  /\ UNCHANGED <<conf, tier, run, out, asleep, prefer, cnt>>

(* Future::wait: a functor that has not started is run by the waiter itself *)
GetInline(t) ==
  /\ ~Idle(t) /\ Top(t).m = "get"
  /\ run[CurOp(t).a] = "ns" /\ tier[CurOp(t).a] # None
  /\ LET k == CurOp(t).a IN
       /\ stk' = PushFrame(stk, t, k)
       /\ run' = [run EXCEPT ![k] = "running"]
       /\ cnt' = [cnt EXCEPT ![k] = @ + 1]
  /\ UNCHANGED <<conf, tier, out, asleep, prefer>>

GetReturn(t) ==
  /\ ~Idle(t) /\ Top(t).m = "get"
  /\ run[CurOp(t).a] = "done"
  /\ stk' = Advance(t)
  /\ UNCHANGED <<conf, tier, run, out, asleep, prefer, cnt>>

EndTask(t) ==
  /\ ~Idle(t) /\ Top(t).m = "run" /\ ~HasOp(t) /\ Top(t).k # 0
  /\ LET k == Top(t).k
         below == SubSeq(stk[t], 1, Len(stk[t]) - 1) IN
       /\ run' = [run EXCEPT ![k] = "done"]
       /\ out' = DecOut(k)
       /\ stk' = [stk EXCEPT ![t] =
                    IF below # <<>> /\ below[Len(below)].m = "inl"
                      THEN [below EXCEPT ![Len(below)] = [@ EXCEPT !.m = "schedret"]]
                      ELSE below]
  /\ UNCHANGED <<conf, tier, asleep, prefer, cnt>>

MainEnd(t) ==
  /\ t = "main" /\ ~Idle(t) /\ Top(t).k = 0 /\ Top(t).m = "run" /\ ~HasOp(t)
  /\ stk' = [stk EXCEPT ![t] = <<>>]
  /\ UNCHANGED <<conf, tier, run, out, asleep, prefer, cnt>>

(* an idle worker that sees nothing in the tiers it polls parks; the back-stop time-out (or any *)
(* wake) brings it back.  A thread inside a wait never parks.                                   *)
Sleep(t) ==
  /\ t \in Workers /\ Idle(t) /\ t \notin asleep
  /\ ~\E k \in Tasks : tier[k] \in WorkerPolled(WIdx(t))
  /\ asleep' = asleep \cup {t}
  /\ UNCHANGED <<conf, stk, tier, run, out, prefer, cnt>>

TimeoutWake(t) ==
  /\ t \in asleep
  /\ asleep' = asleep \ {t}
  /\ UNCHANGED <<conf, stk, tier, run, out, prefer, cnt>>

-----------------------------------------------------------------------------
AllDone == Idle("main") /\ \A k \in Tasks : run[k] = "done" \/ (run[k] = "ns" /\ tier[k] = None)

Finished == AllDone /\ UNCHANGED vars

Progress(t) ==
  \/ CallSched(t) \/ PushCentral(t) \/ (\E c \in asleep : PushSteal(t, c)) \/ RunInline(t) \/ RetSched(t)
  \/ CallBulk(t) \/ (\E K \in SUBSET BulkItems(t), tr \in {Central} \cup AllRings : BulkPush(t, K, tr))
  \/ (\E k \in BulkItems(t), c \in asleep : BulkPushSteal(t, k, c))
  \/ (\E k \in BulkItems(t) : BulkInline(t, k)) \/ RetBulk(t) \/ RetPfor(t)
  \/ (\E k \in {j \in Tasks : tier[j] \in Polled(t)} : Take(t, k))
  \/ EnterWait(t) \/ WaitReturn(t) \/ EnterGet(t) \/ GetInline(t) \/ GetReturn(t)
  \/ EndTask(t) \/ MainEnd(t)

Next ==
  \/ \E t \in AllThreads :
       \/ CallSched(t) \/ PushCentral(t) \/ (\E c \in asleep : PushSteal(t, c)) \/ RunInline(t) \/ RetSched(t)
       \/ CallBulk(t)
       \/ (\E K \in SUBSET BulkItems(t), tr \in {Central} \cup AllRings : BulkPush(t, K, tr))
       \/ (\E k \in BulkItems(t), c \in asleep : BulkPushSteal(t, k, c))
       \/ (\E k \in BulkItems(t) : BulkInline(t, k)) \/ RetBulk(t) \/ RetPfor(t)
       \/ (\E k \in {j \in Tasks : tier[j] \in Polled(t)} : Take(t, k))
       \/ EnterWait(t) \/ WaitReturn(t) \/ EnterGet(t) \/ GetInline(t) \/ GetReturn(t)
       \/ EndTask(t) \/ MainEnd(t)
       \/ Sleep(t) \/ TimeoutWake(t)
  \/ Finished

Spec == Init /\ [][Next]_vars
(* weak fairness per thread: a thread that can take a step eventually does *)
FairSpec == Spec /\ \A t \in AllThreads : WF_vars(Progress(t)) /\ WF_vars(Sleep(t) \/ TimeoutWake(t))

-----------------------------------------------------------------------------
(* C06 *)
Termination == <>AllDone

(* every unfinished thread is inside a wait and what it needs sits where nobody polls: no       *)
(* progress step is enabled now, and waking the sleepers would not enable one either            *)
Starved ==
  /\ ~AllDone
  /\ \A t \in AllThreads : ~ENABLED Progress(t)
  /\ \A w \in asleep : ~\E k \in Tasks : tier[k] \in WorkerPolled(WIdx(w))
NoStarvation == ~Starved

(* safety side, also evaluated on every state of every recorded execution *)
TypeOK ==
  /\ \A k \in Tasks : run[k] \in {"ns", "running", "done"} /\ cnt[k] \in 0 .. 1
  /\ \A s \in Sets : out[s] >= 0
AtMostOnce == \A k \in Tasks : cnt[k] <= 1
(* a set whose count is zero has no unfinished task that was handed to it *)
BarrierOK == \A k \in Tasks : (SetOf(k) # 0 /\ out[SetOf(k)] = 0) => (run[k] # "running" /\ tier[k] \in {None, Taken})
(* a thread that returned from get() saw the future ready (checked in the action); a parked     *)
(* worker is idle                                                                               *)
SleepersIdle == \A w \in asleep : Idle(w)
=============================================================================
