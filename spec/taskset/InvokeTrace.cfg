CONSTANTS
  MaxW = 4
  Trees <- TraceTrees
  Configs <- TraceConfigs
SPECIFICATION TraceSpec
CHECK_DEADLOCK FALSE
POSTCONDITION TraceAccepted
INVARIANTS TypeOK ExactlyOnce LastOnCaller LastNeverQueued WaitBarrier DepthBounded Terminated
