------------------------------ MODULE TaskSet ------------------------------
(* Specification of dispenso::TaskSet / ConcurrentTaskSet / TaskSetBase                  *)
(* (dispenso/task_set.h, detail/task_set_impl.h, task_set.cpp) over an abstract pool.     *)
(*                                                                                         *)
(* One action per atomic access of task-set code; the action name is the                   *)
(* DISPENSO_VERIF_POINT site ("Ts...") placed immediately before that access.  Thread-     *)
(* local work between two points belongs to the step that starts at the earlier point.     *)
(* The pool is abstract: a package handed to it sits in a tier (central queue with the     *)
(* producer token it was enqueued with, per-thread ring i, steal ring); workers take from  *)
(* every tier they poll, task-set waiters from the central queue, the rings below          *)
(* numRings_ and (since /repo fix 2c204f8) the steal rings (TaskSet additionally drains    *)
(* its own token first); the pool's own inline                                             *)
(* decisions (shouldRunInline, forceEnqueue on a 0-thread pool) are functions of           *)
(* workRemaining_/numThreads_/poolLoadFactor_ exactly as in thread_pool.h.                 *)
(*                                                                                         *)
(* The specification is written functionally: the whole state is a "world" record          *)
(* [C, S, T, G, ok]; every action is an operator world -> world that clears `ok` when it   *)
(* is not enabled.  This lets the trace specification compose "site action ; op return".   *)
(*   C  configuration (programs of the driver threads, bodies of the tasks, sets, pool)   *)
(*   S  shared words: per set out/canc/guard/slot/kids/klock/alive/lfac/par, pool words   *)
(*   T  per thread: stack of frames (a frame = a running program: the driver's main       *)
(*      program or one task execution, with its pc and locals)                             *)
(*   G  ghost/history state used by the properties                                         *)
(* Operations (records [op, s, k, n]): new s | sched s k | schedskip s k | schedfq s k |   *)
(*   bulk s k n | bulkfq s k n | wait s | trywait s n | cancel s | del s | sync | await s  *)
(*   (trace only: newpool n | delpool | resize n)                                          *)
EXTENDS Integers, Sequences, FiniteSets, TLC

VARIABLES C, S, T, G
vars == <<C, S, T, G>>

RingCap == 2
Min(a, b) == IF a < b THEN a ELSE b
Max(a, b) == IF a > b THEN a ELSE b
Range(q) == {q[i] : i \in 1 .. Len(q)}
WNames == {"w0", "w1", "w2", "w3", "w4", "w5"}
IsW(t) == t \in WNames                      \* PerPoolPerThreadInfo::isPoolRecursive (single pool)
WIdx(t) == CASE t = "w0" -> 0 [] t = "w1" -> 1 [] t = "w2" -> 2 [] t = "w3" -> 3 [] t = "w4" -> 4 [] OTHER -> 5

\* ------------------------------------------------------------------------------ frames
F0 == [own |-> 0, ts |-> 0, wrap |-> "main", ip |-> 1, pc |-> "Start", opn |-> "", s |-> 0, k |-> 0, n |-> 0,
       i |-> 0, v |-> 0, cw |-> 0, nth |-> 0, room |-> 0, chunk |-> 0, bud |-> 0, pend |-> <<>>,
       cont |-> "", how |-> "", chk |-> "nochk", x |-> 0, cs |-> <<>>, ctx |-> "", var |-> "",
       fromq |-> FALSE, fqop |-> FALSE]

NS(c) == Len(c.sets)
NK(c) == Len(c.body)

InitS(c) ==
  [out |-> [s \in 1 .. NS(c) |-> 0], canc |-> [s \in 1 .. NS(c) |-> FALSE],
   guard |-> [s \in 1 .. NS(c) |-> 0], slot |-> [s \in 1 .. NS(c) |-> 0],
   kids |-> [s \in 1 .. NS(c) |-> <<>>], klock |-> [s \in 1 .. NS(c) |-> ""],
   alive |-> [s \in 1 .. NS(c) |-> 0], lfac |-> [s \in 1 .. NS(c) |-> 0], par |-> [s \in 1 .. NS(c) |-> 0],
   nt |-> c.nt, lf |-> c.nt * c.mult, nr |-> c.nt, wr |-> 0,
   tier |-> [k \in 1 .. NK(c) |-> <<"", 0>>]]

InitT(c) == [t \in (DOMAIN c.prog) \cup c.workers |-> IF t \in DOMAIN c.prog THEN <<F0>> ELSE <<>>]

InitG(c) ==
  [st |-> [k \in 1 .. NK(c) |-> "none"],      \* none | dropped | pend | q | run | fin
   res |-> [k \in 1 .. NK(c) |-> ""],         \* "" | done | threw | skip
   runs |-> [k \in 1 .. NK(c) |-> 0],         \* number of times the body was entered
   set |-> [k \in 1 .. NK(c) |-> 0],          \* the set the task was scheduled to
   sub |-> [k \in 1 .. NK(c) |-> ""],         \* submitting thread
   fq |-> [k \in 1 .. NK(c) |-> FALSE],       \* submitted with ForceQueuingTag
   incall |-> {},                             \* tasks whose submitting call has not returned
   ever |-> [s \in 1 .. NS(c) |-> FALSE],     \* cancel flag was ever stored
   pex |-> [s \in 1 .. NS(c) |-> 0],          \* captured, not yet delivered exception (id) of the set
   captured |-> {}, delivered |-> <<>>,       \* exception ids
   bad |-> {},                                \* names of violated ghost assertions
   log |-> <<>>]                              \* (trace mode) notes the step must have produced

InitWith(c) == C = c /\ S = InitS(c) /\ T = InitT(c) /\ G = InitG(c)

\* ------------------------------------------------------------------------------ world helpers
World == [C |-> C, S |-> S, T |-> T, G |-> G, ok |-> TRUE]
No(w) == [w EXCEPT !.ok = FALSE]
Depth(w, t) == Len(w.T[t])
Top(w, t) == w.T[t][Len(w.T[t])]
SetTop(w, t, f) == [w EXCEPT !.T[t][Len(w.T[t])] = f]
PushF(w, t, f) == [w EXCEPT !.T[t] = Append(@, f)]
PopF(w, t) == [w EXCEPT !.T[t] = SubSeq(@, 1, Len(@) - 1)]
AtPc(w, t, p) == Depth(w, t) > 0 /\ Top(w, t).pc = p
Trace(w) == w.C.trace = 1
Bad(w, tag) == [w EXCEPT !.G.bad = @ \cup {tag}]
Log(w, e) == IF Trace(w) THEN [w EXCEPT !.G.log = Append(@, e)] ELSE w
ProgOf(w, t, f) == IF f.own = 0 THEN w.C.prog[t] ELSE w.C.body[f.own]
SetCfg(w, s) == w.C.sets[s]
IsTs(w, s) == SetCfg(w, s).kind = "ts"
Heavy(w, s) == SetCfg(w, s).heavy = 1
Tok(w, s) == IF IsTs(w, s) THEN s ELSE 0
\* parentTaskSet(): the set of the innermost package running on this thread (0 = none)
RECURSIVE ParentIn(_, _)
ParentIn(stk, j) == IF j = 0 THEN 0 ELSE IF stk[j].wrap = "pkg" THEN stk[j].ts ELSE ParentIn(stk, j - 1)
ParentTS(w, t) == ParentIn(w.T[t], Len(w.T[t]))

\* ThreadPool::shouldRunInline()
ShouldRunInline(w, t) == (IsW(t) /\ w.S.wr > w.S.nt + (w.S.nt \div 2)) \/ w.S.wr > w.S.lf

OpIds(o) == IF o.op \in {"sched", "schedskip", "schedfq"} THEN {o.k}
            ELSE IF o.op \in {"bulk", "bulkfq"} THEN o.k .. (o.k + o.n - 1) ELSE {}

\* the current operation of the top frame returns `res` (a note triple) to its caller
OpDone(w, t, res) ==
  LET f == Top(w, t)
      prog == ProgOf(w, t, f)
      ip2 == f.ip + 1
      pc2 == IF ip2 > Len(prog) THEN (IF f.own = 0 THEN "DrEnd" ELSE "DrBodyEnd") ELSE "DrOp"
      f2 == [F0 EXCEPT !.own = f.own, !.wrap = f.wrap, !.ts = f.ts, !.ip = ip2, !.pc = pc2, !.fromq = f.fromq]
      w1 == [SetTop(w, t, f2) EXCEPT !.G.incall = @ \ OpIds(prog[f.ip])]
  IN Log(w1, res)
Ret(v) == <<"ret", v, 0>>
Exc(id) == <<"exc", id, 0>>

\* ------------------------------------------------------------------------------ bodies
\* after an inline body of the bulk loops: ++i, loop condition
BulkNext(w, t) ==
  LET f == Top(w, t) IN
  IF f.i + 1 < f.n THEN SetTop(w, t, [f EXCEPT !.i = f.i + 1, !.pc = "TsBulkLoadCancel"])
  ELSE OpDone(w, t, Ret(0))

\* the catch(...) { trySetCurrentException(); } of a package / invokeInline has finished
ExcDone(w, t) ==
  LET f == Top(w, t) IN
  IF f.wrap = "pkg" THEN SetTop(w, t, [f EXCEPT !.pc = "TsPkgDec"])
  ELSE BulkNext(PopF([w EXCEPT !.G.st[f.own] = "fin"], t), t)

\* the body of the task in the top frame ends (normally or by throwing its exception)
EndBody(w, t) ==
  LET f == Top(w, t)
      k == f.own
  IN
  IF w.C.throws[k] = 1 THEN
    LET w1 == Log([w EXCEPT !.G.res[k] = "threw"], <<"throw", k, 0>>) IN
    IF f.wrap \in {"pkg", "inl"} THEN SetTop(w1, t, [f EXCEPT !.pc = "TsExcCas"])
    ELSE \* raw inline call in schedule(): the exception propagates to the scheduling caller
         OpDone(PopF([w1 EXCEPT !.G.st[k] = "fin"], t), t, Exc(k))
  ELSE
    LET w1 == Log([w EXCEPT !.G.res[k] = "done"], <<"end", k, 0>>) IN
    CASE f.wrap = "pkg" -> SetTop(w1, t, [f EXCEPT !.pc = "TsPkgDec"])
      [] f.wrap = "raw" -> OpDone(PopF([w1 EXCEPT !.G.st[k] = "fin"], t), t, Ret(0))
      [] OTHER -> BulkNext(PopF([w1 EXCEPT !.G.st[k] = "fin"], t), t)

\* task k's body is entered by thread t.  chk: what the cancellation check guarding this path saw
\* ("false"), or "true" (a check saw the flag and the body runs nevertheless), or "nochk" (no check on
\* this path: then the body *starts* at its first instruction, soundness rule R2)
BeginBody(w, t, k, s, wrap, chk, fromq) ==
  LET bad04 == chk = "true" \/ (chk = "nochk" /\ w.S.canc[s])
      w1 == [w EXCEPT !.G.runs[k] = @ + 1, !.G.st[k] = "run",
                      !.G.bad = @ \cup (IF bad04 THEN {"StartAfterCancel"} ELSE {})]
      fr == [F0 EXCEPT !.own = k, !.wrap = wrap, !.ts = s, !.pc = "DrOp", !.fromq = fromq]
      w2 == Log(PushF(w1, t, fr), <<"begin", k, 0>>)
  IN IF Len(w.C.body[k]) = 0 THEN EndBody(w2, t) ELSE w2

\* ------------------------------------------------------------------------------ taking a package
TierOK(w, t, k, role) ==
  LET tr == w.S.tier[k] IN
  CASE role = "worker" -> tr[1] \in {"c", "s"} \/ (tr[1] = "r" /\ tr[2] = WIdx(t) /\ WIdx(t) < w.S.nt)
    [] role = "waiter" -> tr[1] \in {"c", "s"} \/ (tr[1] = "r" /\ tr[2] < w.S.nr)   \* (steal rings: since /repo fix 2c204f8)
    [] role = "tok" -> tr[1] = "c" /\ tr[2] = Top(w, t).s /\ tr[2] # 0
    [] OTHER -> FALSE
PendElsewhere(w, t, k) ==
  \E u \in DOMAIN w.T : u # t /\ \E j \in 1 .. Len(w.T[u]) :
      w.T[u][j].pc \in {"PoEnq", "PoAny"} /\ k \in Range(w.T[u][j].pend)
Avail(w, t, k, role) ==
  IF Trace(w) THEN w.G.st[k] = "q" \/ (w.G.st[k] = "pend" /\ PendElsewhere(w, t, k))
  ELSE w.G.st[k] = "q" /\ TierOK(w, t, k, role)
\* remove k from the pool (and, in trace mode, from the pending list of a call that is still in the pool)
Unq(w, k) ==
  LET w1 == [w EXCEPT !.S.tier[k] = <<"", 0>>] IN
  IF w.G.st[k] = "pend"
    THEN [w1 EXCEPT !.T = [u \in DOMAIN w.T |-> [j \in 1 .. Len(w.T[u]) |->
                              [w.T[u][j] EXCEPT !.pend = SelectSeq(@, LAMBDA x : x # k)]]]]
    ELSE w1
AfterInline(f) ==
  LET rest == Tail(f.pend) IN [f EXCEPT !.pend = rest, !.pc = IF rest = <<>> THEN f.cont ELSE f.pc]
NoTake == [ok |-> FALSE, w |-> 0, fromq |-> FALSE]
\* may thread t start package k now?  result: the world with k taken and the caller's frame advanced
TakeFor(w, t, k) ==
  IF Depth(w, t) = 0 THEN
    IF IsW(t) /\ Avail(w, t, k, "worker") THEN [ok |-> TRUE, w |-> Unq(w, k), fromq |-> TRUE] ELSE NoTake
  ELSE
    LET f == Top(w, t) IN
    CASE f.pc \in {"PoInline", "PoAny"} /\ f.pend # <<>> /\ Head(f.pend) = k ->
           [ok |-> TRUE, w |-> SetTop(w, t, AfterInline(f)), fromq |-> FALSE]
      [] f.pc = "PoAny" /\ Trace(w) /\ k \in Range(f.pend) ->
           \* (trace) scheduleBulkPlaced enqueued the packages before k (not visible as task-set events) and runs k inline
           LET idx == CHOOSE i \in 1 .. Len(f.pend) : f.pend[i] = k
               before == {f.pend[i] : i \in 1 .. (idx - 1)}
               rest == SubSeq(f.pend, idx + 1, Len(f.pend))
               w1 == [w EXCEPT !.S.tier = [j \in DOMAIN @ |-> IF j \in before THEN <<"q", 0>> ELSE @[j]],
                               !.G.st = [j \in DOMAIN @ |-> IF j \in before THEN "q" ELSE @[j]]]
           IN [ok |-> TRUE, w |-> SetTop(w1, t, [f EXCEPT !.pend = rest, !.pc = IF rest = <<>> THEN f.cont ELSE f.pc]), fromq |-> FALSE]
      [] f.pc = "PoEnq" /\ Trace(w) /\ f.pend # <<>> /\ Head(f.pend) = k ->
           \* the pool ran on the caller a package it had to queue: recorded, judged by the invariants
           [ok |-> TRUE, w |-> Bad(SetTop(w, t, AfterInline(f)), IF f.fqop THEN "ForceQueuedRanInline" ELSE "QueuedRanInline"),
            fromq |-> FALSE]
      [] f.pc = "WaitPoll" /\ Avail(w, t, k, "waiter") -> [ok |-> TRUE, w |-> Unq(w, k), fromq |-> TRUE]
      [] f.pc = "WaitPollTok" /\ Avail(w, t, k, "tok") -> [ok |-> TRUE, w |-> Unq(w, k), fromq |-> TRUE]
      [] f.pc = "TryPoll" /\ Avail(w, t, k, "waiter") ->
           [ok |-> TRUE, w |-> Unq(SetTop(w, t, [f EXCEPT !.bud = f.bud - 1, !.pc = "TsTryLoadOut"]), k), fromq |-> TRUE]
      [] f.pc = "TryPollTok" /\ Avail(w, t, k, "tok") ->
           [ok |-> TRUE, w |-> Unq(SetTop(w, t, [f EXCEPT !.bud = f.bud - 1, !.pc = "TsTryLoadOutTok"]), k), fromq |-> TRUE]
      [] f.pc = "InPool" /\ Trace(w) /\ Avail(w, t, k, "any") -> [ok |-> TRUE, w |-> Unq(w, k), fromq |-> TRUE]
      [] OTHER -> NoTake

\* ------------------------------------------------------------------------------ package wrapper
\* packageTask / packageTaskNoIncrement lambda: `if (!canceled_.load(acquire))`
TsPkgLoadCancel(w, t, k) ==
  IF ~(k \in 1 .. NK(w.C)) \/ w.G.st[k] \notin {"q", "pend"} THEN No(w) ELSE
  LET tk == TakeFor(w, t, k)
      s == w.G.set[k]
  IN IF ~tk.ok THEN No(w)
     ELSE IF tk.w.S.canc[s]
       THEN PushF([tk.w EXCEPT !.G.st[k] = "run", !.G.res[k] = "skip"], t,
                  [F0 EXCEPT !.own = k, !.wrap = "pkg", !.ts = s, !.pc = "TsPkgDec", !.fromq = tk.fromq])
       ELSE BeginBody(tk.w, t, k, s, "pkg", "false", tk.fromq)

\* `outstandingTaskCount_.fetch_sub(1, release)` at the end of the package
TsPkgDec(w, t) ==
  IF ~AtPc(w, t, "TsPkgDec") THEN No(w) ELSE
  LET f == Top(w, t)
      w1 == [w EXCEPT !.S.out[f.ts] = @ - 1, !.G.st[f.own] = "fin",
                      !.S.wr = IF f.fromq THEN @ - 1 ELSE @]     \* executeNext / worker accounting (abstracted)
  IN PopF(w1, t)

\* ------------------------------------------------------------------------------ exceptions
TsExcCas(w, t) ==
  IF ~AtPc(w, t, "TsExcCas") THEN No(w) ELSE
  LET f == Top(w, t) IN
  IF w.S.guard[f.ts] = 0
    THEN SetTop([w EXCEPT !.S.guard[f.ts] = 1, !.S.slot[f.ts] = f.own, !.G.captured = @ \cup {f.own},
                          !.G.pex[f.ts] = f.own], t, [f EXCEPT !.pc = "TsExcStoreSet"])
    ELSE ExcDone(w, t)
TsExcStoreSet(w, t) ==
  IF ~AtPc(w, t, "TsExcStoreSet") THEN No(w) ELSE
  LET f == Top(w, t) IN SetTop([w EXCEPT !.S.guard[f.ts] = 2], t, [f EXCEPT !.pc = "TsExcStoreCancel"])
TsExcStoreCancel(w, t) ==
  IF ~AtPc(w, t, "TsExcStoreCancel") THEN No(w) ELSE
  LET f == Top(w, t) IN ExcDone([w EXCEPT !.S.canc[f.ts] = TRUE, !.G.ever[f.ts] = TRUE], t)

\* testAndResetException()
BarrierBad(w, s) == \E k \in 1 .. NK(w.C) : w.G.set[k] = s /\ w.G.st[k] \in {"pend", "q", "run"}
TsTarLoadGuard(w, t) ==
  IF ~AtPc(w, t, "TsTarLoadGuard") THEN No(w) ELSE
  LET f == Top(w, t) IN
  IF w.S.guard[f.s] = 2
    THEN SetTop([w EXCEPT !.S.slot[f.s] = 0], t, [f EXCEPT !.x = w.S.slot[f.s], !.pc = "TsTarStoreUnset"])
    ELSE SetTop(w, t, [f EXCEPT !.pc = "TsTarLoadCancel"])
\* completion of wait()/tryWait()->true/destructor on set s was observed: the barrier must hold
Completed(w, s) == IF BarrierBad(w, s) THEN Bad(w, "BarrierBroken") ELSE w
TsTarStoreUnset(w, t) ==
  IF ~AtPc(w, t, "TsTarStoreUnset") THEN No(w) ELSE
  LET f == Top(w, t)
      w1 == [w EXCEPT !.S.guard[f.s] = 0, !.G.delivered = Append(@, f.x),
                      !.G.pex[f.s] = IF @ = f.x THEN 0 ELSE @]
      w2 == Completed(IF f.opn = "del" THEN Bad(w1, "DestructorThrows") ELSE w1, f.s)
  IN OpDone(w2, t, Exc(f.x))
\* after the destructor's wait(): ~TaskSetBase unregisters from the parent
AfterDelWait(w, t) ==
  LET f == Top(w, t) IN
  IF w.S.par[f.s] # 0 THEN SetTop(w, t, [f EXCEPT !.ctx = "unreg", !.pc = "TsKidsLock"])
  ELSE OpDone([w EXCEPT !.S.alive[f.s] = 2], t, Ret(0))
TsTarLoadCancel(w, t) ==
  IF ~AtPc(w, t, "TsTarLoadCancel") THEN No(w) ELSE
  LET f == Top(w, t)
      c == w.S.canc[f.s]
      w1 == Completed(IF w.G.pex[f.s] # 0 THEN Bad(w, "ExceptionLost") ELSE w, f.s)
      w2 == IF c # w.G.ever[f.s] THEN Bad(w1, "CancelNotReported") ELSE w1
  IN CASE f.opn = "wait" -> OpDone(w2, t, Ret(IF c THEN 1 ELSE 0))
       [] f.opn = "trywait" -> OpDone(w2, t, Ret(IF c THEN 0 ELSE 1))
       [] OTHER -> AfterDelWait(w2, t)

\* ------------------------------------------------------------------------------ wait / tryWait
TsWaitLoadOut(w, t) ==
  IF ~(Depth(w, t) > 0 /\ Top(w, t).pc \in {"TsWaitLoadOut", "WaitPollTok"}) THEN No(w) ELSE
  LET f == Top(w, t) IN
  SetTop(w, t, [f EXCEPT !.pc = IF w.S.out[f.s] = 0 THEN "TsTarLoadGuard" ELSE "WaitPoll"])
TsWaitLoadOut2(w, t) ==
  IF ~AtPc(w, t, "WaitPoll") THEN No(w) ELSE SetTop(w, t, [Top(w, t) EXCEPT !.pc = "TsWaitLoadOut"])
TsTryLoadOutTok(w, t) ==
  IF ~AtPc(w, t, "TsTryLoadOutTok") THEN No(w) ELSE
  LET f == Top(w, t) IN
  SetTop(w, t, [f EXCEPT !.pc = IF w.S.out[f.s] # 0 /\ f.bud > 0 THEN "TryPollTok" ELSE "TsTryLoadOut"])
TsTryLoadOut(w, t) ==
  IF ~(Depth(w, t) > 0 /\ Top(w, t).pc \in {"TsTryLoadOut", "TryPollTok"}) THEN No(w) ELSE
  LET f == Top(w, t) IN
  SetTop(w, t, [f EXCEPT !.pc = IF w.S.out[f.s] # 0 /\ f.bud > 0 THEN "TryPoll" ELSE "TsTryLoadFinal"])
TsTryLoadFinal(w, t) ==
  IF ~(Depth(w, t) > 0 /\ Top(w, t).pc \in {"TsTryLoadFinal", "TryPoll"}) THEN No(w) ELSE
  LET f == Top(w, t) IN
  IF w.S.out[f.s] # 0 THEN OpDone(w, t, Ret(0)) ELSE SetTop(w, t, [f EXCEPT !.pc = "TsTarLoadGuard"])

\* ------------------------------------------------------------------------------ cancel / children
\* continue a cascading cancel after a child list has been locked or a child has been handled
RECURSIVE Unwind(_, _)
Unwind(w, t) ==
  LET f == Top(w, t) IN
  IF f.cs = <<>> THEN OpDone(w, t, Ret(0))
  ELSE LET fr == f.cs[Len(f.cs)] IN
       IF fr.rest = <<>>
         THEN Unwind(SetTop([w EXCEPT !.S.klock[fr.s] = ""], t, [f EXCEPT !.cs = SubSeq(@, 1, Len(@) - 1)]), t)
         ELSE SetTop(w, t, [f EXCEPT !.cs[Len(f.cs)].rest = Tail(fr.rest), !.x = Head(fr.rest), !.pc = "TsCancelStore"])
TsCancelStore(w, t) ==
  IF ~AtPc(w, t, "TsCancelStore") THEN No(w) ELSE
  LET f == Top(w, t) IN
  SetTop([w EXCEPT !.S.canc[f.x] = TRUE, !.G.ever[f.x] = TRUE], t,
         [f EXCEPT !.cs = Append(@, [s |-> f.x, rest |-> <<>>]), !.ctx = "cas", !.pc = "TsKidsLock"])
\* std::lock_guard on the child-list mutex (polled) + the critical section up to the next point
TsKidsLock(w, t) ==
  IF ~AtPc(w, t, "TsKidsLock") THEN No(w) ELSE
  LET f == Top(w, t)
      m == IF f.ctx = "cas" THEN f.cs[Len(f.cs)].s ELSE w.S.par[f.s]
  IN IF w.S.klock[m] # "" THEN w      \* try_lock failed: poll again
     ELSE CASE f.ctx = "reg" ->        \* registerChild
                 SetTop([w EXCEPT !.S.kids[m] = Append(@, f.s)], t, [f EXCEPT !.pc = "TsCtorLoadPCancel"])
            [] f.ctx = "unreg" ->      \* unregisterChild
                 OpDone([w EXCEPT !.S.kids[m] = SelectSeq(@, LAMBDA x : x # f.s), !.S.alive[f.s] = 2], t, Ret(0))
            [] OTHER ->                \* cancelChildren
                 Unwind(SetTop([w EXCEPT !.S.klock[m] = t], t, [f EXCEPT !.cs[Len(f.cs)].rest = w.S.kids[m]]), t)
TsCtorLoadPCancel(w, t) ==
  IF ~AtPc(w, t, "TsCtorLoadPCancel") THEN No(w) ELSE
  LET f == Top(w, t) IN
  IF w.S.canc[w.S.par[f.s]] THEN SetTop(w, t, [f EXCEPT !.pc = "TsCtorStoreCancel"])
  ELSE OpDone(w, t, Ret(0))
TsCtorStoreCancel(w, t) ==
  IF ~AtPc(w, t, "TsCtorStoreCancel") THEN No(w) ELSE
  LET f == Top(w, t) IN OpDone([w EXCEPT !.S.canc[f.s] = TRUE, !.G.ever[f.s] = TRUE], t, Ret(0))

\* ------------------------------------------------------------------------------ single schedule
Dropped(w, ids) == [w EXCEPT !.G.st = [k \in DOMAIN @ |-> IF k \in ids /\ @[k] = "none" THEN "dropped" ELSE @[k]]]
\* hand the ids to the pool: packageTask's fetch_add already happened
ToPool(w, t, f, ids, how, cont) ==
  LET pc2 == CASE how = "tok" -> "TpInlineCheck"
               [] how \in {"fq", "pfq"} -> "TpFqLoadThreads"
               [] how = "bulkpl" -> "PoAny"
               [] OTHER -> "PoEnq"
      w1 == [w EXCEPT !.G.st = [k \in DOMAIN @ |-> IF k \in Range(ids) THEN "pend" ELSE @[k]],
                      !.G.set = [k \in DOMAIN @ |-> IF k \in Range(ids) THEN f.s ELSE @[k]],
                      !.G.sub = [k \in DOMAIN @ |-> IF k \in Range(ids) THEN t ELSE @[k]],
                      !.G.fq = [k \in DOMAIN @ |-> IF k \in Range(ids) THEN f.fqop ELSE @[k]],
                      !.G.incall = @ \cup Range(ids)]
  IN SetTop(w1, t, [f EXCEPT !.pend = ids, !.how = how, !.cont = cont, !.pc = pc2])

TsSchedLoadCancel(w, t) ==
  IF ~AtPc(w, t, "TsSchedLoadCancel") THEN No(w) ELSE
  LET f == Top(w, t) IN
  IF w.S.canc[f.s] THEN OpDone(Dropped(w, {f.k}), t, Ret(0))
  ELSE SetTop(w, t, [f EXCEPT !.chk = "false", !.pc = "TsSchedLoadOut"])
TsSchedLoadOut(w, t) ==
  IF ~AtPc(w, t, "TsSchedLoadOut") THEN No(w) ELSE
  LET f == Top(w, t) IN
  IF w.S.out[f.s] > w.S.lfac[f.s]
    THEN BeginBody([w EXCEPT !.G.set[f.k] = f.s], t, f.k, f.s, "raw", f.chk, FALSE)
    ELSE SetTop(w, t, [f EXCEPT !.how = "tok", !.pc = "TsPkgInc"])
TsPkgInc(w, t) ==
  IF ~AtPc(w, t, "TsPkgInc") THEN No(w) ELSE
  LET f == Top(w, t) IN ToPool([w EXCEPT !.S.out[f.s] = @ + 1], t, f, <<f.k>>, f.how, "OpRet")

\* ConcurrentTaskSet::schedule (kLightweight) / schedulePlaced (kHeavy)
FqHow(w, s) == IF IsTs(w, s) THEN "fq" ELSE IF Heavy(w, s) THEN "pfq" ELSE "fq"
CtsFirst(w, t, thr) ==     \* `outstanding > threshold && !canceled() && canInlineSchedule()`
  LET f == Top(w, t) IN
  IF w.S.out[f.s] > thr
    THEN IF ~w.S.canc[f.s]
           THEN BeginBody([w EXCEPT !.G.set[f.k] = f.s], t, f.k, f.s, "raw", "false", FALSE)
           ELSE SetTop(w, t, [f EXCEPT !.chk = "true", !.pc = IF f.opn = "schedskip" THEN "TsPkgInc" ELSE "TsCtsLoadWork"])
    ELSE SetTop(w, t, [f EXCEPT !.chk = "nochk", !.pc = IF f.opn = "schedskip" THEN "TsPkgInc" ELSE "TsCtsLoadWork"])
TsCtsLoadOut(w, t) == IF ~AtPc(w, t, "TsCtsLoadOut") THEN No(w) ELSE CtsFirst(w, t, w.S.lfac[Top(w, t).s])
TsPlLoadThreads(w, t) ==
  IF ~AtPc(w, t, "TsPlLoadThreads") THEN No(w) ELSE
  SetTop(w, t, [Top(w, t) EXCEPT !.nth = w.S.nt, !.pc = "TsPlLoadOut"])
TsPlLoadOut(w, t) ==
  IF ~AtPc(w, t, "TsPlLoadOut") THEN No(w) ELSE
  LET f == Top(w, t) IN CtsFirst(w, t, Max(f.nth + 1, w.S.lfac[f.s] \div 2))
TsCtsLoadWork(w, t) ==
  IF ~AtPc(w, t, "TsCtsLoadWork") THEN No(w) ELSE SetTop(w, t, [Top(w, t) EXCEPT !.cw = w.S.wr, !.pc = "TsCtsLoadThreads"])
TsCtsLoadThreads(w, t) ==
  IF ~AtPc(w, t, "TsCtsLoadThreads") THEN No(w) ELSE SetTop(w, t, [Top(w, t) EXCEPT !.nth = w.S.nt, !.pc = "TsCtsLoadLf"])
TsCtsLoadLf(w, t) ==
  IF ~AtPc(w, t, "TsCtsLoadLf") THEN No(w) ELSE
  LET f == Top(w, t) IN
  IF (IsW(t) /\ f.cw > f.nth + (f.nth \div 2)) \/ f.cw > w.S.lf
    THEN \* pool overloaded: run on the caller.  The repaired code tests canceled() first.
         IF w.C.fixed = 1 THEN SetTop(w, t, [f EXCEPT !.pc = "TsCtsLoadCancel2"])
         ELSE BeginBody([w EXCEPT !.G.set[f.k] = f.s], t, f.k, f.s, "raw", f.chk, FALSE)
    ELSE SetTop(w, t, [f EXCEPT !.pc = "TsPkgInc"])
TsCtsLoadCancel2(w, t) ==
  IF ~AtPc(w, t, "TsCtsLoadCancel2") THEN No(w) ELSE
  LET f == Top(w, t) IN
  IF w.S.canc[f.s] THEN OpDone(Dropped(w, {f.k}), t, Ret(0))
  ELSE BeginBody([w EXCEPT !.G.set[f.k] = f.s], t, f.k, f.s, "raw", "false", FALSE)

\* ------------------------------------------------------------------------------ bulk
BulkIds(f, m) == [j \in 1 .. m |-> f.k + f.i + j - 1]
TsBulkLoadThreads(w, t) ==
  IF ~AtPc(w, t, "TsBulkLoadThreads") THEN No(w) ELSE
  LET f == Top(w, t)
      nth == w.S.nt
      f1 == [f EXCEPT !.nth = nth, !.chunk = Max(1, nth + (nth \div 2)), !.i = 0]
  IN SetTop(w, t, [f1 EXCEPT !.pc = IF f.var = "std" THEN "TsBulkLoadRings" ELSE "TsBulkLoadCancel"])
TsBulkLoadRings(w, t) ==
  IF ~AtPc(w, t, "TsBulkLoadRings") THEN No(w) ELSE
  LET f == Top(w, t) IN
  IF f.n * 4 >= f.nth /\ f.n <= f.nth /\ w.S.nr >= f.n /\ ~IsW(t) /\ w.S.out[f.s] <= w.S.lfac[f.s]
    THEN SetTop(w, t, [f EXCEPT !.room = f.n, !.how = "rings", !.pc = "TsBulkIncN"])
    ELSE SetTop(w, t, [f EXCEPT !.pc = "TsBulkLoadCancel"])
TsBulkLoadCancel(w, t) ==
  IF ~AtPc(w, t, "TsBulkLoadCancel") THEN No(w) ELSE
  LET f == Top(w, t) IN
  IF w.S.canc[f.s] THEN OpDone(Dropped(w, (f.k + f.i) .. (f.k + f.n - 1)), t, Ret(0))
  ELSE IF f.var = "fq"
         THEN SetTop(w, t, [f EXCEPT !.chk = "false", !.room = Min(f.n - f.i, f.chunk), !.how = "bulkenq", !.pc = "TsBulkIncN"])
         ELSE SetTop(w, t, [f EXCEPT !.chk = "false", !.pc = "TsBulkLoadOut"])
TsBulkLoadOut(w, t) ==
  IF ~AtPc(w, t, "TsBulkLoadOut") THEN No(w) ELSE
  SetTop(w, t, [Top(w, t) EXCEPT !.v = w.S.out[Top(w, t).s], !.pc = "TsBulkLoadWork"])
BulkEnq(w, t, f) ==      \* the else branch: how many to enqueue
  LET lim == IF f.room > 0 THEN Min(f.chunk, f.room) ELSE f.chunk IN
  SetTop(w, t, [f EXCEPT !.room = Min(f.n - f.i, lim), !.how = IF f.var = "placed" THEN "bulkpl" ELSE "bulkenq", !.pc = "TsBulkIncN"])
TsBulkLoadWork(w, t) ==
  IF ~AtPc(w, t, "TsBulkLoadWork") THEN No(w) ELSE
  LET f == Top(w, t)
      room == w.S.lfac[f.s] - f.v
      f1 == [f EXCEPT !.cw = w.S.wr, !.room = room]
  IN IF room <= 0 THEN BeginBody([w EXCEPT !.G.set[f.k + f.i] = f.s], t, f.k + f.i, f.s, "inl", f.chk, FALSE)
     ELSE SetTop(w, t, [f1 EXCEPT !.pc = "TsBulkLoadLf"])
TsBulkLoadLf(w, t) ==
  IF ~AtPc(w, t, "TsBulkLoadLf") THEN No(w) ELSE
  LET f == Top(w, t) IN
  IF (IsW(t) /\ f.cw > f.nth + (f.nth \div 2)) \/ f.cw > w.S.lf
    THEN BeginBody([w EXCEPT !.G.set[f.k + f.i] = f.s], t, f.k + f.i, f.s, "inl", f.chk, FALSE)
    ELSE BulkEnq(w, t, f)
TsBulkIncN(w, t) ==
  IF ~AtPc(w, t, "TsBulkIncN") THEN No(w) ELSE
  LET f == Top(w, t)
      m == f.room
      i2 == f.i + m
      f1 == [f EXCEPT !.i = i2]
      cont == IF f.how = "rings" \/ i2 >= f.n THEN "OpRet" ELSE "TsBulkLoadCancel"
  IN ToPool([w EXCEPT !.S.out[f.s] = @ + m], t, f1, BulkIds(f, m), f.how, cont)

\* ------------------------------------------------------------------------------ abstract pool
\* ThreadPool::schedule(token, f): shouldRunInline()
TpInlineCheck(w, t) ==
  IF ~AtPc(w, t, "TpInlineCheck") THEN No(w) ELSE
  SetTop(w, t, [Top(w, t) EXCEPT !.pc = IF ShouldRunInline(w, t) THEN "PoInline" ELSE "TpFqLoadThreads"])
\* forceEnqueue: `if (!numThreads_.load()) { f(); return; }`
TpFqLoadThreads(w, t) ==
  IF ~AtPc(w, t, "TpFqLoadThreads") THEN No(w) ELSE
  SetTop(w, t, [Top(w, t) EXCEPT !.pc = IF w.S.nt = 0 THEN "PoInline" ELSE "PoEnq"])
RingLen(w, j) == Cardinality({k \in 1 .. NK(w.C) : w.S.tier[k] = <<"r", j>>})
\* (model checking only) the pool enqueues the next pending package(s); c chooses steal ring vs central
PoHandOver(w, t, c) ==
  IF ~(Depth(w, t) > 0 /\ Top(w, t).pc \in {"PoEnq", "PoAny"} /\ Top(w, t).pend # <<>>) THEN No(w) ELSE
  LET f == Top(w, t)
      m == IF f.how = "bulkenq" THEN Len(f.pend) ELSE 1
      ids == SubSeq(f.pend, 1, m)
      rest == SubSeq(f.pend, m + 1, Len(f.pend))
      tok == Tok(w, f.s)
      TierOf(k) == CASE f.how \in {"pfq", "bulkpl"} -> IF c = 1 THEN <<"s", 0>> ELSE <<"c", 0>>
                     [] f.how = "rings" -> IF RingLen(w, k - f.k) < RingCap THEN <<"r", k - f.k>> ELSE <<"c", tok>>
                     [] OTHER -> <<"c", tok>>
  IN IF (f.pc = "PoAny" /\ w.S.nt = 0) \/ (c = 1 /\ f.how \notin {"pfq", "bulkpl"}) THEN No(w) ELSE
     SetTop([w EXCEPT !.S.tier = [k \in DOMAIN @ |-> IF k \in Range(ids) THEN TierOf(k) ELSE @[k]],
                      !.G.st = [k \in DOMAIN @ |-> IF k \in Range(ids) THEN "q" ELSE @[k]],
                      !.S.wr = @ + m], t,
            [f EXCEPT !.pend = rest, !.pc = IF rest = <<>> THEN f.cont ELSE f.pc])
\* (trace) the call that handed packages to the pool has moved on: everything pending is queued
Finalize(w, t) ==
  IF Depth(w, t) = 0 THEN w ELSE
  LET f == Top(w, t) IN
  IF f.pc \in {"PoEnq", "PoAny"}
    THEN SetTop([w EXCEPT !.S.tier = [k \in DOMAIN @ |-> IF k \in Range(f.pend) THEN <<"q", 0>> ELSE @[k]],
                          !.G.st = [k \in DOMAIN @ |-> IF k \in Range(f.pend) THEN "q" ELSE @[k]]], t,
                [f EXCEPT !.pend = <<>>, !.pc = f.cont])
    ELSE w
\* the pool call returns to the scheduling operation, which returns to its caller
PoRet(w, t) ==
  IF AtPc(w, t, "OpRet") \/ AtPc(w, t, "InPool") THEN OpDone(w, t, Ret(0)) ELSE No(w)

\* ------------------------------------------------------------------------------ driver level
Start(w, t) == IF AtPc(w, t, "Start") /\ Depth(w, t) = 1 THEN
                 SetTop(w, t, [Top(w, t) EXCEPT !.pc = IF Len(w.C.prog[t]) = 0 THEN "DrEnd" ELSE "DrOp"]) ELSE No(w)
DrEnd(w, t) == IF AtPc(w, t, "DrEnd") THEN SetTop(w, t, [Top(w, t) EXCEPT !.pc = "Done"]) ELSE No(w)
DrBodyEnd(w, t) == IF AtPc(w, t, "DrBodyEnd") THEN EndBody(w, t) ELSE No(w)
DriverDone(w, d) == Len(w.T[d]) = 1 /\ w.T[d][1].pc = "Done"
GateSync(w, t) ==
  IF AtPc(w, t, "GateSync") /\ \A d \in (DOMAIN w.C.prog) \ {t} : DriverDone(w, d) THEN OpDone(w, t, Ret(0)) ELSE No(w)
GateAwait(w, t) ==
  IF AtPc(w, t, "GateAwait") /\ w.S.alive[Top(w, t).s] = 1 THEN OpDone(w, t, Ret(0)) ELSE No(w)

\* first step of an operation: thread-local work up to the operation's first point
DrOp(w, t) ==
  IF ~AtPc(w, t, "DrOp") THEN No(w) ELSE
  LET f0 == Top(w, t)
      o == ProgOf(w, t, f0)[f0.ip]
      f == [f0 EXCEPT !.opn = o.op, !.s = o.s, !.k = o.k, !.n = o.n]
      s == o.s
      Go(p) == SetTop(w, t, [f EXCEPT !.pc = p])
  IN
  CASE o.op = "new" ->
         LET par == IF SetCfg(w, s).casc = 1 THEN ParentTS(w, t) ELSE 0
             w1 == [w EXCEPT !.S.alive[s] = 1, !.S.lfac[s] = SetCfg(w, s).mult * w.S.nt, !.S.par[s] = par]
         IN IF w.S.alive[s] # 0 THEN No(w)
            ELSE IF par # 0 THEN SetTop(w1, t, [f EXCEPT !.ctx = "reg", !.pc = "TsKidsLock"])
            ELSE OpDone(SetTop(w1, t, f), t, Ret(0))
    [] o.op \in {"sched", "schedskip"} ->
         SetTop(w, t, [f EXCEPT !.how = IF IsTs(w, s) THEN "tok" ELSE FqHow(w, s),
                               !.pc = IF IsTs(w, s) THEN "TsSchedLoadCancel" ELSE IF Heavy(w, s) THEN "TsPlLoadThreads" ELSE "TsCtsLoadOut"])
    [] o.op = "schedfq" -> SetTop(w, t, [f EXCEPT !.how = FqHow(w, s), !.fqop = TRUE, !.pc = "TsPkgInc"])
    [] o.op = "bulk" ->
         IF o.n = 0 THEN OpDone(SetTop(w, t, f), t, Ret(0))
         ELSE SetTop(w, t, [f EXCEPT !.var = IF ~IsTs(w, s) /\ Heavy(w, s) THEN "placed" ELSE "std", !.pc = "TsBulkLoadThreads"])
    [] o.op = "bulkfq" ->
         IF o.n = 0 THEN OpDone(SetTop(w, t, f), t, Ret(0))
         ELSE SetTop(w, t, [f EXCEPT !.var = "fq", !.fqop = TRUE, !.pc = "TsBulkLoadThreads"])
    [] o.op \in {"wait", "del"} -> IF IsTs(w, s) THEN Go("WaitPollTok") ELSE Go("TsWaitLoadOut")
    [] o.op = "trywait" ->
         SetTop(w, t, [f EXCEPT !.bud = o.n, !.pc = IF IsTs(w, s) THEN "TsTryLoadOutTok" ELSE "TsTryLoadOut"])
    [] o.op = "cancel" -> SetTop(w, t, [f EXCEPT !.x = s, !.cs = <<>>, !.pc = "TsCancelStore"])
    [] o.op = "sync" -> Go("GateSync")
    [] o.op = "await" -> Go("GateAwait")
    [] o.op \in {"newpool", "delpool", "resize"} -> IF Trace(w) THEN Go("InPool") ELSE No(w)
    [] OTHER -> No(w)

\* ------------------------------------------------------------------------------ dispatch
Dispatch(w, t, e, k) ==
  CASE e = "Start" -> Start(w, t)
    [] e = "DrOp" -> DrOp(w, t)
    [] e = "DrEnd" -> DrEnd(w, t)
    [] e = "DrBodyEnd" -> DrBodyEnd(w, t)
    [] e = "GateSync" -> GateSync(w, t)
    [] e = "GateAwait" -> GateAwait(w, t)
    [] e = "TsPkgLoadCancel" -> TsPkgLoadCancel(w, t, k)
    [] e = "TsPkgDec" -> TsPkgDec(w, t)
    [] e = "TsPkgInc" -> TsPkgInc(w, t)
    [] e = "TsExcCas" -> TsExcCas(w, t)
    [] e = "TsExcStoreSet" -> TsExcStoreSet(w, t)
    [] e = "TsExcStoreCancel" -> TsExcStoreCancel(w, t)
    [] e = "TsTarLoadGuard" -> TsTarLoadGuard(w, t)
    [] e = "TsTarStoreUnset" -> TsTarStoreUnset(w, t)
    [] e = "TsTarLoadCancel" -> TsTarLoadCancel(w, t)
    [] e = "TsWaitLoadOut" -> TsWaitLoadOut(w, t)
    [] e = "TsWaitLoadOut2" -> TsWaitLoadOut2(w, t)
    [] e = "TsTryLoadOutTok" -> TsTryLoadOutTok(w, t)
    [] e = "TsTryLoadOut" -> TsTryLoadOut(w, t)
    [] e = "TsTryLoadFinal" -> TsTryLoadFinal(w, t)
    [] e = "TsCancelStore" -> TsCancelStore(w, t)
    [] e = "TsKidsLock" -> TsKidsLock(w, t)
    [] e = "TsCtorLoadPCancel" -> TsCtorLoadPCancel(w, t)
    [] e = "TsCtorStoreCancel" -> TsCtorStoreCancel(w, t)
    [] e = "TsSchedLoadCancel" -> TsSchedLoadCancel(w, t)
    [] e = "TsSchedLoadOut" -> TsSchedLoadOut(w, t)
    [] e = "TsCtsLoadOut" -> TsCtsLoadOut(w, t)
    [] e = "TsPlLoadThreads" -> TsPlLoadThreads(w, t)
    [] e = "TsPlLoadOut" -> TsPlLoadOut(w, t)
    [] e = "TsCtsLoadWork" -> TsCtsLoadWork(w, t)
    [] e = "TsCtsLoadThreads" -> TsCtsLoadThreads(w, t)
    [] e = "TsCtsLoadLf" -> TsCtsLoadLf(w, t)
    [] e = "TsCtsLoadCancel2" -> TsCtsLoadCancel2(w, t)
    [] e = "TsBulkLoadThreads" -> TsBulkLoadThreads(w, t)
    [] e = "TsBulkLoadRings" -> TsBulkLoadRings(w, t)
    [] e = "TsBulkLoadCancel" -> TsBulkLoadCancel(w, t)
    [] e = "TsBulkLoadOut" -> TsBulkLoadOut(w, t)
    [] e = "TsBulkLoadWork" -> TsBulkLoadWork(w, t)
    [] e = "TsBulkLoadLf" -> TsBulkLoadLf(w, t)
    [] e = "TsBulkIncN" -> TsBulkIncN(w, t)
    [] e = "TpInlineCheck" -> TpInlineCheck(w, t)
    [] e = "TpFqLoadThreads" -> TpFqLoadThreads(w, t)
    [] e = "PoRet" -> PoRet(w, t)
    [] OTHER -> No(w)

Commit(n) == n.ok /\ S' = n.S /\ T' = n.T /\ G' = n.G /\ C' = C
Fire(t, e, k) == Commit(Dispatch(World, t, e, k))
Threads == DOMAIN T
Tasks == 1 .. NK(C)

\* Next is spelled out so that TLC's coverage names every action
A_Start(t) == Fire(t, "Start", 0)
A_DrOp(t) == Fire(t, "DrOp", 0)
A_DrEnd(t) == Fire(t, "DrEnd", 0)
A_DrBodyEnd(t) == Fire(t, "DrBodyEnd", 0)
A_GateSync(t) == Fire(t, "GateSync", 0)
A_GateAwait(t) == Fire(t, "GateAwait", 0)
A_TsPkgLoadCancel(t) == \E k \in Tasks : Fire(t, "TsPkgLoadCancel", k)
A_TsPkgDec(t) == Fire(t, "TsPkgDec", 0)
A_TsPkgInc(t) == Fire(t, "TsPkgInc", 0)
A_TsExcCas(t) == Fire(t, "TsExcCas", 0)
A_TsExcStoreSet(t) == Fire(t, "TsExcStoreSet", 0)
A_TsExcStoreCancel(t) == Fire(t, "TsExcStoreCancel", 0)
A_TsTarLoadGuard(t) == Fire(t, "TsTarLoadGuard", 0)
A_TsTarStoreUnset(t) == Fire(t, "TsTarStoreUnset", 0)
A_TsTarLoadCancel(t) == Fire(t, "TsTarLoadCancel", 0)
A_TsWaitLoadOut(t) == Fire(t, "TsWaitLoadOut", 0)
A_TsWaitLoadOut2(t) == Fire(t, "TsWaitLoadOut2", 0)
A_TsTryLoadOutTok(t) == Fire(t, "TsTryLoadOutTok", 0)
A_TsTryLoadOut(t) == Fire(t, "TsTryLoadOut", 0)
A_TsTryLoadFinal(t) == Fire(t, "TsTryLoadFinal", 0)
A_TsCancelStore(t) == Fire(t, "TsCancelStore", 0)
A_TsKidsLock(t) == Fire(t, "TsKidsLock", 0)
A_TsCtorLoadPCancel(t) == Fire(t, "TsCtorLoadPCancel", 0)
A_TsCtorStoreCancel(t) == Fire(t, "TsCtorStoreCancel", 0)
A_TsSchedLoadCancel(t) == Fire(t, "TsSchedLoadCancel", 0)
A_TsSchedLoadOut(t) == Fire(t, "TsSchedLoadOut", 0)
A_TsCtsLoadOut(t) == Fire(t, "TsCtsLoadOut", 0)
A_TsPlLoadThreads(t) == Fire(t, "TsPlLoadThreads", 0)
A_TsPlLoadOut(t) == Fire(t, "TsPlLoadOut", 0)
A_TsCtsLoadWork(t) == Fire(t, "TsCtsLoadWork", 0)
A_TsCtsLoadThreads(t) == Fire(t, "TsCtsLoadThreads", 0)
A_TsCtsLoadLf(t) == Fire(t, "TsCtsLoadLf", 0)
A_TsCtsLoadCancel2(t) == Fire(t, "TsCtsLoadCancel2", 0)
A_TsBulkLoadThreads(t) == Fire(t, "TsBulkLoadThreads", 0)
A_TsBulkLoadRings(t) == Fire(t, "TsBulkLoadRings", 0)
A_TsBulkLoadCancel(t) == Fire(t, "TsBulkLoadCancel", 0)
A_TsBulkLoadOut(t) == Fire(t, "TsBulkLoadOut", 0)
A_TsBulkLoadWork(t) == Fire(t, "TsBulkLoadWork", 0)
A_TsBulkLoadLf(t) == Fire(t, "TsBulkLoadLf", 0)
A_TsBulkIncN(t) == Fire(t, "TsBulkIncN", 0)
A_TpInlineCheck(t) == Fire(t, "TpInlineCheck", 0)
A_TpFqLoadThreads(t) == Fire(t, "TpFqLoadThreads", 0)
A_PoRet(t) == Fire(t, "PoRet", 0)
A_PoHandOver(t) == \E c \in {0, 1} : Commit(PoHandOver(World, t, c))

Next ==
  \E t \in Threads :
    \/ A_Start(t) \/ A_DrOp(t) \/ A_DrEnd(t) \/ A_DrBodyEnd(t) \/ A_GateSync(t) \/ A_GateAwait(t)
    \/ A_TsPkgLoadCancel(t) \/ A_TsPkgDec(t) \/ A_TsPkgInc(t)
    \/ A_TsExcCas(t) \/ A_TsExcStoreSet(t) \/ A_TsExcStoreCancel(t)
    \/ A_TsTarLoadGuard(t) \/ A_TsTarStoreUnset(t) \/ A_TsTarLoadCancel(t)
    \/ A_TsWaitLoadOut(t) \/ A_TsWaitLoadOut2(t) \/ A_TsTryLoadOutTok(t) \/ A_TsTryLoadOut(t) \/ A_TsTryLoadFinal(t)
    \/ A_TsCancelStore(t) \/ A_TsKidsLock(t) \/ A_TsCtorLoadPCancel(t) \/ A_TsCtorStoreCancel(t)
    \/ A_TsSchedLoadCancel(t) \/ A_TsSchedLoadOut(t) \/ A_TsCtsLoadOut(t) \/ A_TsPlLoadThreads(t) \/ A_TsPlLoadOut(t)
    \/ A_TsCtsLoadWork(t) \/ A_TsCtsLoadThreads(t) \/ A_TsCtsLoadLf(t) \/ A_TsCtsLoadCancel2(t)
    \/ A_TsBulkLoadThreads(t) \/ A_TsBulkLoadRings(t) \/ A_TsBulkLoadCancel(t) \/ A_TsBulkLoadOut(t)
    \/ A_TsBulkLoadWork(t) \/ A_TsBulkLoadLf(t) \/ A_TsBulkIncN(t)
    \/ A_TpInlineCheck(t) \/ A_TpFqLoadThreads(t) \/ A_PoRet(t) \/ A_PoHandOver(t)


\* ============================================================================== properties
Sets == 1 .. NS(C)
AllDone == \A t \in Threads : IF t \in DOMAIN C.prog THEN DriverDone(World, t) ELSE T[t] = <<>>

\* (C02) wait()/tryWait()->true/destructor completed only when every task scheduled to the set had finished
WaitIsBarrier == "BarrierBroken" \notin G.bad
\* (C02) a body runs at most once; a task that was accounted for but never ran belongs to a cancelled set
AtMostOnce == \A k \in Tasks : G.runs[k] <= 1
SkippedOnlyIfCancelled == \A k \in Tasks : (G.res[k] = "skip" \/ G.st[k] = "dropped") => G.set[k] = 0 \/ G.ever[G.set[k]]
\* (C02) the counter is exactly the number of accounted, unfinished packages
CounterExact ==
  \A s \in Sets : S.alive[s] = 1 =>
     S.out[s] = Cardinality({k \in Tasks : G.set[k] = s /\ G.st[k] \in {"pend", "q", "run"} /\
                                 ~(\E t \in Threads : \E j \in 1 .. Len(T[t]) : T[t][j].own = k /\ T[t][j].wrap # "pkg")})
\* (C02) at the end everything that was accounted for ran (or was skipped by cancellation) exactly once
AllFinishedAtEnd == AllDone => \A k \in Tasks : G.st[k] \in {"none", "dropped", "fin"}
\* (C04) no body starts after the cancel flag store on a path whose check saw it / that has no check
NoStartAfterCancel == "StartAfterCancel" \notin G.bad
\* (C04) wait() reports cancellation
CancelReported == "CancelNotReported" \notin G.bad
\* (C05) delivered exceptions were captured, each at most once; a completed wait leaves none behind
DeliveredWereCaptured == Range(G.delivered) \subseteq G.captured
DeliveredOnce == Cardinality(Range(G.delivered)) = Len(G.delivered)
NoExceptionLost == "ExceptionLost" \notin G.bad /\ "DestructorThrows" \notin G.bad
GuardSane == \A s \in Sets : S.guard[s] \in {0, 1, 2} /\ (S.guard[s] = 0 => S.slot[s] = 0 /\ G.pex[s] = 0)
\* (C47) a force-queued package never ran inside the submitting call on a pool with threads
ForceQueuedNotInline == "ForceQueuedRanInline" \notin G.bad /\ "QueuedRanInline" \notin G.bad
NoDeadlockObserved == "Deadlock" \notin G.bad
=============================================================================
