CONSTANT CfgSet <- Set_c47_quick
INIT MCInit
NEXT Next
CHECK_DEADLOCK FALSE
INVARIANTS WaitIsBarrier AtMostOnce SkippedOnlyIfCancelled CounterExact AllFinishedAtEnd NoStartAfterCancel CancelReported DeliveredWereCaptured DeliveredOnce NoExceptionLost GuardSane ForceQueuedNotInline
