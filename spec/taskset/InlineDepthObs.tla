--------------------------- MODULE InlineDepthObs ---------------------------
(* E5 record validation for C46.  One step per observation record of harness/drv/drv_inline.cpp *)
(* (a scenario run with chain lengths n and 4n on 256 KB stacks).  A record is within the bound  *)
(* iff neither run crashed or timed out, both completed and ran every body, the deepest nesting  *)
(* of inline execution is at most K = kMaxInlineDepth + C (a constant, independent of n, the     *)
(* same for n and 4n), the deepest InlineDepthGuard depth is at most kMaxInlineDepth + 1, and the    *)
(* stack use stays under a fixed budget.  Records out of bound are listed (UNBOUNDED), records   *)
(* of scenarios that must be bounded make the trace invalid.                                     *)
EXTENDS Integers, Sequences, FiniteSets, TLC, Json, IOUtils

CONSTANTS GuardSlack,   \* evaluateNodeConcurrently takes its guard unconditionally, on top of the schedule guard
          Slack,        \* C: frames of the surrounding loops + stale entries of the stack-pointer measure
          BudgetKb,     \* stack budget for (kMaxInlineDepth + C) nested levels
          MustBound,    \* scenarios whose record must be within the bound
          MustPlace     \* fault scenarios: the record must say that the fault was placed (else the run says nothing)

TraceLog == ndJsonDeserialize(IOEnv.TRACE)
Hdr == TraceLog[1]
K == Hdr.maxinl + Slack

VARIABLES l, unbounded
vars == <<l, unbounded>>

Within(r) ==
  /\ r.crash1 = 0 /\ r.crash2 = 0 /\ r.timeout1 = 0 /\ r.timeout2 = 0
  /\ r.done1 = 1 /\ r.done2 = 1
  /\ r.ran1 >= r.need1 /\ r.ran2 >= r.need2      \* need = n, except in the fault scenarios (see below)
  /\ r.nest1 <= K /\ r.nest2 <= K
  /\ r.guard1 <= Hdr.maxinl + GuardSlack /\ r.guard2 <= Hdr.maxinl + GuardSlack
  /\ r.sb1 <= BudgetKb * 1024 /\ r.sb2 <= BudgetKb * 1024

(* Fault scenarios pipeline_serial_fault_xx: a stage throws while a serial stage is in the middle of a  *)
(* run of inline continuations with a large backlog that nobody discards.  The bound is the same as   *)
(* without a fault: kMaxInlineDepth limits the chain in EVERY state of the pipeline's task set (after  *)
(* the fault the chain runs on until its guard says stop; the force-queued continuation is then        *)
(* dropped by the cancelled set).  What differs is completion: done = pipeline() rethrew the stage's   *)
(* exception, and only the need bodies entered before the fault must have run - the rest of the        *)
(* backlog is discarded by wait().  inj = 1: the exception was recorded while a call of the serial      *)
(* stage nested 3..20 deep was held, with at least n/3 items still queued behind the stage.             *)
Placed(r) == r.inj1 = 1 /\ r.inj2 = 1

Init == l = 2 /\ unbounded = {} /\ Hdr.e = "Header"

Step ==
  /\ l <= Len(TraceLog)
  /\ LET r == TraceLog[l] IN
       /\ r.e = "Obs"
       /\ IF Within(r) THEN UNCHANGED unbounded
          ELSE /\ PrintT(<<"UNBOUNDED", r.sc>>)
               /\ unbounded' = unbounded \cup {r.sc}
       /\ (r.sc \in MustPlace /\ Within(r) /\ ~Placed(r)) => PrintT(<<"FAULT_NOT_PLACED", r.sc>>)
  /\ l' = l + 1

Spec == Init /\ [][Step]_vars

(* C46 on the observed runs *)
DepthIndependentOfN == unbounded \cap MustBound = {}

TraceAccepted ==
  LET d == TLCGet("stats").diameter IN
  IF d = Len(TraceLog) THEN TRUE
  ELSE /\ PrintT(<<"TRACE_REJECTED_AT_LINE", d + 1, "OF", Len(TraceLog)>>)
       /\ FALSE
=============================================================================
