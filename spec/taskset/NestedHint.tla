----------------------------- MODULE NestedHint -----------------------------
(* C06 with the pool's central-queue hint (ThreadPool::centralQueueNonEmpty_) made explicit.      *)
(*                                                                                                *)
(* Nested.tla abstracts the hint: whoever polls the central queue sees what is in it.  The real   *)
(* pool keeps a LOSSY hint word in front of the queue: producers set it after their enqueue, a    *)
(* worker whose try_dequeue failed clears it with a plain store - which may overwrite the set of  *)
(* a producer that enqueued in between (thread_pool.cpp says so: "allowed to be wrong").  Idle    *)
(* workers trust the hint (no dequeue while it reads empty).  The only repair is the probe that a *)
(* PARKED worker makes when its sleep times out.  This module adds exactly that:                  *)
(*   hint   the word;  clr  workers between their failed dequeue and their clearing store         *)
(*   WaitGate   do threads inside wait() / a waiting loop trust the hint as well?  (the code: NO) *)
(*   Timeouts   does the sleep of a parked worker time out?                                       *)
(* Claim (E1): with WaitGate = FALSE no program of the library starves, with or without time-outs *)
(* - a waiter never parks, so it must not depend on a word that only parked threads repair.       *)
(* Negative control: with WaitGate = TRUE the stale-hint cross wait (every pool thread inside a   *)
(* nested wait, the needed task hidden behind the stale hint) starves although time-outs exist.   *)
(* The enqueue and the producer's set are one step here (a waiter's own failed dequeue + clear    *)
(* are one step at hook granularity as well), so staleness comes from the workers' clears only.   *)
EXTENDS Nested

CONSTANTS WaitGate, Timeouts
VARIABLES hint, clr
hvars == <<vars, hint, clr>>

HInit == Init /\ hint = FALSE /\ clr = {}

CentralQueued == \E k \in Tasks : tier[k] = Central

(* steps that neither read nor write the hint *)
Quiet(t) ==
  \/ CallSched(t) \/ (\E c \in asleep : PushSteal(t, c)) \/ RunInline(t) \/ RetSched(t) \/ CallBulk(t)
  \/ (\E K \in SUBSET BulkItems(t), tr \in AllRings : BulkPush(t, K, tr))
  \/ (\E k \in BulkItems(t), c \in asleep : BulkPushSteal(t, k, c))
  \/ (\E k \in BulkItems(t) : BulkInline(t, k)) \/ RetBulk(t) \/ RetPfor(t)
  \/ EnterWait(t) \/ WaitReturn(t) \/ EnterGet(t) \/ GetInline(t) \/ GetReturn(t)
  \/ EndTask(t) \/ MainEnd(t)
(* enqueueToCentralQueue / scheduleBulkEnqueue: enqueue, then set the hint *)
Enq(t) == PushCentral(t) \/ (\E K \in SUBSET BulkItems(t) : BulkPush(t, K, Central))
(* who looks into the central queue: an idle worker only while the hint is set; a waiter always, *)
(* unless WaitGate                                                                                 *)
SeesCentral(t) == IF Idle(t) THEN hint ELSE (WaitGate => hint)
HTake(t) == \E k \in {j \in Tasks : tier[j] \in Polled(t)} : (tier[k] = Central => SeesCentral(t)) /\ Take(t, k)

HProgress(t) ==
  /\ t \notin clr
  /\ \/ Quiet(t) /\ UNCHANGED <<hint, clr>>
     \/ Enq(t) /\ hint' = TRUE /\ UNCHANGED clr
     \/ HTake(t) /\ UNCHANGED <<hint, clr>>

(* an idle worker's try_dequeue found the queue empty (TpWkDequeue) ... *)
ObserveEmpty(t) ==
  /\ t \in Workers /\ Idle(t) /\ t \notin asleep /\ t \notin clr
  /\ hint /\ ~CentralQueued
  /\ clr' = clr \cup {t}
  /\ UNCHANGED <<vars, hint>>
(* ... and later clears the hint (TpWkClearFlag), whatever happened in between *)
ClearHint(t) ==
  /\ t \in clr
  /\ hint' = FALSE /\ clr' = clr \ {t}
  /\ UNCHANGED vars

Visible(t) == WorkerPolled(WIdx(t)) \ (IF hint THEN {} ELSE {Central})
HSleep(t) ==
  /\ t \in Workers /\ Idle(t) /\ t \notin asleep /\ t \notin clr
  /\ ~\E k \in Tasks : tier[k] \in Visible(t)
  /\ asleep' = asleep \cup {t}
  /\ UNCHANGED <<conf, stk, tier, run, out, prefer, cnt, hint, clr>>
(* time-out wake: the probe (size_approx) repairs the hint; a signalled wake (PushSteal) does not probe *)
HTimeout(t) ==
  /\ Timeouts /\ TimeoutWake(t)
  /\ hint' = (hint \/ CentralQueued)
  /\ UNCHANGED clr

HFinished == AllDone /\ UNCHANGED hvars

HNext ==
  \/ \E t \in AllThreads :
       \/ t \notin clr /\ Quiet(t) /\ UNCHANGED <<hint, clr>>
       \/ t \notin clr /\ Enq(t) /\ hint' = TRUE /\ UNCHANGED clr
       \/ t \notin clr /\ HTake(t) /\ UNCHANGED <<hint, clr>>
       \/ ObserveEmpty(t) \/ ClearHint(t) \/ HSleep(t) \/ HTimeout(t)
  \/ HFinished

HSpec == HInit /\ [][HNext]_hvars

(* no thread has a progress step, no clear is pending, and nothing that can still happen (workers  *)
(* clearing the hint, parking, timing out and repairing the hint) gives one: an idle worker would   *)
(* find something after a repair only if a tier it polls holds a task                               *)
HStarved ==
  /\ ~AllDone /\ clr = {}
  /\ \A t \in AllThreads : ~ENABLED HProgress(t)
  /\ Timeouts => \A w \in Workers : Idle(w) => ~\E k \in Tasks : tier[k] \in WorkerPolled(WIdx(w))
NoHStarvation == ~HStarved
HTypeOK == hint \in BOOLEAN /\ clr \subseteq Workers /\ \A w \in clr : Idle(w) /\ w \notin asleep
=============================================================================
