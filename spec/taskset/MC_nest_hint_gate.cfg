\* negative control: waiters that trust the hint starve on the stale-hint cross wait although time-outs exist
CONSTANTS
  SS = 2
  MaxW = 3
  Progs <- HProgs
  Configs <- CfgHintGate
  WaitGate = TRUE
  Timeouts = TRUE
SPECIFICATION HSpec
CHECK_DEADLOCK FALSE
INVARIANTS TypeOK HTypeOK AtMostOnce BarrierOK SleepersIdle NoHStarvation
