CONSTANT CfgSet <- S_pool0
INIT MCInit
NEXT Next
CHECK_DEADLOCK FALSE
INVARIANTS WaitIsBarrier AtMostOnce SkippedOnlyIfCancelled CounterExact AllFinishedAtEnd NoStartAfterCancel CancelReported DeliveredWereCaptured DeliveredOnce NoExceptionLost GuardSane ForceQueuedNotInline
