----------------------------- MODULE InlineDepth -----------------------------
(* C46 - inline task execution never grows the stack without bound.                             *)
(*                                                                                              *)
(* A chain of n links: when link k is done, its scheduling / completion code hands link k + 1   *)
(* to a scheduler.  What the scheduler does is the code's inline policy, per path (worst case:  *)
(* the overload condition that makes the library choose inline execution holds all the time):   *)
(*   immediate  Future::then on the ImmediateInvoker: tryExecuteThenChain -> schedule -> f()      *)
(*   futwait    Future::wait on a continuation that has not started: run it on the waiter; its   *)
(*              first act is to wait for its predecessor (the recursion runs tail to head)       *)
(*   pool       ThreadPool::schedule over its load factor: f() under an InlineDepthGuard while   *)
(*              inlineDepth < kMaxInlineDepth, else queue          (poolorig: f() unguarded)      *)
(*   ts         TaskSet::schedule over the set's load factor: same rule, else the pool path       *)
(*   cts        ConcurrentTaskSet::schedule: guarded f(), else ForceQueuingTag                   *)
(*   pipe       serial pipeline stage: the completion callback runs the next queued item under a *)
(*              guard, else ConcurrentTaskSet::schedule(ForceQueuingTag)                         *)
(*   pipeexc    the same stage while the pipeline's task set holds an exception (a stage has     *)
(*              thrown, nobody has discarded the backlog yet): the limited path does not consult *)
(*              hasException() before it runs an item, so the chain goes on under the SAME guard;  *)
(*              the force-queued continuation is dropped by the cancelled set and the rest of    *)
(*              the backlog is discarded by wait() - never run                                   *)
(*   graph      evaluateNodeConcurrently: continues with the ready dependent in a LOOP           *)
(* A queued link is run later from a worker / wait loop (an empty stack).  A pool with zero       *)
(* threads cannot queue: forceEnqueue calls the functor (unguarded).                              *)
(* nest[t] = number of links whose execution is nested on thread t = depth of dispenso-initiated  *)
(* inline execution, guarded or not.  TLC decides nest <= Bound with the chain length n as the    *)
(* GROWING parameter (n = 1 .. N, N > Bound): an unguarded path shows as nest = n.                *)
EXTENDS Integers, Sequences, FiniteSets, TLC

CONSTANTS
  MaxInline,   \* kMaxInlineDepth
  Bound,       \* the constant the depth must stay under, independent of n
  Configs      \* scenarios [kind, nw, n]

VARIABLES conf, stk, queue, fin
vars == <<conf, stk, queue, fin>>
Threads == {"a", "b"}      \* a starts the chain; b is another thread that may run queued links

Depth(t) == Cardinality({i \in 1 .. Len(stk[t]) : stk[t][i].g})     \* PerThreadInfo::inlineDepth
Nest(t) == Len(stk[t])
Top(t) == stk[t][Len(stk[t])]

(* the inline policy of the path *)
Decide(kind, nw, d) ==
  CASE kind \in {"immediate", "futwait", "poolorig"} -> "inlineU"
    [] kind = "graph" -> "loop"
    [] OTHER -> IF d < MaxInline THEN "inlineG" ELSE IF nw = 0 THEN "inlineU" ELSE "enqueue"

Init ==
  /\ conf \in Configs
  /\ stk = [t \in Threads |-> IF t = "a" THEN <<[k |-> 1, g |-> FALSE, pc |-> "body"]>> ELSE <<>>]
  /\ queue = {}
  /\ fin = {}

(* link k is done and hands link k + 1 over *)
Hand(t) ==
  /\ stk[t] # <<>> /\ Top(t).pc = "body" /\ Top(t).k < conf.n
  /\ LET k == Top(t).k
         dec == Decide(conf.kind, conf.nw, Depth(t))
         setTop(f) == [stk[t] EXCEPT ![Len(stk[t])] = f] IN
       CASE dec = "enqueue" /\ conf.kind = "pipeexc" ->     \* dropped by the cancelled set; the rest is discarded
              /\ stk' = [stk EXCEPT ![t] = setTop([Top(t) EXCEPT !.pc = "ret"])]
              /\ fin' = fin \cup (k .. conf.n)
              /\ UNCHANGED queue
         [] dec = "enqueue" ->
              /\ queue' = queue \cup {k + 1}
              /\ stk' = [stk EXCEPT ![t] = setTop([Top(t) EXCEPT !.pc = "ret"])]
              /\ fin' = fin \cup {k}
         [] dec = "loop" ->
              /\ stk' = [stk EXCEPT ![t] = setTop([Top(t) EXCEPT !.k = k + 1])]
              /\ fin' = fin \cup {k}
              /\ UNCHANGED queue
         [] OTHER ->
              /\ stk' = [stk EXCEPT ![t] = Append(setTop([Top(t) EXCEPT !.pc = "child"]),
                                                  [k |-> k + 1, g |-> (dec = "inlineG"), pc |-> "body"])]
              /\ fin' = fin \cup {k}
              /\ UNCHANGED queue
  /\ UNCHANGED conf

(* the last link, or a link whose hand-over is complete, returns *)
Ret(t) ==
  /\ stk[t] # <<>>
  /\ \/ Top(t).pc = "ret"
     \/ Top(t).pc = "body" /\ Top(t).k = conf.n
  /\ LET below == SubSeq(stk[t], 1, Len(stk[t]) - 1) IN
       stk' = [stk EXCEPT ![t] = IF below = <<>> THEN below
                                 ELSE [below EXCEPT ![Len(below)] = [@ EXCEPT !.pc = "ret"]]]
  /\ fin' = fin \cup {Top(t).k}
  /\ UNCHANGED <<conf, queue>>

(* a queued link is run from a worker loop / wait loop *)
Deq(t, k) ==
  /\ stk[t] = <<>> /\ k \in queue
  /\ (t = "b" => conf.nw > 0)
  /\ queue' = queue \ {k}
  /\ stk' = [stk EXCEPT ![t] = <<[k |-> k, g |-> FALSE, pc |-> "body"]>>]
  /\ UNCHANGED <<conf, fin>>

Done == fin = 1 .. conf.n /\ \A t \in Threads : stk[t] = <<>>
Finished == Done /\ UNCHANGED vars

Next ==
  \/ \E t \in Threads : Hand(t) \/ Ret(t) \/ (\E k \in 1 .. conf.n : Deq(t, k))
  \/ Finished
Spec == Init /\ [][Next]_vars

(* C46 *)
NestBounded == \A t \in Threads : Nest(t) <= Bound
GuardBounded == \A t \in Threads : Depth(t) <= MaxInline
TypeOK == queue \subseteq 1 .. conf.n /\ fin \subseteq 1 .. conf.n
=============================================================================
