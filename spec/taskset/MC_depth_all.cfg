\* every path in one run; checks/C46.py runs TLC with -continue and compares the set of violating
\* scenarios with the expected one (the open findings + the negative control)
CONSTANTS
  MaxInline = 3
  Bound = 5
  Configs <- CfgAll
SPECIFICATION Spec
CHECK_DEADLOCK TRUE
INVARIANTS TypeOK GuardBounded NestBounded
