------------------------------ MODULE MCInvoke ------------------------------
(* Model-checking instances of Invoke.tla: arities 1..4, recursion depth <= 3, load multiplier 1 *)
(* (so the inline fallback is reached) and small kMaxInlineDepth (so the depth limit is reached). *)
EXTENDS Invoke

E == <<>>
(* Kids[k + 1] = functors that functor k hands to parallel_invoke; functor 0 = main *)
T1 == << <<1, 2, 3>>, E, E, E >>                                      \* arity 3, flat
T2 == << <<1, 2>>, <<3, 4>>, <<5, 6>>, E, E, E, E >>                   \* arity 2, depth 2
T3 == << <<1, 2>>, <<3, 4>>, E, <<5, 6>>, E, E, E >>                   \* arity 2, depth 3 (left)
T4 == << <<1, 2, 3, 4>>, <<5, 6>>, E, E, E, E, E >>                    \* arity 4 + nested pair
T5 == << <<1>>, <<2, 3>>, E, <<4>>, E >>                               \* arity 1 (inline only) at two levels
T6 == << <<1, 2>>, <<3, 4>>, E, <<5, 6>>, E, <<7, 8>>, E, E, E >>      \* chain, depth 4 (depth limit with maxinl 1..2)
T7 == << <<1, 2, 3>>, E, <<4, 5, 6>>, E, E, E, <<7, 8>>, E, E >>       \* arity 3, recursion through the LAST functor
MCTrees == <<T1, T2, T3, T4, T5, T6, T7>>

C(p, nw, heavy, mi) == [nw |-> nw, p |-> p, mult |-> 1, heavy |-> heavy, maxinl |-> mi]
CfgCover == {C(1, 1, TRUE, 2), C(3, 1, FALSE, 1)}
CfgQuick == {C(p, nw, h, 2) : p \in {1, 2, 4, 5}, nw \in {0, 1}, h \in BOOLEAN}
            \cup {C(p, 2, h, 2) : p \in {1, 5}, h \in BOOLEAN}
            \cup {C(p, nw, FALSE, 1) : p \in {3, 6, 7}, nw \in {0, 1}}
CfgThorough == {C(p, nw, h, mi) : p \in 1 .. 7, nw \in 0 .. 2, h \in BOOLEAN, mi \in {1, 2, 32}}
=============================================================================
