\* parallel_invoke: arities 1..4, depth <= 4, pools 0..2, multiplier 1, heavy and lightweight, depth limits 1..2
CONSTANTS
  MaxW = 3
  Trees <- MCTrees
  Configs <- CfgQuick
SPECIFICATION Spec
CHECK_DEADLOCK TRUE
INVARIANTS TypeOK ExactlyOnce LastOnCaller LastNeverQueued WaitBarrier DepthBounded
