SPECIFICATION TraceSpec
CHECK_DEADLOCK FALSE
POSTCONDITION TraceAccepted
INVARIANTS WaitIsBarrier AtMostOnce SkippedOnlyIfCancelled CounterExact AllFinishedAtEnd NoStartAfterCancel CancelReported DeliveredWereCaptured DeliveredOnce NoExceptionLost GuardSane ForceQueuedNotInline NoDeadlockObserved
