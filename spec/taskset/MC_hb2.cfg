CONSTANT CfgSet <- Set_hb2
INIT HInit
NEXT HNext
CHECK_DEADLOCK FALSE
INVARIANTS OrdersComplete RaceFree WaitIsBarrier AtMostOnce CounterExact AllFinishedAtEnd DeliveredOnce NoExceptionLost GuardSane SlotOneShot
