--------------------------- MODULE TaskSetTrace ---------------------------
(* Trace validation for TaskSet.tla.  Every line recorded from the REAL TaskSet /            *)
(* ConcurrentTaskSet running on the REAL ThreadPool under the controlled scheduler is        *)
(* matched against the specification:                                                         *)
(*  * an event whose site is a task-set site (Ts..), a driver site (DrOp, DrBodyEnd, DrEnd,   *)
(*    Start of a driver, Gate..) or one of the two pool decision sites the specification      *)
(*    models (TpInlineCheck, TpFqLoadThreads, when the thread is inside that pool call) must  *)
(*    be the specification action of that name by that thread;                                *)
(*  * every other (pool-internal) event is a stuttering step of the task-set state, except    *)
(*    that the pool call / pool operation of that thread returns when the step carries a      *)
(*    "ret" note;                                                                             *)
(*  * the notes of the step (body begin/end/throw, value returned or exception propagated to  *)
(*    the caller of an operation) must be exactly what the specification step produces;       *)
(*  * after EVERY event the projected words of every live set (outstandingTaskCount_,         *)
(*    canceled_, guardException_) must equal the specification's;                             *)
(*  * the pool words the task-set code reads (numThreads_, numRings_, workRemaining_,         *)
(*    poolLoadFactor_) are inputs: they are taken from the projection after every event.      *)
(* All invariants of TaskSet.tla are evaluated in every state of the validated behaviour.     *)
EXTENDS TaskSet, Json, IOUtils

TraceLog == ndJsonDeserialize(IOEnv.TRACE)
VARIABLE l
tvars == <<vars, l>>

CfgOf(ev) == [ev.cfg EXCEPT !.workers = Range(@)]
TraceInit == l = 2 /\ TraceLog[1].e = "Reset" /\ InitWith(CfgOf(TraceLog[1]))

TsSites == {"DrOp", "DrEnd", "DrBodyEnd", "GateSync", "GateAwait",
  "TsPkgLoadCancel", "TsPkgDec", "TsPkgInc", "TsExcCas", "TsExcStoreSet", "TsExcStoreCancel",
  "TsTarLoadGuard", "TsTarStoreUnset", "TsTarLoadCancel", "TsWaitLoadOut", "TsWaitLoadOut2",
  "TsTryLoadOutTok", "TsTryLoadOut", "TsTryLoadFinal", "TsCancelStore", "TsKidsLock",
  "TsCtorLoadPCancel", "TsCtorStoreCancel", "TsSchedLoadCancel", "TsSchedLoadOut", "TsCtsLoadOut",
  "TsPlLoadThreads", "TsPlLoadOut", "TsCtsLoadWork", "TsCtsLoadThreads", "TsCtsLoadLf", "TsCtsLoadCancel2",
  "TsBulkLoadThreads", "TsBulkLoadRings", "TsBulkLoadCancel", "TsBulkLoadOut", "TsBulkLoadWork",
  "TsBulkLoadLf", "TsBulkIncN", "TsHasExcLoad"}
NoteTags == {"begin", "end", "throw", "ret", "exc"}
Notes(ev) == IF ev.e \in {"FutexWait", "FutexRet"} THEN <<>> ELSE SelectSeq(ev.r, LAMBDA x : x[1] \in NoteTags)
HasTag(q, tag) == \E i \in 1 .. Len(q) : q[i][1] = tag
FirstOf(q, tag) == q[CHOOSE i \in 1 .. Len(q) : q[i][1] = tag /\ \A j \in 1 .. (i - 1) : q[j][1] # tag][2]

\* index of the next event of thread t after line i (0 if none)
RECURSIVE NextOf(_, _)
NextOf(i, t) == IF i + 1 > Len(TraceLog) THEN 0
                ELSE IF "t" \in DOMAIN TraceLog[i + 1] /\ TraceLog[i + 1].t = t /\ "r" \in DOMAIN TraceLog[i + 1] THEN i + 1
                ELSE IF TraceLog[i + 1].e = "Reset" THEN 0 ELSE NextOf(i + 1, t)
\* the task whose package starts at this TsPkgLoadCancel event: named by the body's "begin" note, or,
\* when the body is skipped (cancelled set), by the "drop" note of the functor destroyed in the same
\* thread's following TsPkgDec step
PkgId(i, ev) ==
  IF HasTag(ev.r, "begin") THEN FirstOf(ev.r, "begin")
  ELSE LET j == NextOf(i, ev.t) IN
       IF j # 0 /\ TraceLog[j].e = "TsPkgDec" /\ HasTag(TraceLog[j].r, "drop") THEN FirstOf(TraceLog[j].r, "drop") ELSE 0

ProjOK(p, w) ==
  /\ Len(p.sets) = NS(w.C)
  /\ \A s \in 1 .. NS(w.C) :
       p.sets[s][1] = 1 =>
         /\ w.S.alive[s] = 1
         /\ p.sets[s][2] = w.S.out[s]
         /\ p.sets[s][3] = (IF w.S.canc[s] THEN 1 ELSE 0)
         /\ p.sets[s][4] = w.S.guard[s]
SyncPool(w, p) ==
  IF p.alive = 1 THEN [w EXCEPT !.S.nt = p.nt, !.S.nr = p.nr, !.S.wr = p.wr, !.S.lf = p.lf] ELSE w

StepOf(i, ev) ==
  LET t == ev.t
      w0 == [World EXCEPT !.G.log = <<>>]
      notes == Notes(ev)
      mine == \/ ev.e \in TsSites
              \/ (ev.e = "Start" /\ t \in DOMAIN C.prog)
              \/ (ev.e \in {"TpInlineCheck", "TpFqLoadThreads"} /\ AtPc(w0, t, ev.e))
      k == IF ev.e = "TsPkgLoadCancel" THEN PkgId(i, ev) ELSE 0
      own == ev.e = "TsPkgLoadCancel" /\ Depth(w0, t) > 0 /\ k \in Range(Top(w0, t).pend)
      w1 == IF ~mine THEN w0
            ELSE Dispatch(IF own \/ ev.e \in {"TpInlineCheck", "TpFqLoadThreads"} THEN w0 ELSE Finalize(w0, t), t, ev.e, k)
      returns == HasTag(notes, "ret") /\ w1.ok /\ Depth(w1, t) > 0 /\ Top(w1, t).pc \in {"OpRet", "InPool", "PoEnq", "PoAny"}
      w2 == IF returns THEN PoRet(Finalize(w1, t), t) ELSE w1
  IN [w |-> w2, notes |-> notes]

TraceStep ==
  /\ l <= Len(TraceLog)
  /\ LET ev == TraceLog[l] IN
       \/ /\ ev.e = "Reset"
          /\ C' = CfgOf(ev) /\ S' = InitS(CfgOf(ev)) /\ T' = InitT(CfgOf(ev)) /\ G' = InitG(CfgOf(ev))
       \/ /\ ev.e = "End"
          /\ AllDone
          /\ UNCHANGED vars
       \/ /\ ev.e = "Deadlock"
          /\ G' = [G EXCEPT !.bad = @ \cup {"Deadlock"}]
          /\ UNCHANGED <<C, S, T>>
       \/ /\ ev.e \in {"FutexTimeout", "FutexSpurious"}
          /\ ev.t \in Threads
          /\ LET n == SyncPool(World, ev.s) IN S' = n.S
          /\ UNCHANGED <<C, T, G>>
       \/ /\ ev.e \notin {"Reset", "End", "Deadlock", "FutexTimeout", "FutexSpurious", "Diverged"}
          /\ ev.t \in Threads
          /\ LET r == StepOf(l, ev)
                 n == SyncPool(r.w, ev.s)
             IN /\ r.w.ok
                /\ r.w.G.log = r.notes
                /\ ProjOK(ev.s, r.w)
                /\ S' = n.S /\ T' = n.T /\ G' = n.G /\ C' = C
  /\ l' = l + 1

TraceSpec == TraceInit /\ [][TraceStep]_tvars

TraceAccepted ==
  LET d == TLCGet("stats").diameter IN
  IF d = Len(TraceLog) THEN TRUE
  ELSE /\ PrintT(<<"TRACE_REJECTED_AT_LINE", d + 1, "OF", Len(TraceLog)>>)
       /\ PrintT(<<"OFFENDING", TraceLog[d + 1]>>)
       /\ FALSE
=============================================================================
