CONSTANT CfgSet <- S_seq_cancel_unfixed_heavy
INIT MCInit
NEXT Next
CHECK_DEADLOCK FALSE
INVARIANTS WaitIsBarrier AtMostOnce SkippedOnlyIfCancelled CounterExact AllFinishedAtEnd NoStartAfterCancel CancelReported DeliveredWereCaptured DeliveredOnce NoExceptionLost GuardSane ForceQueuedNotInline
