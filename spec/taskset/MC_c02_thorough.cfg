CONSTANT CfgSet <- Set_c02_thorough
INIT MCInit
NEXT Next
CHECK_DEADLOCK FALSE
INVARIANTS WaitIsBarrier AtMostOnce SkippedOnlyIfCancelled CounterExact AllFinishedAtEnd NoStartAfterCancel CancelReported DeliveredWereCaptured DeliveredOnce NoExceptionLost GuardSane ForceQueuedNotInline
