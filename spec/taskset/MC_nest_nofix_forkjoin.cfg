\* own-children fork-join, futures and loops terminate even with the original waiters
CONSTANTS
  SS = 2
  MaxW = 3
  Progs <- MCProgs
  Configs <- CfgNoFixForkJoin
SPECIFICATION FairSpec
CHECK_DEADLOCK TRUE
INVARIANTS TypeOK AtMostOnce BarrierOK SleepersIdle NoStarvation
