\* the quick matrix again, with <>AllDone under weak fairness (thorough tier)
CONSTANTS
  SS = 2
  MaxW = 3
  Progs <- MCProgs
  Configs <- CfgQuick
SPECIFICATION FairSpec
CHECK_DEADLOCK TRUE
INVARIANTS TypeOK AtMostOnce BarrierOK SleepersIdle NoStarvation
PROPERTIES Termination
