\* all programs x pools 0..3 x inline on/off, repaired waiters
CONSTANTS
  SS = 2
  MaxW = 4
  Progs <- MCProgs
  Configs <- CfgThorough
SPECIFICATION FairSpec
CHECK_DEADLOCK TRUE
INVARIANTS TypeOK AtMostOnce BarrierOK SleepersIdle NoStarvation
