---------------------------- MODULE MCNestedHint ----------------------------
(* Model-checking instances of NestedHint.tla: library programs + the stale-hint cross waits that   *)
(* checks/C06.py drives on the real pool (STALE_HINT there).                                        *)
EXTENDS MCNested, NestedHint

(* 9: two leaf tasks into a lightweight set (central queue); a task handed to the worker through its *)
(*    locality ring (bulk from main: no enqueue, the hint is not touched) waits on that set; main    *)
(*    waits too.  10: the same for two workers (two hidden tasks, two ring tasks).                   *)
P9 == [sets |-> <<"light", "light">>,
       tasks |-> <<T(1, <<>>), T(1, <<>>), T(2, <<O("wait", 1)>>)>>,
       main |-> <<O("sched", 1), O("sched", 2), OK("bulk", 2, <<3>>), O("wait", 2), O("wait", 1)>>]
P10 == [sets |-> <<"light", "light", "light">>,
        tasks |-> <<T(1, <<>>), T(1, <<>>), T(2, <<>>), T(3, <<O("wait", 1)>>), T(3, <<O("wait", 2)>>)>>,
        main |-> <<O("sched", 1), O("sched", 2), O("sched", 3), OK("bulk", 3, <<4, 5>>), O("wait", 3), O("wait", 1), O("wait", 2)>>]
HProgs == MCProgs \o <<P9, P10>>

CfgHint == {C(p, 1, TRUE, FALSE) : p \in {1, 2, 3, 5, 9}} \cup {C(p, 2, TRUE, FALSE) : p \in {1, 9, 10}}
CfgHintGate == {C(9, 1, TRUE, FALSE)}
=============================================================================
