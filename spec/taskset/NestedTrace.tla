---------------------------- MODULE NestedTrace ----------------------------
(* Trace validation for Nested.tla (safety part of C06).  Every recorded step of the real   *)
(* pool / task sets / futures / parallel_for under the controlled scheduler must be a step  *)
(* of the specification: body begin/end and API call/ret notes select the action (who may   *)
(* take which task from which tier, when wait()/get() may return, what may run inline), and *)
(* after every step the sizes of the central queue, of every locality ring and of every     *)
(* steal ring must equal the specification's tiers.  Lines are normalised by checks/C06.py  *)
(* (one driver note per line: field n; chk = 1 when the projection belongs to that line).   *)
(* Sleeping is not tracked here (asleep stays empty, placed pushes may go to any steal      *)
(* ring): it only matters for the liveness side, which the model checker decides.           *)
EXTENDS Nested, Json, IOUtils

TraceLog == ndJsonDeserialize(IOEnv.TRACE)
Hdr == TraceLog[1]
TraceProgs == Hdr.progs
TraceSS == Hdr.ss
DummyConf == [nw |-> 0, p |-> 1, wps |-> TRUE, inl |-> TRUE]
TraceConfigs == {DummyConf}

VARIABLES l, bad,
  held,  \* per thread: the task it popped but has not started yet (the worker's deferred steal-ring
         \* check has a schedule point between the pop and the call), 0 = none
  lag    \* per thread inside a wait, per tier class: polling-round markers of OTHER classes it passed
         \* since it last attempted this class while a task sat in this class (see WaitersPollQueuedWork)
tvars == <<vars, l, bad, held, lag>>

(* The lower bound of Polled(t) for waiters.  The model's termination argument gives a thread inside *)
(* wait() (or a waiting loop) the central queue, every locality ring and every steal ring: a waiter  *)
(* never parks, so nothing repairs a tier it skips - unlike an idle worker, which may trust the      *)
(* lossy central-queue hint because the time-out probe of a PARKED worker repairs it.  The real      *)
(* waiter must therefore attempt every class once per polling round, whatever hint words say.  One   *)
(* round passes one marker per class (the step that starts the attempt):                             *)
(*   TpStealCentral (try_dequeue)   TpRingsLoadCount (scan of all rings)   TpRingsLoadSteal (scan of *)
(*   all steal rings).  lag[t][c] counts the markers of other classes that t passed fruitlessly      *)
(* while a task was queued in class c (sizes are bound to the real queues by ProjOK); in the cycle   *)
(* C R S C R S it never exceeds 2.  Any note of t (begin/end/call/ret) or a pop by t resets it.      *)
Classes == {"central", "ring", "steal"}
MarkerOf(e) == CASE e = "TpStealCentral" -> "central" [] e = "TpRingsLoadCount" -> "ring"
                 [] e = "TpRingsLoadSteal" -> "steal" [] OTHER -> "none"
ZeroLag == [c \in Classes |-> 0]
QueuedIn(c) == \E k \in Tasks : tier[k][1] = c
Waiting(t) == ~Idle(t) /\ Top(t).m \in {"wait", "pfor"}
LagAfter(t, e, noted) ==
  IF noted \/ tier' # tier \/ ~Waiting(t) THEN ZeroLag
  ELSE IF MarkerOf(e) = "none" THEN lag[t]
  ELSE [c \in Classes |-> IF c = MarkerOf(e) \/ ~QueuedIn(c) THEN 0 ELSE lag[t][c] + 1]

TraceInit == l = 2 /\ bad = {} /\ held = [t \in AllThreads |-> 0] /\ lag = [t \in AllThreads |-> ZeroLag]
             /\ Hdr.e = "Header" /\ InitFor(DummyConf)

NTasksOf(p) == Len(Progs[p].tasks)
NSetsOf(p) == Len(Progs[p].sets)
ResetTo(c) ==
  /\ conf' = c
  /\ stk' = [t \in AllThreads |-> IF t = "main" THEN <<[k |-> 0, pc |-> 1, m |-> "run"]>> ELSE <<>>]
  /\ tier' = [k \in 1 .. NTasksOf(c.p) |-> None]
  /\ run' = [k \in 1 .. NTasksOf(c.p) |-> "ns"]
  /\ out' = [s \in 1 .. NSetsOf(c.p) |-> 0]
  /\ asleep' = {}
  /\ prefer' = [i \in 0 .. MaxW - 1 |-> FALSE]
  /\ cnt' = [k \in 1 .. NTasksOf(c.p) |-> 0]

CountIn(tf, tr) == Cardinality({k \in DOMAIN tf : tf[k] = tr})
ProjOK(p, tf) ==
  p.alive = 1 =>
    /\ p.cq = CountIn(tf, Central)
    /\ \A i \in 1 .. Len(p.rings) : p.rings[i] = CountIn(tf, RingT(i - 1))
    /\ \A i \in 1 .. Len(p.steal) : p.steal[i] = CountIn(tf, StealT(i - 1))

(* a step without driver note: nothing of ours, a push of the task being scheduled, or a husk pop *)
Silent(t) ==
  \/ UNCHANGED vars
  \/ PushCentral(t)
  \/ \E g \in 0 .. NSteal - 1 : PushStealTo(t, g) /\ UNCHANGED asleep
  \/ \E K \in SUBSET BulkItems(t), tr \in {Central} \cup AllRings \cup AllSteal :
       BulkPushTo(t, K, tr) /\ UNCHANGED asleep
  \/ \E k \in {j \in Tasks : tier[j] \in Polled(t) /\ run[j] # "ns"} : Take(t, k)
Silent2(t) ==
  \/ Silent(t) /\ UNCHANGED held
  \/ \E k \in {j \in Tasks : tier[j] \in Polled(t) /\ run[j] = "ns"} :     \* pop now, start later
       /\ held[t] = 0 /\ TakeTier(t, k) /\ held' = [held EXCEPT ![t] = k]
       /\ UNCHANGED <<conf, stk, run, cnt, out, asleep>>

Noted(t, n) ==
  \/ /\ n[1] = "call" /\ UNCHANGED held
     /\ \/ n[2] = 1 /\ CallSched(t) /\ CurOp(t).op = "sched" /\ CurOp(t).a = n[3]
        \/ n[2] = 4 /\ CallSched(t) /\ CurOp(t).op = "async" /\ CurOp(t).a = n[3]
        \/ n[2] = 2 /\ EnterWait(t) /\ CurOp(t).a = n[3]
        \/ n[2] = 3 /\ EnterGet(t) /\ CurOp(t).a = n[3]
        \/ n[2] = 5 /\ CallBulk(t) /\ CurOp(t).op = "bulk" /\ CurOp(t).a = n[3]
        \/ n[2] = 6 /\ CallBulk(t) /\ CurOp(t).op = "pfor" /\ CurOp(t).a = n[3]
  \/ /\ n[1] = "ret" /\ UNCHANGED held
     /\ \/ n[2] \in {1, 4} /\ RetSched(t) /\ CurOp(t).a = n[3]
        \/ n[2] = 2 /\ WaitReturn(t) /\ CurOp(t).a = n[3]
        \/ n[2] = 3 /\ GetReturn(t) /\ CurOp(t).a = n[3]
        \/ n[2] = 5 /\ RetBulk(t) /\ CurOp(t).a = n[3]
        \/ n[2] = 6 /\ RetPfor(t) /\ CurOp(t).a = n[3]
  \/ /\ n[1] = "begin" /\ n[2] \in Tasks
     /\ \/ run[n[2]] = "ns" /\ Take(t, n[2]) /\ UNCHANGED held
        \/ /\ held[t] = n[2] /\ run[n[2]] = "ns" /\ TakeRun(t, n[2]) /\ held' = [held EXCEPT ![t] = 0]
           /\ UNCHANGED <<conf, tier, prefer, out, asleep>>
        \/ RunInline(t) /\ CurOp(t).a = n[2] /\ UNCHANGED held
        \/ BulkInline(t, n[2]) /\ UNCHANGED held
        \/ GetInline(t) /\ CurOp(t).a = n[2] /\ UNCHANGED held
  \/ /\ n[1] = "end" /\ UNCHANGED held
     /\ \/ n[2] = 0 /\ MainEnd(t)
        \/ n[2] # 0 /\ EndTask(t) /\ Top(t).k = n[2]

TraceStep ==
  /\ l <= Len(TraceLog)
  /\ LET ev == TraceLog[l] IN
       \/ /\ ev.e = "Reset"
          /\ ResetTo([nw |-> ev.nw, p |-> ev.p, wps |-> TRUE, inl |-> TRUE])
          /\ held' = [t \in AllThreads |-> 0]
          /\ lag' = [t \in AllThreads |-> ZeroLag]
          /\ UNCHANGED bad
       \/ /\ ev.e = "End"
          /\ AllDone
          /\ UNCHANGED <<vars, bad, held, lag>>
       \/ /\ ev.e \in {"Deadlock", "Stalled"}     \* the execution did not terminate: judged by Terminated
          /\ bad' = bad \cup {ev.e}
          /\ UNCHANGED <<vars, held, lag>>
       \/ /\ ev.e \notin {"Reset", "End", "Deadlock", "Stalled", "Header"}
          /\ ev.t \in Threads
          /\ IF ev.n = <<>> THEN Silent2(ev.t) ELSE Noted(ev.t, ev.n)
          /\ ev.chk = 1 => ProjOK(ev.s, tier')
          /\ lag' = [lag EXCEPT ![ev.t] = LagAfter(ev.t, ev.e, ev.n # <<>>)]
          /\ UNCHANGED bad
  /\ l' = l + 1

TraceSpec == TraceInit /\ [][TraceStep]_tvars

(* C06 on the recorded executions: none of them ended in a deadlock or exceeded the step bound *)
Terminated == bad = {}
(* ... and no thread inside a wait went around its polling loop past a queued task without attempting *)
(* the tier the task sits in (the starvation itself, seen after 1.5 rounds instead of the step bound) *)
WaitersPollQueuedWork == \A t \in AllThreads : \A c \in Classes : lag[t][c] <= 2

TraceAccepted ==
  LET d == TLCGet("stats").diameter IN
  IF d = Len(TraceLog) THEN TRUE
  ELSE /\ PrintT(<<"TRACE_REJECTED_AT_LINE", d + 1, "OF", Len(TraceLog)>>)
       /\ PrintT(<<"OFFENDING", TraceLog[d + 1]>>)
       /\ FALSE
=============================================================================
