---------------------------- MODULE NestedTrace ----------------------------
(* Trace validation for Nested.tla (safety part of C06).  Every recorded step of the real   *)
(* pool / task sets / futures / parallel_for under the controlled scheduler must be a step  *)
(* of the specification: body begin/end and API call/ret notes select the action (who may   *)
(* take which task from which tier, when wait()/get() may return, what may run inline), and *)
(* after every step the sizes of the central queue, of every locality ring and of every     *)
(* steal ring must equal the specification's tiers.  Lines are normalised by checks/C06.py  *)
(* (one driver note per line: field n; chk = 1 when the projection belongs to that line).   *)
(* Sleeping is not tracked here (asleep stays empty, placed pushes may go to any steal      *)
(* ring): it only matters for the liveness side, which the model checker decides.           *)
EXTENDS Nested, Json, IOUtils

TraceLog == ndJsonDeserialize(IOEnv.TRACE)
Hdr == TraceLog[1]
TraceProgs == Hdr.progs
TraceSS == Hdr.ss
DummyConf == [nw |-> 0, p |-> 1, wps |-> TRUE, inl |-> TRUE]
TraceConfigs == {DummyConf}

VARIABLES l, bad,
  held   \* per thread: the task it popped but has not started yet (the worker's deferred steal-ring
         \* check has a schedule point between the pop and the call), 0 = none
tvars == <<vars, l, bad, held>>

TraceInit == l = 2 /\ bad = {} /\ held = [t \in AllThreads |-> 0] /\ Hdr.e = "Header" /\ InitFor(DummyConf)

NTasksOf(p) == Len(Progs[p].tasks)
NSetsOf(p) == Len(Progs[p].sets)
ResetTo(c) ==
  /\ conf' = c
  /\ stk' = [t \in AllThreads |-> IF t = "main" THEN <<[k |-> 0, pc |-> 1, m |-> "run"]>> ELSE <<>>]
  /\ tier' = [k \in 1 .. NTasksOf(c.p) |-> None]
  /\ run' = [k \in 1 .. NTasksOf(c.p) |-> "ns"]
  /\ out' = [s \in 1 .. NSetsOf(c.p) |-> 0]
  /\ asleep' = {}
  /\ prefer' = [i \in 0 .. MaxW - 1 |-> FALSE]
  /\ cnt' = [k \in 1 .. NTasksOf(c.p) |-> 0]

CountIn(tf, tr) == Cardinality({k \in DOMAIN tf : tf[k] = tr})
ProjOK(p, tf) ==
  p.alive = 1 =>
    /\ p.cq = CountIn(tf, Central)
    /\ \A i \in 1 .. Len(p.rings) : p.rings[i] = CountIn(tf, RingT(i - 1))
    /\ \A i \in 1 .. Len(p.steal) : p.steal[i] = CountIn(tf, StealT(i - 1))

(* a step without driver note: nothing of ours, a push of the task being scheduled, or a husk pop *)
Silent(t) ==
  \/ UNCHANGED vars
  \/ PushCentral(t)
  \/ \E g \in 0 .. NSteal - 1 : PushStealTo(t, g) /\ UNCHANGED asleep
  \/ \E K \in SUBSET BulkItems(t), tr \in {Central} \cup AllRings \cup AllSteal :
       BulkPushTo(t, K, tr) /\ UNCHANGED asleep
  \/ \E k \in {j \in Tasks : tier[j] \in Polled(t) /\ run[j] # "ns"} : Take(t, k)
Silent2(t) ==
  \/ Silent(t) /\ UNCHANGED held
  \/ \E k \in {j \in Tasks : tier[j] \in Polled(t) /\ run[j] = "ns"} :     \* pop now, start later
       /\ held[t] = 0 /\ TakeTier(t, k) /\ held' = [held EXCEPT ![t] = k]
       /\ UNCHANGED <<conf, stk, run, cnt, out, asleep>>

Noted(t, n) ==
  \/ /\ n[1] = "call" /\ UNCHANGED held
     /\ \/ n[2] = 1 /\ CallSched(t) /\ CurOp(t).op = "sched" /\ CurOp(t).a = n[3]
        \/ n[2] = 4 /\ CallSched(t) /\ CurOp(t).op = "async" /\ CurOp(t).a = n[3]
        \/ n[2] = 2 /\ EnterWait(t) /\ CurOp(t).a = n[3]
        \/ n[2] = 3 /\ EnterGet(t) /\ CurOp(t).a = n[3]
        \/ n[2] = 5 /\ CallBulk(t) /\ CurOp(t).op = "bulk" /\ CurOp(t).a = n[3]
        \/ n[2] = 6 /\ CallBulk(t) /\ CurOp(t).op = "pfor" /\ CurOp(t).a = n[3]
  \/ /\ n[1] = "ret" /\ UNCHANGED held
     /\ \/ n[2] \in {1, 4} /\ RetSched(t) /\ CurOp(t).a = n[3]
        \/ n[2] = 2 /\ WaitReturn(t) /\ CurOp(t).a = n[3]
        \/ n[2] = 3 /\ GetReturn(t) /\ CurOp(t).a = n[3]
        \/ n[2] = 5 /\ RetBulk(t) /\ CurOp(t).a = n[3]
        \/ n[2] = 6 /\ RetPfor(t) /\ CurOp(t).a = n[3]
  \/ /\ n[1] = "begin" /\ n[2] \in Tasks
     /\ \/ run[n[2]] = "ns" /\ Take(t, n[2]) /\ UNCHANGED held
        \/ /\ held[t] = n[2] /\ run[n[2]] = "ns" /\ TakeRun(t, n[2]) /\ held' = [held EXCEPT ![t] = 0]
           /\ UNCHANGED <<conf, tier, prefer, out, asleep>>
        \/ RunInline(t) /\ CurOp(t).a = n[2] /\ UNCHANGED held
        \/ BulkInline(t, n[2]) /\ UNCHANGED held
        \/ GetInline(t) /\ CurOp(t).a = n[2] /\ UNCHANGED held
  \/ /\ n[1] = "end" /\ UNCHANGED held
     /\ \/ n[2] = 0 /\ MainEnd(t)
        \/ n[2] # 0 /\ EndTask(t) /\ Top(t).k = n[2]

TraceStep ==
  /\ l <= Len(TraceLog)
  /\ LET ev == TraceLog[l] IN
       \/ /\ ev.e = "Reset"
          /\ ResetTo([nw |-> ev.nw, p |-> ev.p, wps |-> TRUE, inl |-> TRUE])
          /\ held' = [t \in AllThreads |-> 0]
          /\ UNCHANGED bad
       \/ /\ ev.e = "End"
          /\ AllDone
          /\ UNCHANGED <<vars, bad, held>>
       \/ /\ ev.e \in {"Deadlock", "Stalled"}     \* the execution did not terminate: judged by Terminated
          /\ bad' = bad \cup {ev.e}
          /\ UNCHANGED <<vars, held>>
       \/ /\ ev.e \notin {"Reset", "End", "Deadlock", "Stalled", "Header"}
          /\ ev.t \in Threads
          /\ IF ev.n = <<>> THEN Silent2(ev.t) ELSE Noted(ev.t, ev.n)
          /\ ev.chk = 1 => ProjOK(ev.s, tier')
          /\ UNCHANGED bad
  /\ l' = l + 1

TraceSpec == TraceInit /\ [][TraceStep]_tvars

(* C06 on the recorded executions: none of them ended in a deadlock or exceeded the step bound *)
Terminated == bad = {}

TraceAccepted ==
  LET d == TLCGet("stats").diameter IN
  IF d = Len(TraceLog) THEN TRUE
  ELSE /\ PrintT(<<"TRACE_REJECTED_AT_LINE", d + 1, "OF", Len(TraceLog)>>)
       /\ PrintT(<<"OFFENDING", TraceLog[d + 1]>>)
       /\ FALSE
=============================================================================
