\* known finding (stack inversion): expected to violate NoStarvation even with the repaired waiters
CONSTANTS
  SS = 2
  MaxW = 3
  Progs <- MCProgs
  Configs <- CfgInversion
SPECIFICATION FairSpec
CHECK_DEADLOCK TRUE
INVARIANTS TypeOK AtMostOnce BarrierOK SleepersIdle NoStarvation
