\* explicit queue hint, waiters ignore it (the code), NO time-outs (nothing ever repairs the hint): no starved state
CONSTANTS
  SS = 2
  MaxW = 3
  Progs <- HProgs
  Configs <- CfgHint
  WaitGate = FALSE
  Timeouts = FALSE
SPECIFICATION HSpec
CHECK_DEADLOCK FALSE
INVARIANTS TypeOK HTypeOK AtMostOnce BarrierOK SleepersIdle NoHStarvation
