\* open finding: a pool with zero threads cannot queue, every schedule path nests (expected to violate NestBounded)
CONSTANTS
  MaxInline = 3
  Bound = 5
  Configs <- CfgZero
SPECIFICATION Spec
CHECK_DEADLOCK TRUE
INVARIANTS TypeOK GuardBounded NestBounded
