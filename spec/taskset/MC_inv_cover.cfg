\* parallel_invoke: flat arity 3 (heavy) and depth-3 recursion (lightweight, depth limit 1), 1 worker
CONSTANTS
  MaxW = 3
  Trees <- MCTrees
  Configs <- CfgCover
SPECIFICATION Spec
CHECK_DEADLOCK TRUE
INVARIANTS TypeOK ExactlyOnce LastOnCaller LastNeverQueued WaitBarrier DepthBounded
