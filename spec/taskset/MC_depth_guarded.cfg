\* guarded inline paths (pool, TaskSet, ConcurrentTaskSet, serial pipeline stage, graph chain), chain length 1..8 at depth limit 3: nest <= 5
CONSTANTS
  MaxInline = 3
  Bound = 5
  Configs <- CfgGuarded
SPECIFICATION Spec
CHECK_DEADLOCK TRUE
INVARIANTS TypeOK GuardBounded NestBounded
