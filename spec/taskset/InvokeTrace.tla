---------------------------- MODULE InvokeTrace ----------------------------
(* Trace validation for Invoke.tla (C16).  Every recorded step of the real parallel_invoke /     *)
(* ConcurrentTaskSet under the controlled scheduler must be a step of the specification.  The    *)
(* thread of an event is the thread that ran it, so "begin k" on thread t is matched against who *)
(* may invoke functor k (the caller for the last functor / the inline fallback, an idle worker or *)
(* the waiter for a queued one).  Hook sites PiSchedule / PiRunLast select the schedule decision  *)
(* and the direct call; the InlineDepthGuard note (g) must equal the specification's depth; the   *)
(* task set's outstanding count must equal the specification's after every step.  Lines are      *)
(* normalised by checks/C16.py: n = the driver note of the line (or <<>>), g = guard depth or 0.  *)
EXTENDS Invoke, Json, IOUtils

TraceLog == ndJsonDeserialize(IOEnv.TRACE)
Hdr == TraceLog[1]
TraceTrees == Hdr.trees
DummyConf == [nw |-> 0, p |-> 1, mult |-> 1, heavy |-> TRUE, maxinl |-> 32]
TraceConfigs == {DummyConf}

VARIABLES l, bad
tvars == <<vars, l, bad>>

TraceInit == l = 2 /\ bad = {} /\ Hdr.e = "Header" /\ InitFor(DummyConf)

ResetTo(c) ==
  /\ conf' = c
  /\ stk' = [t \in AllThreads |-> IF t = "main" THEN <<Frame(0, FALSE)>> ELSE <<>>]
  /\ st' = [k \in 1 .. Len(Trees[c.p]) - 1 |-> "new"]
  /\ out' = 0
  /\ depth' = [t \in AllThreads |-> 0]
  /\ cnt' = [k \in 1 .. Len(Trees[c.p]) - 1 |-> 0]
  /\ runner' = [k \in 0 .. Len(Trees[c.p]) - 1 |-> IF k = 0 THEN "main" ELSE ""]
  /\ retd' = [k \in 0 .. Len(Trees[c.p]) - 1 |-> FALSE]

NewTop(t) == stk'[t][Len(stk'[t])]

Matched(ev) ==
  LET t == ev.t
      n == ev.n IN
  IF ev.e = "PiSchedule" THEN
    /\ PiSchedule(t)
    /\ IF n = <<>> THEN NewTop(t).m \in {"pi", "pisub0"} /\ ev.g = 0
       ELSE n[1] = "begin" /\ NewTop(t).k = n[2] /\ NewTop(t).m = "body" /\ ev.g = depth'[t]
  ELSE IF ev.e = "PiRunLast" THEN
    /\ PiRunLast(t) /\ n # <<>> /\ n[1] = "begin" /\ NewTop(t).k = n[2] /\ ev.g = 0
  ELSE IF n = <<>> THEN ev.g = 0 /\ UNCHANGED vars
  ELSE
    /\ ev.g = 0
    /\ \/ n[1] = "begin" /\ n[2] \in Funs /\ (RunQueued(t, n[2]) \/ (RunSub0(t) /\ NewTop(t).k = n[2]))
       \/ n[1] = "end" /\ End(t) /\ Top(t).k = n[2]
       \/ n[1] = "call" /\ n[2] = 1 /\ PiCall(t) /\ Top(t).k = n[3]
       \/ n[1] = "ret" /\ n[2] = 1 /\ PiReturn(t) /\ Top(t).k = n[3]
       \/ n[1] = "call" /\ n[2] = 2 /\ WaitCall(t)
       \/ n[1] = "ret" /\ n[2] = 2 /\ WaitReturn(t)

TraceStep ==
  /\ l <= Len(TraceLog)
  /\ LET ev == TraceLog[l] IN
       \/ /\ ev.e = "Reset"
          /\ ResetTo([nw |-> ev.nw, p |-> ev.p, mult |-> ev.mult, heavy |-> (ev.heavy = 1), maxinl |-> ev.maxinl])
          /\ UNCHANGED bad
       \/ /\ ev.e = "End"
          /\ AllDone
          /\ UNCHANGED <<vars, bad>>
       \/ /\ ev.e \in {"Deadlock", "Stalled"}
          /\ bad' = bad \cup {ev.e}
          /\ UNCHANGED vars
       \/ /\ ev.e \notin {"Reset", "End", "Deadlock", "Stalled", "Header"}
          /\ ev.t \in AllThreads
          /\ Matched(ev)
          /\ ev.s.alive = 1 => ev.s.out = out'
          /\ UNCHANGED bad
  /\ l' = l + 1

TraceSpec == TraceInit /\ [][TraceStep]_tvars

Terminated == bad = {}

TraceAccepted ==
  LET d == TLCGet("stats").diameter IN
  IF d = Len(TraceLog) THEN TRUE
  ELSE /\ PrintT(<<"TRACE_REJECTED_AT_LINE", d + 1, "OF", Len(TraceLog)>>)
       /\ PrintT(<<"OFFENDING", TraceLog[d + 1]>>)
       /\ FALSE
=============================================================================
