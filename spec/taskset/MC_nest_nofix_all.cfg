\* negative control (thorough): every cross-wait program starves with the original waiters
CONSTANTS
  SS = 2
  MaxW = 3
  Progs <- MCProgs
  Configs <- CfgNoFixAll
SPECIFICATION FairSpec
CHECK_DEADLOCK TRUE
INVARIANTS TypeOK AtMostOnce BarrierOK SleepersIdle NoStarvation
