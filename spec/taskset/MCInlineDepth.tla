--------------------------- MODULE MCInlineDepth ---------------------------
EXTENDS InlineDepth
N == Bound + 3
(* the guarded paths, pools with at least one thread: bounded for every chain length *)
CfgGuarded == {[kind |-> k, nw |-> nw, n |-> n] : k \in {"pool", "ts", "cts", "pipe", "pipeexc", "graph"}, nw \in 1 .. 2, n \in 1 .. N}
              \cup {[kind |-> "graph", nw |-> 0, n |-> n] : n \in 1 .. N}
(* open findings: continuation chains (completion path on the ImmediateInvoker, wait path from the  *)
(* tail) and every schedule path on a pool with zero threads nest once per link                     *)
CfgThen == {[kind |-> k, nw |-> 1, n |-> n] : k \in {"immediate", "futwait"}, n \in 1 .. N}
CfgZero == {[kind |-> k, nw |-> 0, n |-> n] : k \in {"pool", "ts", "cts"}, n \in 1 .. N}
(* negative control: ThreadPool::schedule's load-based inline path before the repair *)
CfgOrig == {[kind |-> "poolorig", nw |-> 1, n |-> n] : n \in 1 .. N}
(* everything in one run (TLC -continue lists every violating scenario) *)
CfgAll == CfgGuarded \cup CfgThen \cup CfgZero \cup CfgOrig
=============================================================================
