\* cross-wait program, repaired waiters, 1 worker
CONSTANTS
  SS = 2
  MaxW = 3
  Progs <- MCProgs
  Configs <- CfgCover
SPECIFICATION FairSpec
CHECK_DEADLOCK TRUE
INVARIANTS TypeOK AtMostOnce BarrierOK SleepersIdle NoStarvation
PROPERTIES Termination
