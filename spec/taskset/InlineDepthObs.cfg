CONSTANTS
  GuardSlack = 1
  Slack = 8
  BudgetKb = 160
  MustBound = {"then_pool_saturated", "pipeline_serial_p0", "pipeline_serial_p1", "pipeline_serial_p2",
               "graph_chain_p2", "graph_comb_p1", "cts_recursive_heavy_p1",
               "cts_recursive_light_p1", "ts_recursive_p1", "pool_recursive_p1",
               "pipeline_serial_fault_p1", "pipeline_serial_fault_p2", "pipeline_serial_fault_open_p3",
               "cts_recursive_heavy_fault_p1", "cts_recursive_light_fault_p1"}
  MustPlace = {"pipeline_serial_fault_p1", "pipeline_serial_fault_p2", "pipeline_serial_fault_open_p3",
               "cts_recursive_heavy_fault_p1", "cts_recursive_light_fault_p1"}
SPECIFICATION Spec
CHECK_DEADLOCK FALSE
POSTCONDITION TraceAccepted
INVARIANTS DepthIndependentOfN
