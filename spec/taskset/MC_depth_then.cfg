\* open finding: Future continuation chains nest once per link (expected to violate NestBounded)
CONSTANTS
  MaxInline = 3
  Bound = 5
  Configs <- CfgThen
SPECIFICATION Spec
CHECK_DEADLOCK TRUE
INVARIANTS TypeOK GuardBounded NestBounded
