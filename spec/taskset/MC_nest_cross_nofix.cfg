\* negative control: ORIGINAL waiters (central queue + locality rings only), cross-wait program, 1 worker: must starve
CONSTANTS
  SS = 2
  MaxW = 3
  Progs <- MCProgs
  Configs <- CfgNoFixCross
SPECIFICATION FairSpec
CHECK_DEADLOCK TRUE
INVARIANTS TypeOK AtMostOnce BarrierOK SleepersIdle NoStarvation
