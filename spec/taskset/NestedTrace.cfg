CONSTANTS
  SS <- TraceSS
  MaxW = 4
  Progs <- TraceProgs
  Configs <- TraceConfigs
SPECIFICATION TraceSpec
CHECK_DEADLOCK FALSE
POSTCONDITION TraceAccepted
INVARIANTS TypeOK AtMostOnce BarrierOK Terminated WaitersPollQueuedWork
