CONSTANT CfgSet <- Set_hb1
INIT HInit
NEXT HNext
CHECK_DEADLOCK FALSE
INVARIANTS OrdersComplete RaceFree WaitIsBarrier AtMostOnce CounterExact AllFinishedAtEnd DeliveredOnce NoExceptionLost GuardSane SlotOneShot
