---------------------------- MODULE MCTaskSetHB ----------------------------
(* Model-checking configurations of TaskSetHB.tla (C10).  The configurations of MCTaskSet.tla  *)
(* (validated by C02/C04/C05) are reused; a few more exercise what only matters for            *)
(* happens-before: two threads scheduling into one ConcurrentTaskSet, a waiter that is not     *)
(* the creator, a set that is used again after it delivered an exception.                      *)
(* Contract (task_set.h): a TaskSet is used by one thread at a time; several threads may       *)
(* schedule into a ConcurrentTaskSet concurrently, wait() must not run concurrently with       *)
(* schedule() from another thread (tasks of the set may schedule into it: fork-join) and       *)
(* nothing allows two concurrent wait()/tryWait(): one waiter at a time, externally ordered    *)
(* (`sync` / `await`) after the other threads' schedule calls.                                 *)
EXTENDS TaskSetHB, MCTaskSet

HInit == \E c \in CfgSet : HInitWith(c)
HSpec == HInit /\ [][HNext]_hvars

\* ConcurrentTaskSet (kLightweight): d1 and d2 schedule concurrently (queued, inline on the caller, a
\* thrower); d1 waits after d2 has finished (sync) and reads every task's cell
Cfg_hb_two == Mk(1, 1, <<SetR("cts", 0, 1, 0)>>,
   [d1 |-> <<O("new", 1, 0, 0), O("schedfq", 1, 1, 0), O("sync", 0, 0, 0), O("wait", 1, 0, 0), O("del", 1, 0, 0)>>,
    d2 |-> <<O("await", 1, 0, 0), O("sched", 1, 2, 0), O("schedfq", 1, 3, 0)>>],
   NoBody(3), <<0, 0, 1>>, 1, {"w0"})
\* ... with four tasks (thorough)
Cfg_hb_two4 == Mk(1, 1, <<SetR("cts", 0, 1, 0)>>,
   [d1 |-> <<O("new", 1, 0, 0), O("schedfq", 1, 1, 0), O("sched", 1, 2, 0), O("sync", 0, 0, 0),
             O("wait", 1, 0, 0), O("del", 1, 0, 0)>>,
    d2 |-> <<O("await", 1, 0, 0), O("sched", 1, 3, 0), O("schedfq", 1, 4, 0)>>],
   NoBody(4), <<0, 0, 0, 1>>, 1, {"w0"})
\* TaskSet on a 1-thread pool: ring fast path of scheduleBulk (count = numThreads = 1), force-queued single and bulk
Cfg_hb_ring == Mk(1, 1, <<SetR("ts", 0, 1, 0)>>,
   [d1 |-> <<O("new", 1, 0, 0), O("bulk", 1, 1, 1), O("schedfq", 1, 2, 0), O("bulkfq", 1, 3, 1),
             O("trywait", 1, 0, 1), O("wait", 1, 0, 0), O("del", 1, 0, 0)>>],
   NoBody(3), <<0, 0, 1>>, 1, {"w0"})
\* the creator only creates and destroys; d2 schedules (bulk: packageTaskNoIncrement, inline bodies on d2), polls
\* tryWait and waits
Cfg_hb_other == Mk(1, 1, <<SetR("cts", 0, 1, 0)>>,
   [d1 |-> <<O("new", 1, 0, 0), O("sync", 0, 0, 0), O("del", 1, 0, 0)>>,
    d2 |-> <<O("await", 1, 0, 0), O("schedfq", 1, 1, 0), O("bulk", 1, 2, 2), O("trywait", 1, 0, 1), O("wait", 1, 0, 0)>>],
   NoBody(3), <<0, 1, 0>>, 1, {"w0"})
\* a TaskSet that is used again after wait() delivered an exception (canceled_ stays set: nothing runs any more)
Cfg_hb_reuse == Mk(1, 1, <<SetR("ts", 0, 4, 0)>>,
   [d1 |-> <<O("new", 1, 0, 0), O("schedfq", 1, 1, 0), O("schedfq", 1, 2, 0), O("wait", 1, 0, 0),
             O("schedfq", 1, 3, 0), O("bulkfq", 1, 4, 1), O("trywait", 1, 0, 1), O("wait", 1, 0, 0), O("del", 1, 0, 0)>>],
   NoBody(4), <<1, 1, 1, 1>>, 1, {"w0"})

\* quick: TaskSet paths / ConcurrentTaskSet paths + a nested set with cascading cancel (child list under its mutex)
Set_hb1 == {Cfg_ts1, Cfg_pool0, Cfg_exc_cancel, Cfg_hb_reuse, Cfg_hb_ring}
Set_hb2 == {Cfg_exc2, Cfg_recursive, Cfg_hb_two, Cfg_hb_other, Cfg_nested1}
\* thorough: 2-thread pools, kHeavy (schedulePlaced / scheduleBulkPlaced), cancel from a second thread, four tasks from two threads
Set_hb3 == {Cfg_heavy, Cfg_cts_cancel, Cfg_ts2, Cfg_hb_two4}
=============================================================================
