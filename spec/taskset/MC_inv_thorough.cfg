\* parallel_invoke: all trees x pools 0..2 x cost x depth limit {1,2,32}
CONSTANTS
  MaxW = 3
  Trees <- MCTrees
  Configs <- CfgThorough
SPECIFICATION Spec
CHECK_DEADLOCK TRUE
INVARIANTS TypeOK ExactlyOnce LastOnCaller LastNeverQueued WaitBarrier DepthBounded
