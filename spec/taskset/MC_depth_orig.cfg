\* negative control: the pool's load-based inline path without the depth guard (must violate NestBounded)
CONSTANTS
  MaxInline = 3
  Bound = 5
  Configs <- CfgOrig
SPECIFICATION Spec
CHECK_DEADLOCK TRUE
INVARIANTS TypeOK GuardBounded NestBounded
