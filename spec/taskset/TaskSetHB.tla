------------------------------ MODULE TaskSetHB ------------------------------
(* C10 for TaskSet / ConcurrentTaskSet (exception slot and completion counter):   *)
(* TaskSet.tla composed with the happens-before model spec/lib/MemOrder.tla.      *)
(* Memory orders come from OrdersTaskSet.tla (bin/extract_orders.py over          *)
(* task_set.cpp, detail/task_set_impl.h, task_set.h of the working tree).         *)
(*                                                                                *)
(* Atomic locations (per set s): out = outstandingTaskCount_, canc = canceled_,   *)
(* guard = guardException_; ghost atomics: klock = the child-list std::mutex      *)
(* (lock = acquire RMW, unlock = release store), alive = the external             *)
(* publication of a constructed set to a driver thread that `await`s it;          *)
(* pool = the pool words the task-set code only loads (workRemaining_,            *)
(* poolLoadFactor_, numRings_).                                                   *)
(* Non-atomic locations:                                                          *)
(*   exc s   exception_ : written by the winner of the guard CAS (TsExcCas),      *)
(*           read + written (moved out) by testAndResetException after its load   *)
(*           saw kSet (TsTarLoadGuard), written (destroyed) by the destructor     *)
(*   task k  ONE ghost cell per task = "the effects of the task body": written    *)
(*           when the body is entered and when it ends by the executing thread,   *)
(*           read by the thread whose wait() / tryWait()->true / destructor       *)
(*           completed on the task's set (TsTarLoadCancel, TsTarStoreUnset)       *)
(*   kids s  the intrusive child list (head_/tail_/prev_/next_) under mtx_        *)
(* NOT modelled: the hand-over of the closure through the pool's queues (the      *)
(* pool is abstract in TaskSet.tla: PoHandOver is not an atomic access), hence    *)
(* no closure cell and no constructor write of exception_ (both are ordered by    *)
(* the pool publication only, a separate component).  Leaving these edges out     *)
(* only removes happens-before edges: it cannot hide a race on the locations      *)
(* above.                                                                         *)
(* Sites whose hooked statement calls canceled() / numThreads() (extracted as     *)
(* "none") are modelled conservatively as relaxed loads (CanceledOrd): fewer      *)
(* edges than the real acquire load, never more.                                  *)
EXTENDS TaskSet, MemOrder, OrdersTaskSet

VARIABLE hb
hvars == <<vars, hb>>

HT == DOMAIN T
OutL(s) == <<"out", s>>
CancL(s) == <<"canc", s>>
GuardL(s) == <<"guard", s>>
KLockL(s) == <<"klock", s>>
AliveL(s) == <<"alive", s>>
PoolL == <<"pool", 0>>
ExcL(s) == <<"exc", s>>
TaskL(k) == <<"task", k>>
KidsL(s) == <<"kids", s>>
ALocsOf(c) == UNION {{OutL(s), CancL(s), GuardL(s), KLockL(s), AliveL(s)} : s \in 1 .. NS(c)} \cup {PoolL}
NLocsOf(c) == {ExcL(s) : s \in 1 .. NS(c)} \cup {KidsL(s) : s \in 1 .. NS(c)} \cup {TaskL(k) : k \in 1 .. NK(c)}

\* ---- extracted orders
OS(site, i) == Ord[site][i][2]
OF(site, i) == Ord[site][i][3]
\* sites whose hooked statement has no atomic operation of its own: canceled() / numThreads() calls
NoneSites == {"TsCtorLoadPCancel", "TsSchedLoadCancel", "TsBulkLoadCancel", "TsCtsLoadCancel2",
              "TsBulkLoadThreads", "TsPlLoadThreads", "TsCtsLoadThreads"}
OrdersComplete ==
  /\ \A s \in DOMAIN Ord \ NoneSites : \A i \in 1 .. Len(Ord[s]) : Ord[s][i][1] # "none"
  /\ NoneSites \subseteq DOMAIN Ord
  /\ Len(Ord["TsBulkIncN"]) = 4 /\ Len(Ord["TsPkgDec"]) = 2 /\ Len(Ord["TsPkgLoadCancel"]) = 2
  /\ Len(Ord["TsWaitLoadOut"]) = 2 /\ Len(Ord["TsWaitLoadOut2"]) = 2 /\ Len(Ord["TsTryLoadOut"]) = 2
  /\ Len(Ord["TsTryLoadFinal"]) = 2 /\ Len(Ord["TsTryLoadOutTok"]) = 1 /\ Len(Ord["TsBulkLoadOut"]) = 2
  /\ Len(Ord["TsBulkLoadWork"]) = 2 /\ Len(Ord["TsCtsLoadWork"]) = 2 /\ Len(Ord["TsCtsLoadLf"]) = 2
CanceledOrd == "relaxed"

\* textual occurrence of a site (file order task_set.cpp, task_set_impl.h, task_set.h)
WaitOcc(s) == IF C.sets[s].kind = "cts" THEN 1 ELSE 2             \* ConcurrentTaskSet::wait/tryWait precede TaskSet's
CtsOcc(s) == IF C.sets[s].heavy = 1 THEN 2 ELSE 1                 \* schedule (kLightweight), schedulePlaced
Bulk2(f) == IF f.var = "placed" THEN 2 ELSE 1                     \* scheduleBulkImpl, scheduleBulkImplPlaced
IncNOcc(f) == IF f.how = "rings" THEN 1 ELSE CASE f.var = "std" -> 2 [] f.var = "placed" -> 3 [] OTHER -> 4
AllOps == UNION {Range(C.prog[d]) : d \in DOMAIN C.prog} \cup UNION {Range(C.body[j]) : j \in 1 .. NK(C)}
TaskIsBulk(k) == \E o \in AllOps : o.op \in {"bulk", "bulkfq"} /\ k \in OpIds(o)
PkgOcc(k) == IF TaskIsBulk(k) THEN 2 ELSE 1                       \* packageTask, packageTaskNoIncrement

\* ---- helpers
\* An atomic load without the tick of the loading thread's own clock component: the same
\* synchronizes-with edge as ALoad.  Used for the iterations of the wait() spin loop that read a
\* non-zero counter, so that spinning does not create new states.  (Ticks only separate a thread's
\* accesses from its own later release operations; AStore/ARmw/NAWrite/NARead tick themselves.)
QLoad(h, t, a, o) == IF IsAcq(o) THEN [h EXCEPT !.vc[t] = Join(HT, @, h.rel[a])] ELSE h

RECURSIVE WriteCells(_, _, _)
WriteCells(h, t, ks) == IF ks = {} THEN h ELSE LET k == CHOOSE k \in ks : TRUE IN WriteCells(NAWrite(HT, h, t, TaskL(k)), t, ks \ {k})
RECURSIVE ReadCells(_, _, _)
ReadCells(h, t, ks) == IF ks = {} THEN h ELSE LET k == CHOOSE k \in ks : TRUE IN ReadCells(NARead(HT, h, t, TaskL(k)), t, ks \ {k})
RECURSIVE JoinAll(_, _, _)
JoinAll(h, t, ds) == IF ds = {} THEN h ELSE LET d == CHOOSE d \in ds : TRUE IN JoinAll(HBJoin(HT, h, t, d), t, ds \ {d})
RECURSIVE UnlockAll(_, _, _)
UnlockAll(h, t, ms) == IF ms = {} THEN h ELSE LET m == CHOOSE m \in ms : TRUE IN UnlockAll(AStore(HT, h, t, KLockL(m), "release"), t, ms \ {m})

\* the bodies this step of t entered (first instruction) or left (last instruction): the body's writes
Began == {k \in Tasks : G'.runs[k] > G.runs[k]}
Ended == {k \in Tasks : G.res[k] = "" /\ G'.res[k] \in {"done", "threw"}}
BodyW(h, t) == WriteCells(h, t, Began \cup Ended)
\* wait()/tryWait()->true/destructor on set s completed in this step: the caller reads what the tasks wrote
ReadTasks(h, t, s) == ReadCells(h, t, {k \in Tasks : G'.set[k] = s /\ G'.st[k] = "fin" /\ G'.runs[k] > 0})
\* the destructor of set s finished in this step: exception_ is destroyed
DestroyW(h, t) ==
  LET ds == {s \in Sets : S.alive[s] = 1 /\ S'.alive[s] = 2} IN
  IF ds = {} THEN h ELSE NAWrite(HT, h, t, ExcL(CHOOSE s \in ds : TRUE))

Fr(t) == Top(World, t)

\* (the MC module chooses the configuration: HInit == \E c \in CfgSet : HInitWith(c))
HInitWith(c) == InitWith(c) /\ hb = HBInit((DOMAIN c.prog) \cup c.workers, ALocsOf(c), NLocsOf(c))

\* std::lock_guard on the child-list mutex + the critical section (see TsKidsLock in TaskSet.tla)
KidsLockHB(t) ==
  LET f == Fr(t)
      m == IF f.ctx = "cas" THEN f.cs[Len(f.cs)].s ELSE S.par[f.s]
      locked == ARmw(HT, hb, t, KLockL(m), "acquire")
  IN IF S.klock[m] # "" THEN hb                       \* try_lock failed: the poll is a stuttering step
     ELSE IF f.ctx \in {"reg", "unreg"}
       THEN DestroyW(AStore(HT, NAWrite(HT, locked, t, KidsL(m)), t, KLockL(m), "release"), t)
       ELSE \* cancelChildren: read the list; the cascade may unwind (unlock) every level that has no child left
            UnlockAll(NARead(HT, locked, t, KidsL(m)), t,
                      {x \in Sets : (S.klock[x] = t \/ x = m) /\ S'.klock[x] = ""})

HStep(t) ==
  \/ A_Start(t) /\ hb' = hb
  \/ /\ A_DrOp(t)
     /\ LET f0 == Fr(t)
            o == ProgOf(World, t, f0)[f0.ip]
        IN hb' = IF o.op = "new" THEN AStore(HT, hb, t, AliveL(o.s), "release") ELSE hb
  \/ A_DrEnd(t) /\ hb' = hb
  \/ A_DrBodyEnd(t) /\ hb' = BodyW(hb, t)
  \/ A_GateSync(t) /\ hb' = JoinAll(hb, t, (DOMAIN C.prog) \ {t})
  \/ A_GateAwait(t) /\ hb' = ALoad(HT, hb, t, AliveL(Fr(t).s), "acquire")
  \/ \E k \in Tasks : /\ Fire(t, "TsPkgLoadCancel", k)
                      /\ hb' = BodyW(ALoad(HT, hb, t, CancL(G.set[k]), OS("TsPkgLoadCancel", PkgOcc(k))), t)
  \/ A_TsPkgDec(t) /\ hb' = ARmw(HT, hb, t, OutL(Fr(t).ts), OS("TsPkgDec", PkgOcc(Fr(t).own)))
  \/ A_TsPkgInc(t) /\ hb' = ARmw(HT, hb, t, OutL(Fr(t).s), OS("TsPkgInc", 1))
  \* trySetCurrentException: the CAS; the winner then writes exception_
  \/ /\ A_TsExcCas(t)
     /\ LET s == Fr(t).ts IN
        hb' = IF S.guard[s] = 0 THEN NAWrite(HT, ARmw(HT, hb, t, GuardL(s), OS("TsExcCas", 1)), t, ExcL(s))
              ELSE ALoad(HT, hb, t, GuardL(s), OF("TsExcCas", 1))
  \/ A_TsExcStoreSet(t) /\ hb' = AStore(HT, hb, t, GuardL(Fr(t).ts), OS("TsExcStoreSet", 1))
  \/ A_TsExcStoreCancel(t) /\ hb' = AStore(HT, hb, t, CancL(Fr(t).ts), OS("TsExcStoreCancel", 1))
  \* testAndResetException: the load; on kSet exception_ is moved out (read, then left moved-from)
  \/ /\ A_TsTarLoadGuard(t)
     /\ LET s == Fr(t).s
            h1 == ALoad(HT, hb, t, GuardL(s), OS("TsTarLoadGuard", 1))
        IN hb' = IF S.guard[s] = 2 THEN NAWrite(HT, NARead(HT, h1, t, ExcL(s)), t, ExcL(s)) ELSE h1
  \/ A_TsTarStoreUnset(t) /\ hb' = ReadTasks(AStore(HT, hb, t, GuardL(Fr(t).s), OS("TsTarStoreUnset", 1)), t, Fr(t).s)
  \/ A_TsTarLoadCancel(t) /\ hb' = DestroyW(ReadTasks(ALoad(HT, hb, t, CancL(Fr(t).s), OS("TsTarLoadCancel", 1)), t, Fr(t).s), t)
  \* wait(): the loop condition; an iteration that reads non-zero spins
  \/ /\ A_TsWaitLoadOut(t)
     /\ LET s == Fr(t).s IN
        hb' = IF S.out[s] = 0 THEN ALoad(HT, hb, t, OutL(s), OS("TsWaitLoadOut", WaitOcc(s)))
              ELSE QLoad(hb, t, OutL(s), OS("TsWaitLoadOut", WaitOcc(s)))
  \/ A_TsWaitLoadOut2(t) /\ hb' = QLoad(hb, t, OutL(Fr(t).s), OS("TsWaitLoadOut2", WaitOcc(Fr(t).s)))
  \/ A_TsTryLoadOutTok(t) /\ hb' = ALoad(HT, hb, t, OutL(Fr(t).s), OS("TsTryLoadOutTok", 1))
  \/ A_TsTryLoadOut(t) /\ hb' = ALoad(HT, hb, t, OutL(Fr(t).s), OS("TsTryLoadOut", WaitOcc(Fr(t).s)))
  \/ A_TsTryLoadFinal(t) /\ hb' = ALoad(HT, hb, t, OutL(Fr(t).s), OS("TsTryLoadFinal", WaitOcc(Fr(t).s)))
  \/ A_TsCancelStore(t) /\ hb' = AStore(HT, hb, t, CancL(Fr(t).x), OS("TsCancelStore", 1))
  \/ A_TsKidsLock(t) /\ hb' = KidsLockHB(t)
  \/ A_TsCtorLoadPCancel(t) /\ hb' = ALoad(HT, hb, t, CancL(S.par[Fr(t).s]), CanceledOrd)
  \/ A_TsCtorStoreCancel(t) /\ hb' = AStore(HT, hb, t, CancL(Fr(t).s), OS("TsCtorStoreCancel", 1))
  \/ A_TsSchedLoadCancel(t) /\ hb' = ALoad(HT, hb, t, CancL(Fr(t).s), CanceledOrd)
  \/ A_TsSchedLoadOut(t) /\ hb' = BodyW(ALoad(HT, hb, t, OutL(Fr(t).s), OS("TsSchedLoadOut", 1)), t)
  \* one if-condition: the counter load, then canceled(); the body may run on the caller
  \/ A_TsCtsLoadOut(t) /\ hb' = BodyW(ALoad(HT, ALoad(HT, hb, t, OutL(Fr(t).s), OS("TsCtsLoadOut", 1)), t, CancL(Fr(t).s), CanceledOrd), t)
  \/ A_TsPlLoadThreads(t) /\ hb' = hb
  \/ A_TsPlLoadOut(t) /\ hb' = BodyW(ALoad(HT, ALoad(HT, hb, t, OutL(Fr(t).s), OS("TsPlLoadOut", 1)), t, CancL(Fr(t).s), CanceledOrd), t)
  \/ A_TsCtsLoadWork(t) /\ hb' = ALoad(HT, hb, t, PoolL, OS("TsCtsLoadWork", CtsOcc(Fr(t).s)))
  \/ A_TsCtsLoadThreads(t) /\ hb' = hb
  \/ A_TsCtsLoadLf(t) /\ hb' = BodyW(ALoad(HT, hb, t, PoolL, OS("TsCtsLoadLf", CtsOcc(Fr(t).s))), t)
  \/ A_TsCtsLoadCancel2(t) /\ hb' = BodyW(ALoad(HT, hb, t, CancL(Fr(t).s), CanceledOrd), t)
  \/ A_TsBulkLoadThreads(t) /\ hb' = hb
  \/ A_TsBulkLoadRings(t) /\ hb' = ALoad(HT, hb, t, PoolL, OS("TsBulkLoadRings", 1))
  \/ A_TsBulkLoadCancel(t) /\ hb' = ALoad(HT, hb, t, CancL(Fr(t).s), CanceledOrd)
  \/ A_TsBulkLoadOut(t) /\ hb' = ALoad(HT, hb, t, OutL(Fr(t).s), OS("TsBulkLoadOut", Bulk2(Fr(t))))
  \/ A_TsBulkLoadWork(t) /\ hb' = BodyW(ALoad(HT, hb, t, PoolL, OS("TsBulkLoadWork", Bulk2(Fr(t)))), t)
  \/ A_TsBulkLoadLf(t) /\ hb' = BodyW(ALoad(HT, hb, t, PoolL, OS("TsBulkLoadLf", 1)), t)
  \/ A_TsBulkIncN(t) /\ hb' = ARmw(HT, hb, t, OutL(Fr(t).s), OS("TsBulkIncN", IncNOcc(Fr(t))))
  \* abstract pool: no atomic of this component
  \/ A_TpInlineCheck(t) /\ hb' = hb
  \/ A_TpFqLoadThreads(t) /\ hb' = hb
  \/ A_PoRet(t) /\ hb' = hb
  \/ A_PoHandOver(t) /\ hb' = hb

HNext == \E t \in Threads : HStep(t)

\* ---- properties
RaceFree == NoRace(hb)
\* the same, per kind of location (to name what raced in the mutation runs)
RaceFreeTask == \A k \in Tasks : TaskL(k) \notin hb.race
RaceFreeExc == \A s \in Sets : ExcL(s) \notin hb.race
RaceFreeKids == \A s \in Sets : KidsL(s) \notin hb.race
\* the exception slot of a set is used at most once (canceled_ is sticky): no write after a move-out
SlotOneShot == \A s \in Sets : Cardinality({k \in G.captured : G.set[k] = s}) <= 1
=============================================================================
