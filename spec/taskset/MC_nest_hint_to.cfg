\* explicit queue hint, waiters ignore it (the code), time-outs present: no starved state
CONSTANTS
  SS = 2
  MaxW = 3
  Progs <- HProgs
  Configs <- CfgHint
  WaitGate = FALSE
  Timeouts = TRUE
SPECIFICATION HSpec
CHECK_DEADLOCK FALSE
INVARIANTS TypeOK HTypeOK AtMostOnce BarrierOK SleepersIdle NoHStarvation
