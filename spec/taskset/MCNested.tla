------------------------------ MODULE MCNested ------------------------------
(* Model-checking instances of Nested.tla: the program library of C06.  The same programs      *)
(* (same numbering) are run on the real pool by harness/drv/drv_nested.cpp (checks/C06.py      *)
(* generates both from one description, see PROGRAMS there; the ones below are the fixed       *)
(* E1 library).                                                                                 *)
EXTENDS Nested


O(o, a) == [op |-> o, a |-> a, ks |-> <<>>]
OK(o, a, ks) == [op |-> o, a |-> a, ks |-> ks]
T(s, body) == [set |-> s, body |-> body]

(* 1: cross wait - S placed into set 1 by main, X (set 2, lightweight) waits on set 1            *)
P1 == [sets |-> <<"heavy", "light">>,
       tasks |-> <<T(1, <<>>), T(2, <<O("wait", 1)>>)>>,
       main |-> <<O("sched", 1), O("sched", 2), O("wait", 2), O("wait", 1)>>]
(* 2: fork-join nesting, heavy everywhere: X1 and X2 each schedule a child into an own set and wait *)
P2 == [sets |-> <<"heavy", "heavy", "heavy">>,
       tasks |-> <<T(1, <<O("sched", 3), O("wait", 2)>>), T(1, <<O("sched", 4), O("wait", 3)>>),
                   T(2, <<>>), T(3, <<>>)>>,
       main |-> <<O("sched", 1), O("sched", 2), O("wait", 1)>>]
(* 3: futures - a placed future gotten from a task and from main; a future whose body waits      *)
P3 == [sets |-> <<"light", "heavy">>,
       tasks |-> <<T(0, <<>>), T(1, <<O("get", 1)>>), T(0, <<O("sched", 4), O("wait", 2)>>), T(2, <<>>)>>,
       main |-> <<O("async", 1), O("sched", 2), O("async", 3), O("wait", 1), O("get", 3), O("get", 1)>>]
(* 4: bulk (parallel_for path) into a TaskSet from main, an item nests a heavy set; then a waiting loop *)
P4 == [sets |-> <<"ts", "heavy", "light">>,
       tasks |-> <<T(1, <<O("sched", 3), O("wait", 2)>>), T(1, <<>>), T(2, <<>>), T(3, <<>>), T(3, <<>>)>>,
       main |-> <<OK("bulk", 1, <<1, 2>>), O("wait", 1), OK("pfor", 3, <<4, 5>>)>>]
(* 5: cross wait through a chain: S heavy; X waits on S's set from inside a nested wait           *)
P5 == [sets |-> <<"heavy", "light", "heavy">>,
       tasks |-> <<T(1, <<>>), T(2, <<O("sched", 3), O("wait", 3)>>), T(3, <<O("wait", 1)>>)>>,
       main |-> <<O("sched", 1), O("sched", 2), O("wait", 2), O("wait", 1)>>]
(* 6: two placed tasks, two cross waiters *)
P6 == [sets |-> <<"heavy", "heavy", "light">>,
       tasks |-> <<T(1, <<>>), T(2, <<>>), T(3, <<O("wait", 1)>>), T(3, <<O("wait", 2)>>)>>,
       main |-> <<O("sched", 1), O("sched", 2), O("sched", 3), O("sched", 4), O("wait", 3), O("wait", 1), O("wait", 2)>>]

(* 7: STACK INVERSION through a future: the future's body waits (and may steal the task that   *)
(*    gets the future); 8: the same through a task set: X waits on the set of Y, Y itself waits *)
P7 == [sets |-> <<"light", "light">>,
       tasks |-> <<T(0, <<O("sched", 3), O("wait", 2)>>), T(1, <<O("get", 1)>>), T(2, <<>>)>>,
       main |-> <<O("async", 1), O("sched", 2), O("wait", 1), O("get", 1)>>]
P8 == [sets |-> <<"light", "light", "light">>,
       tasks |-> <<T(1, <<O("sched", 3), O("wait", 3)>>), T(2, <<O("wait", 1)>>), T(3, <<>>)>>,
       main |-> <<O("sched", 1), O("sched", 2), O("wait", 2), O("wait", 1)>>]
MCProgs == <<P1, P2, P3, P4, P5, P6, P7, P8>>
C(p, nw, wps, inl) == [nw |-> nw, p |-> p, wps |-> wps, inl |-> inl]

(* the original waiters: the cross-wait programs starve, the pure fork-join / future ones do not *)
CfgNoFixCross == {C(1, 1, FALSE, FALSE)}
CfgNoFixAll == {C(p, nw, FALSE, FALSE) : p \in {1, 5, 6}, nw \in 1 .. 2}
CfgNoFixForkJoin == {C(p, nw, FALSE, inl) : p \in {2, 3, 4}, nw \in 0 .. 2, inl \in BOOLEAN}
(* the repaired waiters: every program, every pool size *)
CfgCover == {C(1, 1, TRUE, FALSE)}
CfgQuick == {C(p, 1, TRUE, FALSE) : p \in 1 .. 6} \cup {C(p, 2, TRUE, FALSE) : p \in {1, 5}}
            \cup {C(p, 0, TRUE, FALSE) : p \in {1, 3, 4}} \cup {C(p, 1, TRUE, TRUE) : p \in {2, 4}}
(* known finding: a waiter steals a task that blocks on work suspended beneath it on the same stack *)
CfgInversion == {C(p, nw, TRUE, FALSE) : p \in {7, 8}, nw \in 1 .. 2}
CfgThorough == {C(p, nw, TRUE, inl) : p \in 1 .. 6, nw \in 0 .. 3, inl \in BOOLEAN}
=============================================================================
