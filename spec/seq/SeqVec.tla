------------------------------- MODULE SeqVec -------------------------------
(* Sequential specification of dispenso::ConcurrentVector<T, Traits>              *)
(* (dispenso/concurrent_vector.h) used from ONE thread: it must behave like       *)
(* std::vector<T> (property C32).                                                  *)
(*                                                                                 *)
(* Abstract state: two vector objects                                              *)
(*   a   the vector under test      (ea = it exists)                               *)
(*   b   an auxiliary vector of the same type (eb = it exists), the partner of     *)
(*       copy / move construction and assignment, swap and the comparisons         *)
(* whose value is the std::vector value: the sequence of element ids.  Ids are     *)
(* positive; DefaultId is the id of a value-initialised element; 0 (a moved-from  *)
(* or absent element) never occurs in a vector.                                    *)
(* ret is what the last operation returned to the caller: iterators are reported   *)
(* as their distance from begin(), observers as the list of ids / flags they saw.  *)
(*                                                                                 *)
(* Lifetime: the set of live element objects is a function of the state - exactly  *)
(* Len(a) objects live in a's storage and Len(b) in b's, nothing else once an      *)
(* operation has returned (LiveCount).  The trace specification compares that with *)
(* the address-keyed registry of the tracked element type, with the balance        *)
(* constructions - destructions, and requires zero lifetime errors (construction   *)
(* over a live object, destruction/assignment of a dead one) after EVERY step.     *)
(*                                                                                 *)
(* One action per public operation.  Every action takes ONE tuple p of integers    *)
(* (the call's arguments; new element ids are passed explicitly) so that the TLC   *)
(* edge label  InsertCopy(<<2, 7>>)  is a complete, replayable call.  Positions     *)
(* are 0-based distances from begin().  The guards are the documented              *)
(* preconditions (rule R1).                                                        *)
(* Moved-from vectors (rule R6): the harness calls clear() on a vector right after *)
(* it has been moved from, as part of the same step; its state is then <<>>.       *)
EXTENDS Integers, Sequences, FiniteSets, TLC

\* model checking only (the trace specification sets 0 / 0):
CONSTANTS MaxOps,    \* bound on the number of calls (0 = unbounded)
          MaxSize    \* bound on the length of a and b (0 = unbounded)

VARIABLES ea, a, eb, b, ret, k

vars == <<ea, a, eb, b, ret, k>>

DefaultId == 99

Init ==
  /\ ea = FALSE /\ a = <<>>
  /\ eb = FALSE /\ b = <<>>
  /\ ret = <<>>
  /\ k = 0

\* ------------------------------------------------------------------ helpers
Rep(n, v) == [i \in 1 .. n |-> v]
Iota(n, v) == [i \in 1 .. n |-> v + i - 1]
Rev(s) == [i \in 1 .. Len(s) |-> s[Len(s) + 1 - i]]
Take(s, n) == SubSeq(s, 1, n)
\* insert the sequence t before 0-based position pos
InsertAt(s, pos, t) == SubSeq(s, 1, pos) \o t \o SubSeq(s, pos + 1, Len(s))
\* erase the 0-based half-open range [f, l)
EraseAt(s, f, l) == SubSeq(s, 1, f) \o SubSeq(s, l + 1, Len(s))
Min2(x, y) == IF x < y THEN x ELSE y
B2I(x) == IF x THEN 1 ELSE 0
\* std::lexicographical_compare
LexLess(s, t) ==
  \E i \in 1 .. (Min2(Len(s), Len(t)) + 1) :
     /\ \A j \in 1 .. (i - 1) : s[j] = t[j]
     /\ \/ (i <= Len(s) /\ i <= Len(t) /\ s[i] < t[i])
        \/ (i = Len(s) + 1 /\ i <= Len(t))
\* concatenation of f(1) \o f(2) \o ... \o f(n), every f(i) of length w
Flat(n, w, f(_)) == [x \in 1 .. (n * w) |-> f(((x - 1) \div w) + 1)[((x - 1) % w) + 1]]

IsIds(s) == \A i \in 1 .. Len(s) : s[i] \in Nat \ {0}
IsArgs(p, n) == Len(p) = n /\ \A i \in 1 .. n : p[i] \in Nat
Tick == (MaxOps = 0 \/ k < MaxOps) /\ k' = k + 1
Fits(s) == MaxSize = 0 \/ Len(s) <= MaxSize
IdsOf(s) == {s[i] : i \in 1 .. Len(s)}
MaxOf(S) == CHOOSE x \in S : \A y \in S : y <= x
Fresh == 1 + MaxOf(((IdsOf(a) \cup IdsOf(b)) \ {DefaultId}) \cup {0})
\* an element id argument: 0 stands for the canonical fresh id (1 + the largest id present); the
\* model-checking configurations only use 0, so that the state graph is small and a misplaced
\* element is always visible; the driver resolves 0 the same way from its std::vector mirror
Id(v) == IF v = 0 THEN Fresh ELSE v

\* a: new value a2, returned r; b unchanged
SetA(a2, r) ==
  /\ ea /\ Fits(a2) /\ a' = a2 /\ ret' = r /\ Tick
  /\ UNCHANGED <<ea, eb, b>>
\* observers
Obs(r) == SetA(a, r)
SetAB(a2, b2, r) ==
  /\ ea /\ eb /\ a' = a2 /\ b' = b2 /\ ret' = r /\ Tick
  /\ UNCHANGED <<ea, eb>>
NewA(a2) ==
  /\ ~ea /\ Fits(a2) /\ ea' = TRUE /\ a' = a2 /\ ret' = <<>> /\ Tick
  /\ UNCHANGED <<eb, b>>

\* ------------------------------------------------------------------ constructors of a
CtorDefault(p) == IsArgs(p, 0) /\ NewA(<<>>)                        \* ConcurrentVector()
CtorReserve(p) == IsArgs(p, 1) /\ NewA(<<>>)                        \* (n, ReserveTag)
CtorCount(p) == IsArgs(p, 1) /\ NewA(Rep(p[1], DefaultId))          \* (n)
CtorCountValue(p) == IsArgs(p, 2) /\ NewA(Rep(p[1], Id(p[2])))   \* (n, value)
CtorRange(p) == IsArgs(p, 2) /\ NewA(Iota(p[1], Id(p[2])))       \* (first, last)
CtorSizedRange(p) == IsArgs(p, 2) /\ NewA(Iota(p[1], Id(p[2])))  \* (n, first, last)
CtorIlist(p) == IsArgs(p, 2) /\ NewA(Iota(p[1], Id(p[2])))       \* {...}

\* ------------------------------------------------------------------ the partner vector b
CtorB(p) ==                                                         \* b(first, last)
  /\ IsArgs(p, 2) /\ ~eb
  /\ eb' = TRUE /\ b' = Iota(p[1], Id(p[2])) /\ ret' = <<>> /\ Tick
  /\ UNCHANGED <<ea, a>>
CopyCtorB(p) ==                                                     \* b(a)
  /\ IsArgs(p, 0) /\ ea /\ ~eb
  /\ eb' = TRUE /\ b' = a /\ ret' = <<>> /\ Tick
  /\ UNCHANGED <<ea, a>>
MoveCtorB(p) ==                                                     \* b(std::move(a)); a.clear()
  /\ IsArgs(p, 0) /\ ea /\ ~eb
  /\ eb' = TRUE /\ b' = a /\ a' = <<>> /\ ret' = <<>> /\ Tick
  /\ UNCHANGED ea
DestroyB(p) ==                                                      \* b.~ConcurrentVector()
  /\ IsArgs(p, 0) /\ eb
  /\ eb' = FALSE /\ b' = <<>> /\ ret' = <<>> /\ Tick
  /\ UNCHANGED <<ea, a>>

\* ------------------------------------------------------------------ assignment
AssignCount(p) == IsArgs(p, 2) /\ SetA(Rep(p[1], Id(p[2])), <<>>)    \* assign(n, value)
AssignRange(p) == IsArgs(p, 2) /\ SetA(Iota(p[1], Id(p[2])), <<>>)   \* assign(first, last)
CopyAssign(p) == IsArgs(p, 0) /\ SetAB(b, b, <<>>)                  \* a = b
CopyAssignSelf(p) == IsArgs(p, 0) /\ SetA(a, <<>>)                  \* a = a
MoveAssign(p) == IsArgs(p, 0) /\ SetAB(b, <<>>, <<>>)               \* a = std::move(b); b.clear()
CopyAssignToB(p) == IsArgs(p, 0) /\ SetAB(a, a, <<>>)               \* b = a
MoveAssignToB(p) == IsArgs(p, 0) /\ SetAB(<<>>, a, <<>>)            \* b = std::move(a); a.clear()
SwapMember(p) == IsArgs(p, 0) /\ SetAB(b, a, <<>>)                  \* a.swap(b)
SwapFree(p) == IsArgs(p, 0) /\ SetAB(b, a, <<>>)                    \* swap(a, b)

\* ------------------------------------------------------------------ growth at the end
\* all return the iterator to the first appended element
PushBackCopy(p) == IsArgs(p, 1) /\ SetA(Append(a, Id(p[1])), <<Len(a)>>)
PushBackMove(p) == IsArgs(p, 1) /\ SetA(Append(a, Id(p[1])), <<Len(a)>>)
EmplaceBack(p) == IsArgs(p, 1) /\ SetA(Append(a, Id(p[1])), <<Len(a)>>)
GrowByDefault(p) == IsArgs(p, 1) /\ SetA(a \o Rep(p[1], DefaultId), <<Len(a)>>)       \* grow_by(n)
GrowByValue(p) == IsArgs(p, 2) /\ SetA(a \o Rep(p[1], Id(p[2])), <<Len(a)>>)  \* grow_by(n, v)
GrowByRange(p) == IsArgs(p, 2) /\ SetA(a \o Iota(p[1], Id(p[2])), <<Len(a)>>) \* grow_by(f, l)
GrowByIlist(p) == IsArgs(p, 2) /\ SetA(a \o Iota(p[1], Id(p[2])), <<Len(a)>>) \* grow_by({..})
GrowByGen(p) == IsArgs(p, 2) /\ SetA(a \o Iota(p[1], Id(p[2])), <<Len(a)>>)   \* grow_by_generator
\* grow_to_at_least(n [, v]), n >= 1: appends if shorter (returns the start of the appended range),
\* otherwise returns the iterator to element n - 1
GrowToAtLeast(p) ==
  /\ IsArgs(p, 1) /\ p[1] >= 1
  /\ (IF Len(a) < p[1] THEN SetA(a \o Rep(p[1] - Len(a), DefaultId), <<Len(a)>>)
                       ELSE SetA(a, <<p[1] - 1>>))
GrowToAtLeastValue(p) ==
  /\ IsArgs(p, 2) /\ p[1] >= 1
  /\ (IF Len(a) < p[1] THEN SetA(a \o Rep(p[1] - Len(a), Id(p[2])), <<Len(a)>>)
                       ELSE SetA(a, <<p[1] - 1>>))

\* ------------------------------------------------------------------ insert: returns the position
InsertCopy(p) ==                                                    \* insert(pos, const T&)
  IsArgs(p, 2) /\ p[1] <= Len(a) /\ SetA(InsertAt(a, p[1], <<Id(p[2])>>), <<p[1]>>)
InsertMove(p) ==                                                    \* insert(pos, T&&)
  IsArgs(p, 2) /\ p[1] <= Len(a) /\ SetA(InsertAt(a, p[1], <<Id(p[2])>>), <<p[1]>>)
InsertCount(p) ==                                                   \* insert(pos, n, value)
  IsArgs(p, 3) /\ p[1] <= Len(a) /\ SetA(InsertAt(a, p[1], Rep(p[2], Id(p[3]))), <<p[1]>>)
InsertRange(p) ==                                                   \* insert(pos, first, last)
  IsArgs(p, 3) /\ p[1] <= Len(a) /\ SetA(InsertAt(a, p[1], Iota(p[2], Id(p[3]))), <<p[1]>>)
InsertIlist(p) ==                                                   \* insert(pos, {...})
  IsArgs(p, 3) /\ p[1] <= Len(a) /\ SetA(InsertAt(a, p[1], Iota(p[2], Id(p[3]))), <<p[1]>>)

\* ------------------------------------------------------------------ erase: returns the iterator
\* following the last removed element, i.e. the position of the first removed one
EraseOne(p) == IsArgs(p, 1) /\ p[1] < Len(a) /\ SetA(EraseAt(a, p[1], p[1] + 1), <<p[1]>>)
\* erase(end()): tolerated by ConcurrentVector (its own unit test does it): no effect, returns end()
EraseEnd(p) == IsArgs(p, 0) /\ SetA(a, <<Len(a)>>)
EraseRange(p) ==
  IsArgs(p, 2) /\ p[1] <= p[2] /\ p[2] <= Len(a) /\ SetA(EraseAt(a, p[1], p[2]), <<p[1]>>)

\* ------------------------------------------------------------------ size changes
Resize(p) ==                                                        \* resize(n)
  /\ IsArgs(p, 1)
  /\ SetA(IF p[1] <= Len(a) THEN Take(a, p[1]) ELSE a \o Rep(p[1] - Len(a), DefaultId), <<>>)
ResizeValue(p) ==                                                   \* resize(n, v)
  /\ IsArgs(p, 2)
  /\ SetA(IF p[1] <= Len(a) THEN Take(a, p[1]) ELSE a \o Rep(p[1] - Len(a), Id(p[2])), <<>>)
Reserve(p) == IsArgs(p, 1) /\ SetA(a, <<>>)          \* capacity() >= n is checked by the trace spec
PopBack(p) == IsArgs(p, 0) /\ Len(a) > 0 /\ SetA(Take(a, Len(a) - 1), <<>>)
Clear(p) == IsArgs(p, 0) /\ SetA(<<>>, <<>>)
ShrinkToFit(p) == IsArgs(p, 0) /\ SetA(a, <<>>)

\* ------------------------------------------------------------------ observers
\* for (it = begin(); it != end(); ++it), then range-for
IterFwd(p) == IsArgs(p, 0) /\ Obs(a \o a)
\* const&: cbegin() .. cend() with it++, then begin() .. end() of the const object
IterConst(p) == IsArgs(p, 0) /\ Obs(a \o a)
\* rbegin() .. rend(), then it = end(); while (it != begin()) --it
IterRev(p) == IsArgs(p, 0) /\ Obs(Rev(a) \o Rev(a))
\* const rbegin() .. rend(), then it = cend(); while (it != cbegin()) it--
IterConstRev(p) == IsArgs(p, 0) /\ Obs(Rev(a) \o Rev(a))
Index(p) == IsArgs(p, 0) /\ Obs(a \o a)          \* v[i] for all i, then const v[i]
\* at(i) for all i, then whether at(size()) threw, then the same for the const overload
At(p) == IsArgs(p, 0) /\ Obs(a \o <<1>> \o a \o <<1>>)
\* front(), back(), const front(), const back()
FrontBack(p) == IsArgs(p, 0) /\ Len(a) > 0 /\ Obs(<<a[1], a[Len(a)], a[1], a[Len(a)]>>)
\* size(), empty()
SizeInfo(p) == IsArgs(p, 0) /\ Obs(<<Len(a), B2I(Len(a) = 0)>>)
\* a == b, !=, <, <=, >, >=
Compare(p) ==
  /\ IsArgs(p, 0) /\ eb
  /\ Obs(<<B2I(a = b), B2I(a # b), B2I(LexLess(a, b)), B2I(~LexLess(b, a)),
           B2I(LexLess(b, a)), B2I(~LexLess(a, b))>>)
\* random access arithmetic from it = begin() + i towards every j in 0 .. size():
\*   it2 = it + (j - i):  it2 - begin(), it2 - it, it - it2, it < it2, <=, >, >=, ==, !=,
\*   *it2 and it[j - i] (or 0 when j = size()), (it += j - i) - begin(), (it2 -= j - i) - begin()
ArithRow(i, j) ==
  LET v == IF j < Len(a) THEN a[j + 1] ELSE 0
  IN <<j, j - i, i - j, B2I(i < j), B2I(i <= j), B2I(i > j), B2I(i >= j), B2I(i = j), B2I(i # j),
       v, v, j, i>>
IterArith(p) ==
  /\ IsArgs(p, 1) /\ p[1] <= Len(a)
  /\ Obs(Flat(Len(a) + 1, 13, LAMBDA x : ArithRow(p[1], x - 1)))

\* ------------------------------------------------------------------ properties of the model
LiveCount == (IF ea THEN Len(a) ELSE 0) + (IF eb THEN Len(b) ELSE 0)

TypeOK ==
  /\ ea \in BOOLEAN /\ eb \in BOOLEAN
  /\ IsIds(a) /\ IsIds(b)
  /\ (~ea => a = <<>>) /\ (~eb => b = <<>>)
  /\ k \in Nat
RetShape == \A i \in 1 .. Len(ret) : ret[i] \in Int
==========================================================================
