------------------------------- MODULE OnceFn -------------------------------
(* Specification of dispenso::OnceFunction (dispenso/once_function.h,                 *)
(* dispenso/detail/once_callable_impl.h) - a sequential component: the linearisation    *)
(* point of every operation is its return, there are no schedule points.               *)
(*                                                                                      *)
(* A OnceFunction object ("register") is  empty    default constructed                  *)
(*                                        armed    owns callable c (stored inline in its *)
(*                                                 64-byte-aligned 56-byte buffer, or   *)
(*                                                 spilled to a block of size class     *)
(*                                                 cls of the small buffer allocator /  *)
(*                                                 alignedMalloc when cls > 256)        *)
(*                                        consumed operator() or cleanupNotRun() done   *)
(*                                        moved    moved from (obligations transferred) *)
(* Operations: Create (construct from a callable of a given sizeof/alignof), Move      *)
(* (move construction / move assignment into a register that owns nothing), Call       *)
(* (operator()), Cleanup (cleanupNotRun()).  Only documented uses are modelled: Call   *)
(* and Cleanup require an armed register, Create/Move need a target that owns nothing. *)
EXTENDS Integers, Sequences, FiniteSets, TLC

CONSTANTS Regs,        \* set of register names (strings)
          Kinds,       \* set of [size |-> sizeof(F), align |-> alignof(F)] the model may create
          MaxCreates   \* bound on the number of callables created

VARIABLES
  regs,     \* configuration (variable so that a trace can re-initialise it)
  reg,      \* reg[f] = [st |-> "empty"|"armed"|"consumed"|"moved", c |-> callable id or 0]
  cal,      \* cal[c] = [size, align, kind, cls, invoked, destroyed, live]   (c = 1 .. Len(cal))
  called,   \* ghost: ids of the callables whose owner was invoked with operator()
  out,      \* out[k], k = 1..7: blocks of small-buffer size class 2^(k+1) (4..256) taken and not returned
  large     \* blocks taken from alignedMalloc (class > 256) and not freed

vars == <<regs, reg, cal, called, out, large>>

\* ------------------------------------------------------------------ storage selection
InlineSize == 56          \* kOnceFunctionInlineSize
BufAlign == 64            \* alignas(64) buf_
MaxSmall == 256           \* kMaxSmallBufferSize
Pow2s == {1, 2, 4, 8, 16, 32, 64, 128, 256, 512, 1024}
Max(a, b) == IF a > b THEN a ELSE b
NextPow2(n) == CHOOSE p \in Pow2s : p >= n /\ \A q \in Pow2s : q >= n => p <= q

KindOf(size, align) == IF size <= InlineSize /\ align <= BufAlign THEN "inline" ELSE "spill"
ClassOf(size, align) == IF KindOf(size, align) = "inline" THEN 0 ELSE NextPow2(Max(size, align))
\* ordinal of a small-buffer class (4 -> 1, 8 -> 2, ..., 256 -> 7); requests below 4 use class 4
OrdOf(cls) == CHOOSE k \in 1 .. 7 : 2 ^ (k + 1) = Max(cls, 4)
\* the alignment the storage is guaranteed to have: the register's buffer, or a block of the class
\* (small-buffer blocks of size N are N-aligned (C41); alignedMalloc(cls, cls) is cls-aligned)
StorageAlign(size, align) == IF KindOf(size, align) = "inline" THEN BufAlign ELSE ClassOf(size, align)

NewCallable(k) ==
  [size |-> k.size, align |-> k.align, kind |-> KindOf(k.size, k.align), cls |-> ClassOf(k.size, k.align),
   invoked |-> 0, destroyed |-> 0, live |-> 1]

InitWith(rs) ==
  /\ regs = rs
  /\ reg = [f \in rs |-> [st |-> "empty", c |-> 0]]
  /\ cal = <<>>
  /\ called = {}
  /\ out = [k \in 1 .. 7 |-> 0]
  /\ large = 0

Init == InitWith(Regs)

Owns(f) == reg[f].st = "armed"

Take(cls) ==
  IF cls = 0 THEN UNCHANGED <<out, large>>
  ELSE IF cls > MaxSmall THEN large' = large + 1 /\ UNCHANGED out
  ELSE out' = [out EXCEPT ![OrdOf(cls)] = @ + 1] /\ UNCHANGED large
Give(cls) ==
  IF cls = 0 THEN UNCHANGED <<out, large>>
  ELSE IF cls > MaxSmall THEN large' = large - 1 /\ UNCHANGED out
  ELSE out' = [out EXCEPT ![OrdOf(cls)] = @ - 1] /\ UNCHANGED large

\* OnceFunction(F&& f) into a register that owns nothing
Create(f, k) ==
  /\ ~Owns(f)
  /\ Len(cal) < MaxCreates
  /\ cal' = Append(cal, NewCallable(k))
  /\ reg' = [reg EXCEPT ![f] = [st |-> "armed", c |-> Len(cal) + 1]]
  /\ Take(ClassOf(k.size, k.align))
  /\ UNCHANGED <<regs, called>>

\* g = std::move(f)  /  new (&g) OnceFunction(std::move(f)): a 64-byte memcpy, nothing is constructed,
\* destroyed, allocated or released
Move(f, g) ==
  /\ g \in regs
  /\ f # g
  /\ Owns(f) /\ ~Owns(g)
  /\ reg' = [reg EXCEPT ![g] = reg[f], ![f] = [st |-> "moved", c |-> 0]]
  /\ UNCHANGED <<regs, cal, called, out, large>>

\* f(): invoke, destroy, release the storage
Call(f) ==
  /\ Owns(f)
  /\ LET c == reg[f].c IN
       /\ cal' = [cal EXCEPT ![c].invoked = @ + 1, ![c].destroyed = @ + 1, ![c].live = @ - 1]
       /\ called' = called \cup {c}
       /\ Give(cal[c].cls)
  /\ reg' = [reg EXCEPT ![f] = [st |-> "consumed", c |-> 0]]
  /\ UNCHANGED regs

\* f.cleanupNotRun(): destroy without invoking, release the storage
Cleanup(f) ==
  /\ Owns(f)
  /\ LET c == reg[f].c IN
       /\ cal' = [cal EXCEPT ![c].destroyed = @ + 1, ![c].live = @ - 1]
       /\ Give(cal[c].cls)
  /\ reg' = [reg EXCEPT ![f] = [st |-> "consumed", c |-> 0]]
  /\ UNCHANGED <<regs, called>>

Next ==
  \E f \in Regs :
     \/ \E k \in Kinds : Create(f, k)
     \/ \E g \in Regs : Move(f, g)
     \/ Call(f)
     \/ Cleanup(f)

Spec == Init /\ [][Next]_vars

\* ============================================================================ properties
Ids == 1 .. Len(cal)
Holders(c) == {f \in regs : reg[f].st = "armed" /\ reg[f].c = c}

\* (C39) invoked exactly when called, and at most once
InvokedWhenCalled == \A c \in Ids : cal[c].invoked = (IF c \in called THEN 1 ELSE 0)
\* (C39) destroyed exactly once - on the call or on cleanupNotRun - and not before: a callable is
\* either owned by exactly one register and alive, or owned by none and destroyed exactly once
DestroyedOnce ==
  \A c \in Ids : \/ Cardinality(Holders(c)) = 1 /\ cal[c].destroyed = 0 /\ cal[c].live = 1
                 \/ Cardinality(Holders(c)) = 0 /\ cal[c].destroyed = 1 /\ cal[c].live = 0
InvokedImpliesDestroyed == \A c \in Ids : cal[c].invoked = 1 => cal[c].destroyed = 1
\* (C39) the storage satisfies the callable's alignment
AlignOK == \A c \in Ids : StorageAlign(cal[c].size, cal[c].align) % cal[c].align = 0
\* (C39) the storage is large enough
SizeOK == \A c \in Ids : cal[c].size <= (IF cal[c].kind = "inline" THEN InlineSize ELSE cal[c].cls)
\* (C39) spilled storage goes back to the size class it came from: what is outstanding per class is
\* exactly what the armed registers hold
BlocksReturned ==
  /\ \A k \in 1 .. 7 :
        out[k] = Cardinality({c \in Ids : Holders(c) # {} /\ cal[c].cls # 0 /\ cal[c].cls <= MaxSmall
                                          /\ OrdOf(cal[c].cls) = k})
  /\ large = Cardinality({c \in Ids : Holders(c) # {} /\ cal[c].cls > MaxSmall})
\* moved-from / consumed / empty registers own nothing
RegsOK == \A f \in regs : (reg[f].st = "armed") = (reg[f].c # 0)

TypeOK ==
  /\ \A f \in regs : reg[f].st \in {"empty", "armed", "consumed", "moved"} /\ reg[f].c \in 0 .. Len(cal)
  /\ \A k \in 1 .. 7 : out[k] \in Nat
  /\ large \in Nat
==========================================================================
