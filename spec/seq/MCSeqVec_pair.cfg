CONSTANTS
  MaxOps = 4
  MaxInit = 5
  MaxSize = 8
INIT Init
NEXT MCNextPair
CHECK_DEADLOCK FALSE
INVARIANTS TypeOK RetShape SizeBound LiveBound IdsBelowDefault
