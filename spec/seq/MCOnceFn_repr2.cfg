CONSTANTS
  Regs = {"f1", "f2", "f3"}
  Kinds <- Kinds_repr
  MaxCreates = 2
INIT Init
NEXT Next
CHECK_DEADLOCK FALSE
INVARIANTS TypeOK InvokedWhenCalled DestroyedOnce InvokedImpliesDestroyed AlignOK SizeOK BlocksReturned RegsOK
