------------------------------ MODULE MCSeqVec ------------------------------
(* Model-checking configuration of SeqVec.tla: all operation sequences of at most  *)
(* MaxOps calls (the first one a constructor) on vectors of at most MaxSize        *)
(* elements; constructors build sizes 0 .. MaxInit.  New element ids are canonical *)
(* (argument 0 = 1 + the largest id present), so that a misplaced element is always *)
(* visible and the graph stays small.  The quantifier domains are CONSTANT sets    *)
(* (TLC then labels every edge of the dumped graph with the action and its         *)
(* argument tuple); the state-dependent restrictions are the guards of SeqVec.     *)
EXTENDS SeqVec

CONSTANTS MaxInit    \* largest size built by a constructor

P0 == {<<>>}
V == {0}
Pos == 0 .. MaxSize
NV(S) == {<<n, v>> : n \in S, v \in V}
PCV(S) == {<<pos, c, v>> : pos \in Pos, c \in S, v \in V}

MCNext ==
  \/ \E p \in P0 : CtorDefault(p)
  \/ \E p \in {<<0>>, <<3>>, <<MaxInit + 1>>} : CtorReserve(p)
  \/ \E p \in {<<n>> : n \in 0 .. MaxInit} : CtorCount(p)
  \/ \E p \in NV(0 .. MaxInit) : CtorCountValue(p)
  \/ \E p \in NV(0 .. MaxInit) : CtorRange(p)
  \/ \E p \in NV(0 .. MaxInit) : CtorSizedRange(p)
  \/ \E p \in NV(0 .. MaxInit) : CtorIlist(p)
  \/ \E p \in NV({0, 1, 3}) : CtorB(p)
  \/ \E p \in P0 : CopyCtorB(p)
  \/ \E p \in P0 : MoveCtorB(p)
  \/ \E p \in P0 : DestroyB(p)
  \/ \E p \in NV({0, 1, 2, 4, MaxSize}) : AssignCount(p)
  \/ \E p \in NV({0, 1, 2, 4, MaxSize}) : AssignRange(p)
  \/ \E p \in P0 : CopyAssign(p)
  \/ \E p \in P0 : CopyAssignSelf(p)
  \/ \E p \in P0 : MoveAssign(p)
  \/ \E p \in P0 : CopyAssignToB(p)
  \/ \E p \in P0 : MoveAssignToB(p)
  \/ \E p \in P0 : SwapMember(p)
  \/ \E p \in P0 : SwapFree(p)
  \/ \E p \in {<<v>> : v \in V} : PushBackCopy(p)
  \/ \E p \in {<<v>> : v \in V} : PushBackMove(p)
  \/ \E p \in {<<v>> : v \in V} : EmplaceBack(p)
  \/ \E p \in {<<c>> : c \in 0 .. 3} : GrowByDefault(p)
  \/ \E p \in NV(0 .. 3) : GrowByValue(p)
  \/ \E p \in NV(0 .. 3) : GrowByRange(p)
  \/ \E p \in NV(0 .. 3) : GrowByIlist(p)
  \/ \E p \in NV(0 .. 3) : GrowByGen(p)
  \/ \E p \in {<<n>> : n \in 1 .. MaxSize} : GrowToAtLeast(p)
  \/ \E p \in NV(1 .. MaxSize) : GrowToAtLeastValue(p)
  \/ \E p \in NV(Pos) : InsertCopy(p)
  \/ \E p \in NV(Pos) : InsertMove(p)
  \/ \E p \in PCV(0 .. 2) : InsertCount(p)
  \/ \E p \in PCV(0 .. 3) : InsertRange(p)
  \/ \E p \in PCV(0 .. 2) : InsertIlist(p)
  \/ \E p \in {<<pos>> : pos \in Pos} : EraseOne(p)
  \/ \E p \in P0 : EraseEnd(p)
  \/ \E p \in {<<f, l>> : f \in Pos, l \in Pos} : EraseRange(p)
  \/ \E p \in {<<n>> : n \in Pos} : Resize(p)
  \/ \E p \in NV(Pos) : ResizeValue(p)
  \/ \E p \in {<<0>>, <<2>>, <<MaxSize>>, <<2 * MaxSize + 1>>} : Reserve(p)
  \/ \E p \in P0 : PopBack(p)
  \/ \E p \in P0 : Clear(p)
  \/ \E p \in P0 : ShrinkToFit(p)
  \/ \E p \in P0 : IterFwd(p)
  \/ \E p \in P0 : IterConst(p)
  \/ \E p \in P0 : IterRev(p)
  \/ \E p \in P0 : IterConstRev(p)
  \/ \E p \in P0 : Index(p)
  \/ \E p \in P0 : At(p)
  \/ \E p \in P0 : FrontBack(p)
  \/ \E p \in P0 : SizeInfo(p)
  \/ \E p \in P0 : Compare(p)
  \/ \E p \in {<<i>> : i \in Pos} : IterArith(p)

\* Second cover configuration: the operations that involve the partner vector b need three calls
\* (construct a, construct b, operate) and a fourth one that uses the result; only those are enabled.
MCNextPair ==
  \/ \E p \in NV({0, 5}) : CtorRange(p)
  \/ \E p \in NV({0, 3}) : CtorB(p)
  \/ \E p \in P0 : CopyCtorB(p)
  \/ \E p \in P0 : MoveCtorB(p)
  \/ \E p \in P0 : DestroyB(p)
  \/ \E p \in P0 : CopyAssign(p)
  \/ \E p \in P0 : MoveAssign(p)
  \/ \E p \in P0 : CopyAssignToB(p)
  \/ \E p \in P0 : MoveAssignToB(p)
  \/ \E p \in P0 : SwapMember(p)
  \/ \E p \in P0 : SwapFree(p)
  \/ \E p \in P0 : Compare(p)
  \/ \E p \in {<<v>> : v \in V} : PushBackCopy(p)
  \/ \E p \in NV({3}) : GrowByRange(p)

\* ---------------------------------------------------------------- what TLC checks on the model
SizeBound == Len(a) <= MaxSize /\ Len(b) <= MaxSize
LiveBound == LiveCount <= 2 * MaxSize
\* canonical ids never collide with the default value
IdsBelowDefault == \A x \in IdsOf(a) \cup IdsOf(b) : x = DefaultId \/ x < DefaultId
==========================================================================
