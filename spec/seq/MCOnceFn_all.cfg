CONSTANTS
  Regs = {"f1", "f2"}
  Kinds <- Kinds_all
  MaxCreates = 2
INIT Init
NEXT Next
CHECK_DEADLOCK FALSE
INVARIANTS TypeOK InvokedWhenCalled DestroyedOnce InvokedImpliesDestroyed AlignOK SizeOK BlocksReturned RegsOK
