----------------------------- MODULE MCOnceFn -----------------------------
EXTENDS OnceFn
K(s, a) == [size |-> s, align |-> a]
\* cover configuration (its state graph is replayed on the real OnceFunction): the legal operation
\* sequences do not depend on the callable, one representative kind keeps the graph small; the driver
\* substitutes every real callable type (11 sizes x 9 alignments) for it, the trace carries the real
\* sizeof/alignof and the trace specification evaluates KindOf/ClassOf on them.
Kinds_cover == {K(64, 8)}
\* representatives of every storage decision: inline (small, max inline, over-aligned up to 64),
\* every spill class 64/128/256, beyond the small-buffer classes (alignedMalloc), spill caused by
\* alignment alone
Kinds_repr == {K(1, 1), K(56, 8), K(64, 64), K(57, 1), K(128, 128), K(200, 8), K(304, 16), K(8, 128),
               K(256, 256)}
\* every size x alignment of the property's quantifier (sizeof is a multiple of alignof)
Sizes == {1, 8, 48, 56, 57, 64, 120, 128, 200, 256, 300}
Aligns == {1, 2, 4, 8, 16, 32, 64, 128, 256}
RoundUp(s, a) == ((s + a - 1) \div a) * a
Kinds_all == {K(RoundUp(s, a), a) : s \in Sizes, a \in Aligns}
==========================================================================
