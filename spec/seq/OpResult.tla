------------------------------ MODULE OpResult ------------------------------
(* Sequential specification of dispenso::OpResult<T> (dispenso/detail/op_result.h, *)
(* exported by dispenso/util.h and pipeline.h): an optional over lifetime-tracked  *)
(* values.  Abstract state of every OpResult object o:                              *)
(*   st[o]   "none" (no object constructed in that slot), "ok", or "moved"          *)
(*           (moved-from: valid, but only destroyed, assigned to or emplaced, and   *)
(*           never compared - rule R6; std::optional leaves it engaged, this        *)
(*           implementation disengages it, both are allowed)                        *)
(*   val[o]  0 = disengaged, otherwise the id of the contained value                *)
(* One action per public operation; the single tuple argument c = <<object, args>>  *)
(* makes the TLC edge label a complete, replayable call.  Every action has the      *)
(* std::optional meaning for the DESTINATION.                                       *)
(*                                                                                  *)
(* Lifetimes: exactly one contained object is live inside every engaged "ok"        *)
(* OpResult, none inside a destroyed one, none anywhere else, and none at all once  *)
(* every OpResult is destroyed.  OpResultTrace.tla compares this with the           *)
(* address-keyed registry of the tracked value type after every operation.          *)
EXTENDS Integers, Sequences, FiniteSets, TLC

CONSTANTS Objs

VARIABLES st, val,
          steps     \* operations still allowed (model-checking bound); -1 = unbounded

vars == <<st, val, steps>>

InitWith(budget) ==
  /\ st = [o \in Objs |-> "none"]
  /\ val = [o \in Objs |-> 0]
  /\ steps = budget

Tick == /\ steps # 0
        /\ steps' = (IF steps < 0 THEN steps ELSE steps - 1)

Ok(o) == o \in Objs /\ st[o] = "ok"
Valid(o) == o \in Objs /\ st[o] \in {"ok", "moved"}
Engaged(o) == Ok(o) /\ val[o] # 0
IsVal(v) == v \in Int /\ v > 0

Put(o, v) == /\ st' = [st EXCEPT ![o] = "ok"]
             /\ val' = [val EXCEPT ![o] = v]
PutMove(d, s, v) == /\ st' = [st EXCEPT ![d] = "ok", ![s] = "moved"]
                    /\ val' = [val EXCEPT ![d] = v, ![s] = 0]
Same == UNCHANGED <<st, val>>

\* ------------------------------------------------------------------ construction / destruction
DefaultCtor(c) ==      \* OpResult<T> o;
  /\ Len(c) = 1 /\ c[1] \in Objs /\ st[c[1]] = "none" /\ Put(c[1], 0) /\ Tick
ValueCtorCopy(c) ==    \* OpResult<T> o(x)  with x an lvalue T
  /\ Len(c) = 2 /\ c[1] \in Objs /\ st[c[1]] = "none" /\ IsVal(c[2]) /\ Put(c[1], c[2]) /\ Tick
ValueCtorMove(c) ==    \* OpResult<T> o(T(..))
  /\ Len(c) = 2 /\ c[1] \in Objs /\ st[c[1]] = "none" /\ IsVal(c[2]) /\ Put(c[1], c[2]) /\ Tick
CopyCtor(c) ==         \* OpResult<T> d(s)
  /\ Len(c) = 2 /\ c[1] \in Objs /\ st[c[1]] = "none" /\ Ok(c[2]) /\ Put(c[1], val[c[2]]) /\ Tick
MoveCtor(c) ==         \* OpResult<T> d(std::move(s))
  /\ Len(c) = 2 /\ c[1] \in Objs /\ st[c[1]] = "none" /\ Ok(c[2])
  /\ PutMove(c[1], c[2], val[c[2]]) /\ Tick
Destroy(c) ==          \* ~OpResult()
  /\ Len(c) = 1 /\ Valid(c[1])
  /\ st' = [st EXCEPT ![c[1]] = "none"] /\ val' = [val EXCEPT ![c[1]] = 0] /\ Tick

\* ------------------------------------------------------------------ assignment / emplace
CopyAssign(c) ==       \* d = s   (d = d changes nothing)
  /\ Len(c) = 2 /\ Valid(c[1]) /\ Ok(c[2])
  /\ (IF c[1] = c[2] THEN Same ELSE Put(c[1], val[c[2]])) /\ Tick
MoveAssign(c) ==       \* d = std::move(s)   (d = std::move(d): valid but unspecified)
  /\ Len(c) = 2 /\ Valid(c[1]) /\ Ok(c[2])
  /\ (IF c[1] = c[2]
        THEN st' = [st EXCEPT ![c[1]] = "moved"] /\ val' = [val EXCEPT ![c[1]] = 0]
        ELSE PutMove(c[1], c[2], val[c[2]]))
  /\ Tick
AssignValue(c) ==      \* o = T(v)   (converting constructor + move assignment)
  /\ Len(c) = 2 /\ Valid(c[1]) /\ IsVal(c[2]) /\ Put(c[1], c[2]) /\ Tick
Emplace(c) ==          \* o.emplace(v)
  /\ Len(c) = 2 /\ Valid(c[1]) /\ IsVal(c[2]) /\ Put(c[1], c[2]) /\ Tick
SetValue(c) ==         \* o.value() = T(v): value() is a reference to the contained object
  /\ Len(c) = 2 /\ Engaged(c[1]) /\ IsVal(c[2]) /\ Put(c[1], c[2]) /\ Tick

\* Assignment from a plain value that is NOT a temporary.  std::optional<T>::operator=(U&&):
\* engaged -> assign through (*o = u), disengaged -> construct from u; either way the destination
\* ends up holding a copy of u and u's referent - WHEREVER it lives - is read while it is alive.
AssignValueCopy(c) ==  \* T x(v); o = x;   (lvalue T that lives outside every OpResult)
  /\ Len(c) = 2 /\ Valid(c[1]) /\ IsVal(c[2]) /\ Put(c[1], c[2]) /\ Tick
\* The assigned value is (a reference to) the object contained in an OpResult s, in particular in
\* the destination itself: d = d.value(), best = std::max(best.value(), cand), or any function
\* that returns a reference to its argument.  c = <<d, s, how>>:
\*   how = 1   d = s.value()                      (T&)
\*   how = 2   const T& r = s.value(); d = r      (const T&, what std::max / std::min return)
\*   how = 3   d = std::move(d.value())           (T&&; only d = s: moving out of ANOTHER OpResult's
\*             value leaves that one engaged around a moved-from T, whose value is unspecified - R6)
\* std::optional: s keeps its value, d holds a copy of it; for d = s the contained T is assigned
\* to itself, which keeps its value (how = 3: T's self-move-assignment; the tracked value types
\* keep their value under it, so optional<T> does).  An implementation may go through
\* temporaries, but may not end the lifetime of the contained object before it has read it.
AssignValueOf(c) ==
  /\ Len(c) = 3 /\ Valid(c[1]) /\ Engaged(c[2]) /\ c[3] \in {1, 2, 3}
  /\ (c[3] = 3 => c[1] = c[2])
  /\ Put(c[1], val[c[2]]) /\ Tick

\* ------------------------------------------------------------------ observers
HasValue(c) == Len(c) = 1 /\ Ok(c[1]) /\ Same /\ Tick         \* has_value()
Bool(c)     == Len(c) = 1 /\ Ok(c[1]) /\ Same /\ Tick         \* operator bool
Value(c)    == Len(c) = 1 /\ Engaged(c[1]) /\ Same /\ Tick    \* value()

\* values the call returns (evaluated in the state before the call)
RetOf(e, c) ==
  CASE e \in {"HasValue", "Bool"} -> <<IF val[c[1]] # 0 THEN 1 ELSE 0>>
    [] e = "Value"                -> <<val[c[1]]>>
    [] e = "Emplace"              -> <<c[2], 1>>    \* the returned reference is the contained object
    [] OTHER                      -> <<>>

\* ------------------------------------------------------------------ invariants
TypeOK == \A o \in Objs : st[o] \in {"none", "ok", "moved"} /\ val[o] \in Nat
NoneIsEmpty == \A o \in Objs : st[o] \in {"none", "moved"} => val[o] = 0
LiveIn(sf, vf) == Cardinality({o \in Objs : sf[o] = "ok" /\ vf[o] # 0})
Live == LiveIn(st, val)
LifetimeOK == (\A o \in Objs : st[o] = "none") => Live = 0
=============================================================================
