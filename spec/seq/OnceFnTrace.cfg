CONSTANTS
  Regs = {}
  Kinds = {}
  MaxCreates = 1000
SPECIFICATION TraceSpec
CHECK_DEADLOCK FALSE
POSTCONDITION TraceAccepted
INVARIANTS InvokedWhenCalled DestroyedOnce InvokedImpliesDestroyed AlignOK SizeOK BlocksReturned RegsOK
