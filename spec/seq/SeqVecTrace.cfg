CONSTANTS
  MaxOps = 0
  MaxSize = 0
SPECIFICATION TraceSpec
CHECK_DEADLOCK FALSE
POSTCONDITION TraceAccepted
INVARIANTS TypeOK RetShape
