--------------------------- MODULE OpResultTrace ---------------------------
(* Trace validation for OpResult.tla.  Every line of the ndjson trace recorded    *)
(* from the real dispenso::OpResult<T> is one public operation                    *)
(*   {"e":<action>,"c":[object, args...],"r":[returned values],                   *)
(*    "s":{"a":{"st":..,"has":0|1,"val":id,"am":addr mod alignof(T),"own":n},     *)
(*         "b":{...}},"live":n,"errs":n,"dead":n}                                 *)
(* explained by the specification action of the same name with the same arguments. *)
(* After the step, for every object that is not moved-from (R6): engagement and    *)
(* value (of the DESTINATION), the contained object's alignment, the number of      *)
(* live tracked objects inside the OpResult's bytes (own) = 1 iff engaged, 0 for a   *)
(* destroyed OpResult; globally: returned values, no live object outside the        *)
(* OpResults, no lifetime error (double destroy, construct over a live object, read  *)
(* of a dead object), no contained object copied / moved / assigned FROM after its   *)
(* lifetime ended (dead; value assignment whose argument aliases the contained       *)
(* object); at the end (both destroyed) nothing is live.                            *)
EXTENDS OpResult, Json, IOUtils

TraceLog == ndJsonDeserialize(IOEnv.TRACE)

VARIABLE l
tvars == <<vars, l>>

TraceInit ==
  /\ l = 2
  /\ TraceLog[1].e = "Reset"
  /\ InitWith(-1)

ResetTo ==
  /\ st' = [o \in Objs |-> "none"]
  /\ val' = [o \in Objs |-> 0]
  /\ steps' = -1

Dispatch(e, c) ==
  CASE e = "DefaultCtor"   -> DefaultCtor(c)
    [] e = "ValueCtorCopy" -> ValueCtorCopy(c)
    [] e = "ValueCtorMove" -> ValueCtorMove(c)
    [] e = "CopyCtor"      -> CopyCtor(c)
    [] e = "MoveCtor"      -> MoveCtor(c)
    [] e = "Destroy"       -> Destroy(c)
    [] e = "CopyAssign"    -> CopyAssign(c)
    [] e = "MoveAssign"    -> MoveAssign(c)
    [] e = "AssignValue"   -> AssignValue(c)
    [] e = "Emplace"       -> Emplace(c)
    [] e = "SetValue"      -> SetValue(c)
    [] e = "AssignValueCopy" -> AssignValueCopy(c)
    [] e = "AssignValueOf" -> AssignValueOf(c)
    [] e = "HasValue"      -> HasValue(c)
    [] e = "Bool"          -> Bool(c)
    [] e = "Value"         -> Value(c)
    [] OTHER               -> FALSE

ObjOK(o, x) ==
  /\ x.st = st'[o]
  /\ (st'[o] = "ok" =>
        /\ x.has = (IF val'[o] # 0 THEN 1 ELSE 0)
        /\ x.val = val'[o]
        /\ x.am = 0                                    \* contained object aligned for T
        /\ x.own = (IF val'[o] # 0 THEN 1 ELSE 0))     \* exactly the contained object is live
  /\ (st'[o] = "none" => x.own = 0)                    \* nothing survives the destructor

GlobalOK(ev) ==
  LET movedOwn == (IF st'["a"] = "moved" THEN ev.s.a.own ELSE 0) +
                  (IF st'["b"] = "moved" THEN ev.s.b.own ELSE 0)
  IN /\ ev.errs = 0
     /\ ev.dead = 0      \* no object was copied / moved / assigned from after its lifetime ended
     /\ ev.live = ev.s.a.own + ev.s.b.own              \* no live object outside the OpResults
     /\ ev.live - movedOwn = LiveIn(st', val')

TraceStep ==
  /\ l <= Len(TraceLog)
  /\ LET ev == TraceLog[l] IN
       \/ /\ ev.e = "Reset"
          /\ ResetTo
       \/ /\ ev.e = "End"                              \* balanced: every constructed object destroyed
          /\ \A o \in Objs : st[o] = "none"
          /\ ev.live = 0 /\ ev.errs = 0 /\ ev.dead = 0 /\ ev.ctors = ev.dtors
          /\ UNCHANGED vars
       \/ /\ ev.e \notin {"Reset", "End"}
          /\ Dispatch(ev.e, ev.c)
          /\ ev.r = RetOf(ev.e, ev.c)
          /\ \A o \in Objs : ObjOK(o, ev.s[o])
          /\ GlobalOK(ev)
  /\ l' = l + 1

TraceSpec == TraceInit /\ [][TraceStep]_tvars

TraceAccepted ==
  LET d == TLCGet("stats").diameter IN
  IF d = Len(TraceLog) THEN TRUE
  ELSE /\ PrintT(<<"TRACE_REJECTED_AT_LINE", d + 1, "OF", Len(TraceLog)>>)
       /\ PrintT(<<"OFFENDING", TraceLog[d + 1]>>)
       /\ FALSE
============================================================================
