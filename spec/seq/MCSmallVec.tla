---------------------------- MODULE MCSmallVec ----------------------------
(* Model-checking configurations of SmallVec.tla.  The model starts unconfigured  *)
(* (N = 0); the first step Config(<<n, mode, maxsz, budget>>) picks the inline     *)
(* capacity, the operation repertoire, the largest size and the number of          *)
(* operations (-1 = unbounded), so that ONE TLC run / ONE state graph covers every  *)
(* inline capacity.                                                                *)
(*  mode "unary":  object "a" only, unbounded.  Every public operation with the     *)
(*                 interesting counts {0, 1, N, N+1, maxsz} and positions {first,   *)
(*                 second, last} is applied in every CANONICAL state (contents      *)
(*                 <<1..k>>, every reachable size / storage mode / capacity); a     *)
(*                 state with other contents is only observed, cleared, destroyed   *)
(*                 or assigned to.  This keeps the machine small enough for a       *)
(*                 complete transition cover.                                       *)
(*  mode "binary": two objects with sizes in {0, N, N+1}: every two-object          *)
(*                 operation (copy / move construct and assign in every inline /    *)
(*                 heap / moved-from / empty combination, self assignment).         *)
(*  mode "full":   two objects, every operation in every state, bounded number of   *)
(*                 operations (all operation sequences up to the budget).           *)
(* Values pushed are a function of the state (size + 1): no value counter, states   *)
(* merge, and a wrong shift / wrong source shows as a wrong sequence.              *)
(*                                                                                  *)
(* Every action below is the SmallVec action of the same name restricted by the     *)
(* configuration's guard (TLC labels graph edges with the operator applied under a   *)
(* constant-bounded quantifier, hence the same names and the constant call sets).   *)
EXTENDS Integers, Sequences, FiniteSets, TLC

CONSTANTS Objs, DefaultVal, Configs    \* Configs: set of <<n, mode, maxsz, budget>>
VARIABLES N, st, el, heap, cap, steps, cfg

SV == INSTANCE SmallVec

FillVal == 7
SetVal == 8
Sz(o) == Len(el[o])
NewVal(o) == Sz(o) + 1

Init == SV!InitWith(0, -1, [mode |-> "init", maxsz |-> 0])

Config(c) ==
  /\ N = 0
  /\ N' = c[1] /\ cfg' = [mode |-> c[2], maxsz |-> c[3]] /\ steps' = c[4]
  /\ UNCHANGED <<st, el, heap, cap>>

\* ---------------------------------------------------------------- configuration guards
MaxSize == cfg.maxsz
Unary == cfg.mode \in {"unary", "full"}
Binary == cfg.mode \in {"binary", "full"}
Free == cfg.mode = "full"
Os == IF cfg.mode = "unary" THEN {"a"} ELSE Objs

Canon(o) == el[o] = [i \in 1 .. Sz(o) |-> i]
Can(o) == o \in Os /\ st[o] = "ok" /\ (Free \/ Canon(o))   \* operations are applied to these
UCan(o) == Unary /\ Can(o)
Sizes == {0, 1, N, N + 1, MaxSize} \cap (0 .. MaxSize)
FewSizes == {0, N, N + 1}
Room(o) == Sz(o) < MaxSize /\ (Unary \/ Sz(o) = N)
Pos(o) == {0, 1, Sz(o) - 1}
Ends(o) == {0, Sz(o) - 1}

\* ---------------------------------------------------------------- constant call sets
NN == 0 .. 12
A1 == {<<o>> : o \in Objs}
A2n == {<<o, n>> : o \in Objs, n \in NN}
A2o == {<<d, s>> : d \in Objs, s \in Objs}
A3f == {<<o, n, FillVal>> : o \in Objs, n \in NN}
A3s == {<<o, i, SetVal>> : o \in Objs, i \in NN}
A3i == {<<o, n, i>> : o \in Objs, n \in NN, i \in NN}

CtorDefault(c) == c[1] \in Os /\ SV!CtorDefault(c, SV!NoHint)
CtorCount(c)   == c[1] \in Os /\ Unary /\ c[2] \in Sizes /\ SV!CtorCount(c, SV!NoHint)
CtorFill(c)    == c[1] \in Os /\ Unary /\ c[2] \in Sizes /\ SV!CtorFill(c, SV!NoHint)
CtorInit(c)    == c[1] \in Os /\ c[2] \in (IF Unary THEN Sizes ELSE FewSizes) /\ SV!CtorInit(c, SV!NoHint)
CopyCtor(c)    == Binary /\ c[1] \in Os /\ Can(c[2]) /\ SV!CopyCtor(c, SV!NoHint)
MoveCtor(c)    == Binary /\ c[1] \in Os /\ Can(c[2]) /\ SV!MoveCtor(c, SV!NoHint)
Destroy(c)     == c[1] \in Os /\ SV!Destroy(c)
CopyAssign(c)  == Binary /\ c[1] \in Os /\ Can(c[2]) /\ SV!CopyAssign(c, SV!NoHint)
MoveAssign(c)  == Binary /\ c[1] \in Os /\ Can(c[2]) /\ SV!MoveAssign(c, SV!NoHint)
PushBackCopy(c) == Can(c[1]) /\ Room(c[1]) /\ c[2] = NewVal(c[1]) /\ SV!PushBackCopy(c, SV!NoHint)
PushBackMove(c) == UCan(c[1]) /\ Room(c[1]) /\ c[2] = NewVal(c[1]) /\ SV!PushBackMove(c, SV!NoHint)
EmplaceBack(c)  == UCan(c[1]) /\ Room(c[1]) /\ c[2] = NewVal(c[1]) /\ SV!EmplaceBack(c, SV!NoHint)
PushBackSelf(c) == UCan(c[1]) /\ Room(c[1]) /\ c[2] \in Ends(c[1]) /\ SV!PushBackSelf(c, SV!NoHint)
PopBack(c)     == UCan(c[1]) /\ SV!PopBack(c, SV!NoHint)
Resize(c)      == UCan(c[1]) /\ c[2] \in Sizes /\ SV!Resize(c, SV!NoHint)
ResizeFill(c)  == UCan(c[1]) /\ c[2] \in Sizes /\ SV!ResizeFill(c, SV!NoHint)
ResizeSelf(c)  == UCan(c[1]) /\ c[2] \in Sizes /\ c[2] > Sz(c[1]) /\ c[3] \in Ends(c[1]) /\ SV!ResizeSelf(c, SV!NoHint)
Reserve(c)     == Can(c[1]) /\ c[2] \in (IF Unary THEN Sizes \cup {MaxSize + 1} ELSE {N + 2})
                  /\ SV!Reserve(c, SV!NoHint)
Clear(c)       == c[1] \in Os /\ SV!Clear(c, SV!NoHint)
Erase(c)       == UCan(c[1]) /\ c[2] \in Pos(c[1]) /\ SV!Erase(c, SV!NoHint)
SetAt(c)       == UCan(c[1]) /\ c[2] \in Pos(c[1]) /\ SV!SetAt(c, SV!NoHint)
At(c)          == UCan(c[1]) /\ c[2] \in Pos(c[1]) /\ SV!At(c)
FrontOp(c)     == UCan(c[1]) /\ SV!FrontOp(c)
BackOp(c)      == UCan(c[1]) /\ SV!BackOp(c)
Size(c)        == Can(c[1]) /\ SV!Size(c)
Capacity(c)    == UCan(c[1]) /\ SV!Capacity(c)
Empty(c)       == UCan(c[1]) /\ SV!Empty(c)
Iterate(c)     == Can(c[1]) /\ SV!Iterate(c)
CIterate(c)    == UCan(c[1]) /\ SV!CIterate(c)
Data(c)        == UCan(c[1]) /\ SV!Data(c)

Next ==
  \/ \E c \in Configs : Config(c)
  \/ \E c \in A1 : \/ CtorDefault(c) \/ Destroy(c) \/ PopBack(c) \/ Clear(c)
                   \/ FrontOp(c) \/ BackOp(c) \/ Size(c) \/ Capacity(c) \/ Empty(c)
                   \/ Iterate(c) \/ CIterate(c) \/ Data(c)
  \/ \E c \in A2n : \/ CtorCount(c) \/ CtorInit(c) \/ PushBackCopy(c) \/ PushBackMove(c)
                    \/ EmplaceBack(c) \/ PushBackSelf(c) \/ Resize(c) \/ Reserve(c)
                    \/ Erase(c) \/ At(c)
  \/ \E c \in A2o : \/ CopyCtor(c) \/ MoveCtor(c) \/ CopyAssign(c) \/ MoveAssign(c)
  \/ \E c \in A3f : \/ CtorFill(c) \/ ResizeFill(c)
  \/ \E c \in A3s : SetAt(c)
  \/ \E c \in A3i : ResizeSelf(c)

\* ---------------------------------------------------------------- invariants
TypeOK == SV!TypeOK
StorageOK == SV!StorageOK
NoneIsEmpty == SV!NoneIsEmpty
LifetimeOK == SV!LifetimeOK
\* the model itself never needs more than maxsz elements
Bounded == \A o \in Objs : Sz(o) <= MaxSize /\ cap[o] <= 2 * MaxSize + 2

Configs_cover == {<<1, "unary", 4, -1>>, <<2, "unary", 5, -1>>, <<4, "unary", 5, -1>>,
                  <<1, "binary", 3, -1>>, <<2, "binary", 4, -1>>, <<4, "binary", 6, -1>>}
Configs_thorough == {<<1, "unary", 6, -1>>, <<2, "unary", 9, -1>>, <<4, "unary", 10, -1>>,
                     <<1, "binary", 3, -1>>, <<2, "binary", 4, -1>>, <<4, "binary", 6, -1>>}
Configs_full4 == {<<1, "full", 3, 4>>, <<2, "full", 5, 4>>, <<4, "full", 6, 4>>}
===========================================================================
