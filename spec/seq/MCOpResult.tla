---------------------------- MODULE MCOpResult ----------------------------
(* Model-checking configurations of OpResult.tla on two objects.  The model starts *)
(* unconfigured (steps = -2); the first step Config(<<budget>>) selects              *)
(*  budget = -1: the complete (unbounded) abstract machine over the values {1,2}:   *)
(*               every operation in every state;                                    *)
(*  budget = k:  all operation sequences of length <= k (SeqBudget); the i-th        *)
(*               operation uses the value i, so every constructed value is distinct. *)
(* so that one TLC run / one state graph contains both.  Actions are the OpResult    *)
(* actions of the same name restricted by the value rule (TLC labels an edge with    *)
(* the operator applied under a constant-bounded quantifier).                       *)
EXTENDS Integers, Sequences, FiniteSets, TLC

CONSTANTS Objs, SeqBudget
VARIABLES st, val, steps

OR == INSTANCE OpResult

Init == OR!InitWith(-2)

Config(c) == steps = -2 /\ steps' = c[1] /\ UNCHANGED <<st, val>>
Configs == {<<-1>>, <<SeqBudget>>}
On == steps # -2

Vals == 1 .. SeqBudget
VOk(v) == On /\ (IF steps = -1 THEN v \in {1, 2} ELSE v = SeqBudget - steps + 1)

A1 == {<<o>> : o \in Objs}
A2o == {<<d, s>> : d \in Objs, s \in Objs}
A2v == {<<o, v>> : o \in Objs, v \in Vals}
A3h == {<<d, s, h>> : d \in Objs, s \in Objs, h \in {1, 2, 3}}

DefaultCtor(c) == On /\ c \in A1 /\ OR!DefaultCtor(c)
ValueCtorCopy(c) == VOk(c[2]) /\ OR!ValueCtorCopy(c)
ValueCtorMove(c) == VOk(c[2]) /\ OR!ValueCtorMove(c)
CopyCtor(c) == On /\ c \in A2o /\ OR!CopyCtor(c)
MoveCtor(c) == On /\ c \in A2o /\ OR!MoveCtor(c)
Destroy(c) == On /\ c \in A1 /\ OR!Destroy(c)
CopyAssign(c) == On /\ c \in A2o /\ OR!CopyAssign(c)
MoveAssign(c) == On /\ c \in A2o /\ OR!MoveAssign(c)
AssignValue(c)   == VOk(c[2]) /\ OR!AssignValue(c)
Emplace(c)       == VOk(c[2]) /\ OR!Emplace(c)
SetValue(c)      == VOk(c[2]) /\ OR!SetValue(c)
AssignValueCopy(c) == VOk(c[2]) /\ OR!AssignValueCopy(c)
AssignValueOf(c) == On /\ c \in A3h /\ OR!AssignValueOf(c)
HasValue(c) == On /\ c \in A1 /\ OR!HasValue(c)
Bool(c) == On /\ c \in A1 /\ OR!Bool(c)
Value(c) == On /\ c \in A1 /\ OR!Value(c)

Next ==
  \/ \E c \in Configs : Config(c)
  \/ \E c \in A1 : \/ DefaultCtor(c) \/ Destroy(c) \/ HasValue(c) \/ Bool(c) \/ Value(c)
  \/ \E c \in A2o : \/ CopyCtor(c) \/ MoveCtor(c) \/ CopyAssign(c) \/ MoveAssign(c)
  \/ \E c \in A2v : \/ ValueCtorCopy(c) \/ ValueCtorMove(c) \/ AssignValue(c) \/ Emplace(c)
                    \/ SetValue(c) \/ AssignValueCopy(c)
  \/ \E c \in A3h : AssignValueOf(c)

TypeOK == OR!TypeOK
NoneIsEmpty == OR!NoneIsEmpty
LifetimeOK == OR!LifetimeOK
===========================================================================
