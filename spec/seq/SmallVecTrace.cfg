CONSTANTS
  Objs = {"a", "b"}
  DefaultVal = 0
SPECIFICATION TraceSpec
CHECK_DEADLOCK FALSE
POSTCONDITION TraceAccepted
INVARIANTS TypeOK StorageOK NoneIsEmpty LifetimeOK
