CONSTANTS
  Objs = {"a", "b"}
  DefaultVal = 0
  Configs <- Configs_full4
INIT Init
NEXT Next
CHECK_DEADLOCK FALSE
INVARIANTS TypeOK StorageOK NoneIsEmpty LifetimeOK Bounded
