---------------------------- MODULE OnceFnTrace ----------------------------
(* Trace validation for OnceFn.tla.  Every line is one operation applied to the real      *)
(* dispenso::OnceFunction; it must be an enabled action of the specification (same         *)
(* operation, same register), and what was observed must equal what the specification      *)
(* derives:                                                                                 *)
(*   Create    inline/spill decision = KindOf(sizeof, alignof); stored address % alignof = 0;*)
(*             a spilled address is aligned to its size class (up to 512)                   *)
(*   Call/Cleanup  address % alignof = 0 at invocation and destruction, bytes intact,        *)
(*             destroyed inside the register (inline) / at the address of construction      *)
(*             (spill), and the freed block is on top of the thread cache of exactly the    *)
(*             size class ClassOf(sizeof, alignof)                                           *)
(*   always    per callable: invocation count, live instances, destructions; no live        *)
(*             moved-from husk; blocks outstanding per small-buffer class; heap blocks       *)
(*             (malloc/free observed through --wrap) outstanding for classes > 256           *)
(* All invariants of OnceFn.tla are evaluated in every state.                               *)
EXTENDS OnceFn, Json, IOUtils

TraceLog == ndJsonDeserialize(IOEnv.TRACE)

VARIABLE l

tvars == <<vars, l>>

RegSet(s) == {s[i] : i \in 1 .. Len(s)}

TraceInit ==
  /\ l = 2
  /\ TraceLog[1].e = "Reset"
  /\ InitWith(RegSet(TraceLog[1].regs))

ResetTo(rs) ==
  /\ regs' = rs
  /\ reg' = [f \in rs |-> [st |-> "empty", c |-> 0]]
  /\ cal' = <<>>
  /\ called' = {}
  /\ out' = [k \in 1 .. 7 |-> 0]
  /\ large' = 0

Min2(a, b) == IF a < b THEN a ELSE b

ObsOK(ev) ==
  /\ Len(ev.inv) = Len(cal') /\ Len(ev.live) = Len(cal') /\ Len(ev.dtor) = Len(cal')
  /\ \A c \in 1 .. Len(cal') : /\ ev.inv[c] = cal'[c].invoked
                               /\ ev.live[c] = cal'[c].live
                               /\ ev.dtor[c] = cal'[c].destroyed
  /\ ev.husks = 0
  /\ \A k \in 1 .. 7 : ev.out[k] = out'[k]
  /\ ev.lout = large'
  /\ ev.stray = 0

CreateOK(ev) ==
  /\ ev.t \in regs
  /\ Create(ev.t, [size |-> ev.size, align |-> ev.align])
  /\ ev.id = Len(cal')
  /\ ev.kind = KindOf(ev.size, ev.align)
  /\ ev.amod = 0
  /\ (ev.kind = "spill" => ev.m512 % Min2(ClassOf(ev.size, ev.align), 512) = 0)

ConsumeOK(ev) ==
  LET c == reg[ev.t].c
      small == cal[c].cls # 0 /\ cal[c].cls <= MaxSmall
  IN /\ ev.amod = 0 /\ ev.dmod = 0
     /\ ev.intact = 1
     /\ ev.where = (IF cal[c].kind = "inline" THEN "reg" ELSE "same")
     /\ \A k \in 1 .. 7 : ev.topeq[k] = (IF small /\ OrdOf(cal[c].cls) = k THEN 1 ELSE 0)

TraceStep ==
  /\ l <= Len(TraceLog)
  /\ LET ev == TraceLog[l] IN
       \/ /\ ev.e = "Reset"
          /\ ResetTo(RegSet(ev.regs))
       \/ /\ ev.e = "Create"
          /\ CreateOK(ev)
          /\ ObsOK(ev)
       \/ /\ ev.e = "Move"
          /\ ev.t \in regs
          /\ Move(ev.t, ev.g)
          /\ ObsOK(ev)
       \/ /\ ev.e = "Call"
          /\ ev.t \in regs
          /\ Call(ev.t)
          /\ ConsumeOK(ev)
          /\ ObsOK(ev)
       \/ /\ ev.e = "Cleanup"
          /\ ev.t \in regs
          /\ Cleanup(ev.t)
          /\ ConsumeOK(ev)
          /\ ObsOK(ev)
  /\ l' = l + 1

TraceSpec == TraceInit /\ [][TraceStep]_tvars

TraceAccepted ==
  LET d == TLCGet("stats").diameter IN
  IF d = Len(TraceLog) THEN TRUE
  ELSE /\ PrintT(<<"TRACE_REJECTED_AT_LINE", d + 1, "OF", Len(TraceLog)>>)
       /\ PrintT(<<"OFFENDING", TraceLog[d + 1]>>)
       /\ FALSE
==========================================================================
