---------------------------- MODULE OnceFnTrace ----------------------------
(* Trace validation for OnceFn.tla.  Every line is one operation applied to the real      *)
(* dispenso::OnceFunction; it must be an enabled action of the specification (same         *)
(* operation, same register), and what was observed must equal what the specification      *)
(* derives:                                                                                 *)
(*   Create    inline/spill decision = KindOf(sizeof, alignof); stored address % alignof = 0;*)
(*             a spilled address is aligned to its size class (up to 512)                   *)
(*   Call/Cleanup  address % alignof = 0 at invocation and destruction, bytes intact,        *)
(*             destroyed inside the register (inline) / at the address of construction      *)
(*             (spill), and the freed block is on top of the thread cache of exactly the    *)
(*             size class ClassOf(sizeof, alignof)                                           *)
(*   always    per callable: invocation count, live instances, destructions; no live        *)
(*             moved-from husk; blocks outstanding per small-buffer class; heap blocks       *)
(*             (malloc/free observed through --wrap) outstanding for classes > 256           *)
(*   storage owned until destruction ends (Call / Cleanup: "invoke, destroy, release the    *)
(*             storage" - the release is the last thing the step does): the blocks          *)
(*             outstanding per class / on the heap sampled INSIDE operator() (iout, ilout)   *)
(*             and at the very end of the callable's destructor (dout, dlout) are those of   *)
(*             the step's PRE-state (the callable's own block is still taken); a re-entrant  *)
(*             payload (re = 1, 2: operator() and the destructor create and consume a nested *)
(*             OnceFunction with a callable of the same sizeof/alignof, i.e. the same class  *)
(*             on the same thread cache) never sees the nested callable constructed on top   *)
(*             of itself (nover), the nested callables are intact (nbad), invoked iff        *)
(*             re = 1, destroyed exactly once each and none is left alive; "intact" is       *)
(*             evaluated by the driver as the last statement of the destructor               *)
(* All invariants of OnceFn.tla are evaluated in every state.                               *)
EXTENDS OnceFn, Json, IOUtils

TraceLog == ndJsonDeserialize(IOEnv.TRACE)

VARIABLE l

tvars == <<vars, l>>

RegSet(s) == {s[i] : i \in 1 .. Len(s)}

TraceInit ==
  /\ l = 2
  /\ TraceLog[1].e = "Reset"
  /\ InitWith(RegSet(TraceLog[1].regs))

ResetTo(rs) ==
  /\ regs' = rs
  /\ reg' = [f \in rs |-> [st |-> "empty", c |-> 0]]
  /\ cal' = <<>>
  /\ called' = {}
  /\ out' = [k \in 1 .. 7 |-> 0]
  /\ large' = 0

Min2(a, b) == IF a < b THEN a ELSE b

ObsOK(ev) ==
  /\ Len(ev.inv) = Len(cal') /\ Len(ev.live) = Len(cal') /\ Len(ev.dtor) = Len(cal')
  /\ \A c \in 1 .. Len(cal') : /\ ev.inv[c] = cal'[c].invoked
                               /\ ev.live[c] = cal'[c].live
                               /\ ev.dtor[c] = cal'[c].destroyed
  /\ ev.husks = 0
  /\ \A k \in 1 .. 7 : ev.out[k] = out'[k]
  /\ ev.lout = large'
  /\ ev.stray = 0

CreateOK(ev) ==
  /\ ev.t \in regs
  /\ Create(ev.t, [size |-> ev.size, align |-> ev.align])
  /\ ev.id = Len(cal')
  /\ ev.kind = KindOf(ev.size, ev.align)
  /\ ev.amod = 0
  /\ (ev.kind = "spill" => ev.m512 % Min2(ClassOf(ev.size, ev.align), 512) = 0)
  /\ ev.re \in 0 .. 2

\* The storage is released after the callable was invoked AND destroyed, never before: whatever is
\* observed from inside the callable's operator() and at the end of its destructor is the pre-state of the
\* Call / Cleanup step (out, large unprimed: the callable's block is still taken).  Blocks taken and given
\* back in between (the nested OnceFunctions of a re-entrant payload) are balanced and disjoint from it.
OwnedToTheEnd(ev) ==
  LET nested == IF ev.re = 0 THEN 0 ELSE IF ev.e = "Call" THEN 2 ELSE 1 IN   \* one per operator() / destructor
  /\ ev.e = "Call" => /\ \A k \in 1 .. 7 : ev.iout[k] = out[k]
                      /\ ev.ilout = large
  /\ \A k \in 1 .. 7 : ev.dout[k] = out[k]
  /\ ev.dlout = large
  /\ ev.nover = 0 /\ ev.nbad = 0 /\ ev.nlive = 0
  /\ ev.ndtor = nested
  /\ ev.ninv = (IF ev.re = 1 THEN nested ELSE 0)

ConsumeOK(ev) ==
  LET c == reg[ev.t].c
      small == cal[c].cls # 0 /\ cal[c].cls <= MaxSmall
  IN /\ ev.amod = 0 /\ ev.dmod = 0
     /\ ev.intact = 1
     /\ ev.where = (IF cal[c].kind = "inline" THEN "reg" ELSE "same")
     /\ \A k \in 1 .. 7 : ev.topeq[k] = (IF small /\ OrdOf(cal[c].cls) = k THEN 1 ELSE 0)
     /\ OwnedToTheEnd(ev)

TraceStep ==
  /\ l <= Len(TraceLog)
  /\ LET ev == TraceLog[l] IN
       \/ /\ ev.e = "Reset"
          /\ ResetTo(RegSet(ev.regs))
       \/ /\ ev.e = "Create"
          /\ CreateOK(ev)
          /\ ObsOK(ev)
       \/ /\ ev.e = "Move"
          /\ ev.t \in regs
          /\ Move(ev.t, ev.g)
          /\ ObsOK(ev)
       \/ /\ ev.e = "Call"
          /\ ev.t \in regs
          /\ Call(ev.t)
          /\ ConsumeOK(ev)
          /\ ObsOK(ev)
       \/ /\ ev.e = "Cleanup"
          /\ ev.t \in regs
          /\ Cleanup(ev.t)
          /\ ConsumeOK(ev)
          /\ ObsOK(ev)
  /\ l' = l + 1

TraceSpec == TraceInit /\ [][TraceStep]_tvars

TraceAccepted ==
  LET d == TLCGet("stats").diameter IN
  IF d = Len(TraceLog) THEN TRUE
  ELSE /\ PrintT(<<"TRACE_REJECTED_AT_LINE", d + 1, "OF", Len(TraceLog)>>)
       /\ PrintT(<<"OFFENDING", TraceLog[d + 1]>>)
       /\ FALSE
==========================================================================
