CONSTANTS
  Objs = {"a", "b"}
SPECIFICATION TraceSpec
CHECK_DEADLOCK FALSE
POSTCONDITION TraceAccepted
INVARIANTS TypeOK NoneIsEmpty LifetimeOK
