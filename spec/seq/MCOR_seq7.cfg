CONSTANTS
  Objs = {"a", "b"}
  SeqBudget = 7
INIT Init
NEXT Next
CHECK_DEADLOCK FALSE
INVARIANTS TypeOK NoneIsEmpty LifetimeOK
