--------------------------- MODULE SmallVecTrace ---------------------------
(* Trace validation for SmallVec.tla.  Every line of the ndjson trace recorded    *)
(* from the real dispenso::SmallVector<T, N> is one public operation              *)
(*   {"e":<action>,"c":[object, args...],"r":[returned values],                   *)
(*    "s":{"a":{...},"b":{...}},"live":n,"blk":n,"errs":n}                        *)
(* and must be explained by the specification action of the same name with the    *)
(* same arguments.  After the step, for every object that is not moved-from (R6):  *)
(*   contents (read through begin()/end()), size(), capacity() and storage mode    *)
(*   (which must obey the documented storage rules D1-D6 of SmallVec.tla),          *)
(*   number of live element objects inside its storage (own) = size,               *)
(*   every element's address mod alignof(T) (am) = 0;                              *)
(* globally: the values the call returned, no live element outside the objects'    *)
(* storage, no lifetime error (double destroy, construct over a live object, read   *)
(* of a dead object, bad free), heap blocks = vectors in heap mode; and at the end  *)
(* of an execution (all objects destroyed) nothing is live and no block is held.   *)
EXTENDS SmallVec, Json, IOUtils

TraceLog == ndJsonDeserialize(IOEnv.TRACE)

VARIABLE l   \* next line to consume

tvars == <<vars, l>>

TraceInit ==
  /\ l = 2
  /\ TraceLog[1].e = "Reset"
  /\ InitWith(TraceLog[1].N, -1, "trace")

ResetTo(n) ==
  /\ N' = n
  /\ st' = [o \in Objs |-> "none"]
  /\ el' = [o \in Objs |-> <<>>]
  /\ heap' = [o \in Objs |-> FALSE]
  /\ cap' = [o \in Objs |-> 0]
  /\ steps' = -1
  /\ cfg' = "trace"

\* storage outcome the real object reported after the call (see SmallVec.tla, rules D1-D6)
HintOf(ev) ==
  [on |-> TRUE,
   hc |-> [o \in Objs |-> IF ev.s[o].st = "ok" THEN <<ev.s[o].heap = 1, ev.s[o].cap>>
                                               ELSE <<FALSE, 0>>]]

Dispatch(e, c, h) ==
  CASE e = "CtorDefault"  -> CtorDefault(c, h)
    [] e = "CtorCount"    -> CtorCount(c, h)
    [] e = "CtorFill"     -> CtorFill(c, h)
    [] e = "CtorInit"     -> CtorInit(c, h)
    [] e = "CopyCtor"     -> CopyCtor(c, h)
    [] e = "MoveCtor"     -> MoveCtor(c, h)
    [] e = "Destroy"      -> Destroy(c)
    [] e = "CopyAssign"   -> CopyAssign(c, h)
    [] e = "MoveAssign"   -> MoveAssign(c, h)
    [] e = "PushBackCopy" -> PushBackCopy(c, h)
    [] e = "PushBackMove" -> PushBackMove(c, h)
    [] e = "EmplaceBack"  -> EmplaceBack(c, h)
    [] e = "PushBackSelf" -> PushBackSelf(c, h)
    [] e = "PopBack"      -> PopBack(c, h)
    [] e = "Resize"       -> Resize(c, h)
    [] e = "ResizeFill"   -> ResizeFill(c, h)
    [] e = "ResizeSelf"   -> ResizeSelf(c, h)
    [] e = "Reserve"      -> Reserve(c, h)
    [] e = "Clear"        -> Clear(c, h)
    [] e = "Erase"        -> Erase(c, h)
    [] e = "SetAt"        -> SetAt(c, h)
    [] e = "At"           -> At(c)
    [] e = "FrontOp"      -> FrontOp(c)
    [] e = "BackOp"       -> BackOp(c)
    [] e = "Size"         -> Size(c)
    [] e = "Capacity"     -> Capacity(c)
    [] e = "Empty"        -> Empty(c)
    [] e = "Iterate"      -> Iterate(c)
    [] e = "CIterate"     -> CIterate(c)
    [] e = "Data"         -> Data(c)
    [] OTHER              -> FALSE

\* observed object x against the specification's object o in the NEW state
ObjOK(o, x) ==
  /\ x.st = st'[o]
  /\ (st'[o] = "ok" =>
        /\ x.el = el'[o]
        /\ x.sz = Len(el'[o])
        /\ x.cap = cap'[o]
        /\ x.heap = (IF heap'[o] THEN 1 ELSE 0)
        /\ x.own = Len(el'[o])                                 \* exactly the elements are live
        /\ Len(x.am) = Len(el'[o])
        /\ \A i \in 1 .. Len(x.am) : x.am[i] = 0)              \* every element aligned for T
  /\ (st'[o] = "none" => x.own = 0)                            \* nothing survives the destructor

Count(S) == Cardinality(S)

GlobalOK(ev) ==
  LET moved == {o \in Objs : st'[o] = "moved"}
      heaps == Count({o \in Objs : st'[o] = "ok" /\ heap'[o]})
      ownSum == ev.s.a.own + ev.s.b.own
      movedOwn == (IF "a" \in moved THEN ev.s.a.own ELSE 0) + (IF "b" \in moved THEN ev.s.b.own ELSE 0)
  IN /\ ev.errs = 0
     /\ ev.live = ownSum                         \* no live element outside the vectors' storage
     /\ ev.live - movedOwn = LiveIn(st', el')
     /\ ev.blk >= heaps /\ ev.blk <= heaps + Count(moved)

TraceStep ==
  /\ l <= Len(TraceLog)
  /\ LET ev == TraceLog[l] IN
       \/ /\ ev.e = "Reset"
          /\ ResetTo(ev.N)
       \/ /\ ev.e = "End"                        \* every object destroyed: nothing may be left
          /\ \A o \in Objs : st[o] = "none"
          /\ ev.live = 0 /\ ev.blk = 0 /\ ev.errs = 0
          /\ UNCHANGED vars
       \/ /\ ev.e \notin {"Reset", "End"}
          /\ Dispatch(ev.e, ev.c, HintOf(ev))
          /\ ev.r = RetOf(ev.e, ev.c)
          /\ \A o \in Objs : ObjOK(o, ev.s[o])
          /\ GlobalOK(ev)
  /\ l' = l + 1

TraceSpec == TraceInit /\ [][TraceStep]_tvars

\* One state per consumed line (TraceInit consumes line 1).
TraceAccepted ==
  LET d == TLCGet("stats").diameter IN
  IF d = Len(TraceLog) THEN TRUE
  ELSE /\ PrintT(<<"TRACE_REJECTED_AT_LINE", d + 1, "OF", Len(TraceLog)>>)
       /\ PrintT(<<"OFFENDING", TraceLog[d + 1]>>)
       /\ FALSE
============================================================================
