CONSTANTS
  MaxOps = 3
  MaxInit = 5
  MaxSize = 6
INIT Init
NEXT MCNext
CHECK_DEADLOCK FALSE
INVARIANTS TypeOK RetShape SizeBound LiveBound IdsBelowDefault
