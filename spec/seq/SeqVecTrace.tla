---------------------------- MODULE SeqVecTrace ----------------------------
(* Trace validation for SeqVec.tla.  The driver (harness/drv/drv_seqvec.cpp)     *)
(* executes operation sequences on the REAL dispenso::ConcurrentVector (one trait  *)
(* combination per execution) and writes one ndjson line per call:                 *)
(*   {"e":<action>,"p":[args],"r":[returned],                                      *)
(*    "s":{"ea":0/1,"a":[ids],"eb":0/1,"b":[ids],       contents read back          *)
(*         "live":n,"bal":n,"errs":n,                   lifetime registry           *)
(*         "cap":n,                                      a.capacity()               *)
(*         "ma":[ids],"mr":[returned]}}                  the same call on std::vector *)
(* Every line must be explained by the SeqVec action of that name with those        *)
(* arguments; contents, size, returned position / observed values must equal the    *)
(* specification's, the live-object count and the construction/destruction balance  *)
(* must equal LiveCount, and no lifetime error may have been counted.  The          *)
(* std::vector mirror must agree with the specification as well (this validates     *)
(* the specification itself against std::vector).                                   *)
(* Executions are separated by {"e":"Reset",...}; each ends with {"e":"Destroy"}   *)
(* after both vectors were destroyed: nothing may be left alive.                    *)
EXTENDS SeqVec, Json, IOUtils

TraceLog == ndJsonDeserialize(IOEnv.TRACE)

VARIABLE l   \* next line to consume

tvars == <<vars, l>>

TraceInit ==
  /\ l = 2
  /\ TraceLog[1].e = "Reset"
  /\ Init

ResetAll ==
  /\ ea' = FALSE /\ a' = <<>>
  /\ eb' = FALSE /\ b' = <<>>
  /\ ret' = <<>>
  /\ k' = 0

Dispatch(e, p) ==
  CASE e = "CtorDefault" -> CtorDefault(p)
    [] e = "CtorReserve" -> CtorReserve(p)
    [] e = "CtorCount" -> CtorCount(p)
    [] e = "CtorCountValue" -> CtorCountValue(p)
    [] e = "CtorRange" -> CtorRange(p)
    [] e = "CtorSizedRange" -> CtorSizedRange(p)
    [] e = "CtorIlist" -> CtorIlist(p)
    [] e = "CtorB" -> CtorB(p)
    [] e = "CopyCtorB" -> CopyCtorB(p)
    [] e = "MoveCtorB" -> MoveCtorB(p)
    [] e = "DestroyB" -> DestroyB(p)
    [] e = "AssignCount" -> AssignCount(p)
    [] e = "AssignRange" -> AssignRange(p)
    [] e = "CopyAssign" -> CopyAssign(p)
    [] e = "CopyAssignSelf" -> CopyAssignSelf(p)
    [] e = "MoveAssign" -> MoveAssign(p)
    [] e = "CopyAssignToB" -> CopyAssignToB(p)
    [] e = "MoveAssignToB" -> MoveAssignToB(p)
    [] e = "SwapMember" -> SwapMember(p)
    [] e = "SwapFree" -> SwapFree(p)
    [] e = "PushBackCopy" -> PushBackCopy(p)
    [] e = "PushBackMove" -> PushBackMove(p)
    [] e = "EmplaceBack" -> EmplaceBack(p)
    [] e = "GrowByDefault" -> GrowByDefault(p)
    [] e = "GrowByValue" -> GrowByValue(p)
    [] e = "GrowByRange" -> GrowByRange(p)
    [] e = "GrowByIlist" -> GrowByIlist(p)
    [] e = "GrowByGen" -> GrowByGen(p)
    [] e = "GrowToAtLeast" -> GrowToAtLeast(p)
    [] e = "GrowToAtLeastValue" -> GrowToAtLeastValue(p)
    [] e = "InsertCopy" -> InsertCopy(p)
    [] e = "InsertMove" -> InsertMove(p)
    [] e = "InsertCount" -> InsertCount(p)
    [] e = "InsertRange" -> InsertRange(p)
    [] e = "InsertIlist" -> InsertIlist(p)
    [] e = "EraseOne" -> EraseOne(p)
    [] e = "EraseEnd" -> EraseEnd(p)
    [] e = "EraseRange" -> EraseRange(p)
    [] e = "Resize" -> Resize(p)
    [] e = "ResizeValue" -> ResizeValue(p)
    [] e = "Reserve" -> Reserve(p)
    [] e = "PopBack" -> PopBack(p)
    [] e = "Clear" -> Clear(p)
    [] e = "ShrinkToFit" -> ShrinkToFit(p)
    [] e = "IterFwd" -> IterFwd(p)
    [] e = "IterConst" -> IterConst(p)
    [] e = "IterRev" -> IterRev(p)
    [] e = "IterConstRev" -> IterConstRev(p)
    [] e = "Index" -> Index(p)
    [] e = "At" -> At(p)
    [] e = "FrontBack" -> FrontBack(p)
    [] e = "SizeInfo" -> SizeInfo(p)
    [] e = "Compare" -> Compare(p)
    [] e = "IterArith" -> IterArith(p)
    [] OTHER -> FALSE

\* operations whose std::vector counterpart was executed on the mirror
ProjOK(ev) ==
  /\ ev.s.ea = B2I(ea') /\ ev.s.eb = B2I(eb')
  /\ ev.s.a = a' /\ ev.s.b = b'                 \* contents and size (length of the list read back)
  /\ ev.s.sz = Len(a')                          \* size()
  /\ ev.r = ret'                                \* returned position / observed values
  /\ ev.s.live = LiveCount'                     \* live element objects (address registry)
  /\ ev.s.bal = LiveCount'                      \* constructions - destructions
  /\ ev.s.errs = 0                              \* lifetime errors
  /\ (ea' => ev.s.cap >= Len(a'))
  /\ (ev.e \in {"Reserve", "CtorReserve"} => ev.s.cap >= ev.p[1])
  /\ ev.s.ma = a'                               \* std::vector agrees with the specification
  /\ (ev.s.mr # <<-1>> => ev.s.mr = ret')

TraceStep ==
  /\ l <= Len(TraceLog)
  /\ LET ev == TraceLog[l] IN
       \/ /\ ev.e = "Reset"
          /\ ResetAll
       \/ /\ ev.e = "Destroy"                   \* both vectors destroyed by the harness
          /\ ev.live = 0 /\ ev.bal = 0 /\ ev.errs = 0
          /\ ResetAll
       \/ /\ ev.e \notin {"Reset", "Destroy"}
          /\ Dispatch(ev.e, ev.p)
          /\ ProjOK(ev)
  /\ l' = l + 1

TraceSpec == TraceInit /\ [][TraceStep]_tvars

TraceAccepted ==
  LET d == TLCGet("stats").diameter IN
  IF d = Len(TraceLog) THEN TRUE
  ELSE /\ PrintT(<<"TRACE_REJECTED_AT_LINE", d + 1, "OF", Len(TraceLog)>>)
       /\ PrintT(<<"OFFENDING", TraceLog[d + 1]>>)
       /\ FALSE
==========================================================================
