------------------------------ MODULE SmallVec ------------------------------
(* Sequential specification of dispenso::SmallVector<T, N>                       *)
(* (dispenso/small_vector.h): a std::vector whose first N elements live inside   *)
(* the object.  The abstract state of every vector object o is                    *)
(*   st[o]   "none" (no object constructed in that slot), "ok", or "moved"        *)
(*           (moved-from: valid, but only destroy / assign-to / clear are         *)
(*           issued and its contents are never compared - rule R6)                *)
(*   el[o]   the std::vector value: the sequence of element ids                   *)
(*   heap[o] storage mode: FALSE = inline buffer, TRUE = heap block               *)
(*   cap[o]  capacity()                                                           *)
(* One action per public operation; every action takes ONE tuple c whose first    *)
(* component is the object and the rest are the call's arguments, so that the     *)
(* TLC edge label  Act(<<"a", 3>>)  is a complete, replayable call.  The meaning   *)
(* of every operation on el is the std::vector meaning.                           *)
(*                                                                                *)
(* Storage mode and capacity are NOT part of the std::vector meaning; the header   *)
(* documents rules, and only these are required (operator Allowed):                *)
(*   D1 size <= capacity            D2 inline storage has capacity exactly N        *)
(*   D3 a vector that needs at most N elements and was never asked for more stays   *)
(*      inline ("avoiding heap allocation for small sizes")                         *)
(*   D4 once on the heap it stays there, and its capacity never shrinks, under      *)
(*      push/emplace/pop/resize/reserve/erase ("until clear() is called")           *)
(*   D5 clear() returns to inline storage      D6 reserve(n) gives capacity >= n     *)
(* The second parameter h of every modifying action is the storage outcome:         *)
(* h.on = FALSE (model checking): the outcome is the implementation's current       *)
(* policy (doubling on push, exact on reserve/resize/copy, stolen block on move),   *)
(* and TLC asserts that this policy satisfies D1-D6; h.on = TRUE (trace             *)
(* validation): the outcome is what the real object reported, and the step is       *)
(* rejected unless it satisfies D1-D6.  A different growth policy is therefore      *)
(* accepted, a broken one is not.                                                   *)
(*                                                                                *)
(* The set of live element objects is a function of this state: exactly           *)
(* Len(el[o]) objects live in the storage of an "ok" object, none in a "none"     *)
(* slot, and nothing is live anywhere once every object is destroyed.  The trace  *)
(* specification (SmallVecTrace.tla) compares that with the address-keyed         *)
(* registry of the tracked element type after every operation.                    *)
EXTENDS Integers, Sequences, FiniteSets, TLC

CONSTANTS Objs,        \* set of object names (strings)
          DefaultVal   \* id of a value-initialised element

VARIABLES N,           \* inline capacity (a variable so that a trace can re-initialise it)
          st, el, heap, cap,
          steps,       \* operations still allowed (model checking bound); -1 = unbounded
          cfg          \* name of the model-checking configuration; not read by any action

vars == <<N, st, el, heap, cap, steps, cfg>>

InitWith(n, budget, c) ==
  /\ N = n
  /\ st = [o \in Objs |-> "none"]
  /\ el = [o \in Objs |-> <<>>]
  /\ heap = [o \in Objs |-> FALSE]
  /\ cap = [o \in Objs |-> 0]
  /\ steps = budget
  /\ cfg = c

\* ------------------------------------------------------------------ helpers
Tick == /\ N > 0 /\ steps # 0
        /\ steps' = (IF steps < 0 THEN steps ELSE steps - 1)
        /\ UNCHANGED <<N, cfg>>

Sz(o) == Len(el[o])
Rep(n, v) == [i \in 1 .. n |-> v]
Last(s) == s[Len(s)]
Front(s) == SubSeq(s, 1, Len(s) - 1)
RemoveAt(s, i) == SubSeq(s, 1, i - 1) \o SubSeq(s, i + 1, Len(s))     \* i is 1-based
Max(a, b) == IF a > b THEN a ELSE b

NoHint == [on |-> FALSE, hc |-> <<>>]

\* ------------------------------------------------------------------ storage: current policy
\* ensureCapacity(want)
Ensure(o, want) ==
  IF ~heap[o]
    THEN (IF want <= N THEN <<FALSE, N>> ELSE <<TRUE, want>>)
    ELSE (IF want > cap[o] THEN <<TRUE, want>> ELSE <<TRUE, cap[o]>>)
\* room for one more element (emplace_back)
Grow1(o) ==
  IF ~heap[o]
    THEN (IF Sz(o) < N THEN <<FALSE, N>> ELSE <<TRUE, 2 * N>>)
    ELSE (IF Sz(o) = cap[o] THEN <<TRUE, 2 * cap[o]>> ELSE <<TRUE, cap[o]>>)
\* a freshly constructed / cleared / assigned object that must hold k elements
Fresh(k) == IF k <= N THEN <<FALSE, N>> ELSE <<TRUE, k>>
Keep(o) == <<heap[o], cap[o]>>
Steal(s) == IF heap[s] THEN <<TRUE, cap[s]>> ELSE <<FALSE, N>>

\* ------------------------------------------------------------------ storage: documented rules
\* outcome hc = <<heap', cap'>> of an operation of the given kind on o that must hold `need` elements
Allowed(o, kind, need, hc) ==
  /\ hc[1] \in BOOLEAN /\ hc[2] \in Nat
  /\ need <= hc[2]                                                   \* D1 (and D6 for reserve)
  /\ (~hc[1] => hc[2] = N)                                           \* D2
  /\ CASE kind = "fresh" -> (need <= N => ~hc[1])                    \* D3
       [] kind = "keep"  -> (IF heap[o] THEN hc[1] /\ hc[2] >= cap[o]   \* D4
                                        ELSE (need <= N => ~hc[1]))  \* D3
       [] kind = "clear" -> ~hc[1]                                   \* D5
       [] kind = "any"   -> TRUE                                     \* assignment / move: D1, D2 only

\* the storage outcome of the step: the policy (checked against the rules) or the observed one
Stor(o, h, pol) == IF h.on THEN h.hc[o] ELSE pol
Rule(o, h, kind, need, hc) ==
  IF h.on THEN Allowed(o, kind, need, hc)
          ELSE Assert(Allowed(o, kind, need, hc),
                      <<"storage policy violates the documented rules", o, kind, need, hc>>)

\* object o becomes "ok" with contents e and storage hc = <<heap, cap>>
Put(o, e, hc) ==
  /\ st' = [st EXCEPT ![o] = "ok"]
  /\ el' = [el EXCEPT ![o] = e]
  /\ heap' = [heap EXCEPT ![o] = hc[1]]
  /\ cap' = [cap EXCEPT ![o] = hc[2]]

\* o becomes "ok" with contents e; storage by policy `pol` or as observed, must obey the rules
Set(o, h, e, kind, need, pol) ==
  LET hc == Stor(o, h, pol) IN Rule(o, h, kind, need, hc) /\ Put(o, e, hc)

\* destination d becomes "ok" (e, storage) and source s becomes moved-from
SetMove(d, s, h, e, pol) ==
  LET hc == Stor(d, h, pol) IN
  /\ Rule(d, h, "any", Len(e), hc)
  /\ st' = [st EXCEPT ![d] = "ok", ![s] = "moved"]
  /\ el' = [el EXCEPT ![d] = e, ![s] = <<>>]
  /\ heap' = [heap EXCEPT ![d] = hc[1], ![s] = FALSE]
  /\ cap' = [cap EXCEPT ![d] = hc[2], ![s] = N]

Same == UNCHANGED <<st, el, heap, cap>>

Ok(o) == o \in Objs /\ st[o] = "ok"
Valid(o) == o \in Objs /\ st[o] \in {"ok", "moved"}
IsNat(x) == x \in Nat

\* ------------------------------------------------------------------ constructors / destructor
CtorDefault(c, h) ==           \* SmallVector()
  /\ Len(c) = 1 /\ c[1] \in Objs /\ st[c[1]] = "none"
  /\ Set(c[1], h, <<>>, "fresh", 0, Fresh(0)) /\ Tick

CtorCount(c, h) ==             \* SmallVector(count)
  /\ Len(c) = 2 /\ c[1] \in Objs /\ st[c[1]] = "none" /\ IsNat(c[2])
  /\ Set(c[1], h, Rep(c[2], DefaultVal), "fresh", c[2], Fresh(c[2])) /\ Tick

CtorFill(c, h) ==              \* SmallVector(count, value)
  /\ Len(c) = 3 /\ c[1] \in Objs /\ st[c[1]] = "none" /\ IsNat(c[2])
  /\ Set(c[1], h, Rep(c[2], c[3]), "fresh", c[2], Fresh(c[2])) /\ Tick

CtorInit(c, h) ==              \* SmallVector{1, 2, ..., n}
  /\ Len(c) = 2 /\ c[1] \in Objs /\ st[c[1]] = "none" /\ IsNat(c[2])
  /\ Set(c[1], h, [i \in 1 .. c[2] |-> i], "fresh", c[2], Fresh(c[2])) /\ Tick

CopyCtor(c, h) ==              \* SmallVector d(s)
  /\ Len(c) = 2 /\ c[1] \in Objs /\ st[c[1]] = "none" /\ Ok(c[2])
  /\ Set(c[1], h, el[c[2]], "fresh", Sz(c[2]), Fresh(Sz(c[2]))) /\ Tick

MoveCtor(c, h) ==              \* SmallVector d(std::move(s))
  /\ Len(c) = 2 /\ c[1] \in Objs /\ st[c[1]] = "none" /\ Ok(c[2])
  /\ SetMove(c[1], c[2], h, el[c[2]], Steal(c[2])) /\ Tick

Destroy(c) ==                  \* ~SmallVector()
  /\ Len(c) = 1 /\ Valid(c[1])
  /\ st' = [st EXCEPT ![c[1]] = "none"]
  /\ el' = [el EXCEPT ![c[1]] = <<>>]
  /\ heap' = [heap EXCEPT ![c[1]] = FALSE]
  /\ cap' = [cap EXCEPT ![c[1]] = 0]
  /\ Tick

\* ------------------------------------------------------------------ assignment
CopyAssign(c, h) ==            \* d = s  (d may be moved-from; d = d is a no-op)
  /\ Len(c) = 2 /\ Valid(c[1]) /\ Ok(c[2])
  /\ (IF c[1] = c[2] THEN Same
                     ELSE Set(c[1], h, el[c[2]], "any", Sz(c[2]), Fresh(Sz(c[2]))))
  /\ Tick

MoveAssign(c, h) ==            \* d = std::move(s); self-move leaves d valid but unspecified
  /\ Len(c) = 2 /\ Valid(c[1]) /\ Ok(c[2])
  /\ (IF c[1] = c[2]
        THEN /\ st' = [st EXCEPT ![c[1]] = "moved"]
             /\ el' = [el EXCEPT ![c[1]] = <<>>]
             /\ heap' = [heap EXCEPT ![c[1]] = FALSE]
             /\ cap' = [cap EXCEPT ![c[1]] = N]
        ELSE SetMove(c[1], c[2], h, el[c[2]], Steal(c[2])))
  /\ Tick

\* ------------------------------------------------------------------ modifiers
Push(o, h, v) == Set(o, h, Append(el[o], v), "keep", Sz(o) + 1, Grow1(o))

PushBackCopy(c, h) == /\ Len(c) = 2 /\ Ok(c[1]) /\ Push(c[1], h, c[2]) /\ Tick   \* push_back(const T&)
PushBackMove(c, h) == /\ Len(c) = 2 /\ Ok(c[1]) /\ Push(c[1], h, c[2]) /\ Tick   \* push_back(T&&)
EmplaceBack(c, h)  == /\ Len(c) = 2 /\ Ok(c[1]) /\ Push(c[1], h, c[2]) /\ Tick   \* emplace_back(args)

PushBackSelf(c, h) ==          \* v.push_back(v[i]): the argument aliases an element
  /\ Len(c) = 2 /\ Ok(c[1]) /\ IsNat(c[2]) /\ c[2] < Sz(c[1])
  /\ Push(c[1], h, el[c[1]][c[2] + 1]) /\ Tick

PopBack(c, h) ==
  /\ Len(c) = 1 /\ Ok(c[1]) /\ Sz(c[1]) > 0
  /\ Set(c[1], h, Front(el[c[1]]), "keep", Sz(c[1]) - 1, Keep(c[1])) /\ Tick

ResizeTo(o, h, n, v) ==
  Set(o, h, (IF n <= Sz(o) THEN SubSeq(el[o], 1, n) ELSE el[o] \o Rep(n - Sz(o), v)),
      "keep", n, (IF n > Sz(o) THEN Ensure(o, n) ELSE Keep(o)))

Resize(c, h) ==                \* resize(count)
  /\ Len(c) = 2 /\ Ok(c[1]) /\ IsNat(c[2]) /\ ResizeTo(c[1], h, c[2], DefaultVal) /\ Tick

ResizeFill(c, h) ==            \* resize(count, value)
  /\ Len(c) = 3 /\ Ok(c[1]) /\ IsNat(c[2]) /\ ResizeTo(c[1], h, c[2], c[3]) /\ Tick

ResizeSelf(c, h) ==            \* resize(count, v[i]): the value aliases an element
  /\ Len(c) = 3 /\ Ok(c[1]) /\ IsNat(c[2]) /\ IsNat(c[3]) /\ c[3] < Sz(c[1])
  /\ ResizeTo(c[1], h, c[2], el[c[1]][c[3] + 1]) /\ Tick

Reserve(c, h) ==
  /\ Len(c) = 2 /\ Ok(c[1]) /\ IsNat(c[2])
  /\ Set(c[1], h, el[c[1]], "keep", Max(Sz(c[1]), c[2]), Ensure(c[1], c[2])) /\ Tick

Clear(c, h) ==                 \* also legal on a moved-from vector
  /\ Len(c) = 1 /\ Valid(c[1])
  /\ Set(c[1], h, <<>>, "clear", 0, <<FALSE, N>>) /\ Tick

Erase(c, h) ==                 \* erase(begin() + i)
  /\ Len(c) = 2 /\ Ok(c[1]) /\ IsNat(c[2]) /\ c[2] < Sz(c[1])
  /\ Set(c[1], h, RemoveAt(el[c[1]], c[2] + 1), "keep", Sz(c[1]) - 1, Keep(c[1])) /\ Tick

SetAt(c, h) ==                 \* v[i] = T(x)
  /\ Len(c) = 3 /\ Ok(c[1]) /\ IsNat(c[2]) /\ c[2] < Sz(c[1])
  /\ Set(c[1], h, [el[c[1]] EXCEPT ![c[2] + 1] = c[3]], "keep", Sz(c[1]), Keep(c[1])) /\ Tick

\* ------------------------------------------------------------------ observers
Obs(c, n) == Len(c) = n /\ Ok(c[1]) /\ Same /\ Tick

At(c)       == Obs(c, 2) /\ IsNat(c[2]) /\ c[2] < Sz(c[1])   \* operator[] and its const overload
FrontOp(c)  == Obs(c, 1) /\ Sz(c[1]) > 0                     \* front() and const front()
BackOp(c)   == Obs(c, 1) /\ Sz(c[1]) > 0                     \* back() and const back()
Size(c)     == Obs(c, 1)
Capacity(c) == Obs(c, 1)
Empty(c)    == Obs(c, 1)
Iterate(c)  == Obs(c, 1)                                     \* begin() .. end()
CIterate(c) == Obs(c, 1)                                     \* cbegin()..cend(), const begin()..end()
Data(c)     == Obs(c, 1)                                     \* data()[i], const data()[i]

\* value(s) the call returns, as a sequence; evaluated in the state BEFORE the call
RetOf(e, c) ==
  LET o == c[1] IN
  CASE e = "At"          -> <<el[o][c[2] + 1], el[o][c[2] + 1]>>
    [] e = "FrontOp"     -> <<el[o][1], el[o][1]>>
    [] e = "BackOp"      -> <<Last(el[o]), Last(el[o])>>
    [] e = "Size"        -> <<Sz(o)>>
    [] e = "Capacity"    -> <<cap[o]>>
    [] e = "Empty"       -> <<IF Sz(o) = 0 THEN 1 ELSE 0>>
    [] e = "Iterate"     -> el[o]
    [] e = "CIterate"    -> el[o] \o el[o]
    [] e = "Data"        -> el[o] \o el[o]
    [] e = "EmplaceBack" -> <<c[2], 1>>   \* the returned reference is the new last element
    [] e = "Erase"       -> <<c[2]>>      \* index of the returned iterator
    [] OTHER             -> <<>>

\* ------------------------------------------------------------------ invariants
TypeOK ==
  /\ N \in Nat /\ steps \in Int
  /\ \A o \in Objs : /\ st[o] \in {"none", "ok", "moved"}
                     /\ heap[o] \in BOOLEAN
                     /\ cap[o] \in Nat

\* size never exceeds capacity; the inline buffer holds exactly N
StorageOK ==
  \A o \in Objs : st[o] = "ok" =>
    /\ Sz(o) <= cap[o]
    /\ (~heap[o] => cap[o] = N)
    /\ (Sz(o) > N => heap[o])

\* slots without an object own nothing
NoneIsEmpty == \A o \in Objs : st[o] = "none" => (el[o] = <<>> /\ ~heap[o] /\ cap[o] = 0)

\* number of live element objects the specification accounts for
RECURSIVE SumSz(_, _, _)
SumSz(S, sf, ef) == IF S = {} THEN 0 ELSE LET o == CHOOSE x \in S : TRUE IN
                      (IF sf[o] = "ok" THEN Len(ef[o]) ELSE 0) + SumSz(S \ {o}, sf, ef)
LiveIn(sf, ef) == SumSz(Objs, sf, ef)
Live == LiveIn(st, el)
LifetimeOK == ((\A o \in Objs : st[o] = "none") => Live = 0) /\ Live >= 0
=============================================================================
