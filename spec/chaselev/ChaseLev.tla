----------------------------- MODULE ChaseLev -----------------------------
(* Implementation-level specification of dispenso::ChaseLevDeque                  *)
(* (dispenso/chase_lev_deque.h), the bounded Chase-Lev work-stealing deque.        *)
(* One action per atomic access AND per std::atomic_thread_fence of the code; the  *)
(* action name is the DISPENSO_VERIF_POINT site placed immediately before it.      *)
(* Non-atomic work between two points (slot reads/writes) belongs to the step that *)
(* begins at the earlier point.  Failure exits are folded into the deciding step.  *)
(* One additional point, StCopy, sits before the copy-out that try_steal_into      *)
(* performs AFTER its successful CAS: in the code it copies a thread-local buffer,  *)
(* so the step only returns the value read before the CAS - but it lets the owner   *)
(* run between the CAS and the copy, which exposes a copy taken from the slot      *)
(* (no longer protected once top has moved) instead of from the local buffer.      *)
(* TLA+ steps are sequentially consistent, so a fence step only advances the pc;   *)
(* it is kept as a step so that every interleaving around the fences is explored   *)
(* and replayed in the real code.                                                  *)
(*                                                                                *)
(* top and bottom are monotone 64-bit counters in the code (bottom is decremented  *)
(* temporarily by pop); slot i of the storage is addressed by index & (cap-1).     *)
(* The element type is trivially copyable (static_assert in the code): slots keep  *)
(* their old bits after a pop/steal, there are no constructors or destructors.     *)
(*                                                                                *)
(* Threads run programs: sequences of operations                                  *)
(*   [op |-> "push", v |-> 3]              try_push        (owner only)            *)
(*   [op |-> "pop" | "popinto", v |-> 0]   try_pop(T&) / try_pop_into (owner only) *)
(*   [op |-> "steal" | "stealinto", ...]   try_steal(T&) / try_steal_into (any)    *)
(*   [op |-> "empty" | "size", ...]        observers (any)                         *)
(* Values are distinct positive integers.  A completed op appends its result to    *)
(* hist[t] as a one-element sequence: <<1>>/<<0>> for push, <<value>> or <<0>> for  *)
(* pop/steal, <<0 or 1>> for empty, <<size>> for size.                             *)
EXTENDS Integers, Sequences, FiniteSets, TLC

CONSTANTS Cap,      \* Capacity (a power of two)
          Threads,  \* set of thread names (strings)
          Prog      \* [Threads -> Seq(op records)]

VARIABLES
  cap, prog,        \* configuration (variables so that a trace can re-initialise them)
  top, bottom,      \* the two atomic words
  slot,             \* slot[i] = bits stored in storage slot i (0 = never written)
  pc, ip, loc,      \* per thread: program counter, index of current op, locals
  hist,             \* ghost: per thread, sequence of results of completed ops
  pushed,           \* ghost: values in the order they were published (bottom store of push)
  taken,            \* ghost: values in the order successful pops/steals linearised
  abs,              \* ghost: the abstract deque, oldest first (top end) ... newest last (bottom end)
  solo,             \* ghost: solo[t] = no other thread stepped / was in flight during t's current op
  soloBad,          \* ghost: a solo (quiescent) op answered differently from the sequential deque
  ownBad,           \* ghost: an owner push/pop decision differed from the abstract deque at the
                    \*        instant of its deciding access
  orderBad          \* ghost: a pop did not return the newest / a steal not the oldest element of
                    \*        the abstract deque at its linearisation point

shared == <<top, bottom, slot>>
ghost  == <<hist, pushed, taken, abs, solo, soloBad, ownBad, orderBad>>
vars   == <<cap, prog, top, bottom, slot, pc, ip, loc, hist, pushed, taken, abs, solo, soloBad,
            ownBad, orderBad>>

Slots == 0 .. (cap - 1)
Idx(i) == i % cap                     \* static_cast<size_t>(index) & kMask

PopOps == {"pop", "popinto"}
StealOps == {"steal", "stealinto"}
ObsOps == {"empty", "size"}
OwnerOps == {"push"} \cup PopOps

FirstPcOf(o) ==
  CASE o.op = "push"      -> "PushLdBot"
    [] o.op \in PopOps    -> "PopLdBot"
    [] o.op \in StealOps  -> "StLdTop"
    [] o.op \in ObsOps    -> "ObsLdBot"

FirstPc(t, i) == IF i > Len(prog[t]) THEN "Done" ELSE FirstPcOf(prog[t][i])
FirstPcs == {"PushLdBot", "PopLdBot", "StLdTop", "ObsLdBot"}

Op(t) == prog[t][ip[t]]
InFlight(u) == pc[u] \notin (FirstPcs \cup {"Start", "Done"})

EmptyLoc == [b |-> 0, t |-> 0, got |-> 0]

InitWith(c, p) ==
  /\ cap = c /\ prog = p
  /\ top = 0 /\ bottom = 0
  /\ slot = [i \in 0 .. (c - 1) |-> 0]
  /\ pc = [t \in DOMAIN p |-> "Start"]
  /\ ip = [t \in DOMAIN p |-> 1]
  /\ loc = [t \in DOMAIN p |-> EmptyLoc]
  /\ hist = [t \in DOMAIN p |-> <<>>]
  /\ pushed = <<>> /\ taken = <<>> /\ abs = <<>>
  /\ solo = [t \in DOMAIN p |-> FALSE]
  /\ soloBad = FALSE /\ ownBad = FALSE /\ orderBad = FALSE

Init == InitWith(Cap, Prog)

T == DOMAIN prog

\* ---------------------------------------------------------------- bookkeeping helpers
Goto(t, l) == pc' = [pc EXCEPT ![t] = l]

NoOtherInFlight(t) == \A w \in T \ {t} : ~InFlight(w)

\* every step of t spoils the solo flag of all the others; the first step of an op sets t's own
Touch(t, first) ==
  solo' = [u \in T |->
             IF u = t THEN (IF first THEN NoOtherInFlight(t) ELSE solo[t]) ELSE FALSE]

Last(s) == s[Len(s)]
Front(s) == SubSeq(s, 1, Len(s) - 1)

\* what a sequential bounded deque holding abs answers to operation o
SeqAnswer(o) ==
  CASE o.op = "push"     -> <<IF Len(abs) < cap THEN 1 ELSE 0>>
    [] o.op \in PopOps   -> <<IF abs # <<>> THEN Last(abs) ELSE 0>>
    [] o.op \in StealOps -> <<IF abs # <<>> THEN Head(abs) ELSE 0>>
    [] o.op = "empty"    -> <<IF abs = <<>> THEN 1 ELSE 0>>
    [] o.op = "size"     -> <<Len(abs)>>

\* Complete the current op of t with result r.  Every op (except a successful try_steal_into, see
\* StCas/StCopy) changes the abstract deque only in its finishing step, so the UNPRIMED abs is the
\* deque before the op's own effect; if the op ran solo it is also the deque at the start of the op.
Finish(t, r) ==
  /\ hist' = [hist EXCEPT ![t] = Append(@, r)]
  /\ ip' = [ip EXCEPT ![t] = @ + 1]
  /\ Goto(t, FirstPc(t, ip[t] + 1))
  /\ soloBad' = (soloBad \/ (solo[t] /\ r # SeqAnswer(Op(t))))

\* same, for an op whose quiescent answer was already judged at its linearisation step
FinishJudged(t, r) ==
  /\ hist' = [hist EXCEPT ![t] = Append(@, r)]
  /\ ip' = [ip EXCEPT ![t] = @ + 1]
  /\ Goto(t, FirstPc(t, ip[t] + 1))

Start(t) ==
  /\ pc[t] = "Start"
  /\ Goto(t, FirstPc(t, 1))
  /\ UNCHANGED <<cap, prog, shared, ip, loc, ghost>>

\* ------------------------------------------------------------------- try_push (owner)
PushLdBot(t) ==
  /\ pc[t] = "PushLdBot"
  /\ loc' = [loc EXCEPT ![t].b = bottom]
  /\ Goto(t, "PushLdTop")
  /\ Touch(t, TRUE)
  /\ UNCHANGED <<cap, prog, shared, ip, hist, pushed, taken, abs, soloBad, ownBad, orderBad>>

\* loads top; b - t >= Capacity -> return false; else writes the slot
PushLdTop(t) ==
  /\ pc[t] = "PushLdTop"
  /\ Touch(t, FALSE)
  /\ LET b == loc[t].b
         isFull == b - top >= cap
     IN /\ ownBad' = (ownBad \/ (isFull # (Len(abs) >= cap)))
        /\ IF isFull
             THEN /\ Finish(t, <<0>>)
                  /\ UNCHANGED slot
             ELSE /\ slot' = [slot EXCEPT ![Idx(b)] = Op(t).v]
                  /\ Goto(t, "PushStBot")
                  /\ UNCHANGED <<ip, hist, soloBad>>
  /\ UNCHANGED <<cap, prog, top, bottom, loc, pushed, taken, abs, orderBad>>

PushStBot(t) ==
  /\ pc[t] = "PushStBot"
  /\ Touch(t, FALSE)
  /\ bottom' = loc[t].b + 1
  /\ pushed' = Append(pushed, Op(t).v)
  /\ abs' = Append(abs, Op(t).v)
  /\ Finish(t, <<1>>)
  /\ UNCHANGED <<cap, prog, top, slot, loc, taken, ownBad, orderBad>>

\* ------------------------------------------------- try_pop(T&) / try_pop_into (owner)
PopLdBot(t) ==
  /\ pc[t] = "PopLdBot"
  /\ loc' = [loc EXCEPT ![t].b = bottom - 1, ![t].got = 0]
  /\ Goto(t, "PopStBot")
  /\ Touch(t, TRUE)
  /\ UNCHANGED <<cap, prog, shared, ip, hist, pushed, taken, abs, soloBad, ownBad, orderBad>>

PopStBot(t) ==
  /\ pc[t] = "PopStBot"
  /\ Touch(t, FALSE)
  /\ bottom' = loc[t].b
  /\ Goto(t, "PopFence")
  /\ UNCHANGED <<cap, prog, top, slot, ip, loc, hist, pushed, taken, abs, soloBad, ownBad, orderBad>>

PopFence(t) ==
  /\ pc[t] = "PopFence"
  /\ Touch(t, FALSE)
  /\ Goto(t, "PopLdTop")
  /\ UNCHANGED <<cap, prog, shared, ip, loc, hist, pushed, taken, abs, soloBad, ownBad, orderBad>>

\* loads top.  t > b: empty, go restore bottom.  t < b: more than one element, the pop succeeds
\* here (linearisation point) with slot[b].  t = b: last element, race decided by PopCas; try_pop
\* reads the slot now, try_pop_into reads it after restoring bottom.
PopLdTop(t) ==
  /\ pc[t] = "PopLdTop"
  /\ Touch(t, FALSE)
  /\ LET b == loc[t].b
         tp == top
         v == slot[Idx(b)]
     IN CASE tp > b ->
               /\ ownBad' = (ownBad \/ abs # <<>>)
               /\ loc' = [loc EXCEPT ![t].t = tp]
               /\ Goto(t, "PopEmptyStBot")
               /\ UNCHANGED <<ip, hist, soloBad, taken, abs, orderBad>>
          [] tp < b ->
               /\ ownBad' = (ownBad \/ abs = <<>>)
               /\ orderBad' = (orderBad \/ abs = <<>> \/ v # Last(abs))
               /\ abs' = (IF abs = <<>> THEN abs ELSE Front(abs))
               /\ taken' = Append(taken, v)
               /\ loc' = [loc EXCEPT ![t].t = tp, ![t].got = v]
               /\ Finish(t, <<v>>)
          [] tp = b ->
               /\ loc' = [loc EXCEPT ![t].t = tp, ![t].got = IF Op(t).op = "pop" THEN v ELSE 0]
               /\ Goto(t, "PopLastStBot")
               /\ UNCHANGED <<ip, hist, soloBad, taken, abs, ownBad, orderBad>>
  /\ UNCHANGED <<cap, prog, shared, pushed>>

PopEmptyStBot(t) ==
  /\ pc[t] = "PopEmptyStBot"
  /\ Touch(t, FALSE)
  /\ bottom' = loc[t].b + 1
  /\ Finish(t, <<0>>)
  /\ UNCHANGED <<cap, prog, top, slot, loc, pushed, taken, abs, ownBad, orderBad>>

PopLastStBot(t) ==
  /\ pc[t] = "PopLastStBot"
  /\ Touch(t, FALSE)
  /\ bottom' = loc[t].b + 1
  /\ loc' = [loc EXCEPT ![t].got = IF Op(t).op = "popinto" THEN slot[Idx(loc[t].b)] ELSE @]
  /\ Goto(t, "PopCas")
  /\ UNCHANGED <<cap, prog, top, slot, ip, hist, pushed, taken, abs, soloBad, ownBad, orderBad>>

PopCas(t) ==
  /\ pc[t] = "PopCas"
  /\ Touch(t, FALSE)
  /\ (IF top = loc[t].t
        THEN /\ top' = top + 1
             /\ ownBad' = (ownBad \/ abs = <<>>)
             /\ orderBad' = (orderBad \/ abs = <<>> \/ loc[t].got # Last(abs))
             /\ abs' = (IF abs = <<>> THEN abs ELSE Front(abs))
             /\ taken' = Append(taken, loc[t].got)
             /\ Finish(t, <<loc[t].got>>)
        ELSE /\ ownBad' = (ownBad \/ abs # <<>>)       \* lost the last element: it is gone
             /\ Finish(t, <<0>>)
             /\ UNCHANGED <<top, abs, taken, orderBad>>)
  /\ UNCHANGED <<cap, prog, bottom, slot, loc, pushed>>

\* --------------------------------------------- try_steal(T&) / try_steal_into (any thread)
StLdTop(t) ==
  /\ pc[t] = "StLdTop"
  /\ loc' = [loc EXCEPT ![t].t = top, ![t].got = 0]
  /\ Goto(t, "StFence")
  /\ Touch(t, TRUE)
  /\ UNCHANGED <<cap, prog, shared, ip, hist, pushed, taken, abs, soloBad, ownBad, orderBad>>

StFence(t) ==
  /\ pc[t] = "StFence"
  /\ Touch(t, FALSE)
  /\ Goto(t, "StLdBot")
  /\ UNCHANGED <<cap, prog, shared, ip, loc, hist, pushed, taken, abs, soloBad, ownBad, orderBad>>

\* loads bottom; t >= b -> return false; else tentative read of slot[t]
StLdBot(t) ==
  /\ pc[t] = "StLdBot"
  /\ Touch(t, FALSE)
  /\ (IF loc[t].t >= bottom
        THEN Finish(t, <<0>>) /\ UNCHANGED loc
        ELSE /\ loc' = [loc EXCEPT ![t].got = slot[Idx(loc[t].t)]]
             /\ Goto(t, "StCas")
             /\ UNCHANGED <<ip, hist, soloBad>>)
  /\ UNCHANGED <<cap, prog, shared, pushed, taken, abs, ownBad, orderBad>>

StCas(t) ==
  /\ pc[t] = "StCas"
  /\ Touch(t, FALSE)
  /\ (IF top = loc[t].t
        THEN /\ top' = top + 1
             /\ orderBad' = (orderBad \/ abs = <<>> \/ loc[t].got # Head(abs))
             /\ abs' = (IF abs = <<>> THEN abs ELSE Tail(abs))
             /\ taken' = Append(taken, loc[t].got)
             /\ (IF Op(t).op = "steal"
                   THEN Finish(t, <<loc[t].got>>)
                   ELSE /\ soloBad' = (soloBad \/ (solo[t] /\ <<loc[t].got>> # SeqAnswer(Op(t))))
                        /\ Goto(t, "StCopy")
                        /\ UNCHANGED <<ip, hist>>)
        ELSE /\ Finish(t, <<0>>)
             /\ UNCHANGED <<top, abs, taken, orderBad>>)
  /\ UNCHANGED <<cap, prog, bottom, slot, loc, pushed, ownBad>>

\* try_steal_into only: copy the tentative read (a thread-local buffer) to the caller's storage
StCopy(t) ==
  /\ pc[t] = "StCopy"
  /\ Touch(t, FALSE)
  /\ FinishJudged(t, <<loc[t].got>>)
  /\ UNCHANGED <<cap, prog, shared, loc, pushed, taken, abs, soloBad, ownBad, orderBad>>

\* ------------------------------------------------------------------ empty() / size()
ObsLdBot(t) ==
  /\ pc[t] = "ObsLdBot"
  /\ loc' = [loc EXCEPT ![t].b = bottom]
  /\ Goto(t, "ObsLdTop")
  /\ Touch(t, TRUE)
  /\ UNCHANGED <<cap, prog, shared, ip, hist, pushed, taken, abs, soloBad, ownBad, orderBad>>

ObsLdTop(t) ==
  /\ pc[t] = "ObsLdTop"
  /\ Touch(t, FALSE)
  /\ LET b == loc[t].b
         r == CASE Op(t).op = "empty" -> (IF b <= top THEN 1 ELSE 0)
                [] Op(t).op = "size"  -> (IF b > top THEN b - top ELSE 0)
     IN Finish(t, <<r>>)
  /\ UNCHANGED <<cap, prog, shared, loc, pushed, taken, abs, ownBad, orderBad>>

\* (the disjunction is spelled out inside Next so that TLC labels every edge of the dumped state
\*  graph with the action name and its thread argument)
Next ==
  \E t \in Threads :
     \/ Start(t)
     \/ PushLdBot(t) \/ PushLdTop(t) \/ PushStBot(t)
     \/ PopLdBot(t) \/ PopStBot(t) \/ PopFence(t) \/ PopLdTop(t)
     \/ PopEmptyStBot(t) \/ PopLastStBot(t) \/ PopCas(t)
     \/ StLdTop(t) \/ StFence(t) \/ StLdBot(t) \/ StCas(t) \/ StCopy(t)
     \/ ObsLdBot(t) \/ ObsLdTop(t)

Spec == Init /\ [][Next]_vars

\* ============================================================================ properties
Range(s) == {s[i] : i \in 1 .. Len(s)}
AllDone == \A t \in T : pc[t] = "Done"

\* R1: the documented contract - one owner thread, distinct tagged values
HasOp(t, S) == \E i \in 1 .. Len(prog[t]) : prog[t][i].op \in S
ProgOK ==
  /\ Cardinality({t \in T : HasOp(t, OwnerOps)}) <= 1
  /\ cap >= 1

\* While the owner is inside a pop, between its store of the decremented bottom and the store /
\* decision that ends the attempt, the element at the old bottom-1 still belongs to the deque.
PopWindow == \E t \in T : pc[t] \in {"PopFence", "PopLdTop", "PopEmptyStBot", "PopLastStBot"}
EffBottom == IF PopWindow THEN bottom + 1 ELSE bottom

\* (C36) never holds more than its capacity
Bounded ==
  /\ top >= 0
  /\ Len(abs) <= cap
  /\ bottom - top <= cap
  /\ EffBottom - top >= 0
\* (C36) the abstract deque is exactly the storage between top and bottom, oldest at top
AbsMatches ==
  /\ Len(abs) = EffBottom - top
  /\ \A k \in 1 .. Len(abs) : abs[k] = slot[Idx(top + k - 1)]
\* (C36) every pushed element is returned by at most one successful pop/steal; the others are
\* still in the deque (exactly one at quiescence once the deque is drained); nothing is invented
ExactlyOnce ==
  /\ Cardinality(Range(pushed)) = Len(pushed)
  /\ Cardinality(Range(taken)) = Len(taken)
  /\ Cardinality(Range(abs)) = Len(abs)
  /\ Range(taken) \cap Range(abs) = {}
  /\ Range(taken) \cup Range(abs) = Range(pushed)
  /\ 0 \notin Range(taken)
\* (C36) pops return the newest, steals the oldest remaining element at their linearisation
OrderOK == ~orderBad
\* (C36) the owner's push fails iff full, its pop fails iff empty, at the deciding instant
OwnerExact == ~ownBad
\* (C36) in a quiescent state push/pop/steal/empty/size answer exactly like a sequential deque
QuiescentExact == ~soloBad
\* (C36) what the operations returned is what was published / taken
RECURSIVE PushCat(_, _), TakeSet(_, _)
PushCat(t, j) ==
  IF j = 0 THEN <<>>
  ELSE PushCat(t, j - 1) \o
       (IF prog[t][j].op = "push" /\ hist[t][j] = <<1>> THEN <<prog[t][j].v>> ELSE <<>>)
TakeSet(t, j) ==
  IF j = 0 THEN {}
  ELSE TakeSet(t, j - 1) \cup
       (IF prog[t][j].op \in (PopOps \cup StealOps) /\ hist[t][j] # <<0>> THEN {hist[t][j][1]} ELSE {})
NumTakes(t) == Cardinality({j \in 1 .. Len(hist[t]) :
                              prog[t][j].op \in (PopOps \cup StealOps) /\ hist[t][j] # <<0>>})
RECURSIVE SumTakes(_)
SumTakes(S) == IF S = {} THEN 0 ELSE LET t == CHOOSE u \in S : TRUE IN NumTakes(t) + SumTakes(S \ {t})
\* a try_steal_into that has won its CAS but not yet copied the value out
Copying == {t \in T : pc[t] = "StCopy"}
ResultsMatch ==
  /\ \A t \in T : PushCat(t, Len(hist[t])) \in {<<>>, pushed}
  /\ (pushed # <<>>) => \E t \in T : PushCat(t, Len(hist[t])) = pushed
  /\ UNION {TakeSet(t, Len(hist[t])) : t \in T} \cup {loc[t].got : t \in Copying} = Range(taken)
  /\ SumTakes(T) + Cardinality(Copying) = Len(taken)
\* observers never report more than capacity(), even when racing
ObserversInRange ==
  \A t \in T : \A j \in 1 .. Len(hist[t]) :
     (prog[t][j].op = "size") => (hist[t][j][1] >= 0 /\ hist[t][j][1] <= cap)
\* (C36) at quiescence the words describe exactly the abstract deque (quiescent emptiness)
QuiescentAccounting ==
  AllDone => /\ bottom - top = Len(abs)
             /\ (bottom = top) = (Range(pushed) = Range(taken))

TypeOK ==
  /\ cap \in Nat /\ top \in Nat /\ bottom \in Int
  /\ \A i \in Slots : slot[i] \in Nat
  /\ \A t \in T : ip[t] \in 1 .. (Len(prog[t]) + 1)
==========================================================================
