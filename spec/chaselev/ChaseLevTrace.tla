--------------------------- MODULE ChaseLevTrace ---------------------------
(* Trace validation for ChaseLev.tla: every line of the ndjson trace recorded     *)
(* from the real ChaseLevDeque under the controlled scheduler must be explained    *)
(* by the specification action of the same name taken by the same thread, and the  *)
(* projected state (top, bottom, the bits of every storage slot) and the value     *)
(* returned to the caller must equal the specification's.  All invariants of       *)
(* ChaseLev.tla are evaluated in every state of the validated behaviour.           *)
EXTENDS ChaseLev, Json, IOUtils

TraceLog == ndJsonDeserialize(IOEnv.TRACE)

VARIABLE l   \* next line to consume

tvars == <<vars, l>>

\* the Reset line carries the number of storage slots and capacity(): bind the two
ResetOK(ev) == ev.cap >= 1 /\ ev.slots = ev.cap

TraceInit ==
  /\ l = 2
  /\ TraceLog[1].e = "Reset"
  /\ ResetOK(TraceLog[1])
  /\ InitWith(TraceLog[1].cap, TraceLog[1].prog)

ResetTo(c, p) ==
  /\ cap' = c /\ prog' = p
  /\ top' = 0 /\ bottom' = 0
  /\ slot' = [i \in 0 .. (c - 1) |-> 0]
  /\ pc' = [t \in DOMAIN p |-> "Start"]
  /\ ip' = [t \in DOMAIN p |-> 1]
  /\ loc' = [t \in DOMAIN p |-> EmptyLoc]
  /\ hist' = [t \in DOMAIN p |-> <<>>]
  /\ pushed' = <<>> /\ taken' = <<>> /\ abs' = <<>>
  /\ solo' = [t \in DOMAIN p |-> FALSE]
  /\ soloBad' = FALSE /\ ownBad' = FALSE /\ orderBad' = FALSE

Dispatch(e, t) ==
  CASE e = "Start"         -> Start(t)
    [] e = "PushLdBot"     -> PushLdBot(t)
    [] e = "PushLdTop"     -> PushLdTop(t)
    [] e = "PushStBot"     -> PushStBot(t)
    [] e = "PopLdBot"      -> PopLdBot(t)
    [] e = "PopStBot"      -> PopStBot(t)
    [] e = "PopFence"      -> PopFence(t)
    [] e = "PopLdTop"      -> PopLdTop(t)
    [] e = "PopEmptyStBot" -> PopEmptyStBot(t)
    [] e = "PopLastStBot"  -> PopLastStBot(t)
    [] e = "PopCas"        -> PopCas(t)
    [] e = "StLdTop"       -> StLdTop(t)
    [] e = "StFence"       -> StFence(t)
    [] e = "StLdBot"       -> StLdBot(t)
    [] e = "StCas"         -> StCas(t)
    [] e = "StCopy"        -> StCopy(t)
    [] e = "ObsLdBot"      -> ObsLdBot(t)
    [] e = "ObsLdTop"      -> ObsLdTop(t)
    [] OTHER               -> FALSE

ProjOK(ev) ==
  /\ top' = ev.s.top
  /\ bottom' = ev.s.bottom
  /\ Len(ev.s.slot) = cap
  /\ \A i \in 0 .. (cap - 1) : slot'[i] = ev.s.slot[i + 1]

TraceStep ==
  /\ l <= Len(TraceLog)
  /\ LET ev == TraceLog[l] IN
       \/ /\ ev.e = "Reset"
          /\ ResetOK(ev)
          /\ ResetTo(ev.cap, ev.prog)
       \/ /\ ev.e # "Reset"
          /\ {"t", "r", "s"} \subseteq DOMAIN ev     \* a Diverged / Deadlock / stuck line is rejected
          /\ ev.t \in T
          /\ Dispatch(ev.e, ev.t)
          /\ ProjOK(ev)
          /\ ev.r = (IF ip'[ev.t] > ip[ev.t] THEN hist'[ev.t][Len(hist'[ev.t])] ELSE <<>>)
  /\ l' = l + 1

TraceSpec == TraceInit /\ [][TraceStep]_tvars

\* One state per consumed line (TraceInit consumes line 1).
TraceAccepted ==
  LET d == TLCGet("stats").diameter IN
  IF d = Len(TraceLog) THEN TRUE
  ELSE /\ PrintT(<<"TRACE_REJECTED_AT_LINE", d + 1, "OF", Len(TraceLog)>>)
       /\ PrintT(<<"OFFENDING", TraceLog[d + 1]>>)
       /\ FALSE
==========================================================================
