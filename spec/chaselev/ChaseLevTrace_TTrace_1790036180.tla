---- MODULE ChaseLevTrace_TTrace_1790036180 ----
EXTENDS Sequences, TLCExt, Toolbox, Naturals, TLC, ChaseLevTrace

_expression ==
    LET ChaseLevTrace_TEExpression == INSTANCE ChaseLevTrace_TEExpression
    IN ChaseLevTrace_TEExpression!expression
----

_trace ==
    LET ChaseLevTrace_TETrace == INSTANCE ChaseLevTrace_TETrace
    IN ChaseLevTrace_TETrace!trace
----

_inv ==
    ~(
        TLCGet("level") = Len(_TETrace)
        /\
        loc = ([o |-> [t |-> 0, b |-> 0, got |-> 0], s1 |-> [t |-> 0, b |-> 0, got |-> 0], s2 |-> [t |-> 0, b |-> 0, got |-> 0]])
        /\
        bottom = (0)
        /\
        orderBad = (FALSE)
        /\
        ip = ([o |-> 5, s1 |-> 1, s2 |-> 1])
        /\
        solo = ([o |-> TRUE, s1 |-> FALSE, s2 |-> FALSE])
        /\
        slot = ((0 :> 1 @@ 1 :> 2))
        /\
        l = (19)
        /\
        prog = ([o |-> <<[op |-> "push", v |-> 1], [op |-> "push", v |-> 2], [op |-> "push", v |-> 3], [op |-> "pop", v |-> 0], [op |-> "popinto", v |-> 0], [op |-> "empty", v |-> 0]>>, s1 |-> <<[op |-> "steal", v |-> 0]>>, s2 |-> <<[op |-> "stealinto", v |-> 0]>>])
        /\
        hist = ([o |-> <<<<1>>, <<1>>, <<0>>, <<2>>>>, s1 |-> <<>>, s2 |-> <<>>])
        /\
        pc = ([o |-> "PopLastStBot", s1 |-> "Start", s2 |-> "Start"])
        /\
        cap = (2)
        /\
        abs = (<<1>>)
        /\
        top = (0)
        /\
        ownBad = (FALSE)
        /\
        taken = (<<2>>)
        /\
        pushed = (<<1, 2>>)
        /\
        soloBad = (FALSE)
    )
----

_init ==
    /\ prog = _TETrace[1].prog
    /\ soloBad = _TETrace[1].soloBad
    /\ loc = _TETrace[1].loc
    /\ bottom = _TETrace[1].bottom
    /\ l = _TETrace[1].l
    /\ pc = _TETrace[1].pc
    /\ top = _TETrace[1].top
    /\ slot = _TETrace[1].slot
    /\ hist = _TETrace[1].hist
    /\ cap = _TETrace[1].cap
    /\ pushed = _TETrace[1].pushed
    /\ abs = _TETrace[1].abs
    /\ solo = _TETrace[1].solo
    /\ taken = _TETrace[1].taken
    /\ ip = _TETrace[1].ip
    /\ ownBad = _TETrace[1].ownBad
    /\ orderBad = _TETrace[1].orderBad
----

_next ==
    /\ \E i,j \in DOMAIN _TETrace:
        /\ \/ /\ j = i + 1
              /\ i = TLCGet("level")
        /\ prog  = _TETrace[i].prog
        /\ prog' = _TETrace[j].prog
        /\ soloBad  = _TETrace[i].soloBad
        /\ soloBad' = _TETrace[j].soloBad
        /\ loc  = _TETrace[i].loc
        /\ loc' = _TETrace[j].loc
        /\ bottom  = _TETrace[i].bottom
        /\ bottom' = _TETrace[j].bottom
        /\ l  = _TETrace[i].l
        /\ l' = _TETrace[j].l
        /\ pc  = _TETrace[i].pc
        /\ pc' = _TETrace[j].pc
        /\ top  = _TETrace[i].top
        /\ top' = _TETrace[j].top
        /\ slot  = _TETrace[i].slot
        /\ slot' = _TETrace[j].slot
        /\ hist  = _TETrace[i].hist
        /\ hist' = _TETrace[j].hist
        /\ cap  = _TETrace[i].cap
        /\ cap' = _TETrace[j].cap
        /\ pushed  = _TETrace[i].pushed
        /\ pushed' = _TETrace[j].pushed
        /\ abs  = _TETrace[i].abs
        /\ abs' = _TETrace[j].abs
        /\ solo  = _TETrace[i].solo
        /\ solo' = _TETrace[j].solo
        /\ taken  = _TETrace[i].taken
        /\ taken' = _TETrace[j].taken
        /\ ip  = _TETrace[i].ip
        /\ ip' = _TETrace[j].ip
        /\ ownBad  = _TETrace[i].ownBad
        /\ ownBad' = _TETrace[j].ownBad
        /\ orderBad  = _TETrace[i].orderBad
        /\ orderBad' = _TETrace[j].orderBad

\* Uncomment the ASSUME below to write the states of the error trace
\* to the given file in Json format. Note that you can pass any tuple
\* to `JsonSerialize`. For example, a sub-sequence of _TETrace.
    \* ASSUME
    \*     LET J == INSTANCE Json
    \*         IN J!JsonSerialize("ChaseLevTrace_TTrace_1790036180.json", _TETrace)

=============================================================================

 Note that you can extract this module `ChaseLevTrace_TEExpression`
  to a dedicated file to reuse `expression` (the module in the 
  dedicated `ChaseLevTrace_TEExpression.tla` file takes precedence 
  over the module `ChaseLevTrace_TEExpression` below).

---- MODULE ChaseLevTrace_TEExpression ----
EXTENDS Sequences, TLCExt, Toolbox, Naturals, TLC, ChaseLevTrace

expression == 
    [
        \* To hide variables of the `ChaseLevTrace` spec from the error trace,
        \* remove the variables below.  The trace will be written in the order
        \* of the fields of this record.
        prog |-> prog
        ,soloBad |-> soloBad
        ,loc |-> loc
        ,bottom |-> bottom
        ,l |-> l
        ,pc |-> pc
        ,top |-> top
        ,slot |-> slot
        ,hist |-> hist
        ,cap |-> cap
        ,pushed |-> pushed
        ,abs |-> abs
        ,solo |-> solo
        ,taken |-> taken
        ,ip |-> ip
        ,ownBad |-> ownBad
        ,orderBad |-> orderBad
        
        \* Put additional constant-, state-, and action-level expressions here:
        \* ,_stateNumber |-> _TEPosition
        \* ,_progUnchanged |-> prog = prog'
        
        \* Format the `prog` variable as Json value.
        \* ,_progJson |->
        \*     LET J == INSTANCE Json
        \*     IN J!ToJson(prog)
        
        \* Lastly, you may build expressions over arbitrary sets of states by
        \* leveraging the _TETrace operator.  For example, this is how to
        \* count the number of times a spec variable changed up to the current
        \* state in the trace.
        \* ,_progModCount |->
        \*     LET F[s \in DOMAIN _TETrace] ==
        \*         IF s = 1 THEN 0
        \*         ELSE IF _TETrace[s].prog # _TETrace[s-1].prog
        \*             THEN 1 + F[s-1] ELSE F[s-1]
        \*     IN F[_TEPosition - 1]
    ]

=============================================================================



Parsing and semantic processing can take forever if the trace below is long.
 In this case, it is advised to uncomment the module below to deserialize the
 trace from a generated binary file.

\*
\*---- MODULE ChaseLevTrace_TETrace ----
\*EXTENDS IOUtils, TLC, ChaseLevTrace
\*
\*trace == IODeserialize("ChaseLevTrace_TTrace_1790036180.bin", TRUE)
\*
\*=============================================================================
\*

---- MODULE ChaseLevTrace_TETrace ----
EXTENDS TLC, ChaseLevTrace

trace == 
    <<
    ([loc |-> [o |-> [t |-> 0, b |-> 0, got |-> 0], s1 |-> [t |-> 0, b |-> 0, got |-> 0], s2 |-> [t |-> 0, b |-> 0, got |-> 0]],bottom |-> 0,orderBad |-> FALSE,ip |-> [o |-> 1, s1 |-> 1, s2 |-> 1],solo |-> [o |-> FALSE, s1 |-> FALSE, s2 |-> FALSE],slot |-> (0 :> 0 @@ 1 :> 0),l |-> 2,prog |-> [o |-> <<[op |-> "push", v |-> 1], [op |-> "push", v |-> 2], [op |-> "push", v |-> 3], [op |-> "pop", v |-> 0], [op |-> "popinto", v |-> 0], [op |-> "empty", v |-> 0]>>, s1 |-> <<[op |-> "steal", v |-> 0]>>, s2 |-> <<[op |-> "stealinto", v |-> 0]>>],hist |-> [o |-> <<>>, s1 |-> <<>>, s2 |-> <<>>],pc |-> [o |-> "Start", s1 |-> "Start", s2 |-> "Start"],cap |-> 2,abs |-> <<>>,top |-> 0,ownBad |-> FALSE,taken |-> <<>>,pushed |-> <<>>,soloBad |-> FALSE]),
    ([loc |-> [o |-> [t |-> 0, b |-> 0, got |-> 0], s1 |-> [t |-> 0, b |-> 0, got |-> 0], s2 |-> [t |-> 0, b |-> 0, got |-> 0]],bottom |-> 0,orderBad |-> FALSE,ip |-> [o |-> 1, s1 |-> 1, s2 |-> 1],solo |-> [o |-> FALSE, s1 |-> FALSE, s2 |-> FALSE],slot |-> (0 :> 0 @@ 1 :> 0),l |-> 3,prog |-> [o |-> <<[op |-> "push", v |-> 1], [op |-> "push", v |-> 2], [op |-> "push", v |-> 3], [op |-> "pop", v |-> 0], [op |-> "popinto", v |-> 0], [op |-> "empty", v |-> 0]>>, s1 |-> <<[op |-> "steal", v |-> 0]>>, s2 |-> <<[op |-> "stealinto", v |-> 0]>>],hist |-> [o |-> <<>>, s1 |-> <<>>, s2 |-> <<>>],pc |-> [o |-> "PushLdBot", s1 |-> "Start", s2 |-> "Start"],cap |-> 2,abs |-> <<>>,top |-> 0,ownBad |-> FALSE,taken |-> <<>>,pushed |-> <<>>,soloBad |-> FALSE]),
    ([loc |-> [o |-> [t |-> 0, b |-> 0, got |-> 0], s1 |-> [t |-> 0, b |-> 0, got |-> 0], s2 |-> [t |-> 0, b |-> 0, got |-> 0]],bottom |-> 0,orderBad |-> FALSE,ip |-> [o |-> 1, s1 |-> 1, s2 |-> 1],solo |-> [o |-> TRUE, s1 |-> FALSE, s2 |-> FALSE],slot |-> (0 :> 0 @@ 1 :> 0),l |-> 4,prog |-> [o |-> <<[op |-> "push", v |-> 1], [op |-> "push", v |-> 2], [op |-> "push", v |-> 3], [op |-> "pop", v |-> 0], [op |-> "popinto", v |-> 0], [op |-> "empty", v |-> 0]>>, s1 |-> <<[op |-> "steal", v |-> 0]>>, s2 |-> <<[op |-> "stealinto", v |-> 0]>>],hist |-> [o |-> <<>>, s1 |-> <<>>, s2 |-> <<>>],pc |-> [o |-> "PushLdTop", s1 |-> "Start", s2 |-> "Start"],cap |-> 2,abs |-> <<>>,top |-> 0,ownBad |-> FALSE,taken |-> <<>>,pushed |-> <<>>,soloBad |-> FALSE]),
    ([loc |-> [o |-> [t |-> 0, b |-> 0, got |-> 0], s1 |-> [t |-> 0, b |-> 0, got |-> 0], s2 |-> [t |-> 0, b |-> 0, got |-> 0]],bottom |-> 0,orderBad |-> FALSE,ip |-> [o |-> 1, s1 |-> 1, s2 |-> 1],solo |-> [o |-> TRUE, s1 |-> FALSE, s2 |-> FALSE],slot |-> (0 :> 1 @@ 1 :> 0),l |-> 5,prog |-> [o |-> <<[op |-> "push", v |-> 1], [op |-> "push", v |-> 2], [op |-> "push", v |-> 3], [op |-> "pop", v |-> 0], [op |-> "popinto", v |-> 0], [op |-> "empty", v |-> 0]>>, s1 |-> <<[op |-> "steal", v |-> 0]>>, s2 |-> <<[op |-> "stealinto", v |-> 0]>>],hist |-> [o |-> <<>>, s1 |-> <<>>, s2 |-> <<>>],pc |-> [o |-> "PushStBot", s1 |-> "Start", s2 |-> "Start"],cap |-> 2,abs |-> <<>>,top |-> 0,ownBad |-> FALSE,taken |-> <<>>,pushed |-> <<>>,soloBad |-> FALSE]),
    ([loc |-> [o |-> [t |-> 0, b |-> 0, got |-> 0], s1 |-> [t |-> 0, b |-> 0, got |-> 0], s2 |-> [t |-> 0, b |-> 0, got |-> 0]],bottom |-> 1,orderBad |-> FALSE,ip |-> [o |-> 2, s1 |-> 1, s2 |-> 1],solo |-> [o |-> TRUE, s1 |-> FALSE, s2 |-> FALSE],slot |-> (0 :> 1 @@ 1 :> 0),l |-> 6,prog |-> [o |-> <<[op |-> "push", v |-> 1], [op |-> "push", v |-> 2], [op |-> "push", v |-> 3], [op |-> "pop", v |-> 0], [op |-> "popinto", v |-> 0], [op |-> "empty", v |-> 0]>>, s1 |-> <<[op |-> "steal", v |-> 0]>>, s2 |-> <<[op |-> "stealinto", v |-> 0]>>],hist |-> [o |-> <<<<1>>>>, s1 |-> <<>>, s2 |-> <<>>],pc |-> [o |-> "PushLdBot", s1 |-> "Start", s2 |-> "Start"],cap |-> 2,abs |-> <<1>>,top |-> 0,ownBad |-> FALSE,taken |-> <<>>,pushed |-> <<1>>,soloBad |-> FALSE]),
    ([loc |-> [o |-> [t |-> 0, b |-> 1, got |-> 0], s1 |-> [t |-> 0, b |-> 0, got |-> 0], s2 |-> [t |-> 0, b |-> 0, got |-> 0]],bottom |-> 1,orderBad |-> FALSE,ip |-> [o |-> 2, s1 |-> 1, s2 |-> 1],solo |-> [o |-> TRUE, s1 |-> FALSE, s2 |-> FALSE],slot |-> (0 :> 1 @@ 1 :> 0),l |-> 7,prog |-> [o |-> <<[op |-> "push", v |-> 1], [op |-> "push", v |-> 2], [op |-> "push", v |-> 3], [op |-> "pop", v |-> 0], [op |-> "popinto", v |-> 0], [op |-> "empty", v |-> 0]>>, s1 |-> <<[op |-> "steal", v |-> 0]>>, s2 |-> <<[op |-> "stealinto", v |-> 0]>>],hist |-> [o |-> <<<<1>>>>, s1 |-> <<>>, s2 |-> <<>>],pc |-> [o |-> "PushLdTop", s1 |-> "Start", s2 |-> "Start"],cap |-> 2,abs |-> <<1>>,top |-> 0,ownBad |-> FALSE,taken |-> <<>>,pushed |-> <<1>>,soloBad |-> FALSE]),
    ([loc |-> [o |-> [t |-> 0, b |-> 1, got |-> 0], s1 |-> [t |-> 0, b |-> 0, got |-> 0], s2 |-> [t |-> 0, b |-> 0, got |-> 0]],bottom |-> 1,orderBad |-> FALSE,ip |-> [o |-> 2, s1 |-> 1, s2 |-> 1],solo |-> [o |-> TRUE, s1 |-> FALSE, s2 |-> FALSE],slot |-> (0 :> 1 @@ 1 :> 2),l |-> 8,prog |-> [o |-> <<[op |-> "push", v |-> 1], [op |-> "push", v |-> 2], [op |-> "push", v |-> 3], [op |-> "pop", v |-> 0], [op |-> "popinto", v |-> 0], [op |-> "empty", v |-> 0]>>, s1 |-> <<[op |-> "steal", v |-> 0]>>, s2 |-> <<[op |-> "stealinto", v |-> 0]>>],hist |-> [o |-> <<<<1>>>>, s1 |-> <<>>, s2 |-> <<>>],pc |-> [o |-> "PushStBot", s1 |-> "Start", s2 |-> "Start"],cap |-> 2,abs |-> <<1>>,top |-> 0,ownBad |-> FALSE,taken |-> <<>>,pushed |-> <<1>>,soloBad |-> FALSE]),
    ([loc |-> [o |-> [t |-> 0, b |-> 1, got |-> 0], s1 |-> [t |-> 0, b |-> 0, got |-> 0], s2 |-> [t |-> 0, b |-> 0, got |-> 0]],bottom |-> 2,orderBad |-> FALSE,ip |-> [o |-> 3, s1 |-> 1, s2 |-> 1],solo |-> [o |-> TRUE, s1 |-> FALSE, s2 |-> FALSE],slot |-> (0 :> 1 @@ 1 :> 2),l |-> 9,prog |-> [o |-> <<[op |-> "push", v |-> 1], [op |-> "push", v |-> 2], [op |-> "push", v |-> 3], [op |-> "pop", v |-> 0], [op |-> "popinto", v |-> 0], [op |-> "empty", v |-> 0]>>, s1 |-> <<[op |-> "steal", v |-> 0]>>, s2 |-> <<[op |-> "stealinto", v |-> 0]>>],hist |-> [o |-> <<<<1>>, <<1>>>>, s1 |-> <<>>, s2 |-> <<>>],pc |-> [o |-> "PushLdBot", s1 |-> "Start", s2 |-> "Start"],cap |-> 2,abs |-> <<1, 2>>,top |-> 0,ownBad |-> FALSE,taken |-> <<>>,pushed |-> <<1, 2>>,soloBad |-> FALSE]),
    ([loc |-> [o |-> [t |-> 0, b |-> 2, got |-> 0], s1 |-> [t |-> 0, b |-> 0, got |-> 0], s2 |-> [t |-> 0, b |-> 0, got |-> 0]],bottom |-> 2,orderBad |-> FALSE,ip |-> [o |-> 3, s1 |-> 1, s2 |-> 1],solo |-> [o |-> TRUE, s1 |-> FALSE, s2 |-> FALSE],slot |-> (0 :> 1 @@ 1 :> 2),l |-> 10,prog |-> [o |-> <<[op |-> "push", v |-> 1], [op |-> "push", v |-> 2], [op |-> "push", v |-> 3], [op |-> "pop", v |-> 0], [op |-> "popinto", v |-> 0], [op |-> "empty", v |-> 0]>>, s1 |-> <<[op |-> "steal", v |-> 0]>>, s2 |-> <<[op |-> "stealinto", v |-> 0]>>],hist |-> [o |-> <<<<1>>, <<1>>>>, s1 |-> <<>>, s2 |-> <<>>],pc |-> [o |-> "PushLdTop", s1 |-> "Start", s2 |-> "Start"],cap |-> 2,abs |-> <<1, 2>>,top |-> 0,ownBad |-> FALSE,taken |-> <<>>,pushed |-> <<1, 2>>,soloBad |-> FALSE]),
    ([loc |-> [o |-> [t |-> 0, b |-> 2, got |-> 0], s1 |-> [t |-> 0, b |-> 0, got |-> 0], s2 |-> [t |-> 0, b |-> 0, got |-> 0]],bottom |-> 2,orderBad |-> FALSE,ip |-> [o |-> 4, s1 |-> 1, s2 |-> 1],solo |-> [o |-> TRUE, s1 |-> FALSE, s2 |-> FALSE],slot |-> (0 :> 1 @@ 1 :> 2),l |-> 11,prog |-> [o |-> <<[op |-> "push", v |-> 1], [op |-> "push", v |-> 2], [op |-> "push", v |-> 3], [op |-> "pop", v |-> 0], [op |-> "popinto", v |-> 0], [op |-> "empty", v |-> 0]>>, s1 |-> <<[op |-> "steal", v |-> 0]>>, s2 |-> <<[op |-> "stealinto", v |-> 0]>>],hist |-> [o |-> <<<<1>>, <<1>>, <<0>>>>, s1 |-> <<>>, s2 |-> <<>>],pc |-> [o |-> "PopLdBot", s1 |-> "Start", s2 |-> "Start"],cap |-> 2,abs |-> <<1, 2>>,top |-> 0,ownBad |-> FALSE,taken |-> <<>>,pushed |-> <<1, 2>>,soloBad |-> FALSE]),
    ([loc |-> [o |-> [t |-> 0, b |-> 1, got |-> 0], s1 |-> [t |-> 0, b |-> 0, got |-> 0], s2 |-> [t |-> 0, b |-> 0, got |-> 0]],bottom |-> 2,orderBad |-> FALSE,ip |-> [o |-> 4, s1 |-> 1, s2 |-> 1],solo |-> [o |-> TRUE, s1 |-> FALSE, s2 |-> FALSE],slot |-> (0 :> 1 @@ 1 :> 2),l |-> 12,prog |-> [o |-> <<[op |-> "push", v |-> 1], [op |-> "push", v |-> 2], [op |-> "push", v |-> 3], [op |-> "pop", v |-> 0], [op |-> "popinto", v |-> 0], [op |-> "empty", v |-> 0]>>, s1 |-> <<[op |-> "steal", v |-> 0]>>, s2 |-> <<[op |-> "stealinto", v |-> 0]>>],hist |-> [o |-> <<<<1>>, <<1>>, <<0>>>>, s1 |-> <<>>, s2 |-> <<>>],pc |-> [o |-> "PopStBot", s1 |-> "Start", s2 |-> "Start"],cap |-> 2,abs |-> <<1, 2>>,top |-> 0,ownBad |-> FALSE,taken |-> <<>>,pushed |-> <<1, 2>>,soloBad |-> FALSE]),
    ([loc |-> [o |-> [t |-> 0, b |-> 1, got |-> 0], s1 |-> [t |-> 0, b |-> 0, got |-> 0], s2 |-> [t |-> 0, b |-> 0, got |-> 0]],bottom |-> 1,orderBad |-> FALSE,ip |-> [o |-> 4, s1 |-> 1, s2 |-> 1],solo |-> [o |-> TRUE, s1 |-> FALSE, s2 |-> FALSE],slot |-> (0 :> 1 @@ 1 :> 2),l |-> 13,prog |-> [o |-> <<[op |-> "push", v |-> 1], [op |-> "push", v |-> 2], [op |-> "push", v |-> 3], [op |-> "pop", v |-> 0], [op |-> "popinto", v |-> 0], [op |-> "empty", v |-> 0]>>, s1 |-> <<[op |-> "steal", v |-> 0]>>, s2 |-> <<[op |-> "stealinto", v |-> 0]>>],hist |-> [o |-> <<<<1>>, <<1>>, <<0>>>>, s1 |-> <<>>, s2 |-> <<>>],pc |-> [o |-> "PopFence", s1 |-> "Start", s2 |-> "Start"],cap |-> 2,abs |-> <<1, 2>>,top |-> 0,ownBad |-> FALSE,taken |-> <<>>,pushed |-> <<1, 2>>,soloBad |-> FALSE]),
    ([loc |-> [o |-> [t |-> 0, b |-> 1, got |-> 0], s1 |-> [t |-> 0, b |-> 0, got |-> 0], s2 |-> [t |-> 0, b |-> 0, got |-> 0]],bottom |-> 1,orderBad |-> FALSE,ip |-> [o |-> 4, s1 |-> 1, s2 |-> 1],solo |-> [o |-> TRUE, s1 |-> FALSE, s2 |-> FALSE],slot |-> (0 :> 1 @@ 1 :> 2),l |-> 14,prog |-> [o |-> <<[op |-> "push", v |-> 1], [op |-> "push", v |-> 2], [op |-> "push", v |-> 3], [op |-> "pop", v |-> 0], [op |-> "popinto", v |-> 0], [op |-> "empty", v |-> 0]>>, s1 |-> <<[op |-> "steal", v |-> 0]>>, s2 |-> <<[op |-> "stealinto", v |-> 0]>>],hist |-> [o |-> <<<<1>>, <<1>>, <<0>>>>, s1 |-> <<>>, s2 |-> <<>>],pc |-> [o |-> "PopLdTop", s1 |-> "Start", s2 |-> "Start"],cap |-> 2,abs |-> <<1, 2>>,top |-> 0,ownBad |-> FALSE,taken |-> <<>>,pushed |-> <<1, 2>>,soloBad |-> FALSE]),
    ([loc |-> [o |-> [t |-> 0, b |-> 1, got |-> 2], s1 |-> [t |-> 0, b |-> 0, got |-> 0], s2 |-> [t |-> 0, b |-> 0, got |-> 0]],bottom |-> 1,orderBad |-> FALSE,ip |-> [o |-> 5, s1 |-> 1, s2 |-> 1],solo |-> [o |-> TRUE, s1 |-> FALSE, s2 |-> FALSE],slot |-> (0 :> 1 @@ 1 :> 2),l |-> 15,prog |-> [o |-> <<[op |-> "push", v |-> 1], [op |-> "push", v |-> 2], [op |-> "push", v |-> 3], [op |-> "pop", v |-> 0], [op |-> "popinto", v |-> 0], [op |-> "empty", v |-> 0]>>, s1 |-> <<[op |-> "steal", v |-> 0]>>, s2 |-> <<[op |-> "stealinto", v |-> 0]>>],hist |-> [o |-> <<<<1>>, <<1>>, <<0>>, <<2>>>>, s1 |-> <<>>, s2 |-> <<>>],pc |-> [o |-> "PopLdBot", s1 |-> "Start", s2 |-> "Start"],cap |-> 2,abs |-> <<1>>,top |-> 0,ownBad |-> FALSE,taken |-> <<2>>,pushed |-> <<1, 2>>,soloBad |-> FALSE]),
    ([loc |-> [o |-> [t |-> 0, b |-> 0, got |-> 0], s1 |-> [t |-> 0, b |-> 0, got |-> 0], s2 |-> [t |-> 0, b |-> 0, got |-> 0]],bottom |-> 1,orderBad |-> FALSE,ip |-> [o |-> 5, s1 |-> 1, s2 |-> 1],solo |-> [o |-> TRUE, s1 |-> FALSE, s2 |-> FALSE],slot |-> (0 :> 1 @@ 1 :> 2),l |-> 16,prog |-> [o |-> <<[op |-> "push", v |-> 1], [op |-> "push", v |-> 2], [op |-> "push", v |-> 3], [op |-> "pop", v |-> 0], [op |-> "popinto", v |-> 0], [op |-> "empty", v |-> 0]>>, s1 |-> <<[op |-> "steal", v |-> 0]>>, s2 |-> <<[op |-> "stealinto", v |-> 0]>>],hist |-> [o |-> <<<<1>>, <<1>>, <<0>>, <<2>>>>, s1 |-> <<>>, s2 |-> <<>>],pc |-> [o |-> "PopStBot", s1 |-> "Start", s2 |-> "Start"],cap |-> 2,abs |-> <<1>>,top |-> 0,ownBad |-> FALSE,taken |-> <<2>>,pushed |-> <<1, 2>>,soloBad |-> FALSE]),
    ([loc |-> [o |-> [t |-> 0, b |-> 0, got |-> 0], s1 |-> [t |-> 0, b |-> 0, got |-> 0], s2 |-> [t |-> 0, b |-> 0, got |-> 0]],bottom |-> 0,orderBad |-> FALSE,ip |-> [o |-> 5, s1 |-> 1, s2 |-> 1],solo |-> [o |-> TRUE, s1 |-> FALSE, s2 |-> FALSE],slot |-> (0 :> 1 @@ 1 :> 2),l |-> 17,prog |-> [o |-> <<[op |-> "push", v |-> 1], [op |-> "push", v |-> 2], [op |-> "push", v |-> 3], [op |-> "pop", v |-> 0], [op |-> "popinto", v |-> 0], [op |-> "empty", v |-> 0]>>, s1 |-> <<[op |-> "steal", v |-> 0]>>, s2 |-> <<[op |-> "stealinto", v |-> 0]>>],hist |-> [o |-> <<<<1>>, <<1>>, <<0>>, <<2>>>>, s1 |-> <<>>, s2 |-> <<>>],pc |-> [o |-> "PopFence", s1 |-> "Start", s2 |-> "Start"],cap |-> 2,abs |-> <<1>>,top |-> 0,ownBad |-> FALSE,taken |-> <<2>>,pushed |-> <<1, 2>>,soloBad |-> FALSE]),
    ([loc |-> [o |-> [t |-> 0, b |-> 0, got |-> 0], s1 |-> [t |-> 0, b |-> 0, got |-> 0], s2 |-> [t |-> 0, b |-> 0, got |-> 0]],bottom |-> 0,orderBad |-> FALSE,ip |-> [o |-> 5, s1 |-> 1, s2 |-> 1],solo |-> [o |-> TRUE, s1 |-> FALSE, s2 |-> FALSE],slot |-> (0 :> 1 @@ 1 :> 2),l |-> 18,prog |-> [o |-> <<[op |-> "push", v |-> 1], [op |-> "push", v |-> 2], [op |-> "push", v |-> 3], [op |-> "pop", v |-> 0], [op |-> "popinto", v |-> 0], [op |-> "empty", v |-> 0]>>, s1 |-> <<[op |-> "steal", v |-> 0]>>, s2 |-> <<[op |-> "stealinto", v |-> 0]>>],hist |-> [o |-> <<<<1>>, <<1>>, <<0>>, <<2>>>>, s1 |-> <<>>, s2 |-> <<>>],pc |-> [o |-> "PopLdTop", s1 |-> "Start", s2 |-> "Start"],cap |-> 2,abs |-> <<1>>,top |-> 0,ownBad |-> FALSE,taken |-> <<2>>,pushed |-> <<1, 2>>,soloBad |-> FALSE]),
    ([loc |-> [o |-> [t |-> 0, b |-> 0, got |-> 0], s1 |-> [t |-> 0, b |-> 0, got |-> 0], s2 |-> [t |-> 0, b |-> 0, got |-> 0]],bottom |-> 0,orderBad |-> FALSE,ip |-> [o |-> 5, s1 |-> 1, s2 |-> 1],solo |-> [o |-> TRUE, s1 |-> FALSE, s2 |-> FALSE],slot |-> (0 :> 1 @@ 1 :> 2),l |-> 19,prog |-> [o |-> <<[op |-> "push", v |-> 1], [op |-> "push", v |-> 2], [op |-> "push", v |-> 3], [op |-> "pop", v |-> 0], [op |-> "popinto", v |-> 0], [op |-> "empty", v |-> 0]>>, s1 |-> <<[op |-> "steal", v |-> 0]>>, s2 |-> <<[op |-> "stealinto", v |-> 0]>>],hist |-> [o |-> <<<<1>>, <<1>>, <<0>>, <<2>>>>, s1 |-> <<>>, s2 |-> <<>>],pc |-> [o |-> "PopLastStBot", s1 |-> "Start", s2 |-> "Start"],cap |-> 2,abs |-> <<1>>,top |-> 0,ownBad |-> FALSE,taken |-> <<2>>,pushed |-> <<1, 2>>,soloBad |-> FALSE])
    >>
----


=============================================================================

---- CONFIG ChaseLevTrace_TTrace_1790036180 ----
CONSTANTS
    Cap = 2
    Threads = { }
    Prog = 0

INVARIANT
    _inv

CHECK_DEADLOCK
    \* CHECK_DEADLOCK off because of PROPERTY or INVARIANT above.
    FALSE

INIT
    _init

NEXT
    _next

CONSTANT
    _TETrace <- _trace

ALIAS
    _expression
=============================================================================
\* Generated on Tue Sep 22 00:16:37 UTC 2026