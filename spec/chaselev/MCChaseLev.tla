---------------------------- MODULE MCChaseLev ----------------------------
EXTENDS ChaseLev
O(op, v) == [op |-> op, v |-> v]

\* cover configuration (capacity 2, owner + one stealer): push until full, slot wrap-around, pop
\* of several / last / no element, both pop variants against both steal variants (last-element
\* pop-vs-steal race with either winner), emptiness observed racing and quiescent
Prog_cover == [o  |-> <<O("push", 1), O("push", 2), O("push", 3), O("pop", 0), O("popinto", 0), O("empty", 0)>>,
               s1 |-> <<O("stealinto", 0), O("steal", 0)>>]

\* one element, owner pop against two stealers: the last-element race in isolation
Prog_last == [o  |-> <<O("push", 1), O("pop", 0), O("empty", 0)>>,
              s1 |-> <<O("steal", 0)>>,
              s2 |-> <<O("stealinto", 0)>>,
              s3 |-> <<>>]
\* 4 owner operations x 3 stealers
Prog_3st == [o  |-> <<O("push", 1), O("push", 2), O("popinto", 0), O("pop", 0)>>,
             s1 |-> <<O("steal", 0)>>,
             s2 |-> <<O("stealinto", 0)>>,
             s3 |-> <<O("steal", 0)>>]
\* the owner steals from itself too; full deque; more stealing than elements
Prog_full == [o  |-> <<O("push", 1), O("push", 2), O("push", 3), O("steal", 0), O("pop", 0), O("size", 0)>>,
              s1 |-> <<O("steal", 0), O("stealinto", 0)>>,
              s2 |-> <<O("empty", 0), O("steal", 0)>>,
              s3 |-> <<>>]

\* every owner history of length L over the owner alphabet (values distinct by position) x
\* a fixed crew of stealers, for every capacity in CapSet
CONSTANTS L, CapSet, Crew, Rich
OwnAlpha(j) == {O("push", j), O("pop", 0), O("popinto", 0), O("stealinto", 0)}
               \cup (IF Rich THEN {O("size", 0)} ELSE {})
OwnProgs == {q \in [1 .. L -> UNION {OwnAlpha(j) : j \in 1 .. L}] : \A j \in 1 .. L : q[j] \in OwnAlpha(j)}
Crews == [ two   |-> [s1 |-> <<O("steal", 0), O("stealinto", 0)>>, s2 |-> <<O("stealinto", 0)>>, s3 |-> <<>>],
           three |-> [s1 |-> <<O("steal", 0)>>, s2 |-> <<O("stealinto", 0)>>, s3 |-> <<O("steal", 0)>>],
           one   |-> [s1 |-> <<O("steal", 0), O("empty", 0), O("stealinto", 0)>>, s2 |-> <<>>, s3 |-> <<>>],
           pair  |-> [s1 |-> <<O("stealinto", 0), O("steal", 0)>>, s2 |-> <<>>, s3 |-> <<>>],
           duo   |-> [s1 |-> <<O("steal", 0)>>, s2 |-> <<O("stealinto", 0)>>, s3 |-> <<>>] ]
InitAll == \E c \in CapSet : \E op \in OwnProgs :
              InitWith(c, [t \in {"o", "s1", "s2", "s3"} |-> IF t = "o" THEN op ELSE Crews[Crew][t]])
\* quick-tier suite in ONE TLC run (a JVM start costs seconds): the last-element race in isolation
\* for capacity 1 and 2, 4 owner operations x 3 stealers, and every owner history of length L
InitSuite ==
  \/ \E c \in {1, 2} : InitWith(c, Prog_last)
  \/ InitWith(2, Prog_3st)
  \/ InitAll
==========================================================================
