---------------------------- MODULE ChaseLevObs ----------------------------
(* E5 record validator for C36 (ChaseLevDeque, exactly-once work stealing).              *)
(* Each line is one FREE-RUNNING round of drv_chaselev --stress: real threads, no         *)
(* controlled scheduler, one owner (try_push / try_pop / try_pop_into, now and then       *)
(* try_steal / try_steal_into / size / empty) against 1..3 stealers (try_steal /          *)
(* try_steal_into / size) on a ChaseLevDeque<int, cap>, cap in {1,2,4,8}:                 *)
(*   {"e":"Round","round":r,"stuck":0|1,"cap":c,"ns":n,"mode":0|1,                       *)
(*    "o":[[kind,arg,res],..]  owner operations in program order: 1 push(arg) -> 1/0,      *)
(*                             2 pop, 3 pop_into, 4 steal, 5 steal_into -> value or 0,     *)
(*                             6 size() -> n, 7 empty() -> 1/0                             *)
(*    "s":[[v,..],..]          per stealer: values of its successful steals, program order *)
(*    "mx":[..]                per stealer: the largest size() it saw                      *)
(*    "qsize","qempty"         size()/empty() after every thread of the round has stopped  *)
(*    "d":[[kind,res],..]      the owner's quiescent drain of qsize elements (kinds 2..5)  *)
(*    "fpop","fsteal","fsize","fempty"  one more try_pop / try_steal / size() / empty()}   *)
(* The push attempts of a round carry the values 1,2,3,... so "older" = "smaller".         *)
(* mode 0: the stealers stop when the owner is done and empty() was true afterwards;       *)
(* mode 1: they stop as soon as the owner is done.                                         *)
(*                                                                                        *)
(* The record says nothing about the order of operations of DIFFERENT threads.  Every      *)
(* conjunct below follows from the invariants of ChaseLev.tla (ExactlyOnce, OrderOK,       *)
(* OwnerExact, Bounded, ObserversInRange, QuiescentExact, QuiescentAccounting) for EVERY   *)
(* interleaving of the atomic accesses - the operations are linearisable to a deque whose  *)
(* pop takes the newest and whose steal takes the oldest element - so a correct            *)
(* implementation can never be rejected; the justification is given at each conjunct.      *)
EXTENDS Integers, Sequences, FiniteSets, TLC, Json, IOUtils

ObsLog == ndJsonDeserialize(IOEnv.TRACE)

VARIABLE l
ObsInit == l = 1
ObsNext == l <= Len(ObsLog) /\ l' = l + 1
ObsSpec == ObsInit /\ [][ObsNext]_l

Range(s) == {s[i] : i \in 1 .. Len(s)}
Increasing(s) == \A i \in 1 .. (Len(s) - 1) : s[i] < s[i + 1]
LastN(s, n) == SubSeq(s, Len(s) - n + 1, Len(s))
RECURSIVE Flat(_)
Flat(ss) == IF ss = <<>> THEN <<>> ELSE Head(ss) \o Flat(Tail(ss))

(* ---- the owner's view -------------------------------------------------------------- *)
(* S = the accepted values the owner has neither popped nor stolen itself and does not   *)
(* KNOW to be stolen, oldest first.  Only the owner adds elements and only at the bottom; *)
(* everybody else removes the OLDEST element (OrderOK).  Hence at every instant the       *)
(* content of the deque is a SUFFIX of S [SUF].                                           *)
(*  push accepted : the value becomes the newest element.                                 *)
(*  push rejected : the owner read its own bottom b, then top t, and b - t >= cap: at the  *)
(*                  instant of the top load the deque held b - t elements (only the owner *)
(*                  moves bottom), = cap by Bounded.  So |S| >= cap, and by [SUF] the      *)
(*                  content is the newest cap elements of S (OwnerExact: fails iff full).  *)
(*  pop succeeds  : returns the newest element of the deque (OrderOK), which by [SUF] is  *)
(*                  the newest element of S.                                              *)
(*  pop fails     : top > b, or the last-element CAS lost: the deque was empty at that    *)
(*                  instant (OwnerExact), everything in S has been stolen.                *)
(*  own steal v   : v was the oldest element of the deque at the CAS; by [SUF] v is in S  *)
(*                  and everything older in S was stolen.  A failed steal (empty OR lost  *)
(*                  CAS, not distinguished by the API) tells nothing.                     *)
(*  size() = k    : b (exact) - t (at its load) = k elements at that instant, k <= cap     *)
(*                  (ObserversInRange): k <= |S| and the content is the newest k of S.    *)
(*  empty() = 1   : as size() = 0.   empty() = 0: non-empty at the top load, so |S| > 0.   *)
OwnStep(st, op, cap) ==
  LET kind == op[1]
      arg  == op[2]
      res  == op[3]
      S    == st.S
      n    == Len(S)
  IN CASE kind = 1 ->
            (IF res = 1 THEN [S |-> Append(S, arg), ok |-> TRUE]
             ELSE IF res = 0 /\ n >= cap THEN [S |-> LastN(S, cap), ok |-> TRUE]
             ELSE [S |-> S, ok |-> FALSE])
       [] kind \in {2, 3} ->
            (IF res = 0 THEN [S |-> <<>>, ok |-> TRUE]
             ELSE IF n > 0 /\ res = S[n] THEN [S |-> SubSeq(S, 1, n - 1), ok |-> TRUE]
             ELSE [S |-> S, ok |-> FALSE])
       [] kind \in {4, 5} ->
            (IF res = 0 THEN st
             ELSE IF res \in Range(S) THEN [S |-> SelectSeq(S, LAMBDA x : x > res), ok |-> TRUE]
             ELSE [S |-> S, ok |-> FALSE])
       [] kind = 6 ->
            (IF res >= 0 /\ res <= n /\ res <= cap THEN [S |-> LastN(S, res), ok |-> TRUE]
             ELSE [S |-> S, ok |-> FALSE])
       [] kind = 7 ->
            (IF res = 1 THEN [S |-> <<>>, ok |-> TRUE]
             ELSE IF res = 0 /\ n > 0 THEN st
             ELSE [S |-> S, ok |-> FALSE])
       [] OTHER -> [S |-> S, ok |-> FALSE]

RECURSIVE OwnRun(_, _, _, _)
OwnRun(ops, k, st, cap) ==
  IF k > Len(ops) \/ ~st.ok THEN st ELSE OwnRun(ops, k + 1, OwnStep(st, ops[k], cap), cap)

(* ---- the quiescent drain: nobody else is inside an operation, the deque answers like  *)
(* the sequential deque R (QuiescentExact): pop = newest, steal = oldest, never fails     *)
(* while R is non-empty.                                                                  *)
RECURSIVE DrainOK(_, _)
DrainOK(d, R) ==
  IF d = <<>> THEN R = <<>>
  ELSE /\ R # <<>>
       /\ (IF Head(d)[1] \in {2, 3}
           THEN Head(d)[2] = R[Len(R)] /\ DrainOK(Tail(d), SubSeq(R, 1, Len(R) - 1))
           ELSE Head(d)[1] \in {4, 5} /\ Head(d)[2] = Head(R) /\ DrainOK(Tail(d), Tail(R)))

\* (TLC re-evaluates a LET definition at every use but evaluates an operator ARGUMENT once: the
\* derived sequences are therefore handed down as arguments.)
Col(s, c) == [i \in 1 .. Len(s) |-> s[i][c]]

\* A: accepted values; Conc: values obtained while the threads were racing (owner, then stealers);
\* Dr: values of the quiescent drain; fin: the owner's view after its last racing operation;
\* R: the owner's view of what is left at quiescence
Round3(rec, A, Conc, Dr, fin, R) ==
  \* ExactlyOnce + ResultsMatch: the round ends drained and quiescent, so every accepted value
  \* has been returned by exactly one successful pop/steal, and nothing else was returned
  /\ Len(Conc) + Len(Dr) = Len(A)
  /\ Range(Conc) \cup Range(Dr) = Range(A)
  \* OrderOK for steals: top only grows and the elements between top and bottom are ordered
  \* oldest first, so the values taken at top = t0 < t1 < ... are increasing; one thread's
  \* steals are a subsequence of that order
  /\ \A i \in 1 .. rec.ns : Increasing(rec.s[i])
  \* ObserversInRange: a racing size() never exceeds capacity()
  /\ \A i \in 1 .. rec.ns : rec.mx[i] >= 0 /\ rec.mx[i] <= rec.cap
  \* QuiescentAccounting: size()/empty() at quiescence describe what has not been returned yet;
  \* it is a suffix of the owner's view [SUF]
  /\ rec.qsize = Len(A) - Len(Conc)
  /\ rec.qempty = (IF rec.qsize = 0 THEN 1 ELSE 0)
  /\ Range(R) = Range(A) \ Range(Conc)
  \* mode 0: a stealer stopped only after it saw empty() = 1 (bottom, then top) while the owner was
  \* already done: nothing is pushed after that, so the deque is still empty
  /\ (rec.mode = 0 => rec.qsize = 0)
  \* QuiescentExact: the drain behaves like the sequential deque, and afterwards pop and steal
  \* fail and the observers report an empty deque
  /\ Len(rec.d) = rec.qsize
  /\ DrainOK(rec.d, R)
  /\ rec.fpop = 0 /\ rec.fsteal = 0 /\ rec.fsize = 0 /\ rec.fempty = 1

Round2(rec, A, Conc, fin) ==
  \* OrderOK / OwnerExact as far as the owner alone can tell (see OwnStep)
  /\ fin.ok
  /\ rec.qsize >= 0 /\ rec.qsize <= Len(fin.S)
  /\ Round3(rec, A, Conc, Col(rec.d, 2), fin, LastN(fin.S, rec.qsize))

Round1(rec, ops, pushes) ==
  \* well-formed record (the driver numbers the push attempts of a round 1,2,3,...)
  /\ \A i \in 1 .. Len(pushes) : pushes[i][2] = i
  /\ Round2(rec,
            Col(SelectSeq(pushes, LAMBDA o : o[3] = 1), 2),
            Col(SelectSeq(ops, LAMBDA o : o[1] \in {2, 3, 4, 5} /\ o[3] # 0), 3) \o Flat(rec.s),
            OwnRun(ops, 1, [S |-> <<>>, ok |-> TRUE], rec.cap))

RoundOK(rec) ==
  \* the watchdog did not fire: every operation is wait-free, a round always ends
  /\ rec.stuck = 0
  /\ rec.cap \in {1, 2, 4, 8} /\ rec.ns \in 1 .. 3 /\ Len(rec.s) = rec.ns /\ Len(rec.mx) = rec.ns
  /\ Round1(rec, rec.o, SelectSeq(rec.o, LAMBDA o : o[1] = 1))

RecOK(rec) == rec.e = "Round" /\ RoundOK(rec)
RecordsOK == l > Len(ObsLog) \/ RecOK(ObsLog[l])

ObsAccepted ==
  LET d == TLCGet("stats").diameter IN
  IF d = Len(ObsLog) + 1 THEN TRUE
  ELSE /\ PrintT(<<"TRACE_REJECTED_AT_LINE", d, "OF", Len(ObsLog)>>)
       /\ FALSE
=============================================================================
