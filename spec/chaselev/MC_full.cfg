CONSTANTS
  Cap = 2
  Threads = {"o", "s1", "s2", "s3"}
  Prog <- Prog_full
  L = 3
  CapSet = {1, 2}
  Crew = "two"
  Rich = TRUE
INIT Init
NEXT Next
CHECK_DEADLOCK FALSE
INVARIANTS TypeOK ProgOK Bounded AbsMatches ExactlyOnce OrderOK OwnerExact QuiescentExact ResultsMatch ObserversInRange QuiescentAccounting
