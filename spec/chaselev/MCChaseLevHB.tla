---------------------------- MODULE MCChaseLevHB ----------------------------
EXTENDS ChaseLevHB
OO(op, v) == [op |-> op, v |-> v]
\* capacity 2, owner pushes 3+ (wrap-around), pops, two stealers with both variants
Prog_hb1 == [o  |-> <<OO("push", 1), OO("push", 2), OO("pop", 0), OO("push", 3), OO("popinto", 0), OO("push", 4)>>,
             s1 |-> <<OO("steal", 0), OO("stealinto", 0)>>,
             s2 |-> <<OO("stealinto", 0)>>]
\* capacity 1: every push reuses the one slot
Prog_hb2 == [o  |-> <<OO("push", 1), OO("push", 2), OO("pop", 0), OO("push", 3), OO("push", 4)>>,
             s1 |-> <<OO("steal", 0), OO("steal", 0)>>,
             s2 |-> <<OO("stealinto", 0), OO("empty", 0)>>]
HInit1 == InitWith(2, Prog_hb1) /\ hb = HBInit(HT, ALocs, NLocs) /\ hbt = hb
HInit2 == InitWith(1, Prog_hb2) /\ hb = HBInit(HT, ALocs, NLocs) /\ hbt = hb
=============================================================================
