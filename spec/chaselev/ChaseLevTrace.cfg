CONSTANTS
  Cap = 2
  Threads = {}
  Prog = 0
SPECIFICATION TraceSpec
CHECK_DEADLOCK FALSE
POSTCONDITION TraceAccepted
INVARIANTS ProgOK Bounded AbsMatches ExactlyOnce OrderOK OwnerExact QuiescentExact ResultsMatch ObserversInRange QuiescentAccounting
