CONSTANTS
  Cap = 2
  Threads = {"o", "s1", "s2"}
  Prog <- Prog_hb1
INIT HInit1
NEXT HNext
CHECK_DEADLOCK FALSE
INVARIANTS OrdersComplete RaceFree TentativeReadRaceFree
