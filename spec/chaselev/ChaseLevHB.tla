---------------------------- MODULE ChaseLevHB ----------------------------
(* C10 for ChaseLevDeque: ChaseLev.tla composed with the fence-aware            *)
(* happens-before model (spec/lib/MemOrderF.tla).  Non-atomic locations: the     *)
(* storage slots (written by try_push, read by pop / steal).  Memory orders of   *)
(* every atomic access and of both std::atomic_thread_fence calls come from      *)
(* OrdersChaseLev.tla (bin/extract_orders.py, working tree).                     *)
(* Benign(x): the TENTATIVE read of try_steal / try_steal_into (taken before the *)
(* CAS on top_ and discarded when the CAS fails) is recorded separately: a race  *)
(* that involves only such a read whose CAS then fails is the known formal race  *)
(* of the Chase-Lev algorithm with plain slots (the value is never used); it is  *)
(* reported by TentativeReadRaceFree, all other races by RaceFree.               *)
EXTENDS ChaseLev, MemOrderF, OrdersChaseLev

VARIABLES hb,     \* happens-before state, tentative steal reads EXCLUDED
          hbt     \* happens-before state with the tentative steal reads included
hvars == <<vars, hb, hbt>>

HT == Threads
ALocs == {<<"top", 0>>, <<"bot", 0>>}
NLocs == {<<"slot", i>> : i \in 0 .. 3}
Tp == <<"top", 0>>
Bt == <<"bot", 0>>
SlotL(i) == <<"slot", i>>

Occ(t) == IF Op(t).op \in {"popinto", "stealinto", "size"} THEN 2 ELSE 1
OS(site, t) == Ord[site][IF Len(Ord[site]) = 1 THEN 1 ELSE Occ(t)][2]
OF(site, t) == Ord[site][IF Len(Ord[site]) = 1 THEN 1 ELSE Occ(t)][3]
OrdersComplete == \A s \in DOMAIN Ord \ {"StCopy"} : \A i \in 1 .. Len(Ord[s]) : Ord[s][i][1] # "none"

HInit == Init /\ hb = HBInit(HT, ALocs, NLocs) /\ hbt = hb

\* apply the same happens-before update to both states
Both(f(_)) == hb' = f(hb) /\ hbt' = f(hbt)

HStep(t) ==
  \/ Start(t) /\ UNCHANGED <<hb, hbt>>
  \/ PushLdBot(t) /\ Both(LAMBDA h : ALoad(HT, h, t, Bt, OS("PushLdBot", t)))
  \/ /\ PushLdTop(t)
     /\ LET full == loc[t].b - top >= cap
            F(h) == LET h1 == ALoad(HT, h, t, Tp, OS("PushLdTop", t))
                    IN IF full THEN h1 ELSE NAWrite(HT, h1, t, SlotL(Idx(loc[t].b)))
        IN Both(F)
  \/ PushStBot(t) /\ Both(LAMBDA h : AStore(HT, h, t, Bt, OS("PushStBot", t)))
  \/ PopLdBot(t) /\ Both(LAMBDA h : ALoad(HT, h, t, Bt, OS("PopLdBot", t)))
  \/ PopStBot(t) /\ Both(LAMBDA h : AStore(HT, h, t, Bt, OS("PopStBot", t)))
  \/ PopFence(t) /\ Both(LAMBDA h : AFence(HT, h, t, OS("PopFence", t)))
  \/ /\ PopLdTop(t)
     /\ LET b == loc[t].b
            \* try_pop reads the slot whenever t <= b; try_pop_into reads it here only when t < b
            reads == (top < b) \/ (top = b /\ Op(t).op = "pop")
            F(h) == LET h1 == ALoad(HT, h, t, Tp, OS("PopLdTop", t))
                    IN IF reads THEN NARead(HT, h1, t, SlotL(Idx(b))) ELSE h1
        IN Both(F)
  \/ PopEmptyStBot(t) /\ Both(LAMBDA h : AStore(HT, h, t, Bt, OS("PopEmptyStBot", t)))
  \/ /\ PopLastStBot(t)
     /\ LET F(h) == LET h1 == AStore(HT, h, t, Bt, OS("PopLastStBot", t))
                    IN IF Op(t).op = "popinto" THEN NARead(HT, h1, t, SlotL(Idx(loc[t].b))) ELSE h1
        IN Both(F)
  \/ /\ PopCas(t)
     /\ LET ok == top = loc[t].t
        IN Both(LAMBDA h : IF ok THEN ARmw(HT, h, t, Tp, OS("PopCas", t)) ELSE ALoad(HT, h, t, Tp, OF("PopCas", t)))
  \/ StLdTop(t) /\ Both(LAMBDA h : ALoad(HT, h, t, Tp, OS("StLdTop", t)))
  \/ StFence(t) /\ Both(LAMBDA h : AFence(HT, h, t, OS("StFence", t)))
  \/ /\ StLdBot(t)
     /\ LET reads == loc[t].t < bottom
        IN /\ hb' = ALoad(HT, hb, t, Bt, OS("StLdBot", t))
           /\ hbt' = LET h1 == ALoad(HT, hbt, t, Bt, OS("StLdBot", t))
                     IN IF reads THEN NARead(HT, h1, t, SlotL(Idx(loc[t].t))) ELSE h1
  \/ /\ StCas(t)
     /\ LET ok == top = loc[t].t
        IN \* a successful CAS makes the tentative read a real one: it is charged (at the clock of the
           \* read, which is what the race rule needs: the read happened at StLdBot) to hb as well; for
           \* simplicity it is charged at the CAS itself, which can only hide races with writes that
           \* happen between the read and the CAS - impossible for a winning CAS (top unchanged means
           \* the owner cannot have wrapped around to this slot)
           /\ hb' = (IF ok THEN ARmw(HT, NARead(HT, hb, t, SlotL(Idx(loc[t].t))), t, Tp, OS("StCas", t))
                     ELSE ALoad(HT, hb, t, Tp, OF("StCas", t)))
           /\ hbt' = (IF ok THEN ARmw(HT, hbt, t, Tp, OS("StCas", t)) ELSE ALoad(HT, hbt, t, Tp, OF("StCas", t)))
  \/ StCopy(t) /\ UNCHANGED <<hb, hbt>>
  \/ ObsLdBot(t) /\ Both(LAMBDA h : ALoad(HT, h, t, Bt, OS("ObsLdBot", t)))
  \/ ObsLdTop(t) /\ Both(LAMBDA h : ALoad(HT, h, t, Tp, OS("ObsLdTop", t)))

HNext == \E t \in Threads : HStep(t)

\* no race between accesses whose values are used
RaceFree == NoRace(hb)
\* no race at all, the discarded tentative reads of losing stealers included
TentativeReadRaceFree == NoRace(hbt)
==========================================================================
