CONSTANTS
  Cap = 2
  Threads = {"o", "s1", "s2"}
  Prog <- Prog_hb2
INIT HInit2
NEXT HNext
CHECK_DEADLOCK FALSE
INVARIANTS OrdersComplete RaceFree TentativeReadRaceFree
