CONSTANTS
  Cap = 2
  Threads = {"o", "s1", "s2", "s3"}
  Prog <- Prog_last
  L = 4
  CapSet = {1, 2}
  Crew = "pair"
  Rich = FALSE
INIT InitAll
NEXT Next
CHECK_DEADLOCK FALSE
INVARIANTS TypeOK ProgOK Bounded AbsMatches ExactlyOnce OrderOK OwnerExact QuiescentExact ResultsMatch ObserversInRange QuiescentAccounting
