CONSTANTS
  Cap = 2
  Threads = {"o", "s1", "s2", "s3"}
  Prog <- Prog_last
  L = 2
  CapSet = {1, 2}
  Crew = "duo"
  Rich = FALSE
INIT InitSuite
NEXT Next
CHECK_DEADLOCK FALSE
INVARIANTS TypeOK ProgOK Bounded AbsMatches ExactlyOnce OrderOK OwnerExact QuiescentExact ResultsMatch ObserversInRange QuiescentAccounting
