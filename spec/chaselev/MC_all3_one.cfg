CONSTANTS
  Cap = 2
  Threads = {"o", "s1", "s2", "s3"}
  Prog <- Prog_last
  L = 3
  CapSet = {4}
  Crew = "one"
  Rich = TRUE
INIT InitAll
NEXT Next
CHECK_DEADLOCK FALSE
INVARIANTS TypeOK ProgOK Bounded AbsMatches ExactlyOnce OrderOK OwnerExact QuiescentExact ResultsMatch ObserversInRange QuiescentAccounting
