CONSTANTS
  Threads = {"t1", "t2", "t3"}
  Prog <- Prog_ww
  DrainSpins = 2
  Spurious = FALSE
  CePoint = TRUE
INIT HInitWW
NEXT HNext
CHECK_DEADLOCK FALSE
INVARIANTS OrdersComplete RaceFree AgainOK TypeOK ExclHold ExclCs WordExact QuiescentZero NoStuck NoLostWake
