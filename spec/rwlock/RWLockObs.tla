----------------------------- MODULE RWLockObs -----------------------------
(* E5 record validator for C22 (RWLock / UnalignedRWLock) and C23 (DistributedRWLockImpl<N>,   *)
(* DistributedRWLock<N>).  Each line of the observation file is one BATCH of free-running       *)
(* rounds (harness/drv/rwlock_stress.h: real threads, real futex, inert hook points, no         *)
(* controller) on one fresh lock object:                                                        *)
(*   {"e":"Batch","lock":name,"slots":N,"kind":"rw"|"upg","mode":"step"|"free","batch":i,      *)
(*    "rounds":n,"stuck":0|1,                                                                   *)
(*    "role":[..],"fin":[..],"inc":[..],"wtorn":[..],"snaps":[..],"torn":[..],"back":[..],      *)
(*    "tl":[..],"tlok":[..],"ts":[..],"tsok":[..],"a":A,"b":B,"probes":P,"ptry":n,"psh":n,      *)
(*    "word":0|1}                                                                               *)
(* Every thread runs `rounds` short random programs (1-3 lock ... unlock segments); in a "step" *)
(* batch every round starts at a barrier, in a "free" batch the threads run all their programs  *)
(* back to back.  Per-thread arrays in thread order.  role: "W" may write-lock (lock / try_lock /              *)
(* lock_downgrade) and read-lock, "R" only read-locks (lock_shared / try_lock_shared), "U" is   *)
(* the single write-locking thread of an upgrade batch (it also uses lock_upgrade).  The        *)
(* protected data are two plain counters a, b: a write section (entered after lock, a           *)
(* successful try_lock or lock_upgrade) reads both, stores a+1, then b+1, and re-reads a; a     *)
(* read section (after lock_shared, a successful try_lock_shared or lock_downgrade) copies a,   *)
(* then b.  Whenever all threads have left the lock (after every round of a step batch, at the  *)
(* end of a free batch) the thread that left last probes it: try_lock (+unlock),                *)
(* try_lock_shared (+unlock_shared).                                                            *)
(*                                                                                              *)
(* Nothing is assumed about the order of operations of different threads, so every conjunct     *)
(* holds for EVERY execution of a lock that refines RWLock.tla / DRWLock.tla, whatever the      *)
(* interleaving inside or between the steps of those specifications:                            *)
(*                                                                                              *)
(* Progress   NoStuck, Termination and BlockedProceeds of the specification: every program is   *)
(*            finite and releases what it acquires, a batch with lock_upgrade has a single      *)
(*            write-locking thread (the documented precondition), so every blocked locker       *)
(*            proceeds and every thread finishes every program (the driver waits 10 s of wall   *)
(*            time, >= 10^4 times the duration of a batch, before it reports "stuck").          *)
(* Exclusion  ExclCs: a write section overlaps no other section.  Hence a writer finds a = b    *)
(*            and finds its own a+1 still in place before it leaves (wtorn = 0); a reader,      *)
(*            whose section overlaps no write section, copies a = b (torn = 0); and as the      *)
(*            sections that change a are totally ordered and only increment it, no thread       *)
(*            ever sees a smaller than it saw before (back = 0).                                *)
(* NoLostUpd  for the same reason every write section adds exactly 1 to a and to b: after the   *)
(*            batch a = b = number of write sections executed.                                  *)
(* Quiescent  QuiescentZero / WordExact (a failed try_lock or try_lock_shared leaves no trace,  *)
(*            unlock/unlock_shared give back exactly what was taken): when every thread has     *)
(*            left, every lock word is 0, and by the specification of try_lock (TryOr reads 0)  *)
(*            and try_lock_shared (TryShAdd reads no writer bit) both probes succeed.           *)
(* TryShared  try_lock_shared fails only if it reads the writer bit (TryShAdd); only lock,      *)
(*            try_lock and lock_upgrade set it: in a batch without a "W"/"U" thread every       *)
(*            try_lock_shared succeeds.  (No such claim for try_lock, which may give up after   *)
(*            kTryLockDrainSpins, nor for try_lock_shared next to writers.)                     *)
(* Shape      the driver's own bookkeeping: success counts never exceed call counts, a thread   *)
(*            that only reads executes no write section.                                        *)
EXTENDS Integers, Sequences, TLC, Json, IOUtils

ObsLog == ndJsonDeserialize(IOEnv.TRACE)

VARIABLE l   \* record under judgement
ObsInit == l = 1
ObsNext == l <= Len(ObsLog) /\ l' = l + 1
ObsSpec == ObsInit /\ [][ObsNext]_l

RECURSIVE SumSeq(_)
SumSeq(s) == IF s = <<>> THEN 0 ELSE Head(s) + SumSeq(Tail(s))

AllZero(s) == \A i \in 1..Len(s) : s[i] = 0

Fields == {"lock", "slots", "kind", "mode", "batch", "rounds", "stuck", "role", "fin", "inc", "wtorn", "snaps", "torn",
           "back", "tl", "tlok", "ts", "tsok", "a", "b", "probes", "ptry", "psh", "word"}

Shape(rec) ==
  LET n == Len(rec.role) IN
  /\ n >= 1
  /\ \A f \in {"fin", "inc", "wtorn", "snaps", "torn", "back", "tl", "tlok", "ts", "tsok"} : Len(rec[f]) = n
  /\ \A i \in 1..n :
       /\ rec.role[i] \in {"W", "R", "U"}
       /\ rec.tlok[i] <= rec.tl[i] /\ rec.tsok[i] <= rec.ts[i]
       /\ (rec.role[i] = "R" => rec.inc[i] = 0 /\ rec.tl[i] = 0)
  /\ (rec.kind = "upg" => \A i \in 2..n : rec.role[i] = "R")      \* a single write-locking thread
  /\ rec.rounds >= 1
  /\ rec.mode \in {"step", "free"}

Progress(rec) ==
  /\ rec.stuck = 0
  /\ \A i \in 1..Len(rec.fin) : rec.fin[i] = rec.rounds

Exclusion(rec) == AllZero(rec.wtorn) /\ AllZero(rec.torn) /\ AllZero(rec.back)

NoLostUpdate(rec) == rec.a = SumSeq(rec.inc) /\ rec.b = SumSeq(rec.inc)

Quiescent(rec) ==
  /\ rec.probes = (IF rec.mode = "step" THEN rec.rounds ELSE 1)
  /\ rec.ptry = rec.probes
  /\ rec.psh = rec.probes
  /\ rec.word = 0

TryShared(rec) ==
  (\A i \in 1..Len(rec.role) : rec.role[i] = "R") => \A i \in 1..Len(rec.role) : rec.tsok[i] = rec.ts[i]

RecOK(rec) ==
  /\ "e" \in DOMAIN rec /\ rec.e = "Batch"
  /\ Fields \subseteq DOMAIN rec
  /\ Shape(rec)
  /\ Progress(rec)
  /\ Exclusion(rec)
  /\ NoLostUpdate(rec)
  /\ Quiescent(rec)
  /\ TryShared(rec)

RecordsOK == l > Len(ObsLog) \/ RecOK(ObsLog[l])

\* for the report only: the conjuncts the rejected record violates
Failed(rec) ==
  IF ~("e" \in DOMAIN rec /\ rec.e = "Batch" /\ Fields \subseteq DOMAIN rec) THEN {"Fields"}
  ELSE IF ~Shape(rec) THEN {"Shape"}
  ELSE IF ~Progress(rec) THEN {"Progress"}    \* (the other counts of an unfinished batch are not comparable)
  ELSE {c \in {"Progress", "Exclusion", "NoLostUpdate", "Quiescent", "TryShared"} :
          \/ c = "Progress" /\ ~Progress(rec)
          \/ c = "Exclusion" /\ ~Exclusion(rec)
          \/ c = "NoLostUpdate" /\ ~NoLostUpdate(rec)
          \/ c = "Quiescent" /\ ~Quiescent(rec)
          \/ c = "TryShared" /\ ~TryShared(rec)}

ObsAccepted ==
  LET d == TLCGet("stats").diameter IN
  IF d = Len(ObsLog) + 1 THEN TRUE
  ELSE /\ PrintT(<<"TRACE_REJECTED_AT_LINE", d, "OF", Len(ObsLog)>>)
       /\ (d \in 1..Len(ObsLog) => PrintT(<<"VIOLATED_CONJUNCTS", Failed(ObsLog[d])>>))
       /\ FALSE
=============================================================================
