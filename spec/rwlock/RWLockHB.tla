------------------------------ MODULE RWLockHB ------------------------------
(* C10 for RWLock / UnalignedRWLock: RWLock.tla composed with the happens-before  *)
(* model (spec/lib/MemOrder.tla; the sources contain no std::atomic_thread_fence). *)
(*                                                                                *)
(* Atomic location: the lock word (CompletionEventImpl::status_, reached through  *)
(* intrusiveStatus()).  Non-atomic location: ONE ghost cell, "the data the lock   *)
(* protects", written by main before the threads start, written (UseDataW) by a   *)
(* thread inside a critical section it holds exclusively (after lock, a successful *)
(* try_lock, lock_upgrade), read (UseDataR) inside a critical section it holds     *)
(* shared (after lock_shared, a successful try_lock_shared, lock_downgrade), and   *)
(* read once more by the exclusive holder before it leaves.  The critical section  *)
(* is the one the base spec already has (CsEnter / CsExit, taken after every       *)
(* successful acquisition / upgrade / downgrade, i.e. exactly while mode[t] is "W"  *)
(* or "R"); where inside the section the access sits is irrelevant for happens-     *)
(* before because the holder performs no atomic access in between.                  *)
(*                                                                                *)
(* Memory orders come from OrdersRWLock.tla, extracted at check time from          *)
(* rw_lock.h, detail/rw_lock_impl.h and detail/completion_event_impl.h (the load   *)
(* of waitForReaderDrain() is CompletionEventImpl::wait, site "CeWaitLd"; the site  *)
(* "DrainLd" precedes the call event_.wait(kWriteBit), which is no atomic access).  *)
(*                                                                                *)
(* Spinning: an iteration of a spin loop that leaves the base state unchanged      *)
(* (SetWb while another writer owns the bit, ShSpin while the bit is set) is given  *)
(* NO happens-before effect.  Every write of the lock word is a read-modify-write,  *)
(* so dropping one never ends a release sequence; dropping it can only remove       *)
(* edges, i.e. the check stays sound (no race here => no race with the iterations) *)
(* and the state space stays finite (no unbounded clock ticks).                     *)
(* The futex system calls (FutexWait, FutexWake, wake-up) are no C++ atomic         *)
(* operations and contribute no edge.                                               *)
EXTENDS RWLock, MemOrder, OrdersRWLock

VARIABLES hb,      \* happens-before state (MemOrder)
          again    \* per thread: the first textual occurrence of a two-occurrence site (SetWb, ShAdd)
                   \* was already executed by the current operation, the next execution is the second
hvars == <<vars, hb, again>>

HT == Threads \cup {"main"}
Lw == <<"lockword", 0>>
Data == <<"data", 0>>
ALocs == {Lw}
NLocs == {Data}

\* sites the overlay reads an order from
UsedSites == {"SetWb", "UpgSub", "CeWaitLd", "TryOr", "TryDrainLd", "TryRollback", "WrUnlock",
              "DownAdd", "ShAdd", "TryShAdd", "RdRel", "ShSpin"}
Occ(site, t) == IF Len(Ord[site]) = 1 THEN 1 ELSE IF again[t] THEN 2 ELSE 1
OS(site, t) == Ord[site][Occ(site, t)][2]
\* DrainLd precedes `event_.wait(kWriteBit);`: not an atomic access (its load is CeWaitLd)
OrdersComplete ==
  /\ UsedSites \subseteq DOMAIN Ord
  /\ \A s \in DOMAIN Ord \ {"DrainLd"} : \A i \in 1 .. Len(Ord[s]) : Ord[s][i][1] # "none"
  /\ Len(Ord["SetWb"]) = 2 /\ Len(Ord["ShAdd"]) = 2
  /\ \A s \in UsedSites \ {"SetWb", "ShAdd"} : Len(Ord[s]) = 1

Ld(t, site) == ALoad(HT, hb, t, Lw, OS(site, t))
Rmw(t, site) == ARmw(HT, hb, t, Lw, OS(site, t))

HInitWith(p) ==
  /\ InitWith(p, DrainSpins, Spurious, CePoint)
  /\ hb = NAWrite(HT, HBInit(HT, ALocs, NLocs), "main", Data)     \* main initialises the data
  /\ again = [t \in Threads |-> FALSE]
HInit == HInitWith(Prog)

\* ghost accesses of the protected data (inside the base spec's critical section)
UseDataW(t) == CsEnter(t) /\ mode[t] = "W" /\ hb' = NAWrite(HT, hb, t, Data)
UseDataR(t) == CsEnter(t) /\ mode[t] = "R" /\ hb' = NARead(HT, hb, t, Data)
LeaveCs(t) == CsExit(t) /\ hb' = (IF mode[t] = "W" THEN NARead(HT, hb, t, Data) ELSE hb)

\* the load of CompletionEventImpl::wait: its own step (CeWaitLd) when the point exists, otherwise part
\* of the step that arrives at it
LoadIfInline(t) == hb' = (IF cept THEN hb ELSE Ld(t, "CeWaitLd"))

HStep(t) ==
  \/ Start(t) /\ hb' = HBSpawn(HT, hb, "main", t) /\ UNCHANGED again
  \/ UseDataW(t) /\ UNCHANGED again
  \/ UseDataR(t) /\ UNCHANGED again
  \/ LeaveCs(t) /\ UNCHANGED again
  \* setWriteBit: fetch_or; first occurrence, then the one in the spin loop
  \/ /\ SetWb(t)
     /\ hb' = (IF w THEN hb ELSE Rmw(t, "SetWb"))
     /\ again' = [again EXCEPT ![t] = w]
  \/ UpgSub(t) /\ hb' = Rmw(t, "UpgSub") /\ UNCHANGED again
  \/ DrainLd(t) /\ LoadIfInline(t) /\ UNCHANGED again
  \/ CeWaitLd(t) /\ hb' = Ld(t, "CeWaitLd") /\ UNCHANGED again
  \/ /\ FutexWait(t)
     /\ hb' = (IF ~cept /\ ~(w = loc[t].cw /\ r = loc[t].cr) THEN Ld(t, "CeWaitLd") ELSE hb)
     /\ UNCHANGED again
  \/ FutexRet(t) /\ LoadIfInline(t) /\ UNCHANGED again
  \/ FutexSpurious(t) /\ UNCHANGED <<hb, again>>
  \/ TryOr(t) /\ hb' = Rmw(t, "TryOr") /\ UNCHANGED again
  \/ TryDrainLd(t) /\ hb' = Ld(t, "TryDrainLd") /\ UNCHANGED again
  \/ TryRollback(t) /\ hb' = Rmw(t, "TryRollback") /\ UNCHANGED again
  \/ WrUnlock(t) /\ hb' = Rmw(t, "WrUnlock") /\ UNCHANGED again
  \/ DownAdd(t) /\ hb' = Rmw(t, "DownAdd") /\ UNCHANGED again
  \* lock_shared: fetch_add; first occurrence, then the one after the spin
  \/ /\ ShAdd(t)
     /\ hb' = Rmw(t, "ShAdd")
     /\ again' = [again EXCEPT ![t] = w]
  \/ TryShAdd(t) /\ hb' = Rmw(t, "TryShAdd") /\ UNCHANGED again
  \/ RdRel(t) /\ hb' = Rmw(t, "RdRel") /\ UNCHANGED again
  \/ (\E W \in SUBSET Threads : FutexWake(t, W)) /\ UNCHANGED <<hb, again>>
  \/ ShSpin(t) /\ hb' = (IF w THEN hb ELSE Ld(t, "ShSpin")) /\ UNCHANGED again

HNext == \E t \in Threads : HStep(t)
HSpec == HInit /\ [][HNext]_hvars

RaceFree == NoRace(hb)
\* the overlay's bookkeeping of textual occurrences is consistent with the control state
AgainOK == \A t \in Threads : again[t] => (pc[t] \in {"SetWb", "RdRel", "FutexWake", "ShSpin", "ShAdd"})
==========================================================================
