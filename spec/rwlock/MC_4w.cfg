CONSTANTS
  Threads = {"t1", "t2", "t3", "t4"}
  Prog <- Prog_4w
  DrainSpins = 2
  Spurious = FALSE
  CePoint <- CePointEnv
SPECIFICATION FairSpec
CHECK_DEADLOCK FALSE
INVARIANTS TypeOK ExclHold ExclCs WordExact QuiescentZero NoStuck NoLostWake
PROPERTIES TryNeverConflicts Termination BlockedProceeds
