------------------------------- MODULE RWLock -------------------------------
(* Implementation-level specification of dispenso::RWLock / UnalignedRWLock         *)
(* (dispenso/rw_lock.h, dispenso/detail/rw_lock_impl.h), which blocks through the   *)
(* Linux CompletionEventImpl (dispenso/detail/completion_event_impl.h) on a futex.  *)
(*                                                                                  *)
(* The lock word is one int on a futex: writer bit (w) + reader count (r).  One     *)
(* action per atomic access of the code; the action name is the                     *)
(* DISPENSO_VERIF_POINT site placed immediately before that access.  The futex is   *)
(* the harness' modelled futex: FutexWait (compare and block), FutexWake (wakes ALL  *)
(* waiters because the code asks for INT_MAX), FutexRet (a woken thread resumes),   *)
(* FutexSpurious (environment; optional).                                           *)
(*                                                                                  *)
(* Threads run programs: sequences of [op |-> o] with o one of                      *)
(*   lock try_lock unlock lock_shared try_lock_shared unlock_shared upgrade downgrade*)
(* An operation whose precondition does not hold in the thread's current mode       *)
(* (e.g. "unlock" after a failed "try_lock") is skipped, by the driver and by the   *)
(* spec alike, so every program is a legal use of the API.  After every successful  *)
(* acquisition / upgrade / downgrade the thread passes through a critical section   *)
(* (driver-level points CsEnter / CsExit) that counts occupancy.                     *)
EXTENDS Integers, Sequences, FiniteSets, TLC

CONSTANTS Threads,     \* set of thread names (strings)
          Prog,        \* [Threads -> Seq([op : STRING])]
          DrainSpins,  \* kTryLockDrainSpins (16 in the code; loop iterations are identical)
          Spurious,    \* BOOLEAN: may the environment return spuriously from futex waits
          CePoint      \* BOOLEAN: CompletionEventImpl::wait has its own point "CeWaitLd"
                       \* before every load (hooks of the CompletionEvent component merged)

VARIABLES
  prog, spins, spur, cept,  \* configuration (variables so that a trace can re-initialise them)
  w, r,                     \* the lock word: writer bit, reader count
  pc, ip, loc,              \* per thread: program counter, index of current op, locals
  mode,                     \* per thread: "N" none, "R" holds shared, "W" holds exclusive,
                            \*   "U" upgrading (owns the writer bit, gave up its reader unit)
  inW, inR                  \* ghost: critical-section occupancy (driver CsEnter / CsExit)

cfgv == <<prog, spins, spur, cept>>
vars == <<prog, spins, spur, cept, w, r, pc, ip, loc, mode, inW, inR>>

T == DOMAIN prog

AcqOps == {"lock", "try_lock", "lock_shared", "try_lock_shared"}
TryOps == {"try_lock", "try_lock_shared"}
AllOps == AcqOps \cup {"unlock", "unlock_shared", "upgrade", "downgrade"}

\* documented preconditions: acquire only when nothing is held (no recursion), unlock/downgrade
\* only by the writer, unlock_shared/upgrade only by a reader
Applicable(o, m) ==
  CASE o \in AcqOps -> m = "N"
    [] o \in {"unlock", "downgrade"} -> m = "W"
    [] o \in {"unlock_shared", "upgrade"} -> m = "R"

FirstPcOf(o) ==
  CASE o = "lock" -> "SetWb"
    [] o = "upgrade" -> "SetWb"
    [] o = "try_lock" -> "TryOr"
    [] o = "unlock" -> "WrUnlock"
    [] o = "lock_shared" -> "ShAdd"
    [] o = "try_lock_shared" -> "TryShAdd"
    [] o = "unlock_shared" -> "RdRel"
    [] o = "downgrade" -> "DownAdd"

MinOf(S) == CHOOSE x \in S : \A y \in S : x <= y
\* index of the first operation at or after i that is applicable in mode m
NextIp(t, i, m) ==
  LET S == {j \in i .. Len(prog[t]) : Applicable(prog[t][j].op, m)}
  IN IF S = {} THEN Len(prog[t]) + 1 ELSE MinOf(S)
PcAt(t, i) == IF i > Len(prog[t]) THEN "Done" ELSE FirstPcOf(prog[t][i].op)

Op(t) == prog[t][ip[t]].op

EmptyLoc == [cw |-> FALSE, cr |-> 0, spin |-> 0, reason |-> 0]

InitWith(p, sp, su, ce) ==
  /\ prog = p /\ spins = sp /\ spur = su /\ cept = ce
  /\ w = FALSE /\ r = 0
  /\ pc = [t \in DOMAIN p |-> "Start"]
  /\ ip = [t \in DOMAIN p |-> 1]
  /\ loc = [t \in DOMAIN p |-> EmptyLoc]
  /\ mode = [t \in DOMAIN p |-> "N"]
  /\ inW = 0 /\ inR = 0

Init == InitWith(Prog, DrainSpins, Spurious, CePoint)

Blocked == {u \in T : pc[u] = "FutexBlocked"}

\* ---------------------------------------------------------------- bookkeeping helpers
Goto(t, l) == pc' = [pc EXCEPT ![t] = l]

\* the current operation of t returns, leaving t in mode m2; a thread that now holds the lock
\* goes through a critical section before its next operation
Finish(t, m2) ==
  LET j == NextIp(t, ip[t] + 1, m2) IN
  /\ ip' = [ip EXCEPT ![t] = j]
  /\ mode' = [mode EXCEPT ![t] = m2]
  /\ loc' = [loc EXCEPT ![t] = EmptyLoc]
  /\ Goto(t, IF m2 # "N" THEN "CsEnter" ELSE PcAt(t, j))

Start(t) ==
  /\ pc[t] = "Start"
  /\ LET j == NextIp(t, 1, "N") IN
       /\ ip' = [ip EXCEPT ![t] = j]
       /\ Goto(t, PcAt(t, j))
  /\ UNCHANGED <<cfgv, w, r, loc, mode, inW, inR>>

\* ------------------------------------------------- critical section (driver-level points)
CsEnter(t) ==
  /\ pc[t] = "CsEnter"
  /\ (IF mode[t] = "W" THEN inW' = inW + 1 /\ UNCHANGED inR
                       ELSE inR' = inR + 1 /\ UNCHANGED inW)
  /\ Goto(t, "CsExit")
  /\ UNCHANGED <<cfgv, w, r, ip, loc, mode>>

CsExit(t) ==
  /\ pc[t] = "CsExit"
  /\ (IF mode[t] = "W" THEN inW' = inW - 1 /\ UNCHANGED inR
                       ELSE inR' = inR - 1 /\ UNCHANGED inW)
  /\ Goto(t, PcAt(t, ip[t]))
  /\ UNCHANGED <<cfgv, w, r, ip, loc, mode>>

\* ------------------------------------------------------------------------ setWriteBit
\* fetch_or(kWriteBit); spins (re-executing the same fetch_or) while another writer owns the bit
SetWb(t) ==
  /\ pc[t] = "SetWb"
  /\ (IF w
        THEN UNCHANGED <<w, pc>>                         \* spin: the step changes nothing
        ELSE /\ w' = TRUE
             /\ Goto(t, IF Op(t) = "lock" THEN "DrainLd" ELSE "UpgSub"))
  /\ UNCHANGED <<cfgv, r, ip, loc, mode, inW, inR>>

\* lock_upgrade: give up the own reader unit (no notify: the upgrader is the drainer)
UpgSub(t) ==
  /\ pc[t] = "UpgSub"
  /\ r' = r - 1
  /\ mode' = [mode EXCEPT ![t] = "U"]
  /\ Goto(t, "DrainLd")
  /\ UNCHANGED <<cfgv, w, ip, loc, inW, inR>>

\* ------------------------------------------- waitForReaderDrain = event_.wait(kWriteBit)
\*   int current; while ((current = status_.load()) != kWriteBit) futex(WAIT, current);
\* the load and the decision that follows it
AfterLoad(t) ==
  IF w /\ r = 0
    THEN Finish(t, "W")
    ELSE /\ loc' = [loc EXCEPT ![t].cw = w, ![t].cr = r, ![t].reason = 0]
         /\ Goto(t, "FutexWait")
         /\ UNCHANGED <<ip, mode>>
\* arriving at the load: it is its own step when CompletionEventImpl::wait has a point there
ToLoad(t) ==
  IF cept
    THEN /\ Goto(t, "CeWaitLd")
         /\ loc' = [loc EXCEPT ![t].reason = 0]
         /\ UNCHANGED <<ip, mode>>
    ELSE AfterLoad(t)

DrainLd(t) ==
  /\ pc[t] = "DrainLd"
  /\ ToLoad(t)
  /\ UNCHANGED <<cfgv, w, r, inW, inR>>

CeWaitLd(t) ==
  /\ pc[t] = "CeWaitLd"
  /\ AfterLoad(t)
  /\ UNCHANGED <<cfgv, w, r, inW, inR>>

\* FUTEX_WAIT: block iff the word still has the value that was loaded
FutexWait(t) ==
  /\ pc[t] = "FutexWait"
  /\ (IF w = loc[t].cw /\ r = loc[t].cr
        THEN Goto(t, "FutexBlocked") /\ UNCHANGED <<ip, mode, loc>>
        ELSE ToLoad(t))
  /\ UNCHANGED <<cfgv, w, r, inW, inR>>

\* a woken (or spuriously returning) waiter resumes: next loop iteration
FutexRet(t) ==
  /\ pc[t] = "FutexRet"
  /\ ToLoad(t)
  /\ UNCHANGED <<cfgv, w, r, inW, inR>>

FutexSpurious(t) ==
  /\ spur
  /\ pc[t] = "FutexBlocked"
  /\ Goto(t, "FutexRet")
  /\ loc' = [loc EXCEPT ![t].reason = 3]
  /\ UNCHANGED <<cfgv, w, r, ip, mode, inW, inR>>

\* --------------------------------------------------------------------------- try_lock
TryOr(t) ==
  /\ pc[t] = "TryOr"
  /\ (IF w
        THEN Finish(t, "N") /\ UNCHANGED w                   \* another writer: false
        ELSE /\ w' = TRUE
             /\ (IF r = 0
                   THEN Finish(t, "W")                         \* val == 0: true
                   ELSE /\ Goto(t, IF spins = 0 THEN "TryRollback" ELSE "TryDrainLd")
                        /\ UNCHANGED <<ip, mode, loc>>))
  /\ UNCHANGED <<cfgv, r, inW, inR>>

\* one iteration of the bounded drain loop
TryDrainLd(t) ==
  /\ pc[t] = "TryDrainLd"
  /\ (IF w /\ r = 0
        THEN Finish(t, "W")
        ELSE /\ (IF loc[t].spin + 1 >= spins
                   THEN Goto(t, "TryRollback")
                   ELSE UNCHANGED pc)
             /\ loc' = [loc EXCEPT ![t].spin = @ + 1]
             /\ UNCHANGED <<ip, mode>>)
  /\ UNCHANGED <<cfgv, w, r, inW, inR>>

TryRollback(t) ==
  /\ pc[t] = "TryRollback"
  /\ w' = FALSE
  /\ Finish(t, "N")
  /\ UNCHANGED <<cfgv, r, inW, inR>>

\* -------------------------------------------------------------- unlock / lock_downgrade
WrUnlock(t) ==
  /\ pc[t] = "WrUnlock"
  /\ w' = FALSE
  /\ Finish(t, IF Op(t) = "unlock" THEN "N" ELSE "R")
  /\ UNCHANGED <<cfgv, r, inW, inR>>

DownAdd(t) ==
  /\ pc[t] = "DownAdd"
  /\ r' = r + 1
  /\ Goto(t, "WrUnlock")
  /\ UNCHANGED <<cfgv, w, ip, loc, mode, inW, inR>>

\* ------------------------------------------------------- lock_shared / try_lock_shared
ShAdd(t) ==
  /\ pc[t] = "ShAdd"
  /\ r' = r + 1
  /\ (IF w
        THEN Goto(t, "RdRel") /\ UNCHANGED <<ip, mode, loc>>   \* back out (transient unit)
        ELSE Finish(t, "R"))
  /\ UNCHANGED <<cfgv, w, inW, inR>>

TryShAdd(t) ==
  /\ pc[t] = "TryShAdd"
  /\ r' = r + 1
  /\ (IF w
        THEN Goto(t, "RdRel") /\ UNCHANGED <<ip, mode, loc>>
        ELSE Finish(t, "R"))
  /\ UNCHANGED <<cfgv, w, inW, inR>>

\* what follows readerRelease() in the three places that call it
AfterRel(t) ==
  IF Op(t) = "lock_shared"
    THEN Goto(t, "ShSpin") /\ UNCHANGED <<ip, mode, loc>>
    ELSE Finish(t, "N")        \* unlock_shared returns; try_lock_shared returns false

\* readerRelease: fetch_sub(1); the last reader under a writer bit wakes the draining writer
RdRel(t) ==
  /\ pc[t] = "RdRel"
  /\ r' = r - 1
  /\ (IF w /\ r = 1
        THEN /\ Goto(t, "FutexWake")
             /\ mode' = [mode EXCEPT ![t] = "N"]
             /\ UNCHANGED <<ip, loc>>
        ELSE AfterRel(t))
  /\ UNCHANGED <<cfgv, w, inW, inR>>

\* tryNotify: FUTEX_WAKE(INT_MAX) wakes every waiter on the word
FutexWake(t, W) ==
  /\ pc[t] = "FutexWake"
  /\ W = Blocked
  /\ LET j == NextIp(t, ip[t] + 1, "N")
         spinning == Op(t) = "lock_shared"
     IN /\ pc' = [u \in T |-> IF u \in W THEN "FutexRet"
                              ELSE IF u = t THEN (IF spinning THEN "ShSpin" ELSE PcAt(t, j))
                              ELSE pc[u]]
        /\ loc' = [u \in T |-> IF u \in W THEN [loc[u] EXCEPT !.reason = 1] ELSE loc[u]]
        /\ ip' = [ip EXCEPT ![t] = IF spinning THEN @ ELSE j]
  /\ UNCHANGED <<cfgv, w, r, mode, inW, inR>>

\* lock_shared: spin (plain load) until the writer bit is clear, then try again
ShSpin(t) ==
  /\ pc[t] = "ShSpin"
  /\ (IF w THEN UNCHANGED pc ELSE Goto(t, "ShAdd"))
  /\ UNCHANGED <<cfgv, w, r, ip, loc, mode, inW, inR>>

\* (the disjunction is spelled out inside Next so that TLC labels every edge of the dumped state
\*  graph with the action name and its arguments)
Next ==
  \E t \in Threads :
     \/ Start(t) \/ CsEnter(t) \/ CsExit(t)
     \/ SetWb(t) \/ UpgSub(t) \/ DrainLd(t) \/ CeWaitLd(t)
     \/ FutexWait(t) \/ FutexRet(t) \/ FutexSpurious(t)
     \/ TryOr(t) \/ TryDrainLd(t) \/ TryRollback(t)
     \/ WrUnlock(t) \/ DownAdd(t)
     \/ ShAdd(t) \/ TryShAdd(t) \/ RdRel(t) \/ ShSpin(t)
     \/ \E W \in SUBSET Threads : FutexWake(t, W)

Spec == Init /\ [][Next]_vars

\* a step of thread t of the program (everything but the environment's spurious return)
ThreadStep(t) ==
  \/ Start(t) \/ CsEnter(t) \/ CsExit(t)
  \/ SetWb(t) \/ UpgSub(t) \/ DrainLd(t) \/ CeWaitLd(t)
  \/ FutexWait(t) \/ FutexRet(t)
  \/ TryOr(t) \/ TryDrainLd(t) \/ TryRollback(t)
  \/ WrUnlock(t) \/ DownAdd(t)
  \/ ShAdd(t) \/ TryShAdd(t) \/ RdRel(t) \/ ShSpin(t)
  \/ \E W \in SUBSET Threads : FutexWake(t, W)

\* weak fairness of every thread (a spinning step changes nothing, so it is no obligation and
\* cannot be used to starve anybody); no fairness of spurious returns
FairSpec == Spec /\ \A t \in Threads : WF_vars(ThreadStep(t))

\* ============================================================================ properties
AllDone == \A t \in T : pc[t] = "Done"
Holders(m) == {t \in T : mode[t] = m}

\* (C22) write access is exclusive, read access only while no writer holds the lock.  "Holds" is
\* judged at the code's own linearisation points: from the step in which the acquiring call saw
\* its deciding value to the first atomic access of the releasing call.
ExclHold ==
  /\ Cardinality(Holders("W")) <= 1
  /\ (Holders("W") # {} => Holders("R") = {})
\* (C22) the same, as observed by the occupancy counters inside the critical sections
ExclCs == inW <= 1 /\ (inW >= 1 => inR = 0) /\ inW >= 0 /\ inR >= 0

\* exact accounting of the lock word: who owns the writer bit, who owns a reader unit
InDrain(t) == pc[t] \in {"DrainLd", "CeWaitLd", "FutexWait", "FutexBlocked", "FutexRet"}
OwnsBit(t) ==
  \/ mode[t] \in {"W", "U"}
  \/ (pc[t] \in {"TryDrainLd", "TryRollback", "UpgSub"})
  \/ (InDrain(t) /\ mode[t] = "N")
HasUnit(t) ==
  \/ mode[t] = "R"
  \/ (pc[t] = "RdRel" /\ mode[t] = "N")            \* transient unit of a reader backing out
  \/ (pc[t] = "WrUnlock" /\ ip[t] <= Len(prog[t]) /\ Op(t) = "downgrade")
\* (C22) a failed try_lock restores the word; nothing is ever lost or left behind in it
WordExact ==
  /\ r = Cardinality({t \in T : HasUnit(t)})
  /\ w = (\E t \in T : OwnsBit(t))
  /\ Cardinality({t \in T : OwnsBit(t)}) <= 1
\* every program ends with everything released and the word back to zero
QuiescentZero == AllDone => (~w /\ r = 0 /\ \A t \in T : mode[t] = "N")

\* (C22) no lost wake-up, no deadlock: as long as some thread has not finished its program, some
\* thread can take a step that changes the state (a thread blocked in the futex or spinning on a
\* set writer bit cannot).  Programs are finite and every non-spinning step advances a program, so
\* this is equivalent to termination under weak fairness (checked as Termination as well).
CanMove(t) ==
  /\ pc[t] \notin {"Done", "FutexBlocked"}
  /\ ~(pc[t] \in {"SetWb", "ShSpin"} /\ w)
NoStuck == AllDone \/ \E t \in T : CanMove(t)
\* a sleeping drainer has something to wait for
NoLostWake == \A t \in T : pc[t] = "FutexBlocked" => (w /\ (r > 0 \/ \E u \in T : pc[u] = "FutexWake"))

\* (C22) the try variants never acquire a conflicting lock (action property)
TrySucceeds(t, m) == mode[t] = "N" /\ mode'[t] = m /\ ip'[t] # ip[t]
Moved(t) == pc'[t] # pc[t] \/ ip'[t] # ip[t] \/ loc'[t] # loc[t]     \* the step is t's
TryNeverConflicts ==
  [][\A t \in Threads :
       /\ (pc[t] \in {"TryOr", "TryDrainLd"} /\ TrySucceeds(t, "W"))
             => (\A u \in T \ {t} : mode[u] \notin {"R", "W"})
       /\ (pc[t] = "TryShAdd" /\ TrySucceeds(t, "R"))
             => (\A u \in T \ {t} : mode[u] # "W")
       \* try_lock never touches the reader count; one that finds a writer leaves the bit alone
       /\ (pc[t] \in {"TryOr", "TryDrainLd", "TryRollback"} /\ Moved(t)) => r' = r
       /\ (pc[t] = "TryOr" /\ w /\ Moved(t)) => (w' /\ mode'[t] = "N")]_vars

\* (C22) progress
Termination == <>AllDone
BlockedProceeds == \A t \in Threads : [](pc[t] = "FutexBlocked" => <>(pc[t] # "FutexBlocked"))

TypeOK ==
  /\ w \in BOOLEAN
  /\ r \in 0 .. Cardinality(T)
  /\ \A t \in T : /\ ip[t] \in 1 .. (Len(prog[t]) + 1)
                  /\ mode[t] \in {"N", "R", "W", "U"}
                  /\ loc[t].spin \in 0 .. spins
==========================================================================
