------------------------------ MODULE MCRWLock ------------------------------
EXTENDS RWLock, IOUtils
\* CompletionEventImpl::wait has its own schedule point iff the hooks of the CompletionEvent
\* component are merged; the check asks the driver (--calibrate) and tells TLC through $CEPT
CePointEnv == ("CEPT" \in DOMAIN IOEnv) /\ (IOEnv.CEPT = "1")
P(s) == [i \in 1 .. Len(s) |-> [op |-> s[i]]]

\* ---- cover configurations (replayed transition by transition in the real code; DrainSpins = 16)
\* blocking writer vs. blocking reader vs. try reader
Prog_coverA == [t1 |-> P(<<"lock", "unlock">>),
                t2 |-> P(<<"lock_shared", "unlock_shared">>),
                t3 |-> P(<<"try_lock_shared", "unlock_shared">>)]
\* try writer (bounded drain + roll-back) vs. reader vs. blocking writer
Prog_coverB == [t1 |-> P(<<"try_lock", "unlock">>),
                t2 |-> P(<<"lock_shared", "unlock_shared">>),
                t3 |-> P(<<"lock", "unlock">>)]
\* single upgrader (documented contract: nobody else write-locks) + downgrade vs. readers
Prog_coverC == [t1 |-> P(<<"lock_shared", "upgrade", "downgrade", "unlock_shared">>),
                t2 |-> P(<<"lock_shared", "unlock_shared">>),
                t3 |-> P(<<"try_lock_shared", "unlock_shared">>)]

\* ---- exhaustive configurations (DrainSpins abstracted to 2)
Prog_3x3 == [t1 |-> P(<<"lock", "downgrade", "unlock_shared", "try_lock", "unlock">>),
             t2 |-> P(<<"lock_shared", "unlock_shared", "try_lock", "unlock", "lock_shared", "unlock_shared">>),
             t3 |-> P(<<"try_lock_shared", "unlock_shared", "lock", "unlock">>)]
Prog_4w == [t1 |-> P(<<"lock", "unlock", "lock_shared", "unlock_shared">>),
            t2 |-> P(<<"try_lock", "unlock", "lock", "unlock">>),
            t3 |-> P(<<"lock_shared", "unlock_shared", "try_lock_shared", "unlock_shared">>),
            t4 |-> P(<<"lock_shared", "unlock_shared">>)]
Prog_4x3 == [t1 |-> P(<<"lock", "downgrade", "unlock_shared", "try_lock", "unlock", "lock_shared", "unlock_shared">>),
             t2 |-> P(<<"lock_shared", "unlock_shared", "try_lock", "unlock", "lock", "unlock">>),
             t3 |-> P(<<"try_lock_shared", "unlock_shared", "lock", "unlock", "lock_shared", "unlock_shared">>),
             t4 |-> P(<<"lock_shared", "unlock_shared", "try_lock_shared", "unlock_shared", "try_lock", "unlock">>)]
Prog_upg == [t1 |-> P(<<"lock_shared", "upgrade", "unlock", "lock", "downgrade", "upgrade", "unlock">>),
             t2 |-> P(<<"lock_shared", "unlock_shared", "try_lock_shared", "unlock_shared">>),
             t3 |-> P(<<"try_lock_shared", "unlock_shared", "lock_shared", "unlock_shared">>)]

\* several programs in one run: the program is part of the state, so the runs do not mix
Prog_3b == [t1 |-> P(<<"try_lock", "downgrade", "unlock_shared", "lock", "unlock">>),
            t2 |-> P(<<"try_lock_shared", "unlock_shared", "lock", "downgrade", "unlock_shared">>),
            t3 |-> P(<<"lock_shared", "unlock_shared", "try_lock", "unlock", "try_lock_shared", "unlock_shared">>)]
\* the three cover programs in one run (one dumped graph per initial state)
InitCover == \E p \in {Prog_coverA, Prog_coverB, Prog_coverC} : InitWith(p, DrainSpins, Spurious, CePoint)
FairCover == InitCover /\ [][Next]_vars /\ \A t \in Threads : WF_vars(ThreadStep(t))
InitQuick == \E p \in {Prog_3x3, Prog_3b, Prog_upg} : InitWith(p, DrainSpins, Spurious, CePoint)
==========================================================================
