CONSTANTS
  Threads = {"t1", "t2", "t3"}
  Prog <- Prog_upg
  DrainSpins = 2
  Spurious = TRUE
  CePoint <- CePointEnv
SPECIFICATION FairSpec
CHECK_DEADLOCK FALSE
INVARIANTS TypeOK ExclHold ExclCs WordExact QuiescentZero NoStuck NoLostWake
PROPERTIES TryNeverConflicts Termination BlockedProceeds
