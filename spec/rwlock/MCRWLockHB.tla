----------------------------- MODULE MCRWLockHB -----------------------------
EXTENDS RWLockHB
P(s) == [i \in 1 .. Len(s) |-> [op |-> s[i]]]

\* hb1: every non-upgrade operation.  hb1a: two write sections of one thread around a reader that has to
\* retry (second ShAdd), writer after writer (second SetWb), try_lock on a free lock (TryOr sees 0) and over
\* draining readers (TryDrainLd, TryRollback), try reader.  hb1b: try_lock + downgrade, try_lock vs readers
Prog_hb1a == [t1 |-> P(<<"lock", "unlock", "lock", "unlock">>),
              t2 |-> P(<<"lock_shared", "unlock_shared", "try_lock", "unlock">>),
              t3 |-> P(<<"try_lock_shared", "unlock_shared", "lock", "unlock">>)]
Prog_hb1b == [t1 |-> P(<<"try_lock", "downgrade", "unlock_shared">>),
              t2 |-> P(<<"lock_shared", "unlock_shared", "try_lock", "unlock">>),
              t3 |-> P(<<"try_lock_shared", "unlock_shared", "lock_shared", "unlock_shared">>)]
\* hb2: lock_upgrade / lock_downgrade within the documented contract (only ONE thread, t1, ever asks for
\* write access) against blocking and try readers
Prog_hb2a == [t1 |-> P(<<"lock_shared", "upgrade", "downgrade", "unlock_shared">>),
              t2 |-> P(<<"lock_shared", "unlock_shared">>),
              t3 |-> P(<<"try_lock_shared", "unlock_shared">>)]
Prog_hb2b == [t1 |-> P(<<"lock", "downgrade", "upgrade", "unlock">>),
              t2 |-> P(<<"lock_shared", "unlock_shared", "try_lock_shared", "unlock_shared">>),
              t3 |-> <<>>]
Prog_hb2c == [t1 |-> P(<<"lock_shared", "upgrade", "unlock", "try_lock", "unlock">>),
              t2 |-> P(<<"lock_shared", "unlock_shared">>),
              t3 |-> P(<<"try_lock_shared", "unlock_shared">>)]
\* several programs in one run: the program is part of the state, so the runs do not mix
HInit1 == \E p \in {Prog_hb1a, Prog_hb1b} : HInitWith(p)
HInit2 == \E p \in {Prog_hb2a, Prog_hb2b, Prog_hb2c} : HInitWith(p)
\* ---- not registered in the check (MC_hbm_ww.cfg / MC_hbm_wr.cfg): two-thread programs for the COMBINED order
\* mutations, which show that the overlay consumes the orders that are redundant on their own (SetWb, ShSpin)
\* writer after writer, no reader: the only acquire that orders them is SetWb (or the drain load)
Prog_ww == [t1 |-> P(<<"lock", "unlock">>), t2 |-> P(<<"lock", "unlock">>), t3 |-> <<>>]
\* ONE write section and a blocking reader: a retrying reader is ordered by ShSpin or by the second ShAdd
Prog_wr == [t1 |-> P(<<"lock", "unlock">>), t2 |-> P(<<"lock_shared", "unlock_shared">>), t3 |-> <<>>]
HInitWW == HInitWith(Prog_ww)
HInitWR == HInitWith(Prog_wr)
=============================================================================
