CONSTANTS
  Threads = {}
  Prog = 0
  DrainSpins = 16
  Spurious = FALSE
  CePoint = FALSE
SPECIFICATION TraceSpec
CHECK_DEADLOCK FALSE
POSTCONDITION TraceAccepted
INVARIANTS ExclHold ExclCs WordExact QuiescentZero NoStuck NoLostWake
