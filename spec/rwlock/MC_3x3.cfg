CONSTANTS
  Threads = {"t1", "t2", "t3"}
  Prog <- Prog_3x3
  DrainSpins = 2
  Spurious = FALSE
  CePoint <- CePointEnv
SPECIFICATION FairSpec
CHECK_DEADLOCK FALSE
INVARIANTS TypeOK ExclHold ExclCs WordExact QuiescentZero NoStuck NoLostWake
PROPERTIES TryNeverConflicts Termination BlockedProceeds
