---------------------------- MODULE RWLockTrace ----------------------------
(* Trace validation for RWLock.tla: every line of the ndjson trace recorded from the   *)
(* real dispenso::RWLock under the controlled scheduler (modelled futex) must be       *)
(* explained by the specification action of the same name taken by the same thread;    *)
(* the projected state (writer bit, reader count, critical-section occupancy counters  *)
(* kept by the driver), the futex outcome (blocked / value mismatch, wake reason, set  *)
(* of woken threads) and the value returned to the caller must equal the               *)
(* specification's.  All invariants of RWLock.tla are evaluated in every state.        *)
EXTENDS RWLock, Json, IOUtils

TraceLog == ndJsonDeserialize(IOEnv.TRACE)

VARIABLE l   \* next line to consume

tvars == <<vars, l>>

TraceInit ==
  /\ l = 2
  /\ TraceLog[1].e = "Reset"
  /\ InitWith(TraceLog[1].prog, TraceLog[1].spins, TraceLog[1].spur = 1, TraceLog[1].cept = 1)

ResetTo(p, sp, su, ce) ==
  /\ prog' = p /\ spins' = sp /\ spur' = su /\ cept' = ce
  /\ w' = FALSE /\ r' = 0
  /\ pc' = [t \in DOMAIN p |-> "Start"]
  /\ ip' = [t \in DOMAIN p |-> 1]
  /\ loc' = [t \in DOMAIN p |-> EmptyLoc]
  /\ mode' = [t \in DOMAIN p |-> "N"]
  /\ inW' = 0 /\ inR' = 0

ToSet(s) == {s[i] : i \in 1 .. Len(s)}

Dispatch(ev, t) ==
  LET e == ev.e IN
  CASE e = "Start"       -> Start(t)
    [] e = "CsEnter"     -> CsEnter(t)
    [] e = "CsExit"      -> CsExit(t)
    [] e = "SetWb"       -> SetWb(t)
    [] e = "UpgSub"      -> UpgSub(t)
    [] e = "DrainLd"     -> DrainLd(t)
    [] e = "CeWaitLd"    -> CeWaitLd(t)
    [] e = "FutexWait"   -> FutexWait(t)
    [] e = "FutexRet"    -> FutexRet(t)
    [] e = "FutexWake"   -> FutexWake(t, ToSet(ev.w))
    [] e = "TryOr"       -> TryOr(t)
    [] e = "TryDrainLd"  -> TryDrainLd(t)
    [] e = "TryRollback" -> TryRollback(t)
    [] e = "WrUnlock"    -> WrUnlock(t)
    [] e = "DownAdd"     -> DownAdd(t)
    [] e = "ShAdd"       -> ShAdd(t)
    [] e = "TryShAdd"    -> TryShAdd(t)
    [] e = "RdRel"       -> RdRel(t)
    [] e = "ShSpin"      -> ShSpin(t)
    [] OTHER             -> FALSE

ProjOK(ev) ==
  /\ w' = (ev.s.w = 1)
  /\ r' = ev.s.r
  /\ inW' = ev.s.inW
  /\ inR' = ev.s.inR

\* values noted during the step: outcome of the futex call (if the step began inside one), then
\* the value returned to the caller (if the operation completed in this step)
ExpectedRet(ev, t) ==
  LET fut == IF ev.e = "FutexWait" THEN <<IF pc'[t] = "FutexBlocked" THEN 1 ELSE 0>>
             ELSE IF ev.e = "FutexRet" THEN <<loc[t].reason>>
             ELSE <<>>
      res == IF ev.e # "Start" /\ ip'[t] # ip[t]
               THEN <<IF Op(t) \in TryOps THEN (IF mode'[t] # "N" THEN 1 ELSE 0) ELSE 1>>
               ELSE <<>>
  IN fut \o res

TraceStep ==
  /\ l <= Len(TraceLog)
  /\ LET ev == TraceLog[l] IN
       \/ /\ ev.e = "Reset"
          /\ ResetTo(ev.prog, ev.spins, ev.spur = 1, ev.cept = 1)
       \/ /\ ev.e = "End"                       \* the driver saw every thread finish
          /\ AllDone
          /\ ~w /\ r = 0 /\ ev.word = 0
          /\ UNCHANGED vars
       \/ /\ ev.e = "Deadlock"                  \* the harness found nothing runnable: explained
          /\ ~NoStuck                           \* only by a stuck specification state
          /\ UNCHANGED vars
       \/ /\ ev.e = "FutexSpurious"
          /\ {"t", "s"} \subseteq DOMAIN ev
          /\ ev.t \in T
          /\ FutexSpurious(ev.t)
          /\ ProjOK(ev)
       \* (harness events without thread / result / state -- "Diverged", a stuck step -- are
       \*  never explained: the trace is rejected at that line)
       \/ /\ ev.e \notin {"Reset", "End", "Deadlock", "FutexSpurious"}
          /\ {"t", "r", "s"} \subseteq DOMAIN ev
          /\ ev.t \in T
          /\ Dispatch(ev, ev.t)
          /\ ProjOK(ev)
          /\ ev.r = ExpectedRet(ev, ev.t)
  /\ l' = l + 1

TraceSpec == TraceInit /\ [][TraceStep]_tvars

\* One state per consumed line (TraceInit consumes line 1).
TraceAccepted ==
  LET d == TLCGet("stats").diameter IN
  IF d = Len(TraceLog) THEN TRUE
  ELSE /\ PrintT(<<"TRACE_REJECTED_AT_LINE", d + 1, "OF", Len(TraceLog)>>)
       /\ PrintT(<<"OFFENDING", TraceLog[d + 1]>>)
       /\ FALSE
==========================================================================
