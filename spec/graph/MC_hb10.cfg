CONSTANTS
  MergeFix = TRUE
  LazyChecks = FALSE
  MaxNodes = 4
  MaxSg = 1
  Threads = {"main", "w0"}
  BiPropMode = FALSE
  Execs = {"pf"}
  MaxClears = 0
  MaxEvals = 2
  MaxEdges = 6
  MaxMarks = 1
  PropAllowed = TRUE
  SetAllAllowed = TRUE
  LateEdges = FALSE
  RoundNodes <- RN_4_0
  ShapeEdges <- Diamond
  FullOnly = TRUE
  Assume <- A_all
INIT HInit
NEXT MCHNext
CHECK_DEADLOCK FALSE
INVARIANTS OrdersComplete RaceFree TypeOK RunOnce OrderOK AllRan AllComplete
