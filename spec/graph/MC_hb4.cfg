CONSTANTS
  MergeFix = TRUE
  LazyChecks = FALSE
  MaxNodes = 4
  MaxSg = 1
  Threads = {"main", "w0"}
  BiPropMode = FALSE
  Execs = {"cts", "pf"}
  MaxClears = 0
  MaxEvals = 1
  MaxEdges = 6
  MaxMarks = 0
  PropAllowed = FALSE
  SetAllAllowed = TRUE
  LateEdges = FALSE
  RoundNodes <- RN_4_0
  ShapeEdges <- Any4
  FullOnly = FALSE
  Assume <- A_all
INIT HInit
NEXT MCHNext
CHECK_DEADLOCK FALSE
INVARIANTS OrdersComplete RaceFree TypeOK RunOnce OrderOK AllRan AllComplete
