----------------------------- MODULE GraphTrace -----------------------------
(* Trace validation for Graph.tla.  Every line recorded by harness/drv/drv_graph.cpp *)
(* from the REAL dispenso graph classes must be explained by the specification       *)
(* action of the same operation / schedule point, and the projection of the real     *)
(* graph (every node's numIncompletePredecessors_, numPredecessors_, dependents_      *)
(* vector in order, members of its propagation set object) must equal the             *)
(* specification's concrete layer after EVERY event - pool-internal steps included,   *)
(* which are stuttering steps of this specification.  All invariants of Graph.tla     *)
(* (C30 / C31) are evaluated in every state of the validated behaviour.               *)
(*                                                                                     *)
(* Two kinds of executions:                                                           *)
(*  step  (big = 0) controlled scheduler; evaluation is validated step by step         *)
(*  big   (big = 1) free-running pool, large random DAGs; one line per operation and   *)
(*        one observation line per evaluation carrying the run log (begin / end events *)
(*        logged inside the functors, in their real order), judged by RunLog below.    *)
EXTENDS Graph, Json, IOUtils

TraceLog == ndJsonDeserialize(IOEnv.TRACE)

VARIABLES l, big
tvars == <<vars, l, big>>

SeqToSet(s) == {s[i] : i \in DOMAIN s}

TraceInit ==
  /\ l = 2
  /\ TraceLog[1].e = "Reset"
  /\ big = TraceLog[1].big
  /\ InitWith(TraceLog[1].maxn, SeqToSet(TraceLog[1].threads), TraceLog[1].bp = 1)

ResetTo(mn, th, b) ==
  /\ maxn' = mn /\ threads' = th /\ bp' = b
  /\ nsg' = 1
  /\ alive' = {} /\ sgOf' = [n \in 1 .. mn |-> 0] /\ dep' = [n \in 1 .. mn |-> <<>>]
  /\ npred' = [n \in 1 .. mn |-> 0] /\ ninc' = [n \in 1 .. mn |-> 0] /\ bset' = [n \in 1 .. mn |-> 0]
  /\ sets' = <<>>
  /\ apred' = [n \in 1 .. mn |-> <<>>] /\ acls' = {} /\ ainc' = {}
  /\ nextId' = 1 /\ prepared' = FALSE /\ touched' = FALSE /\ afterEval' = FALSE /\ uaf' = FALSE
  /\ phase' = "build" /\ exec' = "none" /\ expected' = {}
  /\ began' = [n \in 1 .. mn |-> 0] /\ ended' = [n \in 1 .. mn |-> 0] /\ orderBad' = {}
  /\ stk' = [t \in th |-> <<>>] /\ lq' = [t \in th |-> 0] /\ queued' = [n \in 1 .. mn |-> 0]
  /\ wave' = <<>> /\ widx' = 1 /\ started' = {} /\ wfin' = 0 /\ nextWave' = <<>>

ExecName(k) == CASE k = 0 -> "st" [] k = 1 -> "pf" [] k = 2 -> "cts" [] k = 3 -> "pf"

\* the real graph after the event = the specification's concrete layer
ProjOK(s) ==
  /\ SeqToSet(s.al) = alive'
  /\ Len(s.ninc) = nextId' - 1
  /\ \A n \in alive' :
       /\ s.ninc[n] = ninc'[n]
       /\ s.npred[n] = npred'[n]
       /\ s.dep[n] = dep'[n]
       /\ SeqToSet(s.bs[n]) = (IF bset'[n] = 0 THEN {} ELSE sets'[bset'[n]])

\* an operation of the driver program (note attached to a DrOp step / an Op line)
DoOp(t, nt) ==
  LET o == nt[1] IN
  CASE o = "sub"    -> AddSubgraph(t)
    [] o = "add"    -> AddNode(t, nt[2]) /\ nt[3] = nextId
    [] o = "dep"    -> DependsOn(t, nt[2], nt[3])
    [] o = "bi"     -> BiDependsOn(t, nt[2], nt[3])
    [] o = "clr"    -> Clear(t, nt[2])
    [] o = "clrall" -> ClearAll(t)
    [] o = "gclear" -> ClearGraph(t)
    [] o = "move"   -> MoveGraph(t)
    [] o = "mark"   -> Mark(t, nt[2])
    [] o = "setall" -> SetAll(t)
    [] o = "prop"   -> Propagate(t)
    [] o = "eval"   -> Eval(t, ExecName(nt[2]))
    [] o \in {"pool", "del"} -> UNCHANGED vars
    [] OTHER -> FALSE

NoteOf(ev, tag) == LET I == {i \in DOMAIN ev.r : ev.r[i][1] = tag} IN
                   IF I = {} THEN <<>> ELSE ev.r[CHOOSE i \in I : TRUE]

\* step-level dispatch: the site at which the thread was parked names the action
Dispatch(ev) ==
  LET e == ev.e
      t == ev.t
  IN
  CASE e = "DrOp"       -> /\ Len(ev.r) >= 1 /\ DoOp(t, ev.r[1])
    [] e = "DrBegin"    -> /\ NoteOf(ev, "begin") # <<>> /\ EvBegin(t, NoteOf(ev, "begin")[2])
    [] e = "DrBody"     -> /\ NoteOf(ev, "end") # <<>>
                           /\ stk[t] # <<>> /\ Top(t).n = NoteOf(ev, "end")[2]
                           /\ EvEnd(t)
    [] e = "GrComplete" -> GrComplete(t)
    [] e = "GrLd"       -> GrLd(t)
    [] e = "GrDec"      -> GrDec(t)
    [] e = "DrRet"      -> EvalRet(t)
    [] OTHER            -> UNCHANGED vars         \* pool-internal step / Start / DrEnd: stuttering

\* ---- judgement of a whole evaluation from its run log (big mode) ----------------------------
\* log[i] = <<0, n>> functor of n began, <<1, n>> functor of n finished
Positions(log, k, n) == {i \in DOMAIN log : log[i][1] = k /\ log[i][2] = n}
EvalObs(t, ev) ==
  /\ Building(t) /\ prepared
  /\ ev.overflow = 0
  /\ LET log == ev.log
         ex == ainc
         posB == [n \in DOMAIN began |-> Positions(log, 0, n)]
         posE == [n \in DOMAIN ended |-> Positions(log, 1, n)]
         firstOf(S) == CHOOSE i \in S : \A j \in S : i <= j
         fB == [n \in DOMAIN began |-> IF posB[n] = {} THEN 0 ELSE firstOf(posB[n])]
         fE == [n \in DOMAIN ended |-> IF posE[n] = {} THEN 0 ELSE firstOf(posE[n])]
     IN
       /\ expected' = ex
       /\ began' = [n \in DOMAIN began |-> Cardinality(posB[n])]
       /\ ended' = [n \in DOMAIN ended |-> Cardinality(posE[n])]
       /\ orderBad' = UNION {{<<p, n>> : p \in {q \in Range(apred[n]) \cap ex : fE[q] = 0 \/ fB[n] < fE[q]}} :
                             n \in {m \in ex : fB[m] # 0}}
       /\ \A i \in DOMAIN log : log[i][2] \in alive
  \* the real graph after the evaluation (ProjOK is required by TraceStep): counters as observed
  /\ ninc' = [n \in DOMAIN ninc |-> IF n \in alive THEN ev.s.ninc[n] ELSE ninc[n]]
  /\ exec' = ExecName(ev.exec)
  /\ ainc' = {}
  /\ afterEval' = TRUE /\ prepared' = FALSE /\ touched' = FALSE
  /\ UNCHANGED <<cfgv, nsg, alive, sgOf, dep, npred, bset, sets, apred, acls, nextId, uaf,
                 phase, stk, lq, queued, wave, widx, started, wfin, nextWave>>

TraceStep ==
  /\ l <= Len(TraceLog)
  /\ LET ev == TraceLog[l] IN
       \/ /\ ev.e = "Reset"
          /\ ResetTo(ev.maxn, SeqToSet(ev.threads), ev.bp = 1)
          /\ big' = ev.big
       \/ /\ ev.e = "End"
          /\ phase = "build"
          /\ UNCHANGED <<vars, big>>
       \/ /\ ev.e = "Op"          \* big mode: an operation, usually without projection
          /\ big = 1
          /\ DoOp(ev.t, ev.r[1])
          /\ ("s" \in DOMAIN ev) => ProjOK(ev.s)
          /\ UNCHANGED big
       \/ /\ ev.e = "EvalObs"
          /\ big = 1
          /\ EvalObs(ev.t, ev)
          /\ ProjOK(ev.s)
          /\ UNCHANGED big
       \/ /\ ev.e \notin {"Reset", "End", "Op", "EvalObs"}
          /\ big = 0
          /\ ev.e \notin {"Deadlock", "Diverged"}
          /\ "stuck" \notin DOMAIN ev
          /\ ev.t \in threads
          /\ Dispatch(ev)
          /\ ProjOK(ev.s)
          /\ UNCHANGED big
  /\ l' = l + 1

TraceSpec == TraceInit /\ [][TraceStep]_tvars

TraceAccepted ==
  LET d == TLCGet("stats").diameter IN
  IF d = Len(TraceLog) THEN TRUE
  ELSE /\ PrintT(<<"TRACE_REJECTED_AT_LINE", d + 1, "OF", Len(TraceLog)>>)
       /\ PrintT(<<"OFFENDING", TraceLog[d + 1]>>)
       /\ FALSE
=============================================================================
