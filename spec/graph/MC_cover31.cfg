CONSTANTS
  MergeFix = TRUE
  LazyChecks = FALSE
  MaxNodes = 3
  MaxSg = 1
  Threads = {"main"}
  BiPropMode = TRUE
  Execs = {"st"}
  MaxClears = 0
  MaxEvals = 2
  MaxEdges = 3
  MaxMarks = 2
  PropAllowed = TRUE
  SetAllAllowed = TRUE
  LateEdges = FALSE
  RoundNodes <- RN_3_0
INIT MCInit
NEXT MCNext
CHECK_DEADLOCK FALSE
INVARIANTS TypeOK EdgesOK BiSetsOK NoUseAfterFree PreparedOK RunOnce OrderOK AllRan AllComplete
