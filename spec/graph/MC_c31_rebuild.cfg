CONSTANTS
  MergeFix = TRUE
  LazyChecks = FALSE
  MaxNodes = 3
  MaxSg = 2
  Threads = {"main"}
  BiPropMode = TRUE
  Execs = {"st"}
  MaxClears = 1
  MaxEvals = 2
  MaxEdges = 3
  MaxMarks = 0
  PropAllowed = TRUE
  SetAllAllowed = FALSE
  LateEdges = FALSE
  RoundNodes <- RN_2_1
INIT MCInit
NEXT MCNext
CHECK_DEADLOCK FALSE
INVARIANTS TypeOK EdgesOK BiSetsOK NoUseAfterFree PreparedOK RunOnce OrderOK AllRan AllComplete
