CONSTANTS
  MergeFix = FALSE
  LazyChecks = FALSE
SPECIFICATION TraceSpec
CHECK_DEADLOCK FALSE
POSTCONDITION TraceAccepted
INVARIANTS EdgesOK BiSetsOK NoUseAfterFree PreparedOK RunOnce OrderOK AllRan AllComplete
