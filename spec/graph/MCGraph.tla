------------------------------ MODULE MCGraph ------------------------------
(* Model-checking wrapper of Graph.tla: bounded, canonically ordered programs.    *)
(*                                                                                 *)
(* A program is a sequence of rounds.  A round = [clear] ; add nodes ; add edges   *)
(* (in increasing lexicographic order of (predecessor, successor), so every edge   *)
(* set is built once) ; setIncomplete marks (increasing ids) ; setAllNodes-        *)
(* Incomplete or ForwardPropagator ; one evaluation, step by step.  Edges go from  *)
(* lower to higher ids, except that a node created after the last clear() may be   *)
(* a predecessor of an older node (rebuild of a middle layer).                     *)
(* The wrapper names are the mnemonics of the driver's program text (E2).          *)
EXTENDS Graph

CONSTANTS MaxNodes, MaxSg, Threads, BiPropMode, Execs, MaxClears, MaxEvals, MaxEdges, MaxMarks,
          PropAllowed, SetAllAllowed,
          LateEdges,   \* may edges between nodes that existed at the previous evaluation be added later
          RoundNodes   \* RoundNodes[k] = max number of nodes created after the (k-1)th clear

VARIABLES stage, lastEdge, nclears, nevals, nedges, lastMark, nmarks, genStart
mcv == <<stage, lastEdge, nclears, nevals, nedges, lastMark, nmarks, genStart>>
allv == <<vars, mcv>>

MCInit ==
  /\ InitWith(MaxNodes, Threads, BiPropMode)
  /\ stage = 0 /\ lastEdge = <<0, 0>> /\ nclears = 0 /\ nevals = 0 /\ nedges = 0 /\ lastMark = 0
  /\ nmarks = 0 /\ genStart = 1

LexLess(x, y) == x[1] < y[1] \/ (x[1] = y[1] /\ x[2] < y[2])
EdgeGuard(a, b) ==
  /\ stage <= 1 /\ nedges < MaxEdges /\ nevals < MaxEvals
  /\ a \in alive /\ b \in alive
  /\ (b < a \/ (b >= genStart /\ a < genStart))
  /\ (LateEdges \/ nevals = 0 \/ (nclears > 0 /\ (a >= genStart \/ b >= genStart)))
  /\ LexLess(lastEdge, <<b, a>>)
EdgeDone(a, b) ==
  /\ stage' = 1 /\ lastEdge' = <<b, a>> /\ nedges' = nedges + 1
  /\ UNCHANGED <<nclears, nevals, lastMark, nmarks, genStart>>

Sub(t) == /\ nsg < MaxSg /\ nextId = 1 /\ AddSubgraph(t) /\ UNCHANGED mcv
Add(t, s) == /\ stage = 0 /\ nevals < MaxEvals /\ nextId - genStart < RoundNodes[nclears + 1]
             /\ AddNode(t, s) /\ UNCHANGED mcv
Dep(t, a, b) == /\ EdgeGuard(a, b) /\ DependsOn(t, a, b) /\ EdgeDone(a, b)
Bi(t, a, b) == /\ EdgeGuard(a, b) /\ BiDependsOn(t, a, b) /\ EdgeDone(a, b)
Clr(t, s) ==
  /\ stage <= 1 /\ nclears < MaxClears /\ nevals < MaxEvals
  /\ \E n \in alive : sgOf[n] = s
  /\ Clear(t, s)
  /\ stage' = 0 /\ lastEdge' = <<0, 0>> /\ nclears' = nclears + 1 /\ genStart' = nextId
  /\ UNCHANGED <<nevals, nedges, lastMark, nmarks>>
Mk(t, n) ==
  /\ stage <= 2 /\ nmarks < MaxMarks /\ nevals < MaxEvals /\ n > lastMark /\ n \in alive /\ ninc[n] = Completed
  /\ Mark(t, n)
  /\ stage' = 2 /\ lastMark' = n /\ nmarks' = nmarks + 1
  /\ UNCHANGED <<lastEdge, nclears, nevals, nedges, genStart>>
All(t) ==
  /\ SetAllAllowed /\ stage <= 2 /\ nevals < MaxEvals /\ alive # {} /\ SetAll(t)
  /\ stage' = 3 /\ UNCHANGED <<lastEdge, nclears, nevals, nedges, lastMark, nmarks, genStart>>
Prop(t) ==
  /\ PropAllowed /\ stage <= 2 /\ nevals < MaxEvals /\ alive # {} /\ Propagate(t)
  /\ stage' = 3 /\ UNCHANGED <<lastEdge, nclears, nevals, nedges, lastMark, nmarks, genStart>>
Ev(t, e) ==
  /\ stage = 3 /\ nevals < MaxEvals /\ e \in Execs /\ Eval(t, e)
  /\ nevals' = nevals + 1 /\ UNCHANGED <<stage, lastEdge, nclears, nedges, lastMark, nmarks, genStart>>
Ret(t) ==
  /\ EvalRet(t)
  /\ stage' = 0 /\ lastEdge' = <<0, 0>> /\ nedges' = 0 /\ lastMark' = 0 /\ nmarks' = 0
  /\ UNCHANGED <<nclears, nevals, genStart>>

DrBegin(t, n) == EvBegin(t, n) /\ UNCHANGED mcv
DrBody(t) == EvEnd(t) /\ UNCHANGED mcv
Complete(t) == GrComplete(t) /\ UNCHANGED mcv
Ld(t) == GrLd(t) /\ UNCHANGED mcv
Dec(t) == GrDec(t) /\ UNCHANGED mcv

MCNext ==
  \E t \in Threads :
    \/ Sub(t)
    \/ \E s \in 0 .. (MaxSg - 1) : Add(t, s)
    \/ \E a \in 1 .. MaxNodes, b \in 1 .. MaxNodes : Dep(t, a, b)
    \/ \E a \in 1 .. MaxNodes, b \in 1 .. MaxNodes : Bi(t, a, b)
    \/ \E s \in 0 .. (MaxSg - 1) : Clr(t, s)
    \/ \E n \in 1 .. MaxNodes : Mk(t, n)
    \/ All(t)
    \/ Prop(t)
    \/ \E e \in Execs : Ev(t, e)
    \/ Ret(t)
    \/ \E n \in 1 .. MaxNodes : DrBegin(t, n)
    \/ DrBody(t)
    \/ Complete(t)
    \/ Ld(t)
    \/ Dec(t)

RN_3_1 == <<3, 1>>
RN_3_2 == <<3, 2>>
RN_4_1 == <<4, 1>>
RN_4_0 == <<4, 0>>
RN_3_0 == <<3, 0>>
RN_5_0 == <<5, 0>>
RN_2_2 == <<2, 2>>
RN_2_1 == <<2, 1>>

MCSpec == MCInit /\ [][MCNext]_allv
=============================================================================
