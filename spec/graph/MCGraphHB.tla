---------------------------- MODULE MCGraphHB ----------------------------
(* Model-checking wrapper of GraphHB.tla (C10): the bounded, canonically ordered    *)
(* programs of MCGraph.tla (build ; marks ; setAllNodesIncomplete / ForwardPropa-  *)
(* gator ; one evaluation step by step ; again) with the happens-before effect of  *)
(* every action.  Two more constants restrict the graphs that are evaluated:       *)
(*   ShapeEdges  the only edges <<predecessor, successor>> that may be built       *)
(*   FullOnly    TRUE: an evaluation is prepared only when every edge of           *)
(*               ShapeEdges exists (one fixed graph, e.g. the diamond); FALSE:     *)
(*               every sub-graph of ShapeEdges is evaluated                        *)
EXTENDS GraphHB, MCGraph

CONSTANTS ShapeEdges, FullOnly

Built == UNION {{<<apred[s][i], s>> : i \in DOMAIN apred[s]} : s \in alive}
ShapeOK(p, s) == <<p, s>> \in ShapeEdges
FullOK == ~FullOnly \/ (Built = ShapeEdges /\ Cardinality(alive) = MaxNodes)

HInit == MCInit /\ HBStart(MaxNodes, Threads)

MCHStep(t) ==
  \/ Sub(t) /\ H_Build
  \/ \E s \in 0 .. (MaxSg - 1) : Add(t, s) /\ H_Build
  \/ \E a \in 1 .. MaxNodes, b \in 1 .. MaxNodes : ShapeOK(b, a) /\ Dep(t, a, b) /\ H_Build
  \/ \E a \in 1 .. MaxNodes, b \in 1 .. MaxNodes : ShapeOK(b, a) /\ Bi(t, a, b) /\ H_Build
  \/ \E s \in 0 .. (MaxSg - 1) : Clr(t, s) /\ H_Build
  \/ \E n \in 1 .. MaxNodes : Mk(t, n) /\ H_Mark(t, n)
  \/ FullOK /\ All(t) /\ H_SetAll(t)
  \/ FullOK /\ Prop(t) /\ H_Prop(t)
  \/ \E e \in Execs : Ev(t, e) /\ H_Eval(t, e)
  \/ Ret(t) /\ H_EvalRet(t)
  \/ \E n \in 1 .. MaxNodes : DrBegin(t, n) /\ H_EvBegin(t, n)
  \/ DrBody(t) /\ H_EvEnd(t)
  \/ Complete(t) /\ H_Complete(t)
  \/ Ld(t) /\ H_Ld(t)
  \/ Dec(t) /\ H_Dec(t)
  \/ \E n \in 1 .. MaxNodes : PollRead(t, n) /\ UNCHANGED mcv
MCHNext == \E t \in Threads : MCHStep(t)
MCHSpec == HInit /\ [][MCHNext]_<<allv, hbv>>

\* reachability witnesses (NOT invariants: use them in a scratch cfg to see that a path is covered - TLC must violate them)
\* the BiPropNode load saw kCompleted (the dependent is skipped)
W_NoLdSkip == ~(\E t \in Threads : phase = "eval" /\ stk[t] # <<>> /\ Top(t).pc = "ld"
                                   /\ ninc[dep[Top(t).n][Top(t).i]] = Completed)
\* a second evaluation runs a node whose predecessor was complete before it (its data cell is from evaluation 1)
W_NoOldPred == ~(nevals = 2 /\ \E n \in alive : began[n] = 1 /\ \E q \in Range(apred[n]) : q \notin expected)

\* graph shapes: <<predecessor, successor>>
Diamond == {<<1, 2>>, <<1, 3>>, <<2, 4>>, <<3, 4>>}
Join3 == {<<1, 4>>, <<2, 4>>, <<3, 4>>}                 \* three predecessors of one node (release sequence of 3 RMWs)
DiamondX == {<<1, 2>>, <<1, 3>>, <<2, 4>>, <<3, 4>>, <<1, 4>>}   \* diamond + the shortcut 1 -> 4
Any4 == {<<p, s>> \in (1 .. 4) \X (1 .. 4) : p < s}
Any3 == {<<p, s>> \in (1 .. 3) \X (1 .. 3) : p < s}
Chain3 == {<<1, 2>>, <<2, 3>>}
Vee3 == {<<1, 3>>, <<2, 3>>}

A_all == {"fork", "join", "queue", "wait"}
A_nofork == {"join", "queue", "wait"}
A_nojoin == {"fork", "queue", "wait"}
A_noqueue == {"fork", "join", "wait"}
A_nowait == {"fork", "join", "queue"}
A_poll == {"fork", "join", "queue", "wait", "poll"}
=============================================================================
