CONSTANTS
  MergeFix = TRUE
  LazyChecks = FALSE
  MaxNodes = 5
  MaxSg = 2
  Threads = {"main"}
  BiPropMode = FALSE
  Execs = {"st"}
  MaxClears = 1
  MaxEvals = 2
  MaxEdges = 3
  MaxMarks = 0
  PropAllowed = TRUE
  SetAllAllowed = TRUE
  LateEdges = TRUE
  RoundNodes <- RN_3_2
INIT MCInit
NEXT MCNext
CHECK_DEADLOCK FALSE
INVARIANTS TypeOK EdgesOK BiSetsOK NoUseAfterFree PreparedOK RunOnce OrderOK AllRan AllComplete
