CONSTANTS
  MergeFix = TRUE
  LazyChecks = FALSE
  MaxNodes = 4
  MaxSg = 2
  Threads = {"main"}
  BiPropMode = FALSE
  Execs = {"st"}
  MaxClears = 1
  MaxEvals = 1
  MaxEdges = 3
  MaxMarks = 0
  PropAllowed = FALSE
  SetAllAllowed = TRUE
  LateEdges = FALSE
  RoundNodes <- RN_3_1
INIT MCInit
NEXT MCNext
CHECK_DEADLOCK FALSE
INVARIANTS TypeOK EdgesOK BiSetsOK NoUseAfterFree PreparedOK RunOnce OrderOK AllRan AllComplete
