------------------------------- MODULE Graph -------------------------------
(* dispenso task graphs: dispenso/graph.h, graph.cpp, graph_executor.h/.cpp,      *)
(* detail/graph_executor_impl.h.                                                   *)
(*                                                                                 *)
(* Two layers in one state:                                                        *)
(*  CONCRETE  the words of the code: per node dependents_ (a vector: order and     *)
(*            multiplicity matter), numPredecessors_, numIncompletePredecessors_   *)
(*            (Completed = SIZE_MAX is modelled as -1, so size_t wrap-around is    *)
(*            ordinary integer arithmetic around 0), biPropSet_ (a pointer to a    *)
(*            shared set OBJECT: sets have identity), subgraph membership.  The    *)
(*            build operations, clear(), setAllNodesIncomplete, ForwardPropagator  *)
(*            and the three executors are transcribed from the code.               *)
(*  ABSTRACT  what the documentation promises: the DAG as predecessor lists        *)
(*            (apred), the bidirectional-propagation classes (acls: union on       *)
(*            biPropDependsOn, element removal on clear) and the set of nodes that  *)
(*            have to run (ainc).                                                  *)
(* The properties C30 / C31 are invariants relating the layers and the ghost run   *)
(* log (began / ended / orderBad).                                                 *)
(*                                                                                 *)
(* Executor steps = schedule points of the real code:                              *)
(*   DrBegin / DrBody  placed by the driver inside every node functor              *)
(*   GrComplete        Node::run(): store of kCompleted after the functor          *)
(*   GrLd              BiProp decNumIncompletePredecessors: load (completed?)      *)
(*   GrDec             decNumIncompletePredecessors: fetch_sub; the node is ready  *)
(*                     when the old value was 1                                    *)
(* The pool is abstract: `queued` is the bag of evaluateNodeConcurrently tasks      *)
(* handed to the ConcurrentTaskSet; any thread with an empty frame stack may take  *)
(* one; the scheduling thread may run the task it just scheduled inline (nested).  *)
EXTENDS Integers, Sequences, FiniteSets, TLC

CONSTANTS MergeFix,   \* TRUE: biPropDependsOn re-points every member of the absorbed set (code with
                      \* the fix commit); FALSE: the code before the fix (only `node` is re-pointed)
          LazyChecks  \* TRUE: the structural invariants are only evaluated in prepared / evaluated
                      \* states (traces of large graphs: a corrupted structure stays corrupted)

Completed == -1

VARIABLES
  maxn, threads, bp,            \* configuration of the execution: node ids 1..maxn, thread names, BiPropGraph?
  nsg,                          \* number of subgraphs (subgraph 0 always exists)
  alive, sgOf, dep, npred, ninc, bset, sets,   \* concrete graph
  apred, acls, ainc,            \* abstract graph
  nextId, prepared, touched, afterEval, uaf,
  phase, exec, expected, began, ended, orderBad,
  stk, lq, queued, wave, widx, started, wfin, nextWave

cfgv  == <<maxn, threads, bp>>
conc  == <<nsg, alive, sgOf, dep, npred, ninc, bset, sets>>
abst  == <<apred, acls, ainc>>
ctrl  == <<nextId, prepared, touched, afterEval, uaf>>
chk   == ~LazyChecks \/ prepared \/ afterEval
runlg == <<expected, began, ended, orderBad>>
evalv == <<phase, exec, stk, lq, queued, wave, widx, started, wfin, nextWave>>
vars  == <<cfgv, conc, abst, ctrl, runlg, evalv>>

Ids == 1 .. maxn

Range(s) == {s[i] : i \in DOMAIN s}
Count(s, x) == Cardinality({i \in DOMAIN s : s[i] = x})
Without(s, X) == SelectSeq(s, LAMBDA x : x \notin X)

\* forEachNode order: subgraphs in index order, nodes of a subgraph in creation order
\* (no recursion over the node set: traces of 200-node graphs would overflow the Java stack)
Before(x, y) == sgOf[x] < sgOf[y] \/ (sgOf[x] = sgOf[y] /\ x < y)
RankIn(S) == [x \in S |-> Cardinality({y \in S : Before(y, x)})]
OrderOf(S) == LET rk == RankIn(S) IN [i \in 1 .. Cardinality(S) |-> CHOOSE x \in S : rk[x] = i - 1]
NodeOrder == OrderOf(alive)

\* ------------------------------------------------------------------ reachability
RECURSIVE GrowC(_)
GrowC(X) == LET Y == X \cup UNION {Range(dep[x]) : x \in X} IN IF Y = X THEN X ELSE GrowC(Y)   \* via dependents_
RECURSIVE GrowA(_)
GrowA(X) == LET Y == X \cup {s \in alive : Range(apred[s]) \cap X # {}} IN IF Y = X THEN X ELSE GrowA(Y)
\* abstract: is there a path a ->* b (b depends, transitively, on a)
AReach(a, b) == b \in GrowA({a})

\* number of dependents_ entries equal to d in the vectors of the nodes in S
InSlots(d, S) == Cardinality(UNION {{<<p, i>> : i \in {j \in DOMAIN dep[p] : dep[p][j] = d}} : p \in S})

\* all (node, index) slots of the dependents_ vectors of the nodes in S
Slots(S) == UNION {{<<p, i>> : i \in DOMAIN dep[p]} : p \in S}

ClassOf(n) == IF \E c \in acls : n \in c THEN CHOOSE c \in acls : n \in c ELSE {}

EmptyFrame == [n |-> 0, pc |-> "none", i |-> 0, inl |-> 0]
Frame(n, pc) == [n |-> n, pc |-> pc, i |-> 0, inl |-> 0]

InitWith(mn, th, b) ==
  /\ maxn = mn /\ threads = th /\ bp = b
  /\ nsg = 1
  /\ alive = {} /\ sgOf = [n \in 1 .. mn |-> 0] /\ dep = [n \in 1 .. mn |-> <<>>]
  /\ npred = [n \in 1 .. mn |-> 0] /\ ninc = [n \in 1 .. mn |-> 0] /\ bset = [n \in 1 .. mn |-> 0]
  /\ sets = <<>>
  /\ apred = [n \in 1 .. mn |-> <<>>] /\ acls = {} /\ ainc = {}
  /\ nextId = 1 /\ prepared = FALSE /\ touched = FALSE /\ afterEval = FALSE /\ uaf = FALSE
  /\ phase = "build" /\ exec = "none" /\ expected = {}
  /\ began = [n \in 1 .. mn |-> 0] /\ ended = [n \in 1 .. mn |-> 0] /\ orderBad = {}
  /\ stk = [t \in th |-> <<>>] /\ lq = [t \in th |-> 0] /\ queued = [n \in 1 .. mn |-> 0]
  /\ wave = <<>> /\ widx = 1 /\ started = {} /\ wfin = 0 /\ nextWave = <<>>

Building(t) == phase = "build" /\ t = "main"
Dirty == /\ prepared' = FALSE /\ afterEval' = FALSE /\ UNCHANGED <<touched, uaf, nextId>>

\* ------------------------------------------------------------------ build operations
AddSubgraph(t) ==
  /\ Building(t)
  /\ nsg' = nsg + 1
  /\ UNCHANGED <<cfgv, alive, sgOf, dep, npred, ninc, bset, sets, abst, ctrl, runlg, evalv>>

\* subgraph(s).addNode(f): a new node is incomplete with counter 0
AddNode(t, s) ==
  /\ Building(t) /\ s \in 0 .. (nsg - 1) /\ nextId <= maxn
  /\ LET id == nextId IN
       /\ alive' = alive \cup {id}
       /\ sgOf' = [sgOf EXCEPT ![id] = s]
       /\ ainc' = ainc \cup {id}
       /\ nextId' = id + 1
  /\ prepared' = FALSE /\ afterEval' = FALSE
  /\ UNCHANGED <<cfgv, nsg, dep, npred, ninc, bset, sets, apred, acls, touched, uaf, runlg, evalv>>

CanDepend(a, b) == a \in alive /\ b \in alive /\ a # b /\ ~AReach(a, b)   \* graphs must not contain cycles

\* a.dependsOn(b)
DependsOn(t, a, b) ==
  /\ Building(t) /\ CanDepend(a, b)
  /\ dep' = [dep EXCEPT ![b] = Append(@, a)]
  /\ npred' = [npred EXCEPT ![a] = @ + 1]
  /\ apred' = [apred EXCEPT ![a] = Append(@, b)]
  /\ Dirty
  /\ UNCHANGED <<cfgv, nsg, alive, sgOf, ninc, bset, sets, acls, ainc, runlg, evalv>>

\* a.biPropDependsOn(b): BiPropNode::biPropDependsOnOneNode, this = a, node = b
BiDependsOn(t, a, b) ==
  /\ Building(t) /\ bp /\ CanDepend(a, b)
  /\ dep' = [dep EXCEPT ![b] = Append(@, a)]
  /\ npred' = [npred EXCEPT ![a] = @ + 1]
  /\ apred' = [apred EXCEPT ![a] = Append(@, b)]
  /\ IF bset[a] = 0 /\ bset[b] = 0
       THEN /\ sets' = Append(sets, {a, b})
            /\ bset' = [bset EXCEPT ![a] = Len(sets) + 1, ![b] = Len(sets) + 1]
     ELSE IF bset[a] # 0 /\ bset[b] # 0
       THEN /\ sets' = [sets EXCEPT ![bset[a]] = @ \cup sets[bset[b]]]
            /\ bset' = IF MergeFix /\ bset[a] # bset[b]
                         THEN [m \in DOMAIN bset |-> IF m = b \/ (m \in alive /\ m \in sets[bset[b]]) THEN bset[a] ELSE bset[m]]
                         ELSE [bset EXCEPT ![b] = bset[a]]
     ELSE IF bset[a] = 0
       THEN /\ sets' = [sets EXCEPT ![bset[b]] = @ \cup {a}]
            /\ bset' = [bset EXCEPT ![a] = bset[b]]
     ELSE /\ sets' = [sets EXCEPT ![bset[a]] = @ \cup {b}]
          /\ bset' = [bset EXCEPT ![b] = bset[a]]
  /\ LET ca == IF ClassOf(a) = {} THEN {a} ELSE ClassOf(a)
         cb == IF ClassOf(b) = {} THEN {b} ELSE ClassOf(b)
     IN acls' = (acls \ {ca, cb}) \cup {ca \cup cb}
  /\ Dirty
  /\ UNCHANGED <<cfgv, nsg, alive, sgOf, ninc, ainc, runlg, evalv>>

\* --- SubgraphT::clear(), transcribed ---------------------------------------------------------
\* removePredecessorDependencies on one dependents_ vector: swap-with-last removal of the entries
\* whose numPredecessors_ carries the kToDelete mark, with the early return when the budget
\* (numGraphPredecessors) reaches zero.  Returns <<vector, remaining budget>>.
RECURSIVE Scrub(_, _, _, _, _)
Scrub(v, i, num, budget, marked) ==
  IF i > num THEN <<SubSeq(v, 1, num), budget>>
  ELSE IF v[i] \in marked
    THEN LET v2 == [v EXCEPT ![i] = v[num]] IN
         IF budget - 1 = 0 THEN <<SubSeq(v2, 1, num - 1), 0>>
         ELSE Scrub(v2, i, num - 1, budget - 1, marked)
    ELSE Scrub(v, i + 1, num, budget, marked)

\* The vectors of the nodes outside the cleared subgraph are scrubbed in forEachNode order with one
\* shared budget: node n still has budget - (marked entries met before n) left.
MarkedSlots(S, marked) == Cardinality({sl \in Slots(S) : dep[sl[1]][sl[2]] \in marked})
ScrubAll(d, others, budget, marked) ==
  LET rk == RankIn(others) IN
  [n \in DOMAIN d |->
     IF n \notin others THEN d[n]
     ELSE LET left == budget - MarkedSlots({m \in others : rk[m] < rk[n]}, marked) IN
          IF left <= 0 THEN d[n] ELSE Scrub(d[n], 1, Len(d[n]), left, marked)[1]]

Clear(t, s) ==
  /\ Building(t) /\ s \in 0 .. (nsg - 1)
  /\ LET C == {n \in alive : sgOf[n] = s}
         \* decrementDependentCounters
         np1 == [x \in DOMAIN npred |-> npred[x] - InSlots(x, C)]
         sets1 == [k \in DOMAIN sets |-> sets[k] \ {n \in C : bset[n] = k}]
         \* markNodesWithPredicessors
         marked == {n \in C : np1[n] # 0}
         budget == Cardinality(UNION {{<<n, k>> : k \in 1 .. np1[n]} : n \in marked})
         \* removePredecessorDependencies (skipped when the budget is 0)
         others == alive \ C
         dep1 == ScrubAll(dep, others, budget, marked)
     IN
       /\ alive' = alive \ C
       /\ dep' = [n \in DOMAIN dep |-> IF n \in C THEN <<>> ELSE dep1[n]]
       /\ npred' = [n \in DOMAIN npred |-> IF n \in C THEN 0 ELSE np1[n]]
       /\ ninc' = [n \in DOMAIN ninc |-> IF n \in C THEN 0 ELSE ninc[n]]
       /\ bset' = [n \in DOMAIN bset |-> IF n \in C THEN 0 ELSE bset[n]]
       /\ sets' = sets1
       /\ apred' = [n \in DOMAIN apred |-> IF n \in C THEN <<>> ELSE Without(apred[n], C)]
       /\ acls' = {c \ C : c \in acls} \ {{}}
       /\ ainc' = ainc \ C
  /\ Dirty
  /\ UNCHANGED <<cfgv, nsg, sgOf, runlg, evalv>>

\* GraphT::clearSubgraphs(): destroys every node, keeps the subgraphs
ClearAll(t) ==
  /\ Building(t)
  /\ alive' = {}
  /\ dep' = [n \in DOMAIN dep |-> <<>>] /\ npred' = [n \in DOMAIN npred |-> 0]
  /\ ninc' = [n \in DOMAIN ninc |-> 0] /\ bset' = [n \in DOMAIN bset |-> 0]
  /\ sets' = [k \in DOMAIN sets |-> {}]
  /\ apred' = [n \in DOMAIN apred |-> <<>>] /\ acls' = {} /\ ainc' = {}
  /\ Dirty
  /\ UNCHANGED <<cfgv, nsg, sgOf, runlg, evalv>>

\* GraphT::clear(): destroys every node and every subgraph; a fresh subgraph 0 is created
ClearGraph(t) ==
  /\ Building(t)
  /\ nsg' = 1
  /\ alive' = {}
  /\ dep' = [n \in DOMAIN dep |-> <<>>] /\ npred' = [n \in DOMAIN npred |-> 0]
  /\ ninc' = [n \in DOMAIN ninc |-> 0] /\ bset' = [n \in DOMAIN bset |-> 0]
  /\ sets' = [k \in DOMAIN sets |-> {}]
  /\ apred' = [n \in DOMAIN apred |-> <<>>] /\ acls' = {} /\ ainc' = {}
  /\ Dirty
  /\ UNCHANGED <<cfgv, sgOf, runlg, evalv>>

\* GraphT(GraphT&&): nothing observable changes
MoveGraph(t) ==
  /\ Building(t)
  /\ UNCHANGED vars

\* node.setIncomplete()
Mark(t, n) ==
  /\ Building(t) /\ n \in alive
  /\ ninc' = IF ninc[n] = Completed THEN [ninc EXCEPT ![n] = 0] ELSE ninc
  /\ ainc' = ainc \cup {n}
  /\ Dirty
  /\ UNCHANGED <<cfgv, nsg, alive, sgOf, dep, npred, bset, sets, apred, acls, runlg, evalv>>

\* setAllNodesIncomplete(graph)
SetAll(t) ==
  /\ Building(t)
  /\ ninc' = [n \in DOMAIN ninc |-> IF n \in alive THEN npred[n] ELSE ninc[n]]
  /\ ainc' = alive
  /\ prepared' = TRUE /\ touched' = TRUE /\ afterEval' = FALSE
  /\ UNCHANGED <<cfgv, nsg, alive, sgOf, dep, npred, bset, sets, apred, acls, nextId, uaf, runlg, evalv>>

\* ForwardPropagator::operator()(graph).  Contract: at most one pass between two evaluations and
\* not after setAllNodesIncomplete (the counters of the incomplete nodes are still 0).
Propagate(t) ==
  /\ Building(t) /\ ~touched
  /\ LET I0 == {n \in alive : ninc[n] # Completed}
         V  == GrowC(I0)
         n1 == [d \in DOMAIN ninc |->
                  IF d \in V THEN (IF ninc[d] = Completed THEN InSlots(d, V) ELSE ninc[d] + InSlots(d, V))
                  ELSE ninc[d]]
         \* propagateIncompleteStateBidirectionally<BiPropNode>
         G0 == UNION {sets[bset[v]] : v \in {x \in V : bset[x] # 0}}
         G  == {g \in G0 \cap alive : n1[g] = Completed}
         n2 == [d \in DOMAIN ninc |-> IF d \in G THEN 0 ELSE n1[d]]
     IN
       /\ ninc' = [d \in DOMAIN ninc |-> IF n2[d] # Completed THEN n2[d] + InSlots(d, G) ELSE n2[d]]
       /\ uaf' = (uaf \/ ~(G0 \subseteq alive))   \* setIncomplete() through a dangling set member
  /\ LET C == GrowA(ainc) IN ainc' = C \cup UNION {c \in acls : c \cap C # {}}
  /\ prepared' = TRUE /\ touched' = TRUE /\ afterEval' = FALSE
  /\ UNCHANGED <<cfgv, nsg, alive, sgOf, dep, npred, bset, sets, apred, acls, nextId, runlg, evalv>>

\* ------------------------------------------------------------------ evaluation
Executors == {"st", "pf", "cts"}

Eval(t, e) ==
  /\ Building(t) /\ prepared /\ e \in Executors
  /\ phase' = "eval" /\ exec' = e
  /\ expected' = ainc
  /\ began' = [n \in DOMAIN began |-> 0] /\ ended' = [n \in DOMAIN ended |-> 0] /\ orderBad' = {}
  /\ LET start == SelectSeq(NodeOrder, LAMBDA n : ninc[n] = 0) IN
       IF e = "cts"
         THEN /\ queued' = [n \in DOMAIN queued |-> IF n \in Range(start) THEN 1 ELSE 0]
              /\ wave' = <<>>
         ELSE /\ queued' = [n \in DOMAIN queued |-> 0]
              /\ wave' = start
  /\ widx' = 1 /\ started' = {} /\ wfin' = 0 /\ nextWave' = <<>>
  /\ afterEval' = FALSE
  /\ UNCHANGED <<cfgv, conc, abst, nextId, prepared, touched, uaf, stk, lq>>

Top(t) == stk[t][Len(stk[t])]
SetTop(t, f) == [stk EXCEPT ![t] = [@ EXCEPT ![Len(@)] = f]]
Pop(t) == [stk EXCEPT ![t] = SubSeq(@, 1, Len(@) - 1)]
Push(t, f) == [stk EXCEPT ![t] = Append(@, f)]

NotFinishedPreds(n) == {p \in Range(apred[n]) \cap expected : ended[p] = 0}

\* first instruction of a node functor (the driver's point DrBegin + note "begin")
EvBegin(t, n) ==
  /\ phase = "eval" /\ t \in threads /\ n \in alive
  /\ \/ /\ exec = "st" /\ t = "main" /\ stk[t] = <<>>
        /\ widx <= Len(wave) /\ n = wave[widx]
        /\ widx' = widx + 1 /\ started' = started \cup {n}
        /\ stk' = Push(t, Frame(n, "body"))
        /\ UNCHANGED queued
     \/ /\ exec = "pf" /\ stk[t] = <<>>
        /\ n \in Range(wave) \ started
        /\ started' = started \cup {n}
        /\ stk' = Push(t, Frame(n, "body"))
        /\ UNCHANGED <<widx, queued>>
     \/ /\ exec = "cts" /\ stk[t] # <<>> /\ Top(t).pc = "begin" /\ Top(t).n = n   \* inlineNext
        /\ stk' = SetTop(t, Frame(n, "body"))
        /\ UNCHANGED <<widx, started, queued>>
     \/ /\ exec = "cts" /\ queued[n] > 0
        /\ (stk[t] = <<>> \/ lq[t] = n)      \* a worker / waiter takes it, or schedule() ran it inline
        /\ ~(stk[t] # <<>> /\ Top(t).pc = "begin" /\ Top(t).n = n)
        /\ queued' = [queued EXCEPT ![n] = @ - 1]
        /\ stk' = Push(t, Frame(n, "body"))
        /\ UNCHANGED <<widx, started>>
  /\ lq' = [lq EXCEPT ![t] = 0]
  /\ began' = [began EXCEPT ![n] = @ + 1]
  /\ orderBad' = orderBad \cup {<<p, n>> : p \in NotFinishedPreds(n)}
  /\ UNCHANGED <<cfgv, conc, abst, ctrl, expected, ended, phase, exec, wave, wfin, nextWave>>

\* last instruction of the functor (point DrBody + note "end")
EvEnd(t) ==
  /\ phase = "eval" /\ t \in threads /\ stk[t] # <<>> /\ Top(t).pc = "body"
  /\ ended' = [ended EXCEPT ![Top(t).n] = @ + 1]
  /\ stk' = SetTop(t, [Top(t) EXCEPT !.pc = "complete"])
  /\ lq' = [lq EXCEPT ![t] = 0]
  /\ UNCHANGED <<cfgv, conc, abst, ctrl, expected, began, orderBad, phase, exec, queued, wave, widx, started, wfin, nextWave>>

FirstDepPc == IF bp THEN "ld" ELSE "dec"

\* the frame f of thread t has processed its last dependent (nw = value of nextWave after this step)
FinishNode(t, f, nw) ==
  IF exec = "cts"
    THEN /\ stk' = IF f.inl # 0 THEN SetTop(t, Frame(f.inl, "begin")) ELSE Pop(t)
         /\ nextWave' = nw
         /\ UNCHANGED <<wave, widx, started, wfin>>
    ELSE /\ stk' = Pop(t)
         /\ IF wfin + 1 = Len(wave)
              THEN /\ wave' = nw /\ nextWave' = <<>> /\ widx' = 1 /\ started' = {} /\ wfin' = 0
              ELSE /\ wfin' = wfin + 1 /\ nextWave' = nw /\ UNCHANGED <<wave, widx, started>>

AdvanceOrFinish(t, f, nw) ==
  IF f.i < Len(dep[f.n])
    THEN /\ stk' = SetTop(t, [f EXCEPT !.i = @ + 1, !.pc = FirstDepPc])
         /\ nextWave' = nw
         /\ UNCHANGED <<wave, widx, started, wfin>>
    ELSE FinishNode(t, f, nw)

\* Node::run(): numIncompletePredecessors_.store(kCompleted)
GrComplete(t) ==
  /\ phase = "eval" /\ t \in threads /\ stk[t] # <<>> /\ Top(t).pc = "complete"
  /\ LET f == Top(t) IN
       /\ ninc' = [ninc EXCEPT ![f.n] = Completed]
       /\ IF dep[f.n] = <<>> THEN FinishNode(t, f, nextWave)
          ELSE /\ stk' = SetTop(t, [f EXCEPT !.i = 1, !.pc = FirstDepPc])
               /\ UNCHANGED <<wave, widx, started, wfin, nextWave>>
  /\ lq' = [lq EXCEPT ![t] = 0]
  /\ UNCHANGED <<cfgv, nsg, alive, sgOf, dep, npred, bset, sets, abst, ctrl, runlg, phase, exec, queued>>

\* decNumIncompletePredecessors(const BiPropNode&): a completed dependent is skipped
GrLd(t) ==
  /\ phase = "eval" /\ t \in threads /\ stk[t] # <<>> /\ Top(t).pc = "ld"
  /\ LET f == Top(t)
         d == dep[f.n][f.i]
     IN IF ninc[d] = Completed THEN AdvanceOrFinish(t, f, nextWave)
        ELSE /\ stk' = SetTop(t, [f EXCEPT !.pc = "dec"])
             /\ UNCHANGED <<wave, widx, started, wfin, nextWave>>
  /\ lq' = [lq EXCEPT ![t] = 0]
  /\ UNCHANGED <<cfgv, conc, abst, ctrl, runlg, phase, exec, queued>>

\* numIncompletePredecessors_.fetch_sub(1) == 1  =>  the dependent is ready
GrDec(t) ==
  /\ phase = "eval" /\ t \in threads /\ stk[t] # <<>> /\ Top(t).pc = "dec"
  /\ LET f == Top(t)
         d == dep[f.n][f.i]
         ready == (ninc[d] = 1)
     IN
       /\ ninc' = [ninc EXCEPT ![d] = @ - 1]
       /\ IF ready /\ exec = "cts"
            THEN IF f.inl = 0
                   THEN /\ AdvanceOrFinish(t, [f EXCEPT !.inl = d], nextWave)
                        /\ UNCHANGED queued /\ lq' = [lq EXCEPT ![t] = 0]
                   ELSE /\ AdvanceOrFinish(t, f, nextWave)
                        /\ queued' = [queued EXCEPT ![d] = @ + 1]
                        /\ lq' = [lq EXCEPT ![t] = d]
            ELSE /\ AdvanceOrFinish(t, f, IF ready THEN Append(nextWave, d) ELSE nextWave)
                 /\ UNCHANGED queued /\ lq' = [lq EXCEPT ![t] = 0]
  /\ UNCHANGED <<cfgv, nsg, alive, sgOf, dep, npred, bset, sets, abst, ctrl, runlg, phase, exec>>

Quiescent == /\ \A u \in threads : stk[u] = <<>>
             /\ \A n \in DOMAIN queued : queued[n] = 0
             /\ wave = <<>>

\* the executor returns (single thread / parallel_for: no wave left; task set: wait() saw 0 outstanding)
EvalRet(t) ==
  /\ phase = "eval" /\ t = "main" /\ Quiescent
  /\ phase' = "build"
  /\ ainc' = {}
  /\ afterEval' = TRUE /\ prepared' = FALSE /\ touched' = FALSE
  /\ lq' = [u \in threads |-> 0]
  /\ UNCHANGED <<cfgv, conc, apred, acls, nextId, uaf, runlg, exec, stk, queued, wave, widx, started, wfin, nextWave>>

\* ------------------------------------------------------------------ properties
TypeOK ==
  /\ alive \subseteq Ids /\ ainc \subseteq alive
  /\ \A n \in Ids : ninc[n] \in Int /\ npred[n] \in Int

\* C30 (structure): dependents_ / numPredecessors_ agree with the abstract DAG; no dangling
\* dependent; every node's propagation set object is exactly its abstract class.
EdgesOK ==
  chk =>
  /\ \A p \in alive : Range(dep[p]) \subseteq alive
  /\ \A s \in alive : /\ npred[s] = Len(apred[s])
                      /\ Range(apred[s]) \subseteq alive
                      /\ \A p \in Range(apred[s]) : Count(dep[p], s) = Count(apred[s], p)
  /\ Cardinality(Slots(alive)) = Cardinality(UNION {{<<s, i>> : i \in DOMAIN apred[s]} : s \in alive})

BiSetsOK ==
  chk =>
  \A n \in alive : IF ClassOf(n) = {} THEN bset[n] = 0
                   ELSE bset[n] # 0 /\ sets[bset[n]] = ClassOf(n)

NoUseAfterFree == ~uaf

\* C31 (and the start of C30): after setAllNodesIncomplete / ForwardPropagator the incomplete nodes
\* are exactly the abstract run set and every counter is the number of incomplete predecessors.
ExpCount(n) == Cardinality({i \in DOMAIN apred[n] : apred[n][i] \in ainc})
PreparedOK ==
  (chk /\ phase = "build" /\ prepared) =>
  \A n \in alive : IF n \in ainc THEN ninc[n] = ExpCount(n) ELSE ninc[n] = Completed

\* C30: nothing runs twice, nothing outside the run set runs ...
RunOnce == \A n \in Ids : began[n] <= 1 /\ ended[n] <= began[n] /\ (began[n] > 0 => n \in expected)
\* ... a node starts only after every predecessor in the run set has finished ...
OrderOK == orderBad = {}
\* ... and when the executor returns every node of the run set has run and every node is complete.
AllRan == (phase = "build" /\ afterEval) => \A n \in expected : began[n] = 1 /\ ended[n] = 1
AllComplete == (phase = "build" /\ afterEval) => \A n \in alive : ninc[n] = Completed
=============================================================================
