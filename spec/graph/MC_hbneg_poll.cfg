CONSTANTS
  MergeFix = TRUE
  LazyChecks = FALSE
  MaxNodes = 4
  MaxSg = 1
  Threads = {"main", "w0", "w1"}
  BiPropMode = FALSE
  Execs = {"cts"}
  MaxClears = 0
  MaxEvals = 1
  MaxEdges = 6
  MaxMarks = 0
  PropAllowed = FALSE
  SetAllAllowed = TRUE
  LateEdges = FALSE
  RoundNodes <- RN_4_0
  ShapeEdges <- Diamond
  FullOnly = TRUE
  Assume <- A_poll
INIT HInit
NEXT MCHNext
CHECK_DEADLOCK FALSE
INVARIANTS OrdersComplete RaceFree TypeOK RunOnce OrderOK AllRan AllComplete
