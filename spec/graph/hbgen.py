#!/usr/bin/env python3
"""Generates the Orders module of the C10 overlay GraphHB.tla from the working-tree sources.

bin/extract_orders.py cannot be used for the graph code: the order of the predecessor-counter decrement
(decNumIncompletePredecessors) is a FUNCTION PARAMETER chosen at the call sites of the three executors, the load
order of the BiPropNode overload is derived from it by a conditional expression, and the accesses of the
build-phase functions (isCompleted, setIncomplete, setAllNodesIncomplete, ForwardPropagator helpers,
hasNoIncompletePredecessors) have no hook.  This script finds every statement by pattern (function header +
brace-matched body + `numIncompletePredecessors_.<op>(...)`), resolves `order` / `loadOrder` per executor and
writes

  DecArg == [st |-> ..., pf |-> ..., cts |-> ...]         order argument at the executor's call site(s)
  Ord == [Site |-> [op |-> ..., st |-> ..., pf |-> ..., cts |-> ...], ...]

It exits with a non-zero status (and says what is missing) when a pattern is not found; no order is hard-coded.

usage: hbgen.py <ModuleName> <out.tla> <graph.h> <detail/graph_executor_impl.h> <graph_executor.cpp>
       (files are recognised by their base name, any order)
"""
import os
import re
import sys

EXECS = ('st', 'pf', 'cts')
LEGAL = ('relaxed', 'consume', 'acquire', 'release', 'acq_rel', 'seq_cst')


class Missing(Exception):
    pass


def strip_comments(src):
    src = re.sub(r'//[^\n]*', '', src)
    return re.sub(r'/\*.*?\*/', '', src, flags=re.S)


def match_close(src, i, open_ch, close_ch):
    """src[i] == open_ch; returns the index of the matching close_ch"""
    assert src[i] == open_ch
    d = 0
    for k in range(i, len(src)):
        if src[k] == open_ch:
            d += 1
        elif src[k] == close_ch:
            d -= 1
            if d == 0:
                return k
    raise Missing('unbalanced %s%s' % (open_ch, close_ch))


def bodies(src, header_re, what):
    """all brace-matched bodies of the functions whose header matches header_re (in file order)"""
    out = []
    for m in re.finditer(header_re, src, flags=re.S):
        i = src.find('{', m.end() - 1)
        if i < 0:
            continue
        j = match_close(src, i, '{', '}')
        out.append(src[i:j + 1])
    if not out:
        raise Missing('function not found: ' + what)
    return out


def split_args(args):
    out, d, cur = [], 0, ''
    for ch in args:
        if ch in '(<[{':
            d += 1
        elif ch in ')>]}':
            d -= 1
        if ch == ',' and d == 0:
            out.append(cur.strip())
            cur = ''
        else:
            cur += ch
    if cur.strip():
        out.append(cur.strip())
    return out


def atomic_ops(body, what):
    """[(op, order token)] for every numIncompletePredecessors_.<op>(...) in body, in textual order;
    the order token is a literal order name, or an identifier (`order`, `loadOrder`), or 'seq_cst' if absent"""
    out = []
    for m in re.finditer(r'numIncompletePredecessors_\s*\.\s*(load|store|fetch_add|fetch_sub|exchange|compare_exchange_\w+)\s*\(', body):
        i = m.end() - 1
        j = match_close(body, i, '(', ')')
        args = split_args(body[i + 1:j])
        op = m.group(1)
        nval = 0 if op == 'load' else 1
        if len(args) == nval:
            tok = 'seq_cst'
        elif len(args) == nval + 1:
            a = args[-1]
            lm = re.fullmatch(r'std::memory_order(?:_|::)(\w+)', a)
            if lm:
                tok = lm.group(1)
            elif re.fullmatch(r'[A-Za-z_]\w*', a):
                tok = '$' + a
            else:
                raise Missing('%s: cannot read the memory order argument "%s"' % (what, a))
        else:
            raise Missing('%s: unexpected argument list of %s: %s' % (what, op, args))
        out.append((op, tok))
    return out


def expect(ops, kinds, what):
    if [o for o, _ in ops] != list(kinds):
        raise Missing('%s: expected the atomic operations %s on numIncompletePredecessors_, found %s'
                      % (what, list(kinds), [o for o, _ in ops]))
    return [t for _, t in ops]


def call_order(body, what):
    """the literal order passed to decNumIncompletePredecessors in body (all calls must agree)"""
    found = set()
    for m in re.finditer(r'decNumIncompletePredecessors\s*\(', body):
        i = m.end() - 1
        j = match_close(body, i, '(', ')')
        args = split_args(body[i + 1:j])
        if len(args) != 2:
            raise Missing('%s: call of decNumIncompletePredecessors with %d arguments' % (what, len(args)))
        lm = re.fullmatch(r'std::memory_order(?:_|::)(\w+)', args[1])
        if not lm:
            raise Missing('%s: the order argument "%s" of decNumIncompletePredecessors is not a literal' % (what, args[1]))
        found.add(lm.group(1))
    if not found:
        raise Missing('%s: no call of decNumIncompletePredecessors' % what)
    if len(found) != 1:
        raise Missing('%s: calls of decNumIncompletePredecessors with different orders %s' % (what, sorted(found)))
    return found.pop()


def main():
    if len(sys.argv) < 6:
        sys.stderr.write(__doc__)
        return 2
    mod, out = sys.argv[1], sys.argv[2]
    files = {}
    for p in sys.argv[3:]:
        files[os.path.basename(p)] = strip_comments(open(p).read())
    for need in ('graph.h', 'graph_executor_impl.h', 'graph_executor.cpp'):
        if need not in files:
            raise Missing('source file %s not given' % need)
    gh, impl, cpp = files['graph.h'], files['graph_executor_impl.h'], files['graph_executor.cpp']

    # ---- call sites: the order argument per executor
    decarg = {
        'st': call_order(bodies(cpp, r'void\s+SingleThreadExecutor::operator\(\)\s*\([^)]*\)\s*\{', 'SingleThreadExecutor::operator()')[0],
                         'SingleThreadExecutor::operator()'),
        'pf': call_order(bodies(cpp, r'void\s+ParallelForExecutor::operator\(\)\s*\([^)]*\)\s*\{', 'ParallelForExecutor::operator()')[0],
                         'ParallelForExecutor::operator()'),
        'cts': call_order(bodies(impl, r'void\s+evaluateNodeConcurrently\s*\([^)]*\)\s*\{', 'evaluateNodeConcurrently')[0],
                          'evaluateNodeConcurrently'),
    }
    # the task-set executor must not call it anywhere else with another order
    cts_body = bodies(cpp, r'void\s+ConcurrentTaskSetExecutor::operator\(\)\s*\([^)]*\)\s*\{', 'ConcurrentTaskSetExecutor::operator()')[0]
    if 'decNumIncompletePredecessors' in cts_body:
        raise Missing('ConcurrentTaskSetExecutor::operator() calls decNumIncompletePredecessors directly (unexpected)')
    if 'evaluateNodeConcurrently' not in cts_body:
        raise Missing('ConcurrentTaskSetExecutor::operator() does not schedule evaluateNodeConcurrently')

    # ---- decNumIncompletePredecessors: Node overload and BiPropNode overload
    dn = bodies(impl, r'bool\s+decNumIncompletePredecessors\s*\(\s*const\s+dispenso::Node\s*&\s*\w+\s*,\s*std::memory_order\s+(\w+)\s*\)\s*\{',
                'decNumIncompletePredecessors(const Node&, std::memory_order)')[0]
    db = bodies(impl, r'bool\s+decNumIncompletePredecessors\s*\(\s*const\s+dispenso::BiPropNode\s*&\s*\w+\s*,\s*std::memory_order\s+(\w+)\s*\)\s*\{',
                'decNumIncompletePredecessors(const BiPropNode&, std::memory_order)')[0]
    for body, name, pts in ((dn, 'Node overload', ['GrDec']), (db, 'BiPropNode overload', ['GrLd', 'GrDec'])):
        got = re.findall(r'DISPENSO_VERIF_POINT\(\s*"(\w+)"', body)
        if got != pts:
            raise Missing('decNumIncompletePredecessors (%s): expected the hook sites %s, found %s' % (name, pts, got))
    # loadOrder = order == X ? A : B
    tern = re.search(r'std::memory_order\s+loadOrder\s*=\s*order\s*==\s*std::memory_order(?:_|::)(\w+)\s*\?\s*'
                     r'std::memory_order(?:_|::)(\w+)\s*:\s*std::memory_order(?:_|::)(\w+)\s*;', db)

    def resolve(tok, e, what):
        if not tok.startswith('$'):
            return tok
        if tok == '$order':
            return decarg[e]
        if tok == '$loadOrder':
            if not tern:
                raise Missing('%s: `loadOrder = order == X ? A : B` not found in the BiPropNode overload' % what)
            return tern.group(2) if decarg[e] == tern.group(1) else tern.group(3)
        raise Missing('%s: unknown order expression "%s"' % (what, tok[1:]))

    sites = {}

    def add(site, op, tok, what):
        sites[site] = (op, {e: resolve(tok, e, what) for e in EXECS})

    (t,) = expect(atomic_ops(dn, 'dec/Node'), ['fetch_sub'], 'decNumIncompletePredecessors(Node)')
    add('GrDecNode', 'fetch_sub', t, 'GrDec (Node)')
    t1, t2 = expect(atomic_ops(db, 'dec/BiProp'), ['load', 'fetch_sub'], 'decNumIncompletePredecessors(BiPropNode)')
    add('GrLdBi', 'load', t1, 'GrLd (BiPropNode)')
    add('GrDecBi', 'fetch_sub', t2, 'GrDec (BiPropNode)')

    # ---- graph.h
    run = bodies(gh, r'void\s+run\s*\(\s*\)\s*const\s*\{', 'Node::run()')[0]
    if not re.search(r'DISPENSO_VERIF_POINT\(\s*"GrComplete"[^;]*;\s*numIncompletePredecessors_\s*\.\s*store\s*\(\s*kCompleted', run):
        raise Missing('Node::run(): hook GrComplete directly in front of numIncompletePredecessors_.store(kCompleted, ...) not found')
    if not re.search(r'invoke_\s*\([^;]*;\s*DISPENSO_VERIF_POINT\(\s*"GrComplete"', run):
        raise Missing('Node::run(): the functor call is not directly in front of the GrComplete hook')
    (t,) = expect(atomic_ops(run, 'run'), ['store'], 'Node::run()')
    add('GrComplete', 'store', t, 'GrComplete')
    (t,) = expect(atomic_ops(bodies(gh, r'bool\s+isCompleted\s*\(\s*\)\s*const\s*\{', 'Node::isCompleted()')[0], 'isCompleted'),
                  ['load'], 'Node::isCompleted()')
    add('IsCompleted', 'load', t, 'isCompleted')
    t1, t2 = expect(atomic_ops(bodies(gh, r'bool\s+setIncomplete\s*\(\s*\)\s*const\s*\{', 'Node::setIncomplete()')[0], 'setIncomplete'),
                    ['load', 'store'], 'Node::setIncomplete()')
    add('SetIncLd', 'load', t1, 'setIncomplete')
    add('SetIncSt', 'store', t2, 'setIncomplete')

    # ---- build-phase helpers of ExecutorBase and setAllNodesIncomplete
    (t,) = expect(atomic_ops(bodies(impl, r'bool\s+hasNoIncompletePredecessors\s*\([^)]*\)\s*\{', 'hasNoIncompletePredecessors')[0], 'hasNoInc'),
                  ['load'], 'hasNoIncompletePredecessors')
    add('HasNoInc', 'load', t, 'hasNoIncompletePredecessors')
    t1, t2 = expect(atomic_ops(bodies(impl, r'void\s+addIncompletePredecessor\s*\([^)]*\)\s*\{', 'addIncompletePredecessor')[0], 'addInc'),
                    ['store', 'fetch_add'], 'addIncompletePredecessor')
    add('AddIncSt', 'store', t1, 'addIncompletePredecessor')
    add('AddIncRmw', 'fetch_add', t2, 'addIncompletePredecessor')
    (t,) = expect(atomic_ops(bodies(impl, r'void\s+ifIncompleteAddIncompletePredecessor\s*\([^)]*\)\s*\{',
                                    'ifIncompleteAddIncompletePredecessor')[0], 'ifInc'),
                  ['fetch_add'], 'ifIncompleteAddIncompletePredecessor')
    add('IfIncRmw', 'fetch_add', t, 'ifIncompleteAddIncompletePredecessor')
    (t,) = expect(atomic_ops(bodies(cpp, r'void\s+setAllNodesIncomplete\s*\([^)]*\)\s*\{', 'setAllNodesIncomplete')[0], 'setAll'),
                  ['store'], 'setAllNodesIncomplete')
    add('SetAllSt', 'store', t, 'setAllNodesIncomplete')

    for site, (op, per) in sites.items():
        for e in EXECS:
            if per[e] not in LEGAL:
                raise Missing('site %s: "%s" is not a memory order' % (site, per[e]))
    for e in EXECS:
        if decarg[e] not in LEGAL:
            raise Missing('call site %s: "%s" is not a memory order' % (e, decarg[e]))

    lines = ['---- MODULE %s ----' % mod,
             '\\* generated by spec/graph/hbgen.py from the working tree; do not edit',
             '\\* order argument of decNumIncompletePredecessors at the call site(s) of each executor',
             'DecArg == [%s]' % ', '.join('%s |-> "%s"' % (e, decarg[e]) for e in EXECS),
             'Ord == [']
    ents = []
    for site in sorted(sites):
        op, per = sites[site]
        ents.append('  %s |-> [op |-> "%s", %s]' % (site, op, ', '.join('%s |-> "%s"' % (e, per[e]) for e in EXECS)))
    lines.append(',\n'.join(ents))
    lines += [']', '====']
    open(out, 'w').write('\n'.join(lines) + '\n')
    print('hbgen: %d sites, call-site orders %s' % (len(sites), decarg))
    return 0


if __name__ == '__main__':
    try:
        sys.exit(main())
    except Missing as ex:
        sys.stderr.write('hbgen.py: PATTERN NOT FOUND: %s\n' % ex)
        sys.exit(3)
