CONSTANTS
  MergeFix = TRUE
  LazyChecks = FALSE
  MaxNodes = 3
  MaxSg = 1
  Threads = {"main", "w0"}
  BiPropMode = TRUE
  Execs = {"cts"}
  MaxClears = 0
  MaxEvals = 2
  MaxEdges = 3
  MaxMarks = 1
  PropAllowed = TRUE
  SetAllAllowed = FALSE
  LateEdges = FALSE
  RoundNodes <- RN_3_0
  ShapeEdges <- Any3
  FullOnly = FALSE
  Assume <- A_all
INIT HInit
NEXT MCHNext
CHECK_DEADLOCK FALSE
INVARIANTS OrdersComplete RaceFree TypeOK RunOnce OrderOK AllRan AllComplete
