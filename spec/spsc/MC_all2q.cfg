CONSTANTS
  N = 3
  Threads = {"p", "c"}
  Prog <- Prog_cover
  L = 2
  NSet = {2, 3}
  Rich = FALSE
  Rot = TRUE
INIT InitAll
NEXT Next
CHECK_DEADLOCK FALSE
INVARIANTS TypeOK ProgOK Bounded FifoExactlyOnce LiveMatches DecisionsExact QuiescentExact LifetimeOK ResultsMatch ObserversInRange QuiescentAccounting NoLeakAfterDestroy
