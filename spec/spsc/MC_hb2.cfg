CONSTANTS
  N = 3
  Threads = {"p", "c"}
  Prog <- Prog_hb2
INIT HInit
NEXT HNext
CHECK_DEADLOCK FALSE
INVARIANTS RaceFree OrdersComplete FifoExactlyOnce LifetimeOK
