CONSTANTS
  N = 2
  Threads = {}
  Prog = 0
SPECIFICATION TraceSpec
CHECK_DEADLOCK FALSE
POSTCONDITION TraceAccepted
INVARIANTS ProgOK Bounded FifoExactlyOnce LiveMatches DecisionsExact QuiescentExact LifetimeOK ResultsMatch ObserversInRange QuiescentAccounting NoLeakAfterDestroy
