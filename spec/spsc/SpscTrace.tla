----------------------------- MODULE SpscTrace -----------------------------
(* Trace validation for Spsc.tla: every line of the ndjson trace recorded from   *)
(* the real SPSCRingBuffer under the controlled scheduler must be explained by    *)
(* the specification action of the same name taken by the same thread, and the    *)
(* projected state (head, tail, live payload per slot, lifetime-error counter)    *)
(* and the values returned to the caller must equal the specification's.  All     *)
(* invariants of Spsc.tla are evaluated in every state of the validated           *)
(* behaviour.                                                                      *)
EXTENDS Spsc, Json, IOUtils

TraceLog == ndJsonDeserialize(IOEnv.TRACE)

VARIABLE l   \* next line to consume

tvars == <<vars, l>>

\* the Reset line carries kBufferSize (storage slots) and capacity(): bind the two
ResetOK(ev) == ev.n >= 2 /\ ev.cap = ev.n - 1

TraceInit ==
  /\ l = 2
  /\ TraceLog[1].e = "Reset"
  /\ ResetOK(TraceLog[1])
  /\ InitWith(TraceLog[1].n, TraceLog[1].prog)

ResetTo(nn, p) ==
  /\ n' = nn /\ prog' = p
  /\ head' = 0 /\ tail' = 0
  /\ data' = [i \in 0 .. (nn - 1) |-> 0]
  /\ alive' = TRUE
  /\ pc' = [t \in DOMAIN p |-> "Start"]
  /\ ip' = [t \in DOMAIN p |-> 1]
  /\ loc' = [t \in DOMAIN p |-> EmptyLoc]
  /\ hist' = [t \in DOMAIN p |-> <<>>]
  /\ pushed' = <<>> /\ popped' = <<>>
  /\ solo' = [t \in DOMAIN p |-> FALSE]
  /\ soloBad' = FALSE /\ obsBad' = FALSE /\ lifeBad' = FALSE

Dispatch(e, t) ==
  CASE e = "Start"      -> Start(t)
    [] e = "PushLdTail" -> PushLdTail(t)
    [] e = "PushLdHead" -> PushLdHead(t)
    [] e = "PushStTail" -> PushStTail(t)
    [] e = "BatLdTail"  -> BatLdTail(t)
    [] e = "BatLdHead"  -> BatLdHead(t)
    [] e = "BatStTail"  -> BatStTail(t)
    [] e = "PopLdHead"  -> PopLdHead(t)
    [] e = "PopLdTail"  -> PopLdTail(t)
    [] e = "PopStHead"  -> PopStHead(t)
    [] e = "PbLdHead"   -> PbLdHead(t)
    [] e = "PbLdTail"   -> PbLdTail(t)
    [] e = "PbStHead"   -> PbStHead(t)
    [] e = "ObsLd1"     -> ObsLd1(t)
    [] e = "ObsLd2"     -> ObsLd2(t)
    \* serialised execution: both operand loads of empty()/full() happen inside the one step
    [] e = "ObsBoth"    -> ObsBothAtomic(t)
    [] OTHER            -> FALSE

ProjOK(ev) ==
  /\ head' = ev.s.head
  /\ tail' = ev.s.tail
  /\ Len(ev.s.data) = n
  /\ \A i \in 0 .. (n - 1) : data'[i] = ev.s.data[i + 1]
  /\ ev.s.errs = 0            \* payload registry: no double destroy / construct over live / use of dead

TraceStep ==
  /\ l <= Len(TraceLog)
  /\ LET ev == TraceLog[l] IN
       \/ /\ ev.e = "Reset"
          /\ ResetOK(ev)
          /\ ResetTo(ev.n, ev.prog)
       \/ /\ ev.e = "Destroy"
          /\ Destroy
          /\ ev.live = Cardinality({i \in Slots : data'[i] # 0})   \* = 0 by NoLeakAfterDestroy
          /\ ev.errs = 0
       \/ /\ ev.e \notin {"Reset", "Destroy"}
          /\ {"t", "r", "s"} \subseteq DOMAIN ev     \* a Diverged / Deadlock / stuck line is rejected
          /\ ev.t \in T
          /\ Dispatch(ev.e, ev.t)
          /\ ProjOK(ev)
          /\ ev.r = (IF ip'[ev.t] > ip[ev.t] THEN hist'[ev.t][Len(hist'[ev.t])] ELSE <<>>)
  /\ l' = l + 1

TraceSpec == TraceInit /\ [][TraceStep]_tvars

\* One state per consumed line (TraceInit consumes line 1).
TraceAccepted ==
  LET d == TLCGet("stats").diameter IN
  IF d = Len(TraceLog) THEN TRUE
  ELSE /\ PrintT(<<"TRACE_REJECTED_AT_LINE", d + 1, "OF", Len(TraceLog)>>)
       /\ PrintT(<<"OFFENDING", TraceLog[d + 1]>>)
       /\ FALSE
==========================================================================
