------------------------------ MODULE MCSpsc ------------------------------
EXTENDS Spsc
O(op, v, vs) == [op |-> op, v |-> v, vs |-> vs]
E == <<>>

\* cover configuration (n = 3, capacity 2, two threads): batch + single push (accepted and
\* refused as full), partial batch acceptance, index wrap-around in both branches of the batch
\* space computations, single pop, partial and complete batch pop, size() of the producer racing
\* with the consumer
Prog_cover == [p |-> <<O("batch", 0, <<1, 2>>), O("push", 3, E), O("size", 0, E), O("batch", 0, <<4, 5>>)>>,
               c |-> <<O("pop", 0, E), O("popbatch", 1, E), O("popbatch", 2, E), O("popr", 0, E)>>]

\* 4 operations per thread, all operation kinds, racing observers of all three kinds
Prog_4ops == [p |-> <<O("push", 1, E), O("batch", 0, <<2, 3, 4>>), O("emplace", 5, E), O("pushc", 6, E)>>,
              c |-> <<O("popbatch", 2, E), O("pop", 0, E), O("popinto", 0, E), O("popr", 0, E)>>,
              o |-> <<O("empty", 0, E), O("full", 0, E), O("size", 0, E)>>]
Prog_4opsB == [p |-> <<O("batch", 0, <<1, 2>>), O("full", 0, E), O("batch", 0, <<3, 4, 5, 6>>), O("push", 7, E)>>,
               c |-> <<O("pop", 0, E), O("popbatch", 3, E), O("empty", 0, E), O("popbatch", 1, E)>>,
               o |-> <<O("size", 0, E), O("size", 0, E)>>]

\* every producer history x every consumer history of length L over the operation alphabets,
\* for every buffer size in NSet (values are made distinct by position)
CONSTANTS L, NSet, Rich, Rot
ProdAlpha(j) == {O("push", 10 * j + 1, E), O("batch", 0, <<10 * j + 1, 10 * j + 2, 10 * j + 3>>), O("full", 0, E)}
                \cup (IF Rich THEN {O("batch", 0, <<10 * j + 1, 10 * j + 2>>)} ELSE {})
ConsAlpha == {O("pop", 0, E), O("popbatch", 1, E), O("popbatch", 3, E), O("empty", 0, E)}
             \cup (IF Rich THEN {O("size", 0, E)} ELSE {})
ProdProgs == {q \in [1 .. L -> UNION {ProdAlpha(j) : j \in 1 .. L}] : \A j \in 1 .. L : q[j] \in ProdAlpha(j)}
ConsProgs == [1 .. L -> ConsAlpha]
\* Rot: also start with head = tail = n-1 (the state after n-1 push/pop pairs), so that histories
\* of length 2 already cross the index wrap-around
InitAll == \E nn \in NSet : \E pp \in ProdProgs : \E cp \in ConsProgs :
              \E k \in (IF Rot THEN {0, nn - 1} ELSE {0}) : InitAt(nn, [p |-> pp, c |-> cp], k)
==========================================================================
