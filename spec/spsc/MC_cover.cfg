CONSTANTS
  N = 3
  Threads = {"p", "c"}
  Prog <- Prog_cover
  L = 2
  NSet = {2, 3, 4}
  Rich = TRUE
  Rot = FALSE
INIT Init
NEXT Next
CHECK_DEADLOCK FALSE
INVARIANTS TypeOK ProgOK Bounded FifoExactlyOnce LiveMatches DecisionsExact QuiescentExact LifetimeOK ResultsMatch ObserversInRange QuiescentAccounting NoLeakAfterDestroy
