CONSTANTS
  N = 3
  Threads = {"p", "c"}
  Prog <- Prog_cover
  L = 3
  NSet = {2, 3, 4}
  Rich = FALSE
  Rot = FALSE
INIT InitAll
NEXT Next
CHECK_DEADLOCK FALSE
INVARIANTS TypeOK ProgOK Bounded FifoExactlyOnce LiveMatches DecisionsExact QuiescentExact LifetimeOK ResultsMatch ObserversInRange QuiescentAccounting NoLeakAfterDestroy
