------------------------------ MODULE SpscObs ------------------------------
(* E5 record validator for C35 (SPSCRingBuffer is an exactly-once bounded FIFO).           *)
(* Each line is one free-running round of harness/drv/drv_spsc.cpp --stress: a producer    *)
(* thread, a consumer thread and (in some rounds) an observer thread ran short random      *)
(* programs on the real ring truly concurrently (no controller, hooks inert), starting on  *)
(* an EMPTY ring.  The record holds what a user of the public API can observe, per thread,  *)
(* in program order; nothing orders operations of different threads.                        *)
(*   {"e":"Round","round":r,"kind":"c2x","cap":capacity(),"stuck":0|1,                      *)
(*    "p":[[op,arg,res],..]     1 try_push(T&&) 2 try_push(const T&) 3 try_emplace          *)
(*                              (res 1 accepted, 0 refused, 2 refused AND argument changed)  *)
(*                              4 try_push_batch (arg = length of the range, res = count,    *)
(*                              -1 = an element that was not pushed changed)                 *)
(*                              5 size() 6 empty() 7 full()   (res = returned value)         *)
(*    "c":[[op,arg,res,v..],..] 1 try_pop(T&) 2 try_pop() 3 try_pop_into (res = the value,   *)
(*                              0 refused, -1 refused AND argument changed)                  *)
(*                              4 try_pop_batch (arg = maxCount, res = count, then values)   *)
(*                              5 size() 6 empty() 7 full()                                  *)
(*    "o":[[op,0,res],..]       observer thread: 5 size() 6 empty() 7 full()                 *)
(*    "fin":[size,empty,full]   observers called by the consumer after BOTH programs ended   *)
(*    "destroy":0|1, "drain":[v..]  0: the consumer then popped until refused (the values);  *)
(*                              1: the ring was destroyed as it was                          *)
(*    "live":n                  payload objects constructed minus destroyed (all threads),   *)
(*                              counted when the ring is drained / destroyed                 *)
(*    "errs":n}                 payload lifetime errors (constructed over a live object in   *)
(*                              the ring's storage; destroyed / moved from / copied from /   *)
(*                              assigned to an object that is not alive)                     *)
(* The k-th value the producer offers is k and a refused value is offered again, so the     *)
(* sequence of accepted values is 1..A where A = sum of the producer's results.  A value    *)
(* read from a torn or dead object is logged as a negative number.                          *)
(*                                                                                          *)
(* RecordsOK is property C35 restricted to what one record shows.  Every conjunct is        *)
(* implied by Spsc.tla for EVERY interleaving, also for interleavings inside a step of      *)
(* Spsc.tla (the only facts used are: head is written by the consumer only and tail by the  *)
(* producer only, both only ever advance, a thread's successive loads of one atomic word    *)
(* never go backwards, and the invariants Bounded / FifoExactlyOnce / LifetimeOK).           *)
EXTENDS Integers, Sequences, TLC, Json, IOUtils

ObsLog == ndJsonDeserialize(IOEnv.TRACE)

VARIABLE l
ObsInit == l = 1
ObsNext == l <= Len(ObsLog) /\ l' = l + 1
ObsSpec == ObsInit /\ [][ObsNext]_l

Max(a, b) == IF a > b THEN a ELSE b
Min(a, b) == IF a < b THEN a ELSE b

(* ------------------------------------------------------------------------------------- *)
(* Shape: every returned value is one the interface can return.                           *)
(* Holds always: push/pop variants return bool / a value that was pushed (positive);      *)
(* try_push_batch returns at most the length of the range and at most capacity() (Bounded);*)
(* try_pop_batch returns at most maxCount and at most capacity(); size() <= capacity()      *)
(* even when racing (ObserversInRange); a refused operation leaves its argument alone      *)
(* (documented: "returns false and the element is unchanged" / "leaves the output          *)
(* parameter unchanged"; moved-from objects are never compared, R6).                       *)
ObsRowOK(o, cap) ==
  /\ Len(o) = 3
  /\ o[1] \in {5, 6, 7}
  /\ (o[1] = 5 => o[3] \in 0 .. cap)
  /\ (o[1] \in {6, 7} => o[3] \in {0, 1})

PRowOK(o, cap) ==
  IF o[1] \in {1, 2, 3} THEN Len(o) = 3 /\ o[3] \in {0, 1}
  ELSE IF o[1] = 4 THEN Len(o) = 3 /\ o[2] >= 0 /\ o[3] \in 0 .. Min(o[2], cap)
  ELSE ObsRowOK(o, cap)

CRowOK(o, cap) ==
  IF o[1] \in {1, 2, 3} THEN Len(o) = 3 /\ o[3] >= 0
  ELSE IF o[1] = 4 THEN /\ Len(o) >= 3 /\ o[2] >= 0
                        /\ o[3] \in 0 .. Min(o[2], cap)
                        /\ Len(o) = 3 + o[3]
                        /\ \A j \in 4 .. Len(o) : o[j] > 0
  ELSE ObsRowOK(o, cap)

ShapeOK(rec) ==
  /\ \A i \in 1 .. Len(rec.p) : PRowOK(rec.p[i], rec.cap)
  /\ \A i \in 1 .. Len(rec.c) : CRowOK(rec.c[i], rec.cap)
  /\ \A i \in 1 .. Len(rec.o) : ObsRowOK(rec.o[i], rec.cap)
  /\ rec.fin[1] \in 0 .. rec.cap /\ rec.fin[2] \in {0, 1} /\ rec.fin[3] \in {0, 1}
  /\ \A i \in 1 .. Len(rec.drain) : rec.drain[i] > 0

(* ------------------------------------------------------------------------------------- *)
(* What the two threads did.                                                               *)
PAccepted(o) == IF o[1] \in {1, 2, 3, 4} THEN o[3] ELSE 0
RECURSIVE AcceptedFrom(_, _)
AcceptedFrom(p, i) == IF i > Len(p) THEN 0 ELSE PAccepted(p[i]) + AcceptedFrom(p, i + 1)
Accepted(rec) == AcceptedFrom(rec.p, 1)

CVals(o) == IF o[1] \in {1, 2, 3} THEN (IF o[3] = 0 THEN <<>> ELSE <<o[3]>>)
            ELSE IF o[1] = 4 THEN SubSeq(o, 4, Len(o)) ELSE <<>>
RECURSIVE Consumed(_, _)
Consumed(c, i) == IF i > Len(c) THEN <<>> ELSE CVals(c[i]) \o Consumed(c, i + 1)

(* ------------------------------------------------------------------------------------- *)
(* A thread's view of the PEER's index.                                                    *)
(* Count the ring's life in elements since the start of the round: a = elements accepted    *)
(* (tail, written by the producer only), q = elements released (head, written by the        *)
(* consumer only).  Every operation loads the peer's index exactly once and decides on      *)
(* that value; the own index cannot change meanwhile.  Hence each result confines the peer  *)
(* count that was loaded to an interval [lb, ub] (below), 0 <= a - q <= cap makes the       *)
(* index difference modulo kBufferSize exact, the values loaded by one thread never         *)
(* decrease (coherence of one atomic word; in Spsc.tla: head/tail only advance), and the     *)
(* last one cannot exceed what the peer had done when its program ended.  View folds the    *)
(* least possible peer count through the program; <<-1,-1>> = no such sequence exists, i.e. *)
(* some decision contradicts "a push is refused iff the ring is full / a pop iff it is      *)
(* empty, as observed by that thread" (DecisionsExact) or Bounded.                          *)
(*                                                                                          *)
(* producer op at own count a, loaded released-count q (a - cap <= q <= a):                 *)
(*   push accepted  <=> a - q < cap;  refused <=> q = a - cap                               *)
(*   batch(len) = k: available = cap - (a - q), k = min(len, available):                    *)
(*                   k < len => q = a + k - cap;  k = len => q >= a + len - cap             *)
(*   size() = s => q = a - s;  empty() <=> q = a;  full() <=> q = a - cap                   *)
PBounds(o, a, cap) ==  \* <<lb, ub, a'>>
  IF o[1] \in {1, 2, 3} THEN (IF o[3] = 1 THEN <<a - cap + 1, a, a + 1>> ELSE <<a - cap, a - cap, a>>)
  ELSE IF o[1] = 4 THEN (IF o[3] < o[2] THEN <<a + o[3] - cap, a + o[3] - cap, a + o[3]>>
                         ELSE <<a + o[2] - cap, a, a + o[3]>>)
  ELSE IF o[1] = 5 THEN <<a - o[3], a - o[3], a>>
  ELSE IF o[1] = 6 THEN (IF o[3] = 1 THEN <<a, a, a>> ELSE <<a - cap, a - 1, a>>)
  ELSE (IF o[3] = 1 THEN <<a - cap, a - cap, a>> ELSE <<a - cap + 1, a, a>>)

(* consumer op at own count q, loaded accepted-count a (q <= a <= q + cap):                 *)
(*   pop succeeded <=> a > q;  refused <=> a = q                                            *)
(*   popbatch(max) = k: available = a - q, k = min(max, available):                         *)
(*                   k < max => a = q + k;  k = max => a >= q + max                         *)
(*   size() = s => a = q + s;  empty() <=> a = q;  full() <=> a = q + cap                   *)
CBounds(o, q, cap) ==  \* <<lb, ub, q'>>
  IF o[1] \in {1, 2, 3} THEN (IF o[3] # 0 THEN <<q + 1, q + cap, q + 1>> ELSE <<q, q, q>>)
  ELSE IF o[1] = 4 THEN (IF o[3] < o[2] THEN <<q + o[3], q + o[3], q + o[3]>>
                         ELSE <<q + o[2], q + cap, q + o[3]>>)
  ELSE IF o[1] = 5 THEN <<q + o[3], q + o[3], q>>
  ELSE IF o[1] = 6 THEN (IF o[3] = 1 THEN <<q, q, q>> ELSE <<q + 1, q + cap, q>>)
  ELSE (IF o[3] = 1 THEN <<q + cap, q + cap, q>> ELSE <<q, q + cap - 1, q>>)

RECURSIVE View(_, _, _, _, _, _)
View(side, ops, i, own, lo, cap) ==  \* <<own count at the end, least possible last peer count>>
  IF i > Len(ops) THEN <<own, lo>>
  ELSE LET b == IF side = "p" THEN PBounds(ops[i], own, cap) ELSE CBounds(ops[i], own, cap)
           nlo == Max(lo, b[1])
       IN IF nlo > b[2] THEN <<-1, -1>> ELSE View(side, ops, i + 1, b[3], nlo, cap)

(* ------------------------------------------------------------------------------------- *)
(* What holds at the end of every round, given A = number of accepted values (they are     *)
(* 1 .. A) and got = the values the consumer's pops delivered while the producer ran.       *)
EndOK(rec, A, got) ==
  LET cap == rec.cap
      all == got \o rec.drain
      left == IF rec.destroy = 1 THEN rec.fin[1] ELSE 0
  IN
  \* the real code hangs (the operations are wait-free: no correct execution takes 10 s)
  /\ rec.stuck = 0
  /\ \A i \in 1 .. Len(rec.o) : ObsRowOK(rec.o[i], cap)
  /\ rec.fin[1] \in 0 .. cap /\ rec.fin[2] \in {0, 1} /\ rec.fin[3] \in {0, 1}
  \* FifoExactlyOnce / ResultsMatch: what the consumer received, in its program order, followed by what
  \* it drained at quiescence, is exactly the accepted sequence (minus what a destroyed ring still
  \* held): nothing lost, duplicated, reordered, torn or invented.  Holds for every interleaving
  \* because the single consumer receives the elements in release order = publication order.
  /\ all = [i \in 1 .. Len(all) |-> i]
  /\ Len(all) + left = A
  \* QuiescentExact / QuiescentAccounting: after both programs ended (the consumer saw the
  \* producer's end flag, so everything is visible) the observers answer like a sequential FIFO,
  \* and the drain stops exactly when that many elements have been popped
  /\ rec.fin[1] = A - Len(got)
  /\ rec.fin[2] = (IF rec.fin[1] = 0 THEN 1 ELSE 0)
  /\ rec.fin[3] = (IF rec.fin[1] = cap THEN 1 ELSE 0)
  /\ (rec.destroy = 0 => Len(rec.drain) = rec.fin[1])
  /\ (rec.destroy = 1 => rec.drain = <<>>)
  \* LifetimeOK / NoLeakAfterDestroy: every payload object is destroyed exactly once (the counts are
  \* per-thread tallies, added up at quiescence), also the ones a destroyed ring still held
  /\ rec.live = 0
  /\ rec.errs = 0

(* a short round: every operation is listed *)
RecOK(rec) ==
  LET cap == rec.cap
      A == Accepted(rec)
      got == Consumed(rec.c, 1)
      pv == View("p", rec.p, 1, 0, 0, cap)
      cv == View("c", rec.c, 1, 0, 0, cap)
  IN
  /\ rec.stuck = 0
  /\ ShapeOK(rec)
  /\ EndOK(rec, A, got)
  \* DecisionsExact / Bounded at observation level (see View): a consistent monotone view of the
  \* peer exists and does not run ahead of what the peer really did in the round
  /\ pv[1] = A /\ pv[2] >= 0 /\ pv[2] <= Len(got)
  /\ cv[1] = Len(got) /\ cv[2] >= 0 /\ cv[2] <= A

(* a stream round: some thousand operations, tallied.                                      *)
(*   {"e":"Stream",..,"acc":A,"pt":[refused,changed,maxcount,over,smin,smax],"ct":[..],    *)
(*    "pops":[v..], "o","fin","destroy","drain","live","errs"}                              *)
(* refused = operations that returned false / less than asked for (any number is fine);    *)
(* changed = refused operations that changed their argument (documented: never);           *)
(* maxcount = largest count a batch call returned (<= capacity(): Bounded);                *)
(* over = largest (count - length of the range / maxCount) (<= 0 by the interface);        *)
(* smin/smax = extremes of size() (ObserversInRange).                                      *)
TallyOK(t, cap) ==
  /\ Len(t) = 6 /\ t[1] >= 0 /\ t[2] = 0 /\ t[3] \in 0 .. cap /\ t[4] <= 0
  /\ t[5] >= 0 /\ t[6] <= cap

StreamOK(rec) ==
  /\ rec.stuck = 0
  /\ TallyOK(rec.pt, rec.cap)
  /\ TallyOK(rec.ct, rec.cap)
  /\ rec.acc >= 0
  /\ \A i \in 1 .. Len(rec.drain) : rec.drain[i] > 0
  /\ EndOK(rec, rec.acc, rec.pops)

RecordsOK ==
  \/ l > Len(ObsLog)
  \/ /\ ObsLog[l].e \in {"Round", "Stream"}     \* the driver writes nothing else
     /\ (ObsLog[l].e = "Round" => RecOK(ObsLog[l]))
     /\ (ObsLog[l].e = "Stream" => StreamOK(ObsLog[l]))

ObsAccepted ==
  LET d == TLCGet("stats").diameter IN
  IF d = Len(ObsLog) + 1 THEN TRUE
  ELSE /\ PrintT(<<"TRACE_REJECTED_AT_LINE", d, "OF", Len(ObsLog)>>)
       /\ FALSE
=============================================================================
