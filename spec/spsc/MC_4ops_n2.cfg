CONSTANTS
  N = 2
  Threads = {"p", "c", "o"}
  Prog <- Prog_4ops
  L = 2
  NSet = {2, 3, 4}
  Rich = TRUE
  Rot = FALSE
INIT Init
NEXT Next
CHECK_DEADLOCK FALSE
INVARIANTS TypeOK ProgOK Bounded FifoExactlyOnce LiveMatches DecisionsExact QuiescentExact LifetimeOK ResultsMatch ObserversInRange QuiescentAccounting NoLeakAfterDestroy
