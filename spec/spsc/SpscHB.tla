------------------------------ MODULE SpscHB ------------------------------
(* C10 for SPSCRingBuffer: Spsc.tla composed with the happens-before model      *)
(* (spec/lib/MemOrder.tla).  Non-atomic locations: the payload storage of every  *)
(* slot (constructed by the producer after its acquire load of head_, moved out  *)
(* and destroyed by the consumer after its acquire load of tail_).  Memory       *)
(* orders come from OrdersSpsc.tla (bin/extract_orders.py, working tree).        *)
EXTENDS Spsc, MemOrder, OrdersSpsc

VARIABLE hb
hvars == <<vars, hb>>

HT == Threads \cup {"main"}
ALocs == {<<"head", 0>>, <<"tail", 0>>}
NLocs == {<<"data", i>> : i \in 0 .. (N - 1)}
Hd == <<"head", 0>>
Tl == <<"tail", 0>>
DataL(i) == <<"data", i>>

\* textual occurrence of a site shared by several functions (file order)
Occ(t) ==
  LET o == Op(t).op IN
  CASE o = "push" -> 1 [] o = "pushc" -> 2 [] o = "emplace" -> 3
    [] o = "pop" -> 1 [] o = "popr" -> 2 [] o = "popinto" -> 3
    [] o = "empty" -> 1 [] o = "full" -> 2 [] OTHER -> 1
OS(site, t) == Ord[site][IF Len(Ord[site]) = 1 THEN 1 ELSE Occ(t)][2]
OrdersComplete == \A s \in DOMAIN Ord : \A i \in 1 .. Len(Ord[s]) : Ord[s][i][1] # "none"

HInit == Init /\ hb = HBInit(HT, ALocs, NLocs)

RECURSIVE WriteSlots(_, _, _)
WriteSlots(h, t, xs) == IF xs = {} THEN h ELSE LET x == CHOOSE x \in xs : TRUE IN WriteSlots(NAWrite(HT, h, t, DataL(x)), t, xs \ {x})
RECURSIVE MoveOutSlots(_, _, _)
MoveOutSlots(h, t, xs) ==
  IF xs = {} THEN h
  ELSE LET x == CHOOSE x \in xs : TRUE IN MoveOutSlots(NAWrite(HT, NARead(HT, h, t, DataL(x)), t, DataL(x)), t, xs \ {x})
Changed == {i \in Slots : data'[i] # data[i]}

HStep(t) ==
  \/ Start(t) /\ hb' = hb
  \/ PushLdTail(t) /\ hb' = ALoad(HT, hb, t, Tl, OS("PushLdTail", t))
  \/ PushLdHead(t) /\ hb' = WriteSlots(ALoad(HT, hb, t, Hd, OS("PushLdHead", t)), t, Changed)
  \/ PushStTail(t) /\ hb' = AStore(HT, hb, t, Tl, OS("PushStTail", t))
  \/ BatLdTail(t) /\ hb' = ALoad(HT, hb, t, Tl, OS("BatLdTail", t))
  \/ BatLdHead(t) /\ hb' = WriteSlots(ALoad(HT, hb, t, Hd, OS("BatLdHead", t)), t, Changed)
  \/ BatStTail(t) /\ hb' = AStore(HT, hb, t, Tl, OS("BatStTail", t))
  \/ PopLdHead(t) /\ hb' = ALoad(HT, hb, t, Hd, OS("PopLdHead", t))
  \/ PopLdTail(t) /\ hb' = MoveOutSlots(ALoad(HT, hb, t, Tl, OS("PopLdTail", t)), t, Changed)
  \/ PopStHead(t) /\ hb' = AStore(HT, hb, t, Hd, OS("PopStHead", t))
  \/ PbLdHead(t) /\ hb' = ALoad(HT, hb, t, Hd, OS("PbLdHead", t))
  \/ PbLdTail(t) /\ hb' = MoveOutSlots(ALoad(HT, hb, t, Tl, OS("PbLdTail", t)), t, Changed)
  \/ PbStHead(t) /\ hb' = AStore(HT, hb, t, Hd, OS("PbStHead", t))
  \/ ObsLd1(t) /\ hb' = ALoad(HT, hb, t, Hd, OS("ObsLd1", t))
  \/ ObsLd2(t) /\ hb' = ALoad(HT, hb, t, Tl, OS("ObsLd2", t))
  \/ ObsBoth(t) /\ hb' = ALoad(HT, hb, t, Hd, OS("ObsBoth", t))
  \/ ObsBoth2(t) /\ hb' = ALoad(HT, hb, t, Tl, OS("ObsBoth", t))

RECURSIVE JoinAll(_, _)
JoinAll(h, ts) == IF ts = {} THEN h ELSE LET u == CHOOSE u \in ts : TRUE IN JoinAll(HBJoin(HT, h, "main", u), ts \ {u})

HNext ==
  \/ \E t \in Threads : HStep(t)
  \/ Destroy /\ hb' = WriteSlots(JoinAll(hb, Threads), "main", Changed)

RaceFree == NoRace(hb)
==========================================================================
