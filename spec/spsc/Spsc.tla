------------------------------- MODULE Spsc -------------------------------
(* Implementation-level specification of dispenso::SPSCRingBuffer                 *)
(* (dispenso/spsc_ring_buffer.h).  One action per atomic access of the code; the  *)
(* action name is the DISPENSO_VERIF_POINT site placed immediately before that    *)
(* access.  Non-atomic work between two points (placement-new / move-out /         *)
(* destroy of payload objects) belongs to the step that begins at the earlier     *)
(* point.  Failure exits are folded into the deciding step.                        *)
(*                                                                                *)
(* The ring has n = kBufferSize slots and holds at most n-1 objects (one slot is  *)
(* kept empty); head and tail are slot indices in 0..n-1.                          *)
(*                                                                                *)
(* Threads run programs: sequences of operations                                  *)
(*   [op |-> "push"|"pushc"|"emplace", v |-> 3, vs |-> <<>>]  try_push(T&&) /      *)
(*                                           try_push(const T&) / try_emplace     *)
(*   [op |-> "batch",    v |-> 0, vs |-> <<4,5>>]   try_push_batch(first,last)     *)
(*   [op |-> "pop"|"popr"|"popinto", ...]           try_pop(T&) / try_pop() /      *)
(*                                                  try_pop_into(ptr)             *)
(*   [op |-> "popbatch", v |-> 2, vs |-> <<>>]      try_pop_batch(dest, maxCount=2)*)
(*   [op |-> "empty"|"full"|"size", ...]            observers                      *)
(* Values are distinct positive integers; 0 means "no live object".               *)
(* A completed op appends its result to hist[t] as a sequence: <<1>>/<<0>> for    *)
(* pushes, <<count>> for batch, <<value>> or <<0>> for pops, <<count, v1..vk>>    *)
(* for popbatch, <<0 or 1>> / <<size>> for observers.                             *)
EXTENDS Integers, Sequences, FiniteSets, TLC

CONSTANTS N,        \* kBufferSize (capacity() + 1)
          Threads,  \* set of thread names (strings)
          Prog      \* [Threads -> Seq(op records)]

VARIABLES
  n, prog,          \* configuration (variables so that a trace can re-initialise them)
  head, tail,       \* the two atomic words
  data,             \* data[i] = value of the live object in slot i, 0 if none
  alive,            \* ring not yet destroyed
  pc, ip, loc,      \* per thread: program counter, index of current op, locals
  hist,             \* ghost: per thread, sequence of results of completed ops
  pushed,           \* ghost: values in the order they were published (tail store)
  popped,           \* ghost: values in the order they were released (head store)
  solo,             \* ghost: solo[t] = no other thread stepped / was in flight during t's current op
  soloBad,          \* ghost: a solo (quiescent) op returned something the sequential FIFO forbids
  obsBad,           \* ghost: a push/pop decision differed from the true fill level at the instant
                    \*        of the deciding load ("as observed by that thread")
  lifeBad           \* ghost: constructed over a live object / destroyed a dead one

shared == <<head, tail, data, alive>>
ghost  == <<hist, pushed, popped, solo, soloBad, obsBad, lifeBad>>
vars   == <<n, prog, head, tail, data, alive, pc, ip, loc, hist, pushed, popped, solo, soloBad,
            obsBad, lifeBad>>

cap == n - 1
Slots == 0 .. (n - 1)
Inc(i) == (i + 1) % n
Dist(a, b) == (b - a + n) % n          \* number of increments from a to b
Min(a, b) == IF a < b THEN a ELSE b

PushOps == {"push", "emplace", "pushc"}
PopOps == {"pop", "popr", "popinto"}
ObsOps == {"empty", "full", "size"}
BothOps == {"empty", "full"}            \* both loads in ONE expression (one hook only)
ProducerOps == PushOps \cup {"batch"}
ConsumerOps == PopOps \cup {"popbatch"}

FirstPcOf(o) ==
  CASE o.op \in PushOps   -> "PushLdTail"
    [] o.op = "batch"     -> "BatLdTail"
    [] o.op \in PopOps    -> "PopLdHead"
    [] o.op = "popbatch"  -> "PbLdHead"
    [] o.op = "size"      -> "ObsLd1"
    [] o.op \in BothOps   -> "ObsBoth"

FirstPc(t, i) == IF i > Len(prog[t]) THEN "Done" ELSE FirstPcOf(prog[t][i])
FirstPcs == {"PushLdTail", "BatLdTail", "PopLdHead", "PbLdHead", "ObsLd1", "ObsBoth"}

Op(t) == prog[t][ip[t]]
InFlight(u) == pc[u] \notin (FirstPcs \cup {"Start", "Done"})

EmptyLoc == [tl |-> 0, h |-> 0, cnt |-> 0, got |-> <<>>, w |-> "none", a |-> 0]

\* k = index at which the (empty) ring starts: the real ring starts at 0; any other k is the state
\* reached after k push/pop pairs and lets short histories reach the index wrap-around
InitAt(nn, p, k) ==
  /\ n = nn /\ prog = p
  /\ head = k /\ tail = k
  /\ data = [i \in 0 .. (nn - 1) |-> 0]
  /\ alive = TRUE
  /\ pc = [t \in DOMAIN p |-> "Start"]
  /\ ip = [t \in DOMAIN p |-> 1]
  /\ loc = [t \in DOMAIN p |-> EmptyLoc]
  /\ hist = [t \in DOMAIN p |-> <<>>]
  /\ pushed = <<>> /\ popped = <<>>
  /\ solo = [t \in DOMAIN p |-> FALSE]
  /\ soloBad = FALSE /\ obsBad = FALSE /\ lifeBad = FALSE

InitWith(nn, p) == InitAt(nn, p, 0)

Init == InitWith(N, Prog)

T == DOMAIN prog

\* ---------------------------------------------------------------- bookkeeping helpers
Goto(t, l) == pc' = [pc EXCEPT ![t] = l]

NoOtherInFlight(t) == \A w \in T \ {t} : ~InFlight(w)

\* every step of t spoils the solo flag of all the others; the first step of an op sets t's own
Touch(t, first) ==
  solo' = [u \in T |->
             IF u = t THEN (IF first THEN NoOtherInFlight(t) ELSE solo[t]) ELSE FALSE]

AbsLen == Len(pushed) - Len(popped)     \* the true number of published, unreleased objects

\* what a sequential bounded FIFO holding pushed[Len(popped)+1 ..] answers to operation o
SeqAnswer(o) ==
  LET k == Len(popped) IN
  CASE o.op \in PushOps  -> <<IF AbsLen < cap THEN 1 ELSE 0>>
    [] o.op = "batch"    -> <<Min(Len(o.vs), cap - AbsLen)>>
    [] o.op \in PopOps   -> <<IF AbsLen > 0 THEN pushed[k + 1] ELSE 0>>
    [] o.op = "popbatch" -> LET c == Min(o.v, AbsLen) IN <<c>> \o SubSeq(pushed, k + 1, k + c)
    [] o.op = "empty"    -> <<IF AbsLen = 0 THEN 1 ELSE 0>>
    [] o.op = "full"     -> <<IF AbsLen >= cap THEN 1 ELSE 0>>
    [] o.op = "size"     -> <<AbsLen>>

\* Complete the current op of t with result r (a sequence).  Every op changes the ghost FIFO
\* (pushed/popped) only in its finishing step, so the UNPRIMED ghost is the FIFO before the op's
\* own effect; if the op ran solo it is also the FIFO at the start of the op.
Finish(t, r, wasSolo) ==
  /\ hist' = [hist EXCEPT ![t] = Append(@, r)]
  /\ ip' = [ip EXCEPT ![t] = @ + 1]
  /\ Goto(t, FirstPc(t, ip[t] + 1))
  /\ soloBad' = (soloBad \/ (wasSolo /\ r # SeqAnswer(Op(t))))

Start(t) ==
  /\ pc[t] = "Start"
  /\ Goto(t, FirstPc(t, 1))
  /\ UNCHANGED <<n, prog, shared, ip, loc, ghost>>

\* --------------------------------------------- try_push(T&&) / try_push(const T&) / try_emplace
PushLdTail(t) ==
  /\ pc[t] = "PushLdTail"
  /\ loc' = [loc EXCEPT ![t].tl = tail]
  /\ Goto(t, "PushLdHead")
  /\ Touch(t, TRUE)
  /\ UNCHANGED <<n, prog, shared, ip, hist, pushed, popped, soloBad, obsBad, lifeBad>>

\* loads head; full -> return false; else placement-new of the payload in slot tl
PushLdHead(t) ==
  /\ pc[t] = "PushLdHead"
  /\ Touch(t, FALSE)
  /\ LET tl == loc[t].tl
         isFull == Inc(tl) = head
     IN /\ obsBad' = (obsBad \/ (isFull # (AbsLen = cap)))
        /\ IF isFull
             THEN /\ Finish(t, <<0>>, solo[t])
                  /\ UNCHANGED <<data, lifeBad>>
             ELSE /\ data' = [data EXCEPT ![tl] = Op(t).v]
                  /\ lifeBad' = (lifeBad \/ data[tl] # 0)
                  /\ Goto(t, "PushStTail")
                  /\ UNCHANGED <<ip, hist, soloBad>>
  /\ UNCHANGED <<n, prog, head, tail, alive, loc, pushed, popped>>

PushStTail(t) ==
  /\ pc[t] = "PushStTail"
  /\ Touch(t, FALSE)
  /\ tail' = Inc(loc[t].tl)
  /\ pushed' = Append(pushed, Op(t).v)
  /\ Finish(t, <<1>>, solo[t])
  /\ UNCHANGED <<n, prog, head, data, alive, loc, popped, obsBad, lifeBad>>

\* ---------------------------------------------------------------------- try_push_batch
BatLdTail(t) ==
  /\ pc[t] = "BatLdTail"
  /\ loc' = [loc EXCEPT ![t].tl = tail, ![t].cnt = 0]
  /\ Goto(t, "BatLdHead")
  /\ Touch(t, TRUE)
  /\ UNCHANGED <<n, prog, shared, ip, hist, pushed, popped, soloBad, obsBad, lifeBad>>

\* loads head, computes the free space exactly as the code does (two branches), constructs
\* count = min(#items, available) payloads in slots tl, tl+1, ...
BatLdHead(t) ==
  /\ pc[t] = "BatLdHead"
  /\ Touch(t, FALSE)
  /\ LET tl == loc[t].tl
         h == head
         avail == IF tl >= h THEN (n - 1) - (tl - h) ELSE h - tl - 1
         cnt == Min(Len(Op(t).vs), avail)
     IN /\ obsBad' = (obsBad \/ avail # cap - AbsLen)
        /\ IF cnt = 0
             THEN /\ Finish(t, <<0>>, solo[t])
                  /\ UNCHANGED <<data, loc, lifeBad>>
             ELSE /\ data' = [i \in Slots |-> IF Dist(tl, i) < cnt THEN Op(t).vs[Dist(tl, i) + 1]
                                                                  ELSE data[i]]
                  /\ lifeBad' = (lifeBad \/ \E i \in Slots : Dist(tl, i) < cnt /\ data[i] # 0)
                  /\ loc' = [loc EXCEPT ![t].cnt = cnt]
                  /\ Goto(t, "BatStTail")
                  /\ UNCHANGED <<ip, hist, soloBad>>
  /\ UNCHANGED <<n, prog, head, tail, alive, pushed, popped>>

BatStTail(t) ==
  /\ pc[t] = "BatStTail"
  /\ Touch(t, FALSE)
  /\ tail' = (loc[t].tl + loc[t].cnt) % n
  /\ pushed' = pushed \o SubSeq(Op(t).vs, 1, loc[t].cnt)
  /\ Finish(t, <<loc[t].cnt>>, solo[t])
  /\ UNCHANGED <<n, prog, head, data, alive, loc, popped, obsBad, lifeBad>>

\* ------------------------------------------------ try_pop(T&) / try_pop() / try_pop_into
PopLdHead(t) ==
  /\ pc[t] = "PopLdHead"
  /\ loc' = [loc EXCEPT ![t].h = head, ![t].got = <<>>]
  /\ Goto(t, "PopLdTail")
  /\ Touch(t, TRUE)
  /\ UNCHANGED <<n, prog, shared, ip, hist, pushed, popped, soloBad, obsBad, lifeBad>>

\* loads tail; empty -> return false; else move the payload out of slot h and destroy it
PopLdTail(t) ==
  /\ pc[t] = "PopLdTail"
  /\ Touch(t, FALSE)
  /\ LET h == loc[t].h
         isEmpty == h = tail
     IN /\ obsBad' = (obsBad \/ (isEmpty # (AbsLen = 0)))
        /\ IF isEmpty
             THEN /\ Finish(t, <<0>>, solo[t])
                  /\ UNCHANGED <<data, loc, lifeBad>>
             ELSE /\ loc' = [loc EXCEPT ![t].got = <<data[h]>>]
                  /\ data' = [data EXCEPT ![h] = 0]
                  /\ lifeBad' = (lifeBad \/ data[h] = 0)
                  /\ Goto(t, "PopStHead")
                  /\ UNCHANGED <<ip, hist, soloBad>>
  /\ UNCHANGED <<n, prog, head, tail, alive, pushed, popped>>

PopStHead(t) ==
  /\ pc[t] = "PopStHead"
  /\ Touch(t, FALSE)
  /\ head' = Inc(loc[t].h)
  /\ popped' = popped \o loc[t].got
  /\ Finish(t, loc[t].got, solo[t])
  /\ UNCHANGED <<n, prog, tail, data, alive, loc, pushed, obsBad, lifeBad>>

\* ----------------------------------------------------------------------- try_pop_batch
PbLdHead(t) ==
  /\ pc[t] = "PbLdHead"
  /\ loc' = [loc EXCEPT ![t].h = head, ![t].got = <<>>]
  /\ Goto(t, "PbLdTail")
  /\ Touch(t, TRUE)
  /\ UNCHANGED <<n, prog, shared, ip, hist, pushed, popped, soloBad, obsBad, lifeBad>>

PbLdTail(t) ==
  /\ pc[t] = "PbLdTail"
  /\ Touch(t, FALSE)
  /\ LET h == loc[t].h
         tl == tail
         avail == IF tl >= h THEN tl - h ELSE n - h + tl
         cnt == Min(avail, Op(t).v)
     IN /\ obsBad' = (obsBad \/ avail # AbsLen)
        /\ IF cnt = 0
             THEN /\ Finish(t, <<0>>, solo[t])
                  /\ UNCHANGED <<data, loc, lifeBad>>
             ELSE /\ loc' = [loc EXCEPT ![t].got = [k \in 1 .. cnt |-> data[(h + k - 1) % n]]]
                  /\ data' = [i \in Slots |-> IF Dist(h, i) < cnt THEN 0 ELSE data[i]]
                  /\ lifeBad' = (lifeBad \/ \E i \in Slots : Dist(h, i) < cnt /\ data[i] = 0)
                  /\ Goto(t, "PbStHead")
                  /\ UNCHANGED <<ip, hist, soloBad>>
  /\ UNCHANGED <<n, prog, head, tail, alive, pushed, popped>>

PbStHead(t) ==
  /\ pc[t] = "PbStHead"
  /\ Touch(t, FALSE)
  /\ head' = (loc[t].h + Len(loc[t].got)) % n
  /\ popped' = popped \o loc[t].got
  /\ Finish(t, <<Len(loc[t].got)>> \o loc[t].got, solo[t])
  /\ UNCHANGED <<n, prog, tail, data, alive, loc, pushed, obsBad, lifeBad>>

\* ------------------------------------------------------------ empty() / full() / size()
ObsResult(o, h, tl) ==
  CASE o.op = "empty" -> <<IF h = tl THEN 1 ELSE 0>>
    [] o.op = "full"  -> <<IF Inc(tl) = h THEN 1 ELSE 0>>
    [] o.op = "size"  -> <<IF tl >= h THEN tl - h ELSE n - h + tl>>

\* size(): two statements, head then tail
ObsLd1(t) ==
  /\ pc[t] = "ObsLd1"
  /\ loc' = [loc EXCEPT ![t].w = "head", ![t].a = head]
  /\ Goto(t, "ObsLd2")
  /\ Touch(t, TRUE)
  /\ UNCHANGED <<n, prog, shared, ip, hist, pushed, popped, soloBad, obsBad, lifeBad>>

ObsLd2(t) ==
  /\ pc[t] = "ObsLd2"
  /\ Touch(t, FALSE)
  /\ Finish(t, ObsResult(Op(t), loc[t].a, tail), solo[t])
  /\ UNCHANGED <<n, prog, shared, loc, pushed, popped, obsBad, lifeBad>>

\* empty() / full(): both loads are operands of one `==` expression: their order is unspecified
\* in C++ and no schedule point can be placed between them by adding a line.  The model performs
\* them as two separate atomic steps in EITHER order (over-approximation of every compiler);
\* ObsBoth is the hooked one, ObsBoth2 the second operand.
ObsBoth(t) ==
  /\ pc[t] = "ObsBoth"
  /\ \E w \in {"head", "tail"} :
        loc' = [loc EXCEPT ![t].w = w, ![t].a = IF w = "head" THEN head ELSE tail]
  /\ Goto(t, "ObsBoth2")
  /\ Touch(t, TRUE)
  /\ UNCHANGED <<n, prog, shared, ip, hist, pushed, popped, soloBad, obsBad, lifeBad>>

ObsBoth2(t) ==
  /\ pc[t] = "ObsBoth2"
  /\ Touch(t, FALSE)
  /\ Finish(t, IF loc[t].w = "head" THEN ObsResult(Op(t), loc[t].a, tail)
                                    ELSE ObsResult(Op(t), head, loc[t].a), solo[t])
  /\ UNCHANGED <<n, prog, shared, loc, pushed, popped, obsBad, lifeBad>>

\* ObsBoth followed immediately by ObsBoth2 of the same thread (either order gives the same
\* result).  NOT part of Next: used by the trace specification only, because under the controlled
\* scheduler the real code cannot be stopped between the two operand loads.
ObsBothAtomic(t) ==
  /\ pc[t] = "ObsBoth"
  /\ Touch(t, TRUE)
  /\ Finish(t, ObsResult(Op(t), head, tail), NoOtherInFlight(t))
  /\ UNCHANGED <<n, prog, shared, loc, pushed, popped, obsBad, lifeBad>>

\* ------------------------------------------------------------------------ destructor
AllDone == \A t \in T : pc[t] = "Done"

Destroy ==
  /\ alive /\ AllDone
  /\ alive' = FALSE
  /\ data' = [i \in Slots |-> IF Dist(head, i) < Dist(head, tail) THEN 0 ELSE data[i]]
  /\ lifeBad' = (lifeBad \/ \E i \in Slots : Dist(head, i) < Dist(head, tail) /\ data[i] = 0)
  /\ UNCHANGED <<n, prog, head, tail, pc, ip, loc, hist, pushed, popped, solo, soloBad, obsBad>>

\* (the disjunction is spelled out inside Next so that TLC labels every edge of the dumped state
\*  graph with the action name and its thread argument)
Next ==
  \/ \E t \in Threads :
        \/ Start(t)
        \/ PushLdTail(t) \/ PushLdHead(t) \/ PushStTail(t)
        \/ BatLdTail(t) \/ BatLdHead(t) \/ BatStTail(t)
        \/ PopLdHead(t) \/ PopLdTail(t) \/ PopStHead(t)
        \/ PbLdHead(t) \/ PbLdTail(t) \/ PbStHead(t)
        \/ ObsLd1(t) \/ ObsLd2(t)
        \/ ObsBoth(t) \/ ObsBoth2(t)
  \/ Destroy

Spec == Init /\ [][Next]_vars

\* ============================================================================ properties
Range(s) == {s[i] : i \in 1 .. Len(s)}
IsPrefixOf(a, b) == Len(a) <= Len(b) /\ \A i \in 1 .. Len(a) : a[i] = b[i]
Size == Dist(head, tail)

\* R1: the documented contract - one producer thread, one consumer thread, distinct tagged values
HasOp(t, S) == \E i \in 1 .. Len(prog[t]) : prog[t][i].op \in S
ProgOK ==
  /\ Cardinality({t \in T : HasOp(t, ProducerOps)}) <= 1
  /\ Cardinality({t \in T : HasOp(t, ConsumerOps)}) <= 1
  /\ n >= 2

\* objects the producer has constructed but not yet published / the consumer has moved out and
\* destroyed but not yet released
PFlight ==
  IF \E t \in T : pc[t] = "PushStTail" THEN <<Op(CHOOSE t \in T : pc[t] = "PushStTail").v>>
  ELSE IF \E t \in T : pc[t] = "BatStTail"
         THEN LET t == CHOOSE u \in T : pc[u] = "BatStTail" IN SubSeq(Op(t).vs, 1, loc[t].cnt)
         ELSE <<>>
CFlight ==
  IF \E t \in T : pc[t] \in {"PopStHead", "PbStHead"}
    THEN Len(loc[CHOOSE t \in T : pc[t] \in {"PopStHead", "PbStHead"}].got)
    ELSE 0

\* (C35) holds at most capacity() objects; head/tail are consistent with the true fill level
Bounded ==
  /\ head \in Slots /\ tail \in Slots
  /\ AbsLen >= 0 /\ AbsLen <= cap
  /\ Size = AbsLen
  /\ Cardinality({i \in Slots : data[i] # 0}) <= cap
\* (C35) FIFO, exactly once, no garbage: the values released are exactly a prefix of the values
\* published (values are distinct), and a pop never yields "no object" as a value
FifoExactlyOnce ==
  /\ IsPrefixOf(popped, pushed)
  /\ 0 \notin Range(popped)
  /\ Cardinality(Range(pushed)) = Len(pushed)
\* (C35/C11) slot by slot: the live payload objects are exactly the published-unreleased values in
\* order from head, minus what the consumer is moving out, plus what the producer is constructing
ExpectedSlot(i) ==
  LET k == Dist(head, i) IN
  IF k < Size
    THEN (IF k < CFlight THEN 0 ELSE pushed[Len(popped) + 1 + k])
    ELSE (IF k - Size < Len(PFlight) THEN PFlight[k - Size + 1] ELSE 0)
LiveMatches == (alive /\ Size = AbsLen) => \A i \in Slots : data[i] = ExpectedSlot(i)
\* (C35) a push is refused iff the ring is full, a pop iff it is empty, at the instant of that
\* thread's load of the peer index; batch operations transfer exactly min(request, space/items)
DecisionsExact == ~obsBad
\* (C35) quiescent operations (incl. observers) answer exactly like a sequential bounded FIFO
QuiescentExact == ~soloBad
\* (C35) every element is constructed on dead storage and destroyed while alive (exactly once)
LifetimeOK == ~lifeBad
\* (C35) what the operations returned, per thread, is what was published / released
RECURSIVE PushCat(_, _), PopCat(_, _)
PushCat(t, j) ==
  IF j = 0 THEN <<>>
  ELSE PushCat(t, j - 1) \o
       (LET o == prog[t][j] r == hist[t][j] IN
        IF o.op \in PushOps THEN (IF r = <<1>> THEN <<o.v>> ELSE <<>>)
        ELSE IF o.op = "batch" THEN SubSeq(o.vs, 1, r[1]) ELSE <<>>)
PopCat(t, j) ==
  IF j = 0 THEN <<>>
  ELSE PopCat(t, j - 1) \o
       (LET o == prog[t][j] r == hist[t][j] IN
        IF o.op \in PopOps THEN (IF r = <<0>> THEN <<>> ELSE r)
        ELSE IF o.op = "popbatch" THEN (IF Len(r) = r[1] + 1 THEN Tail(r) ELSE <<-1>>) ELSE <<>>)
ResultsMatch ==
  /\ \A t \in T : PushCat(t, Len(hist[t])) \in {<<>>, pushed}
  /\ \A t \in T : PopCat(t, Len(hist[t])) \in {<<>>, popped}
  /\ (pushed # <<>>) => \E t \in T : PushCat(t, Len(hist[t])) = pushed
  /\ (popped # <<>>) => \E t \in T : PopCat(t, Len(hist[t])) = popped
\* observers never report more than capacity(), even when racing
ObserversInRange ==
  \A t \in T : \A j \in 1 .. Len(hist[t]) :
     (prog[t][j].op = "size") => (hist[t][j][1] >= 0 /\ hist[t][j][1] <= cap)
\* (C35) at quiescence the ring holds exactly the published-but-unreleased values
QuiescentAccounting ==
  (AllDone /\ alive) =>
     /\ Size = AbsLen
     /\ Cardinality({i \in Slots : data[i] # 0}) = AbsLen
\* (C35/C11) the destructor destroys everything that is left
NoLeakAfterDestroy == ~alive => \A i \in Slots : data[i] = 0

TypeOK ==
  /\ n \in Nat /\ head \in Nat /\ tail \in Nat
  /\ \A i \in Slots : data[i] \in Nat
  /\ \A t \in T : ip[t] \in 1 .. (Len(prog[t]) + 1)
==========================================================================
