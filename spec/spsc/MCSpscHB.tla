---- MODULE MCSpscHB ----
EXTENDS SpscHB
O(op, v, vs) == [op |-> op, v |-> v, vs |-> vs]
E == <<>>
Prog_hb == [p |-> <<O("push", 1, E), O("emplace", 2, E), O("batch", 0, <<3, 4>>), O("pushc", 5, E)>>,
            c |-> <<O("pop", 0, E), O("popbatch", 2, E), O("popr", 0, E), O("popinto", 0, E)>>]
Prog_hb2 == [p |-> <<O("push", 1, E), O("pushc", 2, E), O("emplace", 3, E), O("pushc", 4, E), O("push", 5, E), O("emplace", 6, E)>>,
             c |-> <<O("pop", 0, E), O("popr", 0, E), O("popinto", 0, E), O("popr", 0, E), O("popinto", 0, E), O("pop", 0, E)>>]
====
