CONSTANTS
  Workers <- Workers_wallt
  NTs <- NTs_wallt
  ThreadNames <- Threads_wallt
  WyFix = TRUE
  AllowSpurious = FALSE
  AssumeDeallocAcquire = TRUE
INIT HInit_wallt
NEXT HNext
CHECK_DEADLOCK TRUE
INVARIANTS OrdersComplete RaceFree TypeOK NoBad FuncOnce DeallocOnce RefsSane
