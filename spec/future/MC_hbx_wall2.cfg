CONSTANTS
  Workers <- Workers_wall2
  NTs <- NTs_wall2
  ThreadNames <- Threads_wall2
  WyFix = TRUE
  AllowSpurious = FALSE
  AssumeDeallocAcquire = FALSE
INIT HInit_wall2
NEXT HNext
CHECK_DEADLOCK TRUE
INVARIANTS OrdersComplete RaceFree TypeOK NoBad FuncOnce DeallocOnce RefsSane
