CONSTANTS
  Workers <- Workers_wall0
  NTs <- NTs_wall0
  ThreadNames <- Threads_wall0
  WyFix = FALSE
  AllowSpurious = FALSE
INIT Init_wall0
NEXT Next
CHECK_DEADLOCK TRUE
INVARIANTS TypeOK NoBad FuncOnce ReadyImpliesRan GetsAgree DeallocOnce RefsSane ThenAfterReady TsWaitImpliesReady CountersSane AtEnd WhenAllReady WhenAnyReady CombFOnce
