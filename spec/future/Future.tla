------------------------------- MODULE Future -------------------------------
(* Implementation-level specification of dispenso::Future                            *)
(* (dispenso/future.h, detail/future_impl.h, detail/future_impl2.h) for properties   *)
(* C18 (the functor runs once, every getter sees its result, the shared state is      *)
(* released exactly once), C19 (then / when_all / when_any respect readiness) and the *)
(* Future half of C20 (timed waits).                                                  *)
(*                                                                                    *)
(* Words of one shared state f (S.F[f]):                                              *)
(*   st     status_ (CompletionEventImpl, a futex word): 0 kNotStarted 1 kRunning 2 kReady *)
(*   rc     refCount_ (2 at creation: the handle + the queued OnceFunction)           *)
(*   chain  thenChain_: lock-free LIFO of links, here the ids of the continuation futures *)
(*   has/val  the result / exception slot;  fw  threads asleep in the futex on st     *)
(* M[f].d = allowInline_ (deferred policy), M[f].ts = taskSetCounter_ (0 = none).      *)
(*                                                                                    *)
(* One action per atomic access; action name = hook site (see the table at the end).  *)
(* The thread pool is abstract: S.Q is the bag of futures handed to it; any pool      *)
(* thread (or a thread inside pool code) may enter run() of a queued future.          *)
EXTENDS WhenAll

CONSTANTS AllowSpurious,   \* may the environment return spuriously from futex waits
          ThreadNames      \* constant superset of the thread names (so that TLC can label the edges of Next)

Internal == {"_opdone", "_mk0", "_mk1", "_pop", "_sched", "_body", "_tb1", "_tb2", "_chain", "_runret", "_wrun",
             "_links", "_dres", "_tu2", "_c0", "_c1", "_c2", "_c3", "_c4", "_dv", "_cb1", "_cb2", "_cb3",
             "_wr1", "_wr3", "_wy3"}
PoolOps == {"tswait", "new", "delp", "tsnew", "tsdel"}

\* the value a future's functor produces (an exception is a value <= -100; a continuation returns
\* antecedent + 1 and lets the antecedent's exception propagate)
RECURSIVE ExpVal(_)
ExpVal(f) == CASE M[f].kind = "fn" -> M[f].v
               [] M[f].kind = "then" -> (LET a == ExpVal(M[f].ante) IN IF a <= -100 THEN a ELSE a + 1)
               [] M[f].kind = "wares" -> Len(M[f].ins)
               [] OTHER -> 0

\* ----------------------------------------------------------------------- driver operations
BeginOp(s, t) ==
  LET i == s.ip[t]
      o == prog[t][i]
      s0 == Emit(Goto(s, t, "_opdone"), "call", i, 0)
      s1 == IF o.op \in {"get", "wait", "wf", "wu", "rdy", "cp", "del", "then"} /\ s.H[o.h] # o.f
            THEN Bad(s0, "prog-handle") ELSE s0
  IN CASE o.op = "mk" -> Push(s1, t, Fr("mk", "_mk0", o.f, 0, 0, 0, <<>>))
       [] o.op \in {"get", "wait"} -> Push(s1, t, WaitFrame(o.f, 0, 0))
       [] o.op = "wf" -> Push([s1 EXCEPT !.el[t] = 0], t, WaitFrame(o.f, 1, o.v))
       [] o.op = "wu" -> Push([s1 EXCEPT !.el[t] = 0], t, WaitFrame(o.f, 2, o.v))
       [] o.op = "rdy" -> Push(s1, t, Fr("rdy", "FuReadyLd", o.f, 0, 0, 0, <<>>))
       [] o.op = "cp" -> Push(s1, t, IncRefFrame(o.f))
       [] o.op = "del" -> Push([s1 EXCEPT !.H[o.h] = 0], t, DecRefFrame(o.f))
       [] o.op = "then" -> Push(s1, t, ThenFrame(o.f, o.g))
       [] o.op \in {"wall", "wany"} -> Push(s1, t, Fr("comb", "_c0", o.f, 0, 0, 0, <<>>))
       [] o.op \in PoolOps -> Push(s1, t, Fr("pool", "InPool", o.ts, 0, IF o.op \in {"tswait", "tsdel"} THEN 1 ELSE IF o.op = "delp" THEN 2 ELSE 0, 0, <<>>))
       [] o.op = "go" -> [s1 EXCEPT !.go = TRUE]
       [] o.op = "up" -> Goto(s1, t, "GateUp")
       [] o.op = "sync" -> Goto(s1, t, "GateSync")
       [] o.op = "runq" -> Goto(s1, t, "DrRunQ")

OpDone(s, t) ==
  LET i == s.ip[t]
      o == prog[t][i]
      val == CASE o.op = "get" -> s.F[o.f].val
               [] o.op \in {"wf", "wu", "rdy"} -> s.RV
               [] OTHER -> 0
      s1 == CASE o.op = "mk" -> [s EXCEPT !.H[o.h] = o.f]
              [] o.op = "cp" -> [s EXCEPT !.H[o.h2] = o.f]
              [] o.op = "then" -> [s EXCEPT !.H[o.h2] = o.g]
              [] o.op \in {"wall", "wany"} -> [s EXCEPT !.H[o.h] = o.f]
              [] o.op = "get" ->     \* result(): the caller reads the slot of the shared state
                   LET s2 == [Use(s, o.f) EXCEPT !.G.gets = @ \cup {<<o.f, val>>}]
                       s3 == IF s.F[o.f].st = 2 /\ s.F[o.f].has = 1 THEN s2 ELSE Bad(s2, "get-before-result")
                   IN IF val <= -100 THEN s3 ELSE Emit(s3, "slot", i, 1)
              [] o.op \in {"wf", "wu"} ->     \* (C20) ready => done; timeout => the requested time has passed
                   LET s2 == IF s.RV = 1 /\ s.F[o.f].st # 2 THEN Bad(s, "timed-wait-ready-but-not-done") ELSE s
                   IN IF s.RV = 0 /\ s.el[t] < o.v THEN Bad(s2, "timed-wait-early-timeout") ELSE s2
              [] o.op = "tswait" ->     \* (C19) TaskSet::wait() returned: every future bound to the set is ready
                   [s EXCEPT !.G.tsw = @ \cup {<<o.ts, {f \in FutIds : M[f].ts = o.ts /\ s.F[f].alive # 0 /\ s.F[f].st # 2}>>}]
              [] OTHER -> s
      s4 == IF o.op = "get" /\ M[o.f].kind = "wares"
            THEN LET RECURSIVE EmitRes(_, _)
                     EmitRes(ss, k) == IF k > Len(M[o.f].ins) THEN ss ELSE EmitRes(Emit(ss, "res", k, M[o.f].ins[k]), k + 1)
                 IN EmitRes(s1, 1)
            ELSE s1
      s5 == Emit(s4, "ret", i, val)
  IN [Goto(s5, t, IF i + 1 > Len(prog[t]) THEN "DrEnd" ELSE "DrOp") EXCEPT !.ip[t] = i + 1]

\* -------------------------------------------------------------------- waitCommon and the waits
\* the blocking half of wait / waitFor / waitUntil: status_.wait(kReady) resp. status_.waitFor(kReady, d)
\* (CompletionEventImpl; its first loads are not schedule points: they belong to the current step)
Block(s, t) ==
  LET fr == Top(s, t) IN
  IF fr.x = 0 THEN Goto(s, t, "FuWaitBlock")
  ELSE IF s.F[fr.f].st = 2 THEN PopRet(s, t, 1)
  ELSE IF fr.y <= 0 THEN PopRet(s, t, 0)                 \* zero / negative request: time-out at once
  ELSE SetTop(s, t, [fr EXCEPT !.pc = "FutexWait", !.g = s.F[fr.f].st])

\* the loop of CompletionEventImpl::wait / waitFor after a futex call returned (not by time-out)
Reload(s, t) ==
  LET fr == Top(s, t) IN
  IF s.F[fr.f].st = 2 THEN PopRet(s, t, 1)
  ELSE SetTop(s, t, [fr EXCEPT !.pc = "FutexWait", !.g = s.F[fr.f].st])

\* ------------------------------------------------------------------------------ atomic steps
Atomic(s, t) ==
  LET fr == Top(s, t)
      f == fr.f
      P == <<fr.p, fr.pc>>
  IN
  IF WaIsAtomic(P) THEN WaAtomic(s, t) ELSE
  CASE P = <<"drv", "Start">> -> Goto(s, t, IF prog[t] = <<>> THEN "DrEnd" ELSE "DrOp")
    [] P = <<"drv", "DrOp">> -> BeginOp(s, t)
    [] P = <<"drv", "GateUp">> -> Goto(s, t, "_opdone")
    [] P = <<"drv", "GateSync">> -> Goto(s, t, "_opdone")
    [] P = <<"drv", "DrRunQ">> -> EnterRun([Goto(s, t, "_opdone") EXCEPT !.MQ = Tail(@)], t, s.MQ[1])
    [] P = <<"drv", "DrEnd">> -> [s EXCEPT !.K[t] = <<>>]
    \* ---- FutureBase ctor for TaskSet / ConcurrentTaskSet: outstandingTaskCount_.fetch_add
    [] P = <<"mk", "FuTscInc">> -> Goto([s EXCEPT !.TS[M[f].ts] = @ + 1], t, "_mk1")
    \* ---- run(): CAS kNotStarted -> kRunning (the loser returns false)
    [] P = <<"run", "Start">> -> Emit(Goto(s, t, "FuRunCas"), "FuRunEnter", f, 0)   \* first step of a NewThreadInvoker thread
    [] P = <<"run", "FuRunCas">> ->
         LET s1 == Use(s, f)
             inlineByTimed == /\ fr.x = 1 /\ Len(s.K[t]) > 1
                              /\ s.K[t][Len(s.K[t]) - 1].p = "wait" /\ s.K[t][Len(s.K[t]) - 1].x \in {1, 2}
         IN IF s.F[f].st = 0
            THEN Goto([(IF inlineByTimed /\ M[f].d = 0 THEN Bad(s1, "inline-run-in-timed-wait-not-deferred") ELSE s1)
                        EXCEPT !.F[f].st = 1, !.F[f].runs = @ + 1], t, "_body")
            ELSE SetTop(s1, t, [fr EXCEPT !.pc = "_runret", !.y = 0])
    \* ---- status_.notify(kReady): store, then FUTEX_WAKE(all)
    [] P = <<"run", "FuNotify">> -> Goto([Use(s, f) EXCEPT !.F[f].st = 2], t, "FutexWake")
    [] P = <<"run", "FutexWake">> ->
         LET W == s.F[f].fw
             s1 == [s EXCEPT !.F[f].fw = {},
                             !.K = [u \in DOMAIN s.K |->
                                      IF u \in W THEN [s.K[u] EXCEPT ![Len(s.K[u])].pc = "FutexRet", ![Len(s.K[u])].z = 1]
                                      ELSE s.K[u]]]
         IN Goto(s1, t, IF M[f].ts # 0 THEN "FuTscDec" ELSE "_chain")
    [] P = <<"run", "FuTscDec">> -> Goto([s EXCEPT !.TS[M[f].ts] = @ - 1], t, "_chain")
    \* ---- tryExecuteThenChain
    [] P = <<"chain", "FuChainLd">> ->
         LET hd == HeadOr0(s.F[f].chain) IN
         IF hd = 0 THEN Pop(Use(s, f), t) ELSE SetTop(Use(s, f), t, [fr EXCEPT !.pc = "FuChainTake", !.g = hd])
    [] P = <<"chain", "FuChainTake">> ->
         LET hd == HeadOr0(s.F[f].chain) IN
         IF hd = fr.g
         THEN SetTop([Use(s, f) EXCEPT !.F[f].chain = <<>>], t, [fr EXCEPT !.pc = "_links", !.q = s.F[f].chain])
         ELSE IF hd = 0 THEN Pop(Use(s, f), t) ELSE SetTop(Use(s, f), t, [fr EXCEPT !.g = hd])
    \* ---- waitCommon
    [] P = <<"wait", "FuWaitLd">> ->
         LET s1 == Use(s, f)
             allow == fr.x = 0 \/ M[f].d = 1
         IN IF s.F[f].st = 2 THEN PopRet(s1, t, 1)
            ELSE IF allow /\ s.F[f].st = 0 THEN Push(Goto(s1, t, "_wrun"), t, RunFrame(f, 1))
            ELSE Block(s1, t)
    [] P = <<"wait", "FuWaitBlock">> -> Reload(Use(s, f), t)
    [] P = <<"wait", "FutexWait">> ->
         IF s.F[f].st # fr.g THEN Reload(Emit(Use(s, f), "n", 0, 0), t)
         ELSE Goto([Emit(Use(s, f), "n", 1, 0) EXCEPT !.F[f].fw = @ \cup {t}], t, "FutexBlocked")
    [] P = <<"wait", "FutexRet">> ->
         IF fr.z = 2 THEN PopRet(Emit(s, "n", 2, 0), t, 0)     \* ETIMEDOUT: timeout without re-checking
         ELSE Reload(Emit(Use(s, f), "n", fr.z, 0), t)
    \* ---- reference counting
    [] P = <<"incref", "FuIncRef">> -> Pop([Use(s, f) EXCEPT !.F[f].rc = @ + 1], t)
    [] P = <<"decref", "FuDecRef">> ->
         LET s1 == [Use(s, f) EXCEPT !.F[f].rc = @ - 1] IN
         IF s.F[f].rc = 1 THEN Goto(s1, t, "FuDealloc") ELSE Pop(s1, t)
    [] P = <<"decref", "FuDealloc">> ->
         LET s1 == [s EXCEPT !.F[f].alive = 2, !.G.dealloc[f] = @ + 1]
             s2 == IF s.F[f].alive # 1 THEN Bad(s1, "double-dealloc") ELSE s1
             s3 == IF s.F[f].fw # {} \/ s.F[f].chain # <<>> THEN Bad(s2, "dealloc-while-in-use") ELSE s2
         IN IF M[f].kind = "wares" /\ s.F[f].has = 1 /\ s.F[f].runs = 1
            THEN SetTop(s3, t, [fr EXCEPT !.pc = "_dres", !.q = M[f].ins])    \* the result vector's Futures die
            ELSE Pop(s3, t)
    [] P = <<"rdy", "FuReadyLd">> -> PopRet(Use(s, f), t, IF s.F[f].st = 2 THEN 1 ELSE 0)
    \* ---- then(): copy of *this, new future g, addToThenChainOrExecute
    [] P = <<"then", "FuIncRef">> ->
         LET s1 == [Use(s, f) EXCEPT !.F[f].rc = @ + 1] IN
         IF M[fr.g].ts # 0 THEN Goto(s1, t, "FuTscInc") ELSE Goto(Create(s1, fr.g), t, "FuThenLd")
    [] P = <<"then", "FuTscInc">> -> Goto(Create([s EXCEPT !.TS[M[fr.g].ts] = @ + 1], fr.g), t, "FuThenLd")
    [] P = <<"then", "FuThenLd">> ->
         IF s.F[f].st = 2 THEN Push(Goto(Use(s, f), t, "_pop"), t, SchedFrame(fr.g))
         ELSE Goto(Use(s, f), t, "FuThenHeadLd")
    [] P = <<"then", "FuThenHeadLd">> -> SetTop(Use(s, f), t, [fr EXCEPT !.pc = "FuThenPush", !.z = HeadOr0(s.F[f].chain)])
    [] P = <<"then", "FuThenPush">> ->
         IF HeadOr0(s.F[f].chain) = fr.z
         THEN Goto([Use(s, f) EXCEPT !.F[f].chain = <<fr.g>> \o @], t, "FuThenRecheck")
         ELSE SetTop(Use(s, f), t, [fr EXCEPT !.z = HeadOr0(s.F[f].chain)])
    [] P = <<"then", "FuThenRecheck">> ->     \* the post-push readiness re-check
         IF s.F[f].st = 2 THEN Push(Goto(Use(s, f), t, "_pop"), t, ChainFrame(f)) ELSE Pop(Use(s, f), t)
    \* ---- the user continuation of a then(): a.is_ready(); a.get()
    [] P = <<"tuser", "FuReadyLd">> ->
         LET r == IF s.F[fr.g].st = 2 THEN 1 ELSE 0
             s1 == [Use(s, fr.g) EXCEPT !.G.tobs = @ \cup {<<f, s.F[fr.g].st>>}]
         IN Push(Goto(Emit(s1, "tbegin", f, r), t, "_tu2"), t, WaitFrame(fr.g, 0, 0))
    [] OTHER -> Goto(Bad(Print(<<"specification error: no atomic step for", P>>, s), "spec-error"), t, "SpecError")

\* ---------------------------------------------------------------- non-atomic code between points
Micro(s, t) ==
  LET fr == Top(s, t)
      f == fr.f
      P == <<fr.p, fr.pc>>
  IN
  IF WaIsMicro(P) THEN WaMicro(s, t) ELSE
  CASE P = <<"drv", "_opdone">> -> OpDone(s, t)
    [] fr.pc = "_pop" -> Pop(s, t)
    [] P = <<"mk", "_mk0">> -> Goto(Create(s, f), t, IF M[f].ts # 0 THEN "FuTscInc" ELSE "_mk1")
    [] P = <<"mk", "_mk1">> -> Push(Goto(s, t, "_pop"), t, SchedFrame(f))
    \* ---- Schedulable::schedule(impl->makeOnceFunction())
    [] P = <<"sched", "_sched">> ->
         (CASE M[f].s = 1 -> Pop([s EXCEPT !.MQ = Append(@, f)], t)
            [] M[f].s = 2 -> EnterRun(Goto(s, t, "_pop"), t, f)
            [] M[f].s = 3 -> Pop([s EXCEPT !.ntn = @ + 1,
                                           !.K[NTs[s.ntn + 1]] = <<[RunFrame(f, 0) EXCEPT !.pc = "Start"]>>], t)
            [] M[f].s \in {4, 5, 6} -> Goto([s EXCEPT !.Q = @ \cup {f}], t, "InPool"))
    \* ---- run(): the functor
    [] P = <<"run", "_body">> ->
         (CASE M[f].kind = "fn" ->
                 Goto(Emit(Emit([s EXCEPT !.F[f].has = 1, !.F[f].val = M[f].v], "begin", f, 0), "end", f, 0), t, "FuNotify")
            [] M[f].kind = "then" -> Push(Goto(s, t, "_tb1"), t, WaitFrame(M[f].ante, 0, 0))       \* copy.wait()
            [] OTHER -> WaBody(s, t))
    [] P = <<"run", "_tb1">> -> Push(Goto(s, t, "_tb2"), t, Fr("tuser", "FuReadyLd", f, M[f].ante, 0, 0, <<>>))
    [] P = <<"run", "_tb2">> ->     \* result stored; ~F releases the captured copy of the antecedent
         Push(Goto([s EXCEPT !.F[f].has = 1, !.F[f].val = s.RV], t, "FuNotify"), t, DecRefFrame(M[f].ante))
    [] P = <<"tuser", "_tu2">> ->
         LET a == s.F[fr.g].val
             s1 == IF s.F[fr.g].has = 1 THEN s ELSE Bad(s, "get-before-result")
         IN PopRet(Emit(s1, "tend", f, a), t, IF a <= -100 THEN a ELSE a + 1)
    [] P = <<"run", "_chain">> -> Push(SetTop(s, t, [fr EXCEPT !.pc = "_runret", !.y = 1]), t, ChainFrame(f))
    [] P = <<"run", "_runret">> ->
         IF fr.x = 0 THEN Push(Goto(s, t, "_pop"), t, DecRefFrame(f))      \* run(): decRefCountMaybeDestroy()
         ELSE PopRet(s, t, fr.y)
    [] P = <<"chain", "_links">> ->     \* head->scheduleDestroyAndGetNext() for every link taken
         IF fr.q = <<>> THEN Pop(s, t)
         ELSE Push(SetTop(s, t, [fr EXCEPT !.q = Tail(fr.q)]), t, SchedFrame(fr.q[1]))
    [] P = <<"wait", "_wrun">> -> IF s.RV = 1 THEN PopRet(s, t, 1) ELSE Block(s, t)
    [] P = <<"decref", "_dres">> ->
         IF fr.q = <<>> THEN Pop(s, t)
         ELSE Push(SetTop(s, t, [fr EXCEPT !.q = Tail(fr.q)]), t, DecRefFrame(fr.q[1]))
    [] OTHER -> Goto(Bad(Print(<<"specification error: no code for", P>>, s), "spec-error"), t, "SpecError")

RECURSIVE Settle(_, _)
Settle(s, t) ==
  IF s.K[t] = <<>> \/ Top(s, t).pc \notin Internal THEN s ELSE Settle(Micro(s, t), t)

\* one step of thread t parked at a schedule point
StepThread(s, t) == Settle(Atomic([s EXCEPT !.out = <<>>, !.RV = 0], t), t)
Fin(s) == [s EXCEPT !.out = <<>>, !.RV = 0]

Finished(s, u) == s.K[u] = <<>>
Runnable(s, t) ==
  /\ s.K[t] # <<>>
  /\ LET fr == Top(s, t) IN
       /\ fr.pc \notin {"FutexBlocked", "InPool"}
       /\ (fr.pc = "GateUp" => s.go)
       /\ (fr.pc = "GateSync" => \A u \in Drivers \ {t} : Finished(s, u))
       /\ (fr.pc = "DrRunQ" => s.MQ # <<>>)

\* ------------------------------------------------------------- the abstract pool (inside "InPool")
\* a thread inside pool code (worker loop, TaskSet::wait(), ~ThreadPool ...) enters run() of a queued future;
\* a thread inside schedule() only the one it is scheduling (inline execution: pool loaded, or - even with
\* ForceQueuingTag - a pool without threads)
PoolMayEnter(s, t, g) ==
  /\ s.K[t] # <<>> /\ Top(s, t).pc = "InPool" /\ g \in s.Q
  /\ (Top(s, t).p = "sched" => Top(s, t).f = g)
PoolEnterStep(s, t, g) == EnterRun([s EXCEPT !.out = <<>>, !.RV = 0, !.Q = @ \ {g}], t, g)
\* the pool call returns (TaskSet::wait() / ~TaskSet only with an outstanding count of zero, ~ThreadPool only
\* after everything that was queued has been run)
PoolMayReturn(s, t) ==
  /\ s.K[t] # <<>> /\ Top(s, t).pc = "InPool" /\ Top(s, t).p \in {"sched", "pool"}
  /\ (Top(s, t).p = "pool" /\ Top(s, t).x = 1 => s.TS[Top(s, t).f] = 0)
  /\ (Top(s, t).p = "pool" /\ Top(s, t).x = 2 => s.Q = {})
PoolReturnStep(s, t) == Settle(Pop([s EXCEPT !.out = <<>>, !.RV = 0], t), t)

\* ------------------------------------------------------------------------- environment (futex)
TimedBlocked(s, t) == s.K[t] # <<>> /\ Top(s, t).pc = "FutexBlocked" /\ Top(s, t).x \in {1, 2}
\* a timed futex wait expires: `us` is the timespec the code handed to the futex
TimeoutStep(s, t, us) ==
  LET fr == Top(s, t) IN
  [SetTop(s, t, [fr EXCEPT !.pc = "FutexRet", !.z = 2]) EXCEPT !.F[fr.f].fw = @ \ {t}, !.el[t] = @ + us]
SpuriousStep(s, t) ==
  LET fr == Top(s, t) IN
  [SetTop(s, t, [fr EXCEPT !.pc = "FutexRet", !.z = 3]) EXCEPT !.F[fr.f].fw = @ \ {t}]

\* ------------------------------------------------------------------------------------ actions
\* thread t is parked at schedule point `site` and may run / takes its step
At(t, site) == t \in Threads /\ Runnable(S, t) /\ Top(S, t).pc = site
Do(t) == S' = Fin(StepThread(S, t)) /\ UNCHANGED <<prog, M>>

Start(t) == At(t, "Start") /\ Do(t)
DrOp(t) == At(t, "DrOp") /\ Do(t)
DrEnd(t) == At(t, "DrEnd") /\ Do(t)
GateUp(t) == At(t, "GateUp") /\ Do(t)
GateSync(t) == At(t, "GateSync") /\ Do(t)
DrRunQ(t) == At(t, "DrRunQ") /\ Do(t)
FuRunCas(t) == At(t, "FuRunCas") /\ Do(t)
FuNotify(t) == At(t, "FuNotify") /\ Do(t)
FutexWake(t, W) == At(t, "FutexWake") /\ W = S.F[Top(S, t).f].fw /\ Do(t)
FuTscDec(t) == At(t, "FuTscDec") /\ Do(t)
FuTscInc(t) == At(t, "FuTscInc") /\ Do(t)
FuChainLd(t) == At(t, "FuChainLd") /\ Do(t)
FuChainTake(t) == At(t, "FuChainTake") /\ Do(t)
FuWaitLd(t) == At(t, "FuWaitLd") /\ Do(t)
FuWaitBlock(t) == At(t, "FuWaitBlock") /\ Do(t)
FutexWait(t) == At(t, "FutexWait") /\ Do(t)
FutexRet(t) == At(t, "FutexRet") /\ Do(t)
FuIncRef(t) == At(t, "FuIncRef") /\ Do(t)
FuDecRef(t) == At(t, "FuDecRef") /\ Do(t)
FuDealloc(t) == At(t, "FuDealloc") /\ Do(t)
FuReadyLd(t) == At(t, "FuReadyLd") /\ Do(t)
FuThenLd(t) == At(t, "FuThenLd") /\ Do(t)
FuThenHeadLd(t) == At(t, "FuThenHeadLd") /\ Do(t)
FuThenPush(t) == At(t, "FuThenPush") /\ Do(t)
FuThenRecheck(t) == At(t, "FuThenRecheck") /\ Do(t)
FuWaDec(t) == At(t, "FuWaDec") /\ Do(t)
FuWaCountLd(t) == At(t, "FuWaCountLd") /\ Do(t)
FuWyCas(t) == At(t, "FuWyCas") /\ Do(t)
FuWyWinnerLd(t) == At(t, "FuWyWinnerLd") /\ Do(t)
FuWyInlineCas(t) == At(t, "FuWyInlineCas") /\ Do(t)
FuWyWinnerLd2(t) == At(t, "FuWyWinnerLd2") /\ Do(t)
PoolEnter(t, g) == t \in Threads /\ g \in FutIds /\ PoolMayEnter(S, t, g) /\ S' = Fin(PoolEnterStep(S, t, g)) /\ UNCHANGED <<prog, M>>
PoolReturn(t) == t \in Threads /\ PoolMayReturn(S, t) /\ S' = Fin(PoolReturnStep(S, t)) /\ UNCHANGED <<prog, M>>
\* model level: the futex lets exactly the requested time pass (the code hands the full request to every call)
FutexTimeout(t) == t \in Threads /\ TimedBlocked(S, t) /\ S' = TimeoutStep(S, t, Top(S, t).y) /\ UNCHANGED <<prog, M>>
FutexSpurious(t) ==
  /\ AllowSpurious /\ t \in Threads /\ S.K[t] # <<>> /\ Top(S, t).pc = "FutexBlocked"
  /\ S' = SpuriousStep(S, t) /\ UNCHANGED <<prog, M>>

MaxFutIds == 1 .. 8
AllDone == \A t \in Threads : S.K[t] = <<>> \/ (t \in Workers /\ Len(S.K[t]) = 1)
Terminated == AllDone /\ UNCHANGED vars

\* (the disjunction is spelled out so that TLC labels every edge of the dumped graph)
Next ==
  \/ \E t \in ThreadNames :
       \/ Start(t) \/ DrOp(t) \/ DrEnd(t) \/ GateUp(t) \/ GateSync(t) \/ DrRunQ(t)
       \/ FuRunCas(t) \/ FuNotify(t) \/ (\E W \in SUBSET ThreadNames : FutexWake(t, W)) \/ FuTscDec(t) \/ FuTscInc(t)
       \/ FuChainLd(t) \/ FuChainTake(t)
       \/ FuWaitLd(t) \/ FuWaitBlock(t) \/ FutexWait(t) \/ FutexRet(t)
       \/ FuIncRef(t) \/ FuDecRef(t) \/ FuDealloc(t) \/ FuReadyLd(t)
       \/ FuThenLd(t) \/ FuThenHeadLd(t) \/ FuThenPush(t) \/ FuThenRecheck(t)
       \/ FuWaDec(t) \/ FuWaCountLd(t) \/ FuWyCas(t) \/ FuWyWinnerLd(t) \/ FuWyInlineCas(t) \/ FuWyWinnerLd2(t)
       \/ (\E g \in MaxFutIds : PoolEnter(t, g)) \/ PoolReturn(t)
       \/ FutexTimeout(t) \/ FutexSpurious(t)
  \/ Terminated

Spec == S = S0(prog, M) /\ [][Next]_vars

\* ================================================================================= properties
Created == {f \in FutIds : S.F[f].alive # 0}
\* (C18) the functor runs at most once, and exactly once before the future is ready
FuncOnce == \A f \in FutIds : S.F[f].runs <= 1
ReadyImpliesRan ==
  \A f \in Created : S.F[f].st = 2 => S.F[f].has = 1 /\ (S.F[f].runs = 1 \/ (M[f].kind \in ResKinds /\ M[f].ins = <<>>))
\* (C18) every get() returns the functor's result (the slot of the shared state) or rethrows its exception
GetsAgree == \A p \in S.G.gets : M[p[1]].kind \in {"fn", "then", "wares"} => p[2] = ExpVal(p[1])
\* (C18) the shared state is deallocated at most once, never used afterwards, references stay positive while live
DeallocOnce == \A f \in FutIds : S.G.dealloc[f] <= 1
RefsSane ==
  \A f \in Created :
    /\ S.F[f].rc >= 0
    /\ (S.F[f].alive = 2 => S.F[f].rc = 0)
    /\ (S.F[f].alive = 1 /\ S.F[f].rc = 0 =>     \* the thread that dropped the last reference is about to deallocate
          \E t \in Threads : S.K[t] # <<>> /\ Top(S, t).pc = "FuDealloc" /\ Top(S, t).f = f)
NoBad == S.G.bad = {}
\* (C19) a continuation's antecedent is ready when the continuation body starts
ThenAfterReady == \A p \in S.G.tobs : p[2] = 2
\* (C19) TaskSet::wait() returned => the futures bound to that set are ready
TsWaitImpliesReady == \A p \in S.G.tsw : p[2] = {}
CountersSane == \A k \in 1 .. MaxTs : S.TS[k] >= 0
\* (C18/C19) at the end of a program: every functor and continuation ran exactly once, nothing is still
\* queued or chained, and every shared state whose handles are all gone has been deallocated
AtEnd ==
  AllDone =>
    /\ S.Q = {} /\ S.MQ = <<>>
    /\ \A f \in Created :
         /\ S.F[f].st = 2 /\ S.F[f].chain = <<>>
         /\ ((\A h \in 1 .. MaxH : S.H[h] # f) /\ (\A g \in Created : ~(M[g].kind = "wares" /\ S.F[g].alive = 1 /\ \E i \in 1 .. Len(M[g].ins) : M[g].ins[i] = f))
               => S.F[f].alive = 2)
TypeOK == \A f \in FutIds : S.F[f].st \in {0, 1, 2} /\ S.F[f].alive \in {0, 1, 2}

(* hook sites -> code                                                                              *)
(*   FuRunCas       run(int): status_.compare_exchange_weak(kNotStarted -> kRunning)                *)
(*   FuNotify       run(int): status_.notify(kReady)  (store; the FUTEX_WAKE is the next point)     *)
(*   FuTscDec       run(int): taskSetCounter_->fetch_sub(1)                                          *)
(*   FuChainLd / FuChainTake   tryExecuteThenChain: load head / CAS head -> nullptr                  *)
(*   FuWaitLd       waitCommon: status load        FuWaitBlock  wait(): before status_.wait(kReady)  *)
(*   FuIncRef / FuDecRef / FuDealloc   incRefCount / decRefCountMaybeDestroy / dealloc()             *)
(*   FuReadyLd      ready()                                                                          *)
(*   FuThenLd / FuThenHeadLd / FuThenPush / FuThenRecheck   addToThenChainOrExecute                  *)
(*   FuTscInc       FutureBase ctors and thenImpl for (Concurrent)TaskSet: outstandingTaskCount_++   *)
(*   FuWaDec / FuWaCountLd / FuWyCas / FuWyWinnerLd / FuWyInlineCas / FuWyWinnerLd2   future_impl2.h *)
=============================================================================
