CONSTANTS
  Workers <- Workers_exc
  NTs <- NTs_exc
  ThreadNames <- Threads_exc
  WyFix = FALSE
  AllowSpurious = FALSE
INIT Init_exc
NEXT Next
CHECK_DEADLOCK TRUE
INVARIANTS TypeOK NoBad FuncOnce ReadyImpliesRan GetsAgree DeallocOnce RefsSane ThenAfterReady TsWaitImpliesReady CountersSane AtEnd WhenAllReady WhenAnyReady CombFOnce
