#!/usr/bin/env python3
"""Programs for the futures driver / specification.

Text form (what harness/drv/drv_future.cpp parses):
    main:new.w2,mk.h1.f1.s4.a0.d1.v7,go,get.h1.f1,del.h1.f1,sync,delp;p1:up,...
  one thread per ';' part, ops separated by ',', an op = name + '.'-separated <key><int> tokens
  (lists: i1_2_3).  Keys: h handle, H second handle, f future id, g second future id, s schedulable
  (1 manual queue, 2 ImmediateInvoker, 3 NewThreadInvoker, 4 ThreadPool, 5 TaskSet, 6 ConcurrentTaskSet),
  a async policy, d deferred policy, v value (<= -100: the functor throws) or microseconds, t task set,
  w workers, k task-set kind, I input handles, i input ids, y callback future ids, r 1 = tuple overload,
  x 1 = created through dispenso::async(schedulable, policy, functor) instead of the Future constructor.

This module derives from a text program
  * the JSON / TLA+ form of the program  (prog: thread -> [op records])
  * the static table M (one record per future id) the specification interprets
and contains the seeded generator of random programs (within the documented contract of Future).
"""
import json
import os
import random
import sys

OPF = ('op', 'h', 'h2', 'f', 'g', 'v', 'ts', 'ins')
MF = ('kind', 's', 'a', 'd', 'v', 'ts', 'ante', 'c', 'idx', 'ins', 'ys', 'rev')


def parse(text):
    prog = []
    for th in text.split(';'):
        if not th:
            continue
        name, ops = th.split(':')
        lst = []
        for o in ops.split(','):
            if not o:
                continue
            parts = o.split('.')
            d = {'op': parts[0]}
            for p in parts[1:]:
                k, val = p[0], p[1:]
                if k in 'Iiy':
                    d[k] = [int(x) for x in val.split('_') if x != '']
                else:
                    d[k] = int(val)
            lst.append(d)
        prog.append((name, lst))
    return prog


def derive(text):
    """-> (prog dict for JSON/TLA, M list)"""
    p = parse(text)
    meta = {}
    out = {}
    for name, ops in p:
        recs = []
        for o in ops:
            op = o['op']
            r = {'op': op, 'h': o.get('h', 0), 'h2': o.get('H', 0), 'f': o.get('f', 0), 'g': o.get('g', 0),
                 'v': o.get('v', 0), 'ts': o.get('t', 0), 'ins': o.get('i', [])}
            recs.append(r)
            base = {'kind': 'fn', 's': 0, 'a': 0, 'd': 1, 'v': 0, 'ts': 0, 'ante': 0, 'c': 0, 'idx': 0, 'ins': [],
                    'ys': [], 'rev': 0}
            if op == 'mk':
                meta[o['f']] = dict(base, kind='fn', s=o['s'], a=o.get('a', 0), d=o.get('d', 1), v=o.get('v', 0),
                                    ts=o.get('t', 0))
            elif op == 'then':
                meta[o['g']] = dict(base, kind='then', s=o['s'], a=o.get('a', 0), d=o.get('d', 1), ts=o.get('t', 0),
                                    ante=o['f'])
            elif op in ('wall', 'wany'):
                R = o['f']
                ins = o.get('i', [])
                ys = o.get('y', [])
                assert len(ins) == len(ys) == len(o.get('I', []))
                meta[R] = dict(base, kind='wares' if op == 'wall' else 'wyres', ts=o.get('t', 0), c=R, ins=ins, ys=ys,
                               rev=o.get('r', 0))
                for k, (i, y) in enumerate(zip(ins, ys)):
                    meta[y] = dict(base, kind='wacb' if op == 'wall' else 'wycb', s=2, ante=i, c=R, idx=k)
        out[name] = recs
    n = max(meta) if meta else 0
    M = []
    for f in range(1, n + 1):
        assert f in meta, 'future id %d is never created in %s' % (f, text)
        M.append(meta[f])
    return out, M


def tla_val(v):
    if isinstance(v, str):
        return '"%s"' % v
    if isinstance(v, bool):
        return 'TRUE' if v else 'FALSE'
    if isinstance(v, int):
        return str(v)
    if isinstance(v, list):
        return '<<' + ', '.join(tla_val(x) for x in v) + '>>'
    if isinstance(v, dict):
        return '[' + ', '.join('%s |-> %s' % (k, tla_val(x)) for k, x in v.items()) + ']'
    raise TypeError(v)


def tla_defs(name, text):
    prog, M = derive(text)
    return '\\* %s\nProg_%s == %s\nM_%s == %s\nInit_%s == InitWith(Prog_%s, M_%s)\n' % (
        text, name, tla_val(prog), name, tla_val(M), name, name, name)


def header(text):
    """JSON members for the Reset line of a trace"""
    prog, M = derive(text)
    return '"prog":%s,"M":%s' % (json.dumps(prog, separators=(',', ':')), json.dumps(M, separators=(',', ':')))


# ------------------------------------------------------------------------------- MC programs
MC = {
    # E2 cover: a waiter running the functor inline races the queue runner; three owners drop their references
    'cover': 'main:mk.h1.f1.s1.a0.d1.v7,cp.h1.H2.f1,go,wait.h1.f1,del.h1.f1;p1:up,get.h2.f1,del.h2.f1;r:runq',
    # E2 cover of then(): the link is pushed before / while / after the antecedent completes and drains its chain
    'then': 'main:mk.h1.f1.s1.a0.d1.v7,go,then.h1.f1.H2.g2.s2.a0.d1,del.h1.f1,del.h2.f2;r:up,runq',
    # timed waits: deferred (may run inline) and not deferred (must not), zero / positive requests, racing the runner
    'timed': 'main:mk.h1.f1.s1.a0.d0.v7,cp.h1.H2.f1,go,wf.h1.f1.v0,wf.h1.f1.v300,del.h1.f1;p1:up,wu.h2.f1.v200,get.h2.f1,del.h2.f1;r:up,runq',
    'timed_d': 'main:mk.h1.f1.s1.a0.d1.v7,cp.h1.H2.f1,go,wf.h1.f1.v300,del.h1.f1;p1:up,wu.h2.f1.v-5,rdy.h2.f1,del.h2.f1;r:up,runq',
    # 3 handle-holding threads: get / wait / wait_for(0) / copy / destroy + the runner
    'three': 'main:mk.h1.f1.s1.a0.d1.v7,cp.h1.H2.f1,cp.h1.H3.f1,go,wf.h1.f1.v0,del.h1.f1;p1:up,get.h2.f1,del.h2.f1;p2:up,cp.h3.H4.f1,del.h3.f1,wait.h4.f1,del.h4.f1;r:up,runq',
    # exception in the functor; continuation on the manual queue; continuation chained twice
    'exc': 'main:mk.h1.f1.s1.a0.d0.v-100,go,then.h1.f1.H2.g2.s1.a0.d1,get.h2.f2,get.h1.f1,del.h1.f1,del.h2.f2;r:up,runq,runq',
    'then2': 'main:mk.h1.f1.s1.a0.d1.v7,cp.h1.H4.f1,go,then.h1.f1.H2.g2.s2.a0.d1,del.h2.f2,del.h1.f1;p1:up,then.h4.f1.H3.g3.s2.a0.d0,get.h3.f3,del.h3.f3,del.h4.f1;r:up,runq',
    # the abstract pool: placed on the pool / bound to a task set (taskSet.wait() => ready), NewThreadInvoker
    'pool': 'main:new.w1,mk.h1.f1.s4.a0.d1.v7,cp.h1.H2.f1,go,get.h1.f1,del.h1.f1,sync,delp;p1:up,wf.h2.f1.v0,del.h2.f1',
    'tset': 'main:new.w1,tsnew.t1.k5,mk.h1.f1.s5.a1.d0.v7.t1,then.h1.f1.H2.g2.s5.a0.d1.t1,tswait.t1,rdy.h1.f1,rdy.h2.f2,del.h1.f1,del.h2.f2,tsdel.t1,delp',
    'newthread': 'main:mk.h1.f1.s3.a0.d1.v7,cp.h1.H2.f1,go,get.h1.f1,del.h1.f1;p1:up,wait.h2.f1,del.h2.f1',
    # when_all / when_any: inputs complete before / during / after registration; the result is run by the last
    # callback or inline by a getter; empty and singleton inputs
    'wall': 'main:mk.h1.f1.s1.a0.d1.v7,mk.h2.f2.s1.a0.d1.v8,go,wall.h3.f3.I1_2.i1_2.y4_5,get.h3.f3,del.h3.f3,del.h1.f1,del.h2.f2;r:up,runq,runq',
    'wall1': 'main:mk.h1.f1.s1.a0.d1.v7,wall.h3.f2.I1.i1.y3,cp.h3.H4.f2,go,del.h1.f1,wait.h3.f2,del.h3.f2;p1:up,runq;p2:up,rdy.h4.f2,del.h4.f2',
    'wall0': 'main:wall.h3.f1.I.i.y,get.h3.f1,del.h3.f1;p1:wany.h4.f2.I.i.y,get.h4.f2,del.h4.f2',
    'wany': 'main:mk.h1.f1.s1.a0.d1.v7,mk.h2.f2.s1.a0.d1.v8,go,wany.h3.f3.I1_2.i1_2.y4_5,get.h3.f3,del.h3.f3,del.h1.f1,del.h2.f2;r:up,runq,runq',
    'wany1': 'main:mk.h1.f1.s1.a0.d1.v7,go,wany.h3.f2.I1.i1.y3,get.h3.f2,del.h3.f2,del.h1.f1;r:up,runq',
    'wanyt': 'main:mk.h1.f1.s1.a0.d1.v7,mk.h2.f2.s1.a0.d1.v8,go,wany.h3.f3.I1_2.i1_2.y4_5.r1,get.h3.f3,del.h3.f3,del.h1.f1,del.h2.f2;r:up,runq,runq',
    'wallt': 'main:mk.h1.f1.s1.a0.d1.v7,mk.h2.f2.s1.a0.d1.v8,go,wall.h3.f3.I1_2.i1_2.y4_5.r1,get.h3.f3,del.h3.f3,del.h1.f1,del.h2.f2;r:up,runq,runq',
    'wallts': 'main:new.w0,tsnew.t1.k5,mk.h1.f1.s1.a0.d1.v7,go,wall.h3.f2.I1.i1.y3.t1,tswait.t1,rdy.h3.f2,del.h3.f2,del.h1.f1,sync,tsdel.t1,delp;r:up,runq',
    # C19, task-set overloads of when_all / when_any: "taskSet.wait() returned => the result is ready" must hold for each of
    # the overloads (TaskSet / ConcurrentTaskSet x iterator / variadic) and must not depend on WHERE the inputs run: the
    # result future itself holds a slot of the set's outstanding-task counter.  `rdy` right after `tswait` observes it.
    #   inputs OUTSIDE the set (manual queue, run by thread r): only the result's own slot keeps wait() from returning
    'wallts6': 'main:new.w0,tsnew.t2.k6,mk.h1.f1.s1.a0.d1.v7,go,wall.h3.f2.I1.i1.y3.t2,tswait.t2,rdy.h3.f2,del.h3.f2,del.h1.f1,sync,tsdel.t2,delp;r:up,runq',
    'walltst': 'main:new.w0,tsnew.t1.k5,mk.h1.f1.s1.a0.d1.v7,go,wall.h3.f2.I1.i1.y3.t1.r1,tswait.t1,rdy.h3.f2,del.h3.f2,del.h1.f1,sync,tsdel.t1,delp;r:up,runq',
    'walltst6': 'main:new.w0,tsnew.t2.k6,mk.h1.f1.s1.a0.d1.v7,mk.h2.f2.s1.a0.d0.v8,go,wall.h3.f3.I1_2.i1_2.y4_5.t2.r1,tswait.t2,rdy.h3.f3,get.h3.f3,del.h3.f3,del.h1.f1,del.h2.f2,sync,tsdel.t2,delp;r:up,runq,runq',
    'wanyts': 'main:new.w0,tsnew.t1.k5,mk.h1.f1.s1.a0.d1.v7,go,wany.h3.f2.I1.i1.y3.t1,tswait.t1,rdy.h3.f2,del.h3.f2,del.h1.f1,sync,tsdel.t1,delp;r:up,runq',
    #   inputs INSIDE the set (real pool, one worker): the input's own slot is released BEFORE its then-chain (where the
    #   when_all callback and the result run) is dispatched; a continuation registered on the input after when_all sits in
    #   front of that callback (the chain is LIFO) and widens the window in which only the result's slot is outstanding
    'walltsin': 'main:new.w1,tsnew.t1.k5,mk.h1.f1.s5.a1.d0.v7.t1,wall.h3.f2.I1.i1.y3.t1,then.h1.f1.H2.g4.s2.a0.d1,tswait.t1,rdy.h3.f2,del.h3.f2,del.h2.f4,del.h1.f1,tsdel.t1,delp',
    'walltsin6': 'main:new.w1,tsnew.t2.k6,mk.h1.f1.s6.a1.d0.v7.t2,mk.h2.f2.s6.a1.d1.v8.t2,wall.h3.f3.I1_2.i1_2.y4_5.t2.r1,tswait.t2,rdy.h3.f3,del.h3.f3,del.h1.f1,del.h2.f2,tsdel.t2,delp',
    # C19, task-set overloads of then(): then(f, TaskSet) / then(f, ConcurrentTaskSet) on an antecedent that is NOT ready,
    # and a thread waits on / gets the CONTINUATION (deferred policy: it may run inline in the waiter) before the
    # antecedent completed: the continuation body must still see a ready antecedent (`tbegin` records parent.is_ready(),
    # ThenAfterReady).  The random programs pick a task-set then() rarely and wait on its result before the antecedent
    # finished more rarely still; the natural order (taskSet.wait(), then look) never runs the continuation early.
    #   thents:   deferred antecedent on the manual queue, nobody runs it before main gets the continuation (`go` comes
    #             later): the getter runs the continuation inline, whose wait on the antecedent runs THAT inline first
    #   thents6:  antecedent queued in the ConcurrentTaskSet (one real pool worker, not deferred: a waiter must block)
    #             racing main's then() + wait() on the continuation
    #   thentsq:  not-deferred antecedent on the manual queue run by thread r, racing then() + get() of the continuation
    'thents': 'main:new.w0,tsnew.t1.k5,mk.h1.f1.s1.a0.d1.v7,then.h1.f1.H2.g2.s5.a0.d1.t1,get.h2.f2,go,del.h2.f2,del.h1.f1,tswait.t1,sync,tsdel.t1,delp;r:up,runq',
    'thents6': 'main:new.w1,tsnew.t2.k6,mk.h1.f1.s6.a1.d0.v7.t2,then.h1.f1.H2.g2.s6.a0.d1.t2,wait.h2.f2,rdy.h1.f1,del.h2.f2,del.h1.f1,tswait.t2,tsdel.t2,delp',
    'thentsq': 'main:new.w0,tsnew.t2.k6,mk.h1.f1.s1.a0.d0.v8,then.h1.f1.H2.g2.s6.a0.d1.t2,go,get.h2.f2,rdy.h1.f1,del.h2.f2,del.h1.f1,tswait.t2,sync,tsdel.t2,delp;r:up,runq',
}

# the task-set programs above: run in the real code by C19's E4 (every tier)
TS_PROGS = ('wallts', 'wallts6', 'walltst', 'walltst6', 'wanyts', 'walltsin', 'walltsin6', 'thents', 'thents6', 'thentsq')


INVARIANTS = ('TypeOK NoBad FuncOnce ReadyImpliesRan GetsAgree DeallocOnce RefsSane ThenAfterReady TsWaitImpliesReady '
              'CountersSane AtEnd WhenAllReady WhenAnyReady CombFOnce')


def threads_of(text):
    """(drivers, workers, new threads) a model of this program needs"""
    p = parse(text)
    drivers = [n for n, _ in p]
    nw, nnt = 0, 0
    for _, ops in p:
        for o in ops:
            if o['op'] == 'new':
                nw = max(nw, o.get('w', 0))
            if o['op'] in ('mk', 'then') and o.get('s') == 3:
                nnt += 1
    return drivers, ['w%d' % i for i in range(nw)], ['nt%d' % i for i in range(nnt)]


# several programs model-checked in ONE TLC run (one JVM start): the initial states are the union
GROUPS = {
    'g18': ['exc', 'pool', 'newthread'],
    'g19': ['wall0', 'wany1', 'wall1', 'wallts', 'tset', 'wallts6', 'walltst'],
    'g20': ['timed', 'timed_d'],
    # every task-set overload of when_all (+ when_any), inputs outside / inside the set (see MC above)
    # (thorough; `wallts`, `wallts6`, `walltst` - one input outside the set, every quick run - are in g19)
    'g19ts': ['walltst6', 'walltsin', 'wanyts', 'walltsin6'],
}


def write_mc(d, only=None):
    """One small module per model (TLC pre-evaluates every constant definition of a module: one module with all the
    programs costs ~1 s per program at every start-up): MCFuture_<name>.tla + MC_<name>.cfg (+ MC_<name>_fixed.cfg).
    `only`: (re)write just these models and leave every other file alone (python3 gen.py mc name ...)."""
    if not only:
        for f in os.listdir(d):
            if f.startswith('MCFuture') or (f.startswith('MC_') and f.endswith('.cfg')):
                os.remove(os.path.join(d, f))
    models = {k: [k] for k in MC}
    models.update(GROUPS)
    for name, members in models.items():
        if only and name not in only:
            continue
        ws, nts, names = set(), [], []
        body = ''
        for k in members:
            dr, w, nt = threads_of(MC[k])
            ws |= set(w)
            names += [n for n in dr if n not in names]
            if len(nt) > len(nts):
                nts = nt
            body += tla_defs(k, MC[k]) + '\n'
        with open(os.path.join(d, 'MCFuture_%s.tla' % name), 'w') as f:
            f.write('---------------------------- MODULE MCFuture_%s ----------------------------\n' % name)
            f.write('(* Model-checking program(s) for Future.tla - GENERATED by spec/future/gen.py (python3 gen.py mc) *)\n')
            f.write('EXTENDS Future\n\n' + body)
            f.write('MCInit == %s\n' % ' \\/ '.join('Init_' + k for k in members))
            f.write('MCWorkers == {%s}\nMCNTs == <<%s>>\nMCThreads == {%s}\n' % (
                ', '.join('"%s"' % w for w in sorted(ws)), ', '.join('"%s"' % n for n in nts),
                ', '.join('"%s"' % n for n in names + sorted(ws) + nts)))
            f.write('=============================================================================\n')
        for fixed in ((False, True) if any('wany' in MC[k] for k in members) else (False,)):
            with open(os.path.join(d, 'MC_%s%s.cfg' % (name, '_fixed' if fixed else '')), 'w') as f:
                f.write('CONSTANTS\n  Workers <- MCWorkers\n  NTs <- MCNTs\n  ThreadNames <- MCThreads\n  WyFix = %s\n'
                        '  AllowSpurious = FALSE\nINIT MCInit\nNEXT Next\nCHECK_DEADLOCK TRUE\nINVARIANTS %s\n'
                        % ('TRUE' if fixed else 'FALSE', INVARIANTS))


# --------------------------------------------------------------------------- random programs
def random_program(rng, kind):
    """A random program within the documented contract of Future (R1):
       * a handle (Future object) is used by one thread only; other threads get their own copies before `go`;
       * a task set is used by its owner (main) only and is waited before it is destroyed; the pool is destroyed last,
         after every other thread has finished (`sync`);
       * continuations are attached to Future<int>; when_all / when_any take distinct Future<int> inputs.
       kind 'q': manual queue + ImmediateInvoker only (every schedule point is the specification's);
       kind 'pool': the real ThreadPool / TaskSet / ConcurrentTaskSet / NewThreadInvoker as well."""
    pool = kind == 'pool'
    nw = rng.choice([0, 1, 2, 2]) if pool else 0
    main = []
    if pool:
        main.append('new.w%d' % nw)
    cnt = {'f': 0, 'h': 0, 'runq': 0}
    ts_used = []
    scheds = [1, 1, 2] if not pool else [4, 4, 5, 6, 3, 2, 1]

    def fid():
        cnt['f'] += 1
        return cnt['f']

    def hid():
        cnt['h'] += 1
        return cnt['h']

    def pick_sched(is_main):
        s = rng.choice(scheds)
        t = 0
        if s in (5, 6):
            t = 1 if s == 5 else 2
            if not is_main:
                return 4, 0
            if t not in ts_used:
                ts_used.append(t)
                main.append('tsnew.t%d.k%d' % (t, s))
        return s, t

    base = []
    for _ in range(rng.choice([1, 1, 2])):
        s, t = pick_sched(True)
        f, h = fid(), hid()
        v = rng.choice([7, 8, 9, -100])
        a = rng.choice([0, 0, 1]) if s in (4, 5, 6) else 0
        d = rng.choice([0, 1])
        x = 1 if s in (3, 4, 5, 6) and rng.random() < 0.4 else 0     # created through dispenso::async(schedulable, policy, f)
        main.append('mk.h%d.f%d.s%d.a%d.d%d.v%d%s%s' % (h, f, s, a, d, v, '.t%d' % t if t else '', '.x1' if x else ''))
        if s == 1:
            cnt['runq'] += 1
        base.append((h, f))
    tnames = ['p%d' % (i + 1) for i in range(rng.choice([0, 1, 1, 2]))]
    mine = {n: [] for n in tnames}
    mine['main'] = [(h, f, 'i') for (h, f) in base]
    for (h, f) in base:
        for n in tnames:
            if rng.random() < 0.8 and cnt['h'] < 6:
                h2 = hid()
                main.append('cp.h%d.H%d.f%d' % (h, h2, f))
                mine[n].append((h2, f, 'i'))
    main.append('go')

    def body(name, hs):
        is_main = name == 'main'
        ops = []
        hs = list(hs)
        for _ in range(rng.randint(1, 4)):
            if not hs:
                break
            h, f, k = rng.choice(hs)
            c = rng.random()
            if c < 0.2:
                ops.append('get.h%d.f%d' % (h, f))
            elif c < 0.3:
                ops.append('wait.h%d.f%d' % (h, f))
            elif c < 0.44:
                ops.append('wf.h%d.f%d.v%d' % (h, f, rng.choice([0, 0, -3, 150, 700])))
            elif c < 0.52:
                ops.append('wu.h%d.f%d.v%d' % (h, f, rng.choice([0, -7, 90, 400])))
            elif c < 0.58:
                ops.append('rdy.h%d.f%d' % (h, f))
            elif c < 0.66 and cnt['h'] < 8:
                h2 = hid()
                ops.append('cp.h%d.H%d.f%d' % (h, h2, f))
                hs.append((h2, f, k))
            elif c < 0.84 and k == 'i' and cnt['h'] < 8 and cnt['f'] < 7:
                s, t = pick_sched(is_main)
                g, h2 = fid(), hid()
                a = rng.choice([0, 1]) if s in (4, 5, 6) else 0
                ops.append('then.h%d.f%d.H%d.g%d.s%d.a%d.d%d%s' % (h, f, h2, g, s, a, rng.choice([0, 1]), '.t%d' % t if t else ''))
                hs.append((h2, g, 'i'))
                if s == 1:
                    cnt['runq'] += 1
            elif cnt['h'] < 8:
                ints = {}
                for (hh, ff, kk) in hs:
                    if kk == 'i' and ff not in ints:
                        ints[ff] = hh
                cand = sorted(ints.items())
                n = rng.choice([0, 1, 1, 2, 2, 3])
                sel = rng.sample(cand, min(n, len(cand)))
                if cnt['f'] + 1 + len(sel) > 7:
                    continue
                R, hR = fid(), hid()
                ys = [fid() for _ in sel]
                t = rng.choice([0] + ts_used) if is_main else 0
                w = rng.choice(['wall', 'wany'])
                tup = t == 0 and len(sel) in (1, 2) and rng.random() < 0.35     # the variadic (tuple) overloads
                ops.append('%s.h%d.f%d.I%s.i%s.y%s%s%s' % (w, hR, R, '_'.join(str(x[1]) for x in sel), '_'.join(str(x[0]) for x in sel),
                                                           '_'.join(str(y) for y in ys), '.t%d' % t if t else '', '.r1' if tup else ''))
                hs.append((hR, R, 'v' if w == 'wall' else 's'))
        rng.shuffle(hs)
        for (h, f, k) in hs:     # every handle is destroyed by its owner; a getter first now and then
            if rng.random() < 0.4:
                ops.append('get.h%d.f%d' % (h, f))
            ops.append('del.h%d.f%d' % (h, f))
        return ops

    others = {n: ['up'] + body(n, mine[n]) for n in tnames}
    main += body('main', mine['main'])
    for t in ts_used:
        if rng.random() < 0.7:
            main.append('tswait.t%d' % t)
    if tnames or cnt['runq']:
        main.append('sync')
    for t in ts_used:
        main.append('tsdel.t%d' % t)
    if pool:
        main.append('delp')
    text = 'main:' + ','.join(main)
    for n in tnames:
        text += ';%s:%s' % (n, ','.join(others[n]))
    if cnt['runq']:
        text += ';r:up,' + ','.join(['runq'] * cnt['runq'])
    return text


def well_formed(text):
    try:
        derive(text)
    except AssertionError:
        return False
    return True


if __name__ == '__main__':
    if len(sys.argv) > 1 and sys.argv[1] == 'mc':
        write_mc(os.path.dirname(os.path.abspath(__file__)), only=sys.argv[2:])
    elif len(sys.argv) > 2 and sys.argv[1] == 'rand':
        rng = random.Random(int(sys.argv[2]))
        for _ in range(int(sys.argv[3]) if len(sys.argv) > 3 else 5):
            print(random_program(rng, sys.argv[4] if len(sys.argv) > 4 else 'q'))
    else:
        print(header(sys.argv[1]))
