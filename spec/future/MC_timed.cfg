CONSTANTS
  Workers <- Workers_timed
  NTs <- NTs_timed
  ThreadNames <- Threads_timed
  WyFix = FALSE
  AllowSpurious = FALSE
INIT Init_timed
NEXT Next
CHECK_DEADLOCK TRUE
INVARIANTS TypeOK NoBad FuncOnce ReadyImpliesRan GetsAgree DeallocOnce RefsSane ThenAfterReady TsWaitImpliesReady CountersSane AtEnd WhenAllReady WhenAnyReady CombFOnce
