CONSTANTS
  Workers <- Workers_g19
  NTs <- NTs_g19
  ThreadNames <- Threads_g19
  WyFix = FALSE
  AllowSpurious = FALSE
INIT Init_g19
NEXT Next
CHECK_DEADLOCK TRUE
INVARIANTS TypeOK NoBad FuncOnce ReadyImpliesRan GetsAgree DeallocOnce RefsSane ThenAfterReady TsWaitImpliesReady CountersSane AtEnd WhenAllReady WhenAnyReady CombFOnce
