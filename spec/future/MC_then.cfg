CONSTANTS
  Workers <- Workers_then
  NTs <- NTs_then
  ThreadNames <- Threads_then
  WyFix = FALSE
  AllowSpurious = FALSE
INIT Init_then
NEXT Next
CHECK_DEADLOCK TRUE
INVARIANTS TypeOK NoBad FuncOnce ReadyImpliesRan GetsAgree DeallocOnce RefsSane ThenAfterReady TsWaitImpliesReady CountersSane AtEnd WhenAllReady WhenAnyReady CombFOnce
