---------------------------- MODULE FutureTrace ----------------------------
(* Trace validation for Future.tla / WhenAll.tla.  Every recorded step of the REAL     *)
(* dispenso futures running under the controlled scheduler (site at which the thread   *)
(* was parked, thread, notes emitted during the step, projected words of every live    *)
(* shared state) must be a step of the specification:                                   *)
(*   - an event at one of the specification's sites (Fu.., Dr.., Gate.., the futex      *)
(*     points of a thread that the specification has inside a wait / notify) must be    *)
(*     the action of that name of that thread, must emit exactly the recorded notes     *)
(*     (call / ret values, functor and continuation begin / end, results seen by        *)
(*     getters) and must leave the thread parked where the real thread parked (`n`);    *)
(*   - an event of a thread that the specification has inside pool code (InPool) is     *)
(*     a stuttering step, the entry into run() of a queued future (note FuRunEnter),    *)
(*     or the return of the pool call - decided by the notes and by `n`;                *)
(*   - after EVERY event the projection of the real words (status, refCount, then       *)
(*     chain, futex wait set of every live future; count / winner / owners of every     *)
(*     when_all / when_any block; task-set counters; manual queue length) must equal    *)
(*     the specification state, so an unmodelled change is a rejection.                 *)
(* All invariants of Future.tla / WhenAll.tla are evaluated in every state.             *)
(* `n` (site of the thread's next event) and the normalised notes `r` are added to the  *)
(* raw trace by checks/future_common.py (pure data transformation, no judgement).       *)
EXTENDS Future, Json, IOUtils

TraceLog == ndJsonDeserialize(IOEnv.TRACE)
TraceWorkers == {"w0", "w1", "w2", "w3"}
TraceNTs == <<"nt0", "nt1", "nt2", "nt3", "nt4", "nt5", "nt6", "nt7">>
TraceThreadNames == {}      \* (Next is not used by the trace specification)

VARIABLE l
tvars == <<vars, l>>

TraceInit == l = 2 /\ TraceLog[1].e = "Reset" /\ InitWith(TraceLog[1].prog, TraceLog[1].M)

MySites == {"Start", "DrOp", "DrEnd", "GateUp", "GateSync", "DrRunQ", "FuRunCas", "FuNotify", "FuTscDec", "FuTscInc",
            "FuChainLd", "FuChainTake", "FuWaitLd", "FuWaitBlock", "FuIncRef", "FuDecRef", "FuDealloc", "FuReadyLd",
            "FuThenLd", "FuThenHeadLd", "FuThenPush", "FuThenRecheck", "FuWaDec", "FuWaCountLd", "FuWyCas",
            "FuWyWinnerLd", "FuWyInlineCas", "FuWyWinnerLd2"}

SeqSet(q) == {q[i] : i \in 1 .. Len(q)}

ProjOK(p, s) ==
  /\ Len(p.f) = Cardinality({f \in 1 .. Len(M) : s.F[f].alive = 1})
  /\ \A i \in 1 .. Len(p.f) :
       LET e == p.f[i] IN
         /\ e.id \in 1 .. Len(M) /\ s.F[e.id].alive = 1
         /\ e.st = s.F[e.id].st /\ e.rc = s.F[e.id].rc
         /\ e.chain = s.F[e.id].chain
         /\ SeqSet(e.fw) = s.F[e.id].fw
  /\ Len(p.c) = Cardinality({c \in 1 .. Len(M) : s.C[c].own > 0})
  /\ \A i \in 1 .. Len(p.c) :
       LET e == p.c[i] IN e.id \in 1 .. Len(M) /\ e.cnt = s.C[e.id].cnt /\ e.own = s.C[e.id].own
  /\ p.ts[1] = s.TS[1] /\ p.ts[2] = s.TS[2]
  /\ p.mq = Len(s.MQ)

\* where the specification leaves thread t parked vs. where the real thread parked
PcMatches(s, t, n) ==
  \/ n = ""
  \/ /\ s.K[t] # <<>>
     /\ LET pc == Top(s, t).pc IN
          CASE pc = "InPool" -> n \notin MySites
            [] pc = "FutexBlocked" -> n = "FutexRet"
            [] OTHER -> n = pc

\* an event of a thread that is inside pool code: stuttering, or the pool call returns (and the thread runs on to
\* its next point - possibly entering run() of the next chain link on ImmediateInvoker), and / or - last thing in the
\* step, noted FuRunEnter - the pool code enters run() of a queued future
PoolEv(ev, t) ==
  LET mine == SelectSeq(ev.r, LAMBDA x : x[1] # "n")
      base == [S EXCEPT !.out = <<>>, !.RV = 0]
      Cands == {base} \cup (IF PoolMayReturn(S, t) THEN {Settle(Pop(base, t), t)} ELSE {})
      last == IF mine = <<>> THEN <<"", 0, 0>> ELSE mine[Len(mine)]
  IN \E c \in Cands :
       \/ /\ c.out = mine
          /\ PcMatches(c, t, ev.n)
          /\ S' = Fin(c)
       \/ /\ last[1] = "FuRunEnter"
          /\ c.out = SubSeq(mine, 1, Len(mine) - 1)
          /\ last[2] \in 1 .. Len(M)
          /\ PoolMayEnter(c, t, last[2])
          /\ LET c2 == EnterRun([c EXCEPT !.Q = @ \ {last[2]}], t, last[2]) IN
               PcMatches(c2, t, ev.n) /\ S' = Fin(c2)

\* an event at a site of the specification
SiteEv(ev, t) ==
  /\ Runnable(S, t)
  /\ Top(S, t).pc = ev.e
  /\ (ev.e = "FutexWake" => SeqSet(ev.w) = S.F[Top(S, t).f].fw)
  /\ LET s1 == StepThread(S, t)
         \* a pool call entered during the step may also return within it (it hit no schedule point)
         Cands == {s1} \cup (IF PoolMayReturn(s1, t) THEN {Settle(Pop(s1, t), t)} ELSE {})
         last == IF ev.r = <<>> THEN <<"", 0, 0>> ELSE ev.r[Len(ev.r)]
     IN \E s2 \in Cands :
          \/ /\ s2.out = ev.r
             /\ PcMatches(s2, t, ev.n)
             /\ S' = Fin(s2)
          \/ /\ last[1] = "FuRunEnter"       \* the pool call entered during the step runs a queued future at once
             /\ s2.out = SubSeq(ev.r, 1, Len(ev.r) - 1)
             /\ last[2] \in 1 .. Len(M)
             /\ PoolMayEnter(s2, t, last[2])
             /\ LET s3 == EnterRun([s2 EXCEPT !.Q = @ \ {last[2]}], t, last[2]) IN
                  PcMatches(s3, t, ev.n) /\ S' = Fin(s3)

EnvEv(ev, t) ==
  IF S.K[t] # <<>> /\ Top(S, t).pc = "FutexBlocked"
  THEN IF ev.e = "FutexTimeout"
       THEN /\ Top(S, t).x \in {1, 2}                        \* only timed waits carry a timespec
            /\ S' = TimeoutStep(S, t, ev.us)
       ELSE S' = SpuriousStep(S, t)
  ELSE UNCHANGED S       \* a pool worker's idle sleep

TraceStep ==
  /\ l <= Len(TraceLog)
  /\ LET ev == TraceLog[l] IN
       \/ /\ ev.e = "Reset"
          /\ prog' = ev.prog /\ M' = ev.M /\ S' = S0(ev.prog, ev.M)
       \/ /\ ev.e = "End"
          /\ UNCHANGED vars
          /\ AllDone
          /\ ev.unplanned = 0
          /\ ev.live = Cardinality({f \in 1 .. Len(M) : S.F[f].alive = 1})
       \/ /\ ev.e = "Deadlock"
          /\ S' = [S EXCEPT !.G.bad = @ \cup {"deadlock-observed"}]
          /\ UNCHANGED <<prog, M>>
       \/ /\ ev.e \in {"FutexTimeout", "FutexSpurious"}
          /\ ev.t \in Threads
          /\ EnvEv(ev, ev.t)
          /\ ProjOK(ev.s, S')
          /\ UNCHANGED <<prog, M>>
       \/ /\ ev.e \notin {"Reset", "End", "Deadlock", "FutexTimeout", "FutexSpurious", "Diverged"}
          /\ ev.t \in Threads
          /\ S.K[ev.t] # <<>>
          /\ (IF Top(S, ev.t).pc = "InPool" THEN PoolEv(ev, ev.t) ELSE SiteEv(ev, ev.t))
          /\ ProjOK(ev.s, S')
          /\ UNCHANGED <<prog, M>>
  /\ l' = l + 1

TraceSpec == TraceInit /\ [][TraceStep]_tvars

TraceAccepted ==
  LET d == TLCGet("stats").diameter IN
  IF d = Len(TraceLog) THEN TRUE
  ELSE /\ PrintT(<<"TRACE_REJECTED_AT_LINE", d + 1, "OF", Len(TraceLog)>>)
       /\ PrintT(<<"OFFENDING", TraceLog[d + 1]>>)
       /\ FALSE
=============================================================================
