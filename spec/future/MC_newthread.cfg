CONSTANTS
  Workers <- Workers_newthread
  NTs <- NTs_newthread
  ThreadNames <- Threads_newthread
  WyFix = FALSE
  AllowSpurious = FALSE
INIT Init_newthread
NEXT Next
CHECK_DEADLOCK TRUE
INVARIANTS TypeOK NoBad FuncOnce ReadyImpliesRan GetsAgree DeallocOnce RefsSane ThenAfterReady TsWaitImpliesReady CountersSane AtEnd WhenAllReady WhenAnyReady CombFOnce
