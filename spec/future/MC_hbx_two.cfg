CONSTANTS
  Workers <- Workers_two
  NTs <- NTs_two
  ThreadNames <- Threads_two
  WyFix = TRUE
  AllowSpurious = FALSE
  AssumeDeallocAcquire = FALSE
INIT HInit_two
NEXT HNext
CHECK_DEADLOCK TRUE
INVARIANTS OrdersComplete RaceFree TypeOK NoBad FuncOnce DeallocOnce RefsSane
