CONSTANTS
  Workers <- Workers_g18
  NTs <- NTs_g18
  ThreadNames <- Threads_g18
  WyFix = FALSE
  AllowSpurious = FALSE
INIT Init_g18
NEXT Next
CHECK_DEADLOCK TRUE
INVARIANTS TypeOK NoBad FuncOnce ReadyImpliesRan GetsAgree DeallocOnce RefsSane ThenAfterReady TsWaitImpliesReady CountersSane AtEnd WhenAllReady WhenAnyReady CombFOnce
