------------------------------ MODULE FutureObs ------------------------------
(* E5 record validator for the Future half of C20: each line of the observation file *)
(* is one Future::wait_for / wait_until executed by free-running code (truly          *)
(* concurrent, real futex, real steady_clock, real ThreadPool / TaskSet /             *)
(* NewThreadInvoker or a helper thread starting the functor):                         *)
(*   {"e":"Obs","t":thread,"kind":"wait_for"|"wait_until","req":us,"el":us,"res":0|1, *)
(*    "done":0|1,"defer":0|1,"inl":0|1,...}                                            *)
(* req   requested relative time (wait_until: deadline - clock read before the call)  *)
(* el    elapsed time measured OUTSIDE the call with steady_clock, rounded down (R5)  *)
(* res   what the call reported: 1 ready, 0 timeout                                   *)
(* done  is_ready() sampled after the call returned (completion is monotone)          *)
(* defer the future was created with std::launch::deferred                            *)
(* inl   the functor was executed by the calling thread inside this call              *)
(* One step per record; RecordsOK is evaluated on every record.  The judgements are    *)
(* those of spec/event/TimedWaitProps.tla (C20, CompletionEvent half) plus the inline  *)
(* rule of Future::wait_for / wait_until.                                              *)
EXTENDS Integers, Sequences, TLC, Json, IOUtils

\* a timed wait asked to wait `req` (may be <= 0) may report "timeout" only when at least `req` has elapsed
TimeoutLegal(req, elapsed) == elapsed >= req
\* a wait may report "ready" only when the future is ready
ReadyLegal(done) == done = 1
\* a timed wait runs a not-yet-started functor itself only when the future was created deferred
InlineLegal(inl, defer) == inl = 1 => defer = 1

ObsLog == ndJsonDeserialize(IOEnv.TRACE)

VARIABLE l   \* record under judgement

ObsInit == l = 1
ObsNext == l <= Len(ObsLog) /\ l' = l + 1
ObsSpec == ObsInit /\ [][ObsNext]_l

RecOK(rec) ==
  /\ rec.res \in {0, 1}
  /\ (rec.res = 0 => TimeoutLegal(rec.req, rec.el))
  /\ (rec.res = 1 => ReadyLegal(rec.done))
  /\ InlineLegal(rec.inl, rec.defer)

RecordsOK == l > Len(ObsLog) \/ RecOK(ObsLog[l])

ObsAccepted ==
  LET d == TLCGet("stats").diameter IN
  IF d = Len(ObsLog) + 1 THEN TRUE
  ELSE /\ PrintT(<<"TRACE_REJECTED_AT_LINE", d, "OF", Len(ObsLog)>>)
       /\ FALSE
=============================================================================
