CONSTANTS
  Workers <- Workers_wany
  NTs <- NTs_wany
  ThreadNames <- Threads_wany
  WyFix = TRUE
  AllowSpurious = FALSE
INIT Init_wany
NEXT Next
CHECK_DEADLOCK TRUE
INVARIANTS TypeOK NoBad FuncOnce ReadyImpliesRan GetsAgree DeallocOnce RefsSane ThenAfterReady TsWaitImpliesReady CountersSane AtEnd WhenAllReady WhenAnyReady CombFOnce
