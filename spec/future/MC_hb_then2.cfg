CONSTANTS
  Workers <- Workers_then2
  NTs <- NTs_then2
  ThreadNames <- Threads_then2
  WyFix = TRUE
  AllowSpurious = FALSE
  AssumeDeallocAcquire = TRUE
INIT HInit_then2
NEXT HNext
CHECK_DEADLOCK TRUE
INVARIANTS OrdersComplete RaceFree TypeOK NoBad FuncOnce DeallocOnce RefsSane
