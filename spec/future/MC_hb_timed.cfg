CONSTANTS
  Workers <- Workers_timed
  NTs <- NTs_timed
  ThreadNames <- Threads_timed
  WyFix = TRUE
  AllowSpurious = FALSE
  AssumeDeallocAcquire = TRUE
INIT HInit_timed
NEXT HNext
CHECK_DEADLOCK TRUE
INVARIANTS OrdersComplete RaceFree TypeOK NoBad FuncOnce DeallocOnce RefsSane
