---------------------------- MODULE FutureRaceObs ----------------------------
(* E5 record validator for C18: each line is one BATCH of free-running rounds of     *)
(* drv_future --race.  In a round a future (kNotDeferred or deferred policy, made by  *)
(* the constructor or by dispenso::async, on the real ThreadPool / TaskSet /          *)
(* ConcurrentTaskSet with one worker) is queued, and its owner calls get() (or wait() *)
(* then get()) at the moment the worker pops the queued task - truly concurrently, so *)
(* that the waiter's claim kNotStarted -> kRunning and the pool task's claim overlap   *)
(* also INSIDE one step of the controlled scheduler.  In a quarter of the rounds a     *)
(* second thread calls get() on a copy at the same moment; 8 rounds later the value is *)
(* read once more through the kept handle.                                             *)
(*   {"e":"Race","batch":b,"rounds":n,"nd":rounds with a kNotDeferred future,          *)
(*    "multi":functors executed more than once,"never":functors never executed,        *)
(*    "diff":get() calls that did not return the functor's value,                      *)
(*    "flive":copies of the functors still alive after the batch (constructed minus    *)
(*            destroyed), "live":shared states still registered after the batch,       *)
(*    "tsc":outstanding-task counter of the task sets after everything ran,            *)
(*    "inl":rounds a getter ran the functor itself,"inlnd":the same among nd,           *)
(*    "stuck":1 = no round finished for 20 s}                                           *)
(* The functor of round k returns val(k) + (number of executions before this one).     *)
(*                                                                                     *)
(* Why every conjunct holds for EVERY execution of a correct Future (whatever the      *)
(* interleaving, also inside a step):                                                  *)
(*  multi = 0   FuncOnce of Future.tla: the functor runs at most once, whoever claims  *)
(*              it (pool task, owner's get / wait, the second getter).                 *)
(*  never = 0   ReadyImpliesRan / AtEnd: get() returned in that round, so the future   *)
(*              was ready, so the functor had run; counted after the pool is destroyed.*)
(*  diff = 0    GetsAgree: every get() - the racing owner, the racing second thread,   *)
(*              the late one - returns the value of the one execution = val(k) + 0.    *)
(*  flive = 0   the functor object is destroyed exactly as often as it is constructed  *)
(*              (runFunc destroys it once; a second run would destroy it twice).       *)
(*  live = 0    AtEnd: every handle is dropped and the pool destroyed (every queued    *)
(*              task invoked), so every shared state was deallocated (no leak).        *)
(*  tsc = 0     every future bound to a task set has run and released its slot exactly *)
(*              once: TaskSet::wait() can return (CountersSane / TsWaitImpliesReady).  *)
(*  stuck = 0   no caller of get() / wait() sleeps forever (deadlock freedom).         *)
(* No wall-clock judgement, no ordering between threads is assumed.                    *)
(*                                                                                     *)
(* Second class of records (drv_future --race ... --timed M): "e":"TimedRace", one per *)
(* batch of rounds in which a kNotDeferred future (constructor / dispenso::async, on   *)
(* the ThreadPool / TaskSet / ConcurrentTaskSet) waits behind a gate task on the pool's *)
(* only worker while its owner and 3 poller threads (holding copies) spin on           *)
(* wait_for(1ns..3us) / wait_until(now + 1ns..3us); the owner opens the gate when all  *)
(* are spinning, the worker claims and runs the functor, which blocks until the owner  *)
(* releases it some polls later and sets a flag `finished` as its last statement;      *)
(* everybody polls on until ready, the owner calls get().  The record carries all      *)
(* fields above (same meaning, same judgements; nd = rounds, inl = functors run by a   *)
(* waiter) plus                                                                        *)
(*    "early":timed waits that reported future_status::ready although `finished` of    *)
(*            that round was not visible to the caller afterwards,                     *)
(*    "unstable":correct ready reports followed by a NOT-ready wait_for(0) / is_ready()*)
(*            of the same thread on the same handle,                                   *)
(*    "polls":timed waits issued, "pre":time-outs returned before the functor was      *)
(*            claimed, "mid":owner's timed waits issued and ended while the functor ran *)
(*            (polls / pre / mid: coverage only, not judged here).                     *)
(*  early = 0   "every getter sees its result" (ReadyImpliesRan / NeverEarly): ready   *)
(*              is reported only after an acquire load of kReady, which the runner     *)
(*              stores (release) after the functor returned and its value was stored;  *)
(*              `finished := id` is sequenced before that return, so it happens-before *)
(*              the caller's load of `finished`.  A kNotDeferred future is never run   *)
(*              by a timed waiter, so the status word changes twice under the waiters  *)
(*              (kNotStarted -> kRunning -> kReady); only the second change is "done", *)
(*              whatever the kernel reports about the first (EAGAIN, spurious wake).   *)
(*  unstable=0  kReady is terminal while a handle is held (no action of Future.tla     *)
(*              leaves kReady), and wait_for(0) / is_ready() are loads of that word.   *)
EXTENDS Integers, Sequences, TLC, Json, IOUtils

ObsLog == ndJsonDeserialize(IOEnv.TRACE)

VARIABLE l
ObsInit == l = 1
ObsNext == l <= Len(ObsLog) /\ l' = l + 1
ObsSpec == ObsInit /\ [][ObsNext]_l

FuncOnceObs(rec) == rec.multi = 0
EveryFunctorRan(rec) == rec.never = 0
GetsAgreeObs(rec) == rec.diff = 0
FunctorDestroyedOnce(rec) == rec.flive = 0
NoLeakObs(rec) == rec.live = 0
TaskSetSlotsReleasedOnce(rec) == rec.tsc = 0
NoLostWaiter(rec) == rec.stuck = 0

\* records of the first class have no such fields: the guard is evaluated first
TimedReadyMeansDone(rec) == rec.e = "TimedRace" => rec.early = 0
ReadyIsStable(rec) == rec.e = "TimedRace" => rec.unstable = 0

RecOK(rec) ==
  /\ NoLostWaiter(rec)
  /\ TimedReadyMeansDone(rec)
  /\ ReadyIsStable(rec)
  /\ FuncOnceObs(rec)
  /\ EveryFunctorRan(rec)
  /\ GetsAgreeObs(rec)
  /\ TaskSetSlotsReleasedOnce(rec)
  /\ FunctorDestroyedOnce(rec)
  /\ NoLeakObs(rec)

\* one invariant per judgement, so that the violation names what was observed
RaceFuncOnce == l > Len(ObsLog) \/ (NoLostWaiter(ObsLog[l]) /\ FuncOnceObs(ObsLog[l]) /\ EveryFunctorRan(ObsLog[l]))
RaceGetsAgree == l > Len(ObsLog) \/ GetsAgreeObs(ObsLog[l])
RaceReleasedOnce == l > Len(ObsLog) \/ (TaskSetSlotsReleasedOnce(ObsLog[l]) /\ FunctorDestroyedOnce(ObsLog[l]) /\ NoLeakObs(ObsLog[l]))
RaceTimedWaitReadyMeansResultExists == l > Len(ObsLog) \/ (TimedReadyMeansDone(ObsLog[l]) /\ ReadyIsStable(ObsLog[l]))
RecordsOK == l > Len(ObsLog) \/ RecOK(ObsLog[l])

ObsAccepted ==
  LET d == TLCGet("stats").diameter IN
  IF d = Len(ObsLog) + 1 THEN TRUE
  ELSE /\ PrintT(<<"TRACE_REJECTED_AT_LINE", d, "OF", Len(ObsLog)>>)
       /\ FALSE
=============================================================================
