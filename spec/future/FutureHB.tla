------------------------------ MODULE FutureHB ------------------------------
(* C10 for dispenso::Future: Future.tla (+ FutureBase.tla, WhenAll.tla) composed with *)
(* the happens-before model spec/lib/MemOrder.tla (the sources contain no              *)
(* std::atomic_thread_fence).  Memory orders come from OrdersFuture.tla                *)
(* (bin/extract_orders.py on detail/future_impl.h, detail/future_impl2.h,             *)
(* detail/completion_event_impl.h of the working tree).                               *)
(*                                                                                    *)
(* Future.tla is an interpreter: one step of thread t = the atomic access at its      *)
(* schedule point (Atomic) + the non-atomic code up to its next point (Settle/Micro). *)
(* The overlay walks exactly the same path: HAtomic gives the happens-before update   *)
(* of the atomic access (and of the non-atomic accesses of the same code fragment),   *)
(* HMicro the non-atomic accesses of every internal label, HSettle mirrors Settle.    *)
(*                                                                                    *)
(* Atomic locations (ALocs)                                                           *)
(*   <<"st",f>> status_   <<"rc",f>> refCount_   <<"ch",f>> thenChain_                *)
(*   <<"cnt",R>> when_all count / when_any winner of result R's shared block          *)
(*   <<"ts",k>>  TaskSet::outstandingTaskCount_                                       *)
(*   ghost: <<"sched",f>> the Schedulable contract "schedule(fn) happens before the   *)
(*          invocation of fn" (release store at schedule(), acquire load at run());    *)
(*          <<"own",R>> the std::shared_ptr use count of the combinator block          *)
(*          (acq_rel decrement, as libstdc++/libc++ do); <<"gate",0>> the driver's     *)
(*          go / up gate (release store / acquire load).                               *)
(* Non-atomic locations (NLocs)                                                       *)
(*   <<"res",f>>  result buffer + exception_ of the shared state                      *)
(*   <<"func",f>> functor storage func_ (constructed by the creator, invoked and       *)
(*                destroyed by runFunc())                                              *)
(*   <<"hdr",f>>  vptr, allowInline_, taskSetCounter_ (written by createFutureImpl,    *)
(*                read by run() - also AFTER notify - by timed waits, by dealloc)      *)
(*   <<"link",g>> the ThenChain link that carries continuation g                      *)
(*   <<"vec",R>>  shared->vec / shared->tuple of a combinator block                   *)
(*   <<"cf",R>>   shared->f, the parked OnceFunction of the result future             *)
(*   <<"eff",f>>  ghost: the user data the functor / continuation of f writes; read   *)
(*                by a caller after get() / wait() returned, after wait_for /         *)
(*                wait_until returned ready, after is_ready() returned true; for a    *)
(*                when_all result also the data of every input ("ready when all input *)
(*                futures are ready"), for a when_any result the data of the winner   *)
(* dealloc() (destructor + deallocSmallBuffer) is a WRITE of res, func, hdr.          *)
(*                                                                                    *)
(* AssumeDeallocAcquire: decRefCountMaybeDestroy() is fetch_sub(1, release) followed   *)
(* by dealloc() WITHOUT an acquire (the code only carries a TSan annotation).  With    *)
(* the constant FALSE the model is exactly the declared orders (cfg MC_hbx_*: the      *)
(* known finding, RaceFree is violated); with TRUE the decrement that reaches zero     *)
(* additionally acquires refCount_ (what the TSan annotation asserts, = the effect of  *)
(* an acquire fence before dealloc()): every other edge is still the declared one      *)
(* (cfg MC_hb_*: must pass, and fails when the release of FuDecRef is weakened).       *)
EXTENDS Future, MemOrder, OrdersFuture

CONSTANT AssumeDeallocAcquire

VARIABLE hb
hvars == <<vars, hb>>

HT == ThreadNames
HF == FutIds      \* (M is fixed by the initial predicate before hb is initialised)
ALocs == {<<k, f>> : k \in {"st", "rc", "ch", "cnt", "sched", "own"}, f \in HF}
           \cup {<<"ts", k>> : k \in 1 .. MaxTs} \cup {<<"gate", 0>>}
NLocs == {<<k, f>> : k \in {"res", "func", "hdr", "link", "vec", "cf", "eff"}, f \in HF}

St(f) == <<"st", f>>
Rc(f) == <<"rc", f>>
Ch(f) == <<"ch", f>>
Cnt(f) == <<"cnt", f>>
Sch(f) == <<"sched", f>>
Own(f) == <<"own", f>>
Tsc(k) == <<"ts", k>>
Gate == <<"gate", 0>>
Res(f) == <<"res", f>>
Fn(f) == <<"func", f>>
Hdr(f) == <<"hdr", f>>
Lnk(g) == <<"link", g>>
Vec(f) == <<"vec", f>>
Cf(f) == <<"cf", f>>
Eff(f) == <<"eff", f>>

\* success / failure order of the (occ-th textual occurrence of the) access at `site`
OSo(site, occ) == Ord[site][IF Len(Ord[site]) = 1 THEN 1 ELSE occ][2]
OFo(site, occ) == Ord[site][IF Len(Ord[site]) = 1 THEN 1 ELSE occ][3]
OS(site) == OSo(site, 1)
OF(site) == OFo(site, 1)
\* future_impl2.h: the tuple overloads (rev = 1) come first in the file, the iterator overloads second
CombOcc(R) == IF M[R].rev = 1 THEN 1 ELSE 2

\* sites whose hooked statement is not itself an atomic operation:
\*   FuNotify    status_.notify(kReady): the store is CeNotifySt (completion_event_impl.h)
\*   FuWaitBlock status_.wait(kReady): the loads are CeWaitLd
\*   FuDealloc   dealloc()
\*   FuTscDec    taskSetCounter_->fetch_sub(1, release): bin/extract_orders.py only recognises `.op(`, not `->op(`
NonAtomicSites == {"FuNotify", "FuWaitBlock", "FuDealloc", "FuTscDec"}
OrdersComplete ==
  /\ \A s \in (DOMAIN Ord) \ NonAtomicSites : \A i \in 1 .. Len(Ord[s]) : Ord[s][i][1] # "none"
  /\ {"CeNotifySt", "CeWaitLd", "CeWfLd0", "CeWfLd", "CeWuLd", "FuRunCas", "FuChainLd", "FuChainTake", "FuWaitLd",
      "FuIncRef", "FuDecRef", "FuReadyLd", "FuThenLd", "FuThenHeadLd", "FuThenPush", "FuThenRecheck", "FuTscInc",
      "FuWaDec", "FuWaCountLd", "FuWyCas", "FuWyWinnerLd", "FuWyInlineCas", "FuWyWinnerLd2"} \subseteq DOMAIN Ord
  /\ \A s \in {"FuWaDec", "FuWaCountLd", "FuWyCas", "FuWyWinnerLd", "FuWyInlineCas", "FuWyWinnerLd2"} : Len(Ord[s]) = 2
TscDecOrder == "release"     \* see NonAtomicSites

\* ---------------------------------------------------------------------------- small helpers
NW(h, t, x) == NAWrite(HT, h, t, x)
NR(h, t, x) == NARead(HT, h, t, x)
Ld(h, t, a, o) == ALoad(HT, h, t, a, o)
Sto(h, t, a, o) == AStore(HT, h, t, a, o)
Rmw(h, t, a, o) == ARmw(HT, h, t, a, o)

\* createFutureImpl: placement-new of the shared state (exception_ = nullptr, functor moved in), setAllowInline,
\* setTaskSetCounter
HCreate(h, t, f) == NW(NW(NW(h, t, Res(f)), t, Fn(f)), t, Hdr(f))
\* entering run() through the OnceFunction the schedulable was given
HEnterQueued(h, t, f) == Ld(h, t, Sch(f), "acquire")
\* a std::shared_ptr owner of block c goes away (k owners at once = k decrements; one acq_rel RMW carries the same
\* edges); the last one destroys the block
HDropOwners(s, h, t, c, k) ==
  LET h1 == Rmw(h, t, Own(c), "acq_rel")
  IN IF s.C[c].own - k = 0 THEN NW(NW(h1, t, Vec(c)), t, Cf(c)) ELSE h1
\* shared->f(): reads the parked OnceFunction
HCallF(h, t, c) == NR(h, t, Cf(c))

\* the caller relies on "f is ready": reads the user data written by f's functor (and by the inputs of a combinator)
HEffReads(s, h, t, f) ==
  LET RECURSIVE Rd(_, _)
      Rd(hh, fs) == IF fs = {} THEN hh ELSE LET g == CHOOSE g \in fs : TRUE IN Rd(NR(hh, t, Eff(g)), fs \ {g})
      ins == M[f].ins
      also == CASE M[f].kind = "wares" -> {ins[i] : i \in 1 .. Len(ins)}
                [] M[f].kind = "wyres" /\ s.F[f].val \in 0 .. (Len(ins) - 1) -> {ins[s.F[f].val + 1]}
                [] OTHER -> {}
  IN Rd(h, {f} \cup also)

\* CompletionEventImpl::wait / waitFor loop after a futex call returned: reload of status_
HReload(s, t, h) ==
  LET fr == Top(s, t) IN Ld(h, t, St(fr.f), IF fr.x = 0 THEN OS("CeWaitLd") ELSE OS("CeWfLd"))
\* mirrors Block(): the first loads of status_.waitUntil / status_.waitFor (not schedule points of their own)
HBlock(s, t, h) ==
  LET fr == Top(s, t)
      f == fr.f
      rdy == s.F[f].st = 2
  IN IF fr.x = 0 THEN h
     ELSE LET h1 == IF fr.x = 2 THEN Ld(h, t, St(f), OS("CeWuLd")) ELSE h
              h2 == IF fr.x = 2 /\ rdy THEN h1 ELSE Ld(h1, t, St(f), OS("CeWfLd0"))
          IN IF rdy \/ fr.y <= 0 THEN h2 ELSE Ld(h2, t, St(f), OS("CeWfLd"))

\* --------------------------------------------------------- the atomic access of a schedule point
HAtomic(s, t, h) ==
  LET fr == Top(s, t)
      f == fr.f
      P == <<fr.p, fr.pc>>
  IN
  CASE P = <<"drv", "Start">> -> h
    [] P = <<"drv", "DrOp">> -> IF prog[t][s.ip[t]].op = "go" THEN Sto(h, t, Gate, "release") ELSE h
    [] P = <<"drv", "GateUp">> -> Ld(h, t, Gate, "acquire")
    [] P = <<"drv", "GateSync">> ->
         LET RECURSIVE JoinAll(_, _)
             JoinAll(hh, us) == IF us = {} THEN hh
                                ELSE LET u == CHOOSE u \in us : TRUE IN JoinAll(HBJoin(HT, hh, t, u), us \ {u})
         IN JoinAll(h, Drivers \ {t})
    [] P = <<"drv", "DrRunQ">> -> HEnterQueued(h, t, s.MQ[1])
    [] P = <<"drv", "DrEnd">> -> h
    [] P = <<"mk", "FuTscInc">> -> Rmw(h, t, Tsc(M[f].ts), OS("FuTscInc"))
    [] P = <<"run", "Start">> -> HEnterQueued(h, t, f)
    [] P = <<"run", "FuRunCas">> ->
         IF s.F[f].st = 0 THEN Rmw(h, t, St(f), OS("FuRunCas")) ELSE Ld(h, t, St(f), OF("FuRunCas"))
    [] P = <<"run", "FuNotify">> -> Sto(h, t, St(f), OS("CeNotifySt"))
    \* after the wake: `if (taskSetCounter_)`
    [] P = <<"run", "FutexWake">> -> NR(h, t, Hdr(f))
    [] P = <<"run", "FuTscDec">> -> Rmw(h, t, Tsc(M[f].ts), TscDecOrder)
    [] P = <<"chain", "FuChainLd">> -> Ld(h, t, Ch(f), OS("FuChainLd"))
    [] P = <<"chain", "FuChainTake">> ->
         IF HeadOr0(s.F[f].chain) = fr.g THEN Rmw(h, t, Ch(f), OS("FuChainTake")) ELSE Ld(h, t, Ch(f), OF("FuChainTake"))
    [] P = <<"wait", "FuWaitLd">> ->
         \* waitFor / waitUntil evaluate allowInline_ first: waitCommon(allowInline_)
         LET h0 == IF fr.x # 0 THEN NR(h, t, Hdr(f)) ELSE h
             h1 == Ld(h0, t, St(f), OS("FuWaitLd"))
             allow == fr.x = 0 \/ M[f].d = 1
         IN IF s.F[f].st = 2 THEN h1
            ELSE IF allow /\ s.F[f].st = 0 THEN h1
            ELSE HBlock(s, t, h1)
    [] P = <<"wait", "FuWaitBlock">> -> HReload(s, t, h)
    [] P = <<"wait", "FutexWait">> -> IF s.F[f].st # fr.g THEN HReload(s, t, h) ELSE h
    [] P = <<"wait", "FutexRet">> -> IF fr.z = 2 THEN h ELSE HReload(s, t, h)
    [] P = <<"incref", "FuIncRef">> -> Rmw(h, t, Rc(f), OS("FuIncRef"))
    [] P = <<"decref", "FuDecRef">> ->
         LET h1 == Rmw(h, t, Rc(f), OS("FuDecRef"))
         IN IF AssumeDeallocAcquire /\ s.F[f].rc = 1 THEN Ld(h1, t, Rc(f), "acquire") ELSE h1
    \* dealloc(): virtual call, destructor of the result / exception_, the block goes back to the allocator
    [] P = <<"decref", "FuDealloc">> -> NW(NW(NW(NR(h, t, Hdr(f)), t, Res(f)), t, Fn(f)), t, Hdr(f))
    [] P = <<"rdy", "FuReadyLd">> -> Ld(h, t, St(f), OS("FuReadyLd"))
    [] P = <<"then", "FuIncRef">> ->
         LET h1 == Rmw(h, t, Rc(f), OS("FuIncRef"))
         IN IF M[fr.g].ts # 0 THEN h1 ELSE HCreate(h1, t, fr.g)
    [] P = <<"then", "FuTscInc">> -> HCreate(Rmw(h, t, Tsc(M[fr.g].ts), OS("FuTscInc")), t, fr.g)
    [] P = <<"then", "FuThenLd">> ->
         LET h1 == Ld(h, t, St(f), OS("FuThenLd"))
         IN IF s.F[f].st = 2 THEN h1 ELSE NW(h1, t, Lnk(fr.g))       \* link->impl / schedulable / invoke
    [] P = <<"then", "FuThenHeadLd">> -> NW(Ld(h, t, Ch(f), OS("FuThenHeadLd")), t, Lnk(fr.g))     \* link->next = load
    [] P = <<"then", "FuThenPush">> ->
         IF HeadOr0(s.F[f].chain) = fr.z
         THEN Rmw(NR(h, t, Lnk(fr.g)), t, Ch(f), OS("FuThenPush"))       \* expected = link->next
         ELSE NW(Ld(h, t, Ch(f), OF("FuThenPush")), t, Lnk(fr.g))        \* a failed CAS stores the value into link->next
    [] P = <<"then", "FuThenRecheck">> -> Ld(h, t, St(f), OS("FuThenRecheck"))
    [] P = <<"tuser", "FuReadyLd">> -> Ld(h, t, St(fr.g), OS("FuReadyLd"))
    \* ---- future_impl2.h
    [] P = <<"run", "FuWaDec">> ->
         LET c == M[f].c
             h1 == Rmw(h, t, Cnt(c), OSo("FuWaDec", CombOcc(c)))
         IN IF s.C[c].cnt = 1 THEN HCallF(h1, t, c) ELSE h1
    [] P = <<"run", "FuWyCas">> ->
         LET c == M[f].c IN
         IF s.C[c].cnt = -1 THEN HCallF(Rmw(h, t, Cnt(c), OSo("FuWyCas", CombOcc(c))), t, c)
         ELSE Ld(h, t, Cnt(c), OFo("FuWyCas", CombOcc(c)))
    [] P = <<"run", "FuWaCountLd">> ->     \* for (auto& f : shared->vec) { count.load; f.wait() }
         Ld(NR(h, t, Vec(f)), t, Cnt(f), OSo("FuWaCountLd", CombOcc(f)))
    [] P = <<"run", "FuWyWinnerLd">> ->
         LET h1 == Ld(h, t, Cnt(f), OSo("FuWyWinnerLd", CombOcc(f)))
         IN IF s.C[f].cnt # -1 THEN h1 ELSE NR(h1, t, Vec(f))        \* shared->vec[0].wait()
    [] P = <<"run", "FuWyInlineCas">> ->
         IF s.C[f].cnt = -1
         THEN LET h1 == Rmw(h, t, Cnt(f), OSo("FuWyInlineCas", CombOcc(f)))
              IN IF WyFix THEN HCallF(h1, t, f) ELSE h1
         ELSE Ld(h, t, Cnt(f), OFo("FuWyInlineCas", CombOcc(f)))
    [] P = <<"run", "FuWyWinnerLd2">> -> Ld(h, t, Cnt(f), OSo("FuWyWinnerLd2", CombOcc(f)))
    [] P = <<"comb", "FuTscInc">> -> Rmw(h, t, Tsc(M[f].ts), OS("FuTscInc"))
    [] OTHER -> h

\* ------------------------------------------- non-atomic accesses of the code between two points
HMicro(s, t, h) ==
  LET fr == Top(s, t)
      f == fr.f
      P == <<fr.p, fr.pc>>
      n == Len(M[f].ins)
  IN
  CASE P = <<"drv", "_opdone">> ->
         LET o == prog[t][s.ip[t]]
             h1 == IF o.op = "get" THEN NR(h, t, Res(o.f)) ELSE h       \* result()
             done == o.op \in {"get", "wait"} \/ (o.op \in {"wf", "wu", "rdy"} /\ s.RV = 1)
         IN IF done THEN HEffReads(s, h1, t, o.f) ELSE h1
    [] P = <<"mk", "_mk0">> -> HCreate(h, t, f)
    [] P = <<"sched", "_sched">> -> IF M[f].s = 2 THEN h ELSE Sto(h, t, Sch(f), "release")
    \* runFunc(): virtual call, the functor is invoked ...
    [] P = <<"run", "_body">> ->
         LET h1 == NR(NR(h, t, Hdr(f)), t, Fn(f))
         IN IF M[f].kind = "fn" THEN NW(NW(NW(h1, t, Eff(f)), t, Res(f)), t, Fn(f))      \* ... result stored, f->~F()
            ELSE h1
    [] P = <<"run", "_tb2">> -> NW(NW(h, t, Res(f)), t, Fn(f))
    [] P = <<"tuser", "_tu2">> -> NW(NR(h, t, Res(fr.g)), t, Eff(f))        \* the continuation calls a.get(), does its work
    \* head->scheduleDestroyAndGetNext(): invoke(impl, schedulable); next; deallocSmallBuffer(this)
    \* (the reads of `next` and the release of the link follow the nested schedule(); nobody else touches a link
    \* after it was taken, so charging them here cannot hide or create a race)
    [] P = <<"chain", "_links">> -> IF fr.q = <<>> THEN h ELSE NW(NR(h, t, Lnk(fr.q[1])), t, Lnk(fr.q[1]))
    [] P = <<"wait", "_wrun">> -> IF s.RV = 1 THEN h ELSE HBlock(s, t, h)
    \* ---- combinators
    [] P = <<"comb", "_c0">> ->
         IF n = 0 THEN Sto(Sto(NW(NW(h, t, Res(f)), t, Hdr(f)), t, St(f), "release"), t, Rc(f), "release")   \* setReady()
         ELSE h
    [] P = <<"comb", "_c2">> ->     \* make_shared<...>(inputs); ResultFuture res(whenComplete, invoker); shared->f = ...
         NW(HCreate(NW(h, t, Vec(f)), t, f), t, Cf(f))
    [] P = <<"comb", "_c3">> ->
         IF fr.q = <<>>
         THEN LET extra == IF M[f].rev = 1 THEN 1 + n ELSE 0
                  local == IF M[f].rev = 1 /\ M[f].kind = "wares" THEN 0 ELSE 1
              IN IF extra + local = 0 THEN h ELSE HDropOwners(s, h, t, f, extra + local)
         ELSE NR(h, t, Vec(f))                                           \* s.then(...) on the next element
    [] P = <<"run", "_cb2">> -> NW(h, t, Fn(f))                            \* void result; ~F
    [] P = <<"run", "_cb3">> -> HDropOwners(s, h, t, M[f].c, 1)
    [] P = <<"run", "_wr3">> ->     \* return std::move(shared->vec); ~F
         HDropOwners(s, NW(NW(NW(NR(h, t, Vec(f)), t, Vec(f)), t, Res(f)), t, Fn(f)), t, f, 1)
    [] P = <<"run", "_wy3">> -> HDropOwners(s, NW(NW(h, t, Res(f)), t, Fn(f)), t, f, 1)
    [] OTHER -> h

RECURSIVE HSettle(_, _, _)
HSettle(s, t, h) ==
  IF s.K[t] = <<>> \/ Top(s, t).pc \notin Internal THEN h ELSE HSettle(Micro(s, t), t, HMicro(s, t, h))

\* happens-before state after the step StepThread(S, t)
HStepThread(s, t, h) ==
  LET s0 == [s EXCEPT !.out = <<>>, !.RV = 0] IN HSettle(Atomic(s0, t), t, HAtomic(s0, t, h))
HDo(t) == hb' = HStepThread(S, t, hb)

HBStart == hb = HBInit(HT, ALocs, NLocs)     \* HInit_<program> == Init_<program> /\ HBStart (MCFutureHB.tla)

HStep(t) ==
  \/ Start(t) /\ HDo(t)
  \/ DrOp(t) /\ HDo(t)
  \/ DrEnd(t) /\ HDo(t)
  \/ GateUp(t) /\ HDo(t)
  \/ GateSync(t) /\ HDo(t)
  \/ DrRunQ(t) /\ HDo(t)
  \/ FuRunCas(t) /\ HDo(t)
  \/ FuNotify(t) /\ HDo(t)
  \/ FuTscDec(t) /\ HDo(t)
  \/ FuTscInc(t) /\ HDo(t)
  \/ FuChainLd(t) /\ HDo(t)
  \/ FuChainTake(t) /\ HDo(t)
  \/ FuWaitLd(t) /\ HDo(t)
  \/ FuWaitBlock(t) /\ HDo(t)
  \/ FutexWait(t) /\ HDo(t)
  \/ FutexRet(t) /\ HDo(t)
  \/ FuIncRef(t) /\ HDo(t)
  \/ FuDecRef(t) /\ HDo(t)
  \/ FuDealloc(t) /\ HDo(t)
  \/ FuReadyLd(t) /\ HDo(t)
  \/ FuThenLd(t) /\ HDo(t)
  \/ FuThenHeadLd(t) /\ HDo(t)
  \/ FuThenPush(t) /\ HDo(t)
  \/ FuThenRecheck(t) /\ HDo(t)
  \/ FuWaDec(t) /\ HDo(t)
  \/ FuWaCountLd(t) /\ HDo(t)
  \/ FuWyCas(t) /\ HDo(t)
  \/ FuWyWinnerLd(t) /\ HDo(t)
  \/ FuWyInlineCas(t) /\ HDo(t)
  \/ FuWyWinnerLd2(t) /\ HDo(t)
  \/ (\E Ws \in SUBSET ThreadNames : FutexWake(t, Ws)) /\ HDo(t)
  \* the abstract pool: the pool's queue carries the schedule() -> invocation edge
  \/ \E g \in MaxFutIds : PoolEnter(t, g)
       /\ hb' = (LET s0 == [S EXCEPT !.out = <<>>, !.RV = 0, !.Q = @ \ {g}] IN HSettle(EnterRun(s0, t, g), t, HEnterQueued(hb, t, g)))
  \* TaskSet::wait() / ~TaskSet return after an acquire load of the outstanding count read 0
  \/ PoolReturn(t)
       /\ hb' = (LET s0 == [S EXCEPT !.out = <<>>, !.RV = 0]
                     fr == Top(S, t)
                     h1 == IF fr.p = "pool" /\ fr.x = 1 THEN Ld(hb, t, Tsc(fr.f), "acquire") ELSE hb
                 IN HSettle(Pop(s0, t), t, h1))
  \/ FutexTimeout(t) /\ hb' = hb
  \/ FutexSpurious(t) /\ hb' = hb

HNext ==
  \/ \E t \in ThreadNames : HStep(t)
  \/ Terminated /\ hb' = hb

RaceFree == NoRace(hb)
=============================================================================
