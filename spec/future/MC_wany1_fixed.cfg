CONSTANTS
  Workers <- Workers_wany1
  NTs <- NTs_wany1
  ThreadNames <- Threads_wany1
  WyFix = TRUE
  AllowSpurious = FALSE
INIT Init_wany1
NEXT Next
CHECK_DEADLOCK TRUE
INVARIANTS TypeOK NoBad FuncOnce ReadyImpliesRan GetsAgree DeallocOnce RefsSane ThenAfterReady TsWaitImpliesReady CountersSane AtEnd WhenAllReady WhenAnyReady CombFOnce
