CONSTANTS
  Workers <- Workers_timed_d
  NTs <- NTs_timed_d
  ThreadNames <- Threads_timed_d
  WyFix = FALSE
  AllowSpurious = FALSE
INIT Init_timed_d
NEXT Next
CHECK_DEADLOCK TRUE
INVARIANTS TypeOK NoBad FuncOnce ReadyImpliesRan GetsAgree DeallocOnce RefsSane ThenAfterReady TsWaitImpliesReady CountersSane AtEnd WhenAllReady WhenAnyReady CombFOnce
