CONSTANTS
  Workers <- Workers_wall1
  NTs <- NTs_wall1
  ThreadNames <- Threads_wall1
  WyFix = FALSE
  AllowSpurious = FALSE
INIT Init_wall1
NEXT Next
CHECK_DEADLOCK TRUE
INVARIANTS TypeOK NoBad FuncOnce ReadyImpliesRan GetsAgree DeallocOnce RefsSane ThenAfterReady TsWaitImpliesReady CountersSane AtEnd WhenAllReady WhenAnyReady CombFOnce
