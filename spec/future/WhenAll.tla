------------------------------- MODULE WhenAll -------------------------------
(* when_all / when_any (dispenso/detail/future_impl2.h: whenAllIterators, whenAllTuple, *)
(* whenAnyIterators, whenAnyTuple) on the machine of FutureBase.tla.                  *)
(*                                                                                    *)
(* A combinator call with result future R                                             *)
(*   - copies every input Future into a heap block `shared` (FuIncRef per input),     *)
(*     C[R] = [cnt: count (when_all) / winner (when_any, -1 = SIZE_MAX), own: owners  *)
(*     of the shared_ptr, moved: the vector was moved into R's result],               *)
(*   - creates R with an interception invoker: R's queued OnceFunction is parked in   *)
(*     shared->f (R's second reference),                                               *)
(*   - registers one `then` callback future per input on ImmediateInvoker (M[R].ys),   *)
(*     in input order (iterator overloads) or reverse order (tuple overloads, rev=1);  *)
(*     a callback body = copy.wait(); FuWaDec: count.fetch_sub, the last one calls     *)
(*     shared->f()  |  FuWyCas: winner CAS, the winner calls shared->f(),              *)
(*   - R's functor (whenComplete) may also be run inline by a waiter of R:             *)
(*     when_all: per input { FuWaCountLd: count == 0 ? break; input.wait() }           *)
(*     when_any: FuWyWinnerLd; first.wait(); FuWyInlineCas; FuWyWinnerLd2.             *)
EXTENDS FutureBase

CONSTANT WyFix   \* TRUE: when_any's inline path releases shared->f itself when it claims the winner
                 \* (the `fix:` commit); FALSE: the code as found

Rev(q) == [i \in 1 .. Len(q) |-> q[Len(q) + 1 - i]]
Order(R) == LET idx == [i \in 1 .. Len(M[R].ins) |-> i] IN IF M[R].rev = 1 THEN Rev(idx) ELSE idx
First(R) == Order(R)[1]

\* shared->f(): the parked OnceFunction of the result future = FutureImplBase::run()
CallF(s, t, c) == EnterRun([s EXCEPT !.C[c].fcalls = @ + 1], t, c)

\* ------------------------------------------------------------------ functor bodies (run frame, "_body")
WaBody(s, t) ==
  LET fr == Top(s, t)
      f == fr.f
      k == M[f].kind
  IN CASE k \in CbKinds -> Push(Goto(s, t, "_cb1"), t, WaitFrame(M[f].ante, 0, 0))     \* copy.wait()
       [] k = "wares"   -> SetTop(s, t, [fr EXCEPT !.pc = "_wr1", !.q = Order(f)])
       [] k = "wyres"   -> Goto(s, t, "FuWyWinnerLd")

WaIsAtomic(P) ==
  P \in {<<"run", "FuWaDec">>, <<"run", "FuWyCas">>, <<"run", "FuWaCountLd">>, <<"run", "FuWyWinnerLd">>,
         <<"run", "FuWyInlineCas">>, <<"run", "FuWyWinnerLd2">>, <<"comb", "FuTscInc">>}

WaAtomic(s, t) ==
  LET fr == Top(s, t)
      f == fr.f
      c == M[f].c
      P == <<fr.p, fr.pc>>
  IN CASE P = <<"run", "FuWaDec">> ->
            LET old == s.C[c].cnt
                s1 == [s EXCEPT !.C[c].cnt = old - 1]
            IN IF old = 1 THEN CallF(Goto(s1, t, "_cb2"), t, c) ELSE Goto(s1, t, "_cb2")
       [] P = <<"run", "FuWyCas">> ->
            IF s.C[c].cnt = -1
            THEN CallF(Goto([s EXCEPT !.C[c].cnt = M[f].idx], t, "_cb2"), t, c)
            ELSE Goto(s, t, "_cb2")
       [] P = <<"run", "FuWaCountLd">> ->
            IF s.C[f].cnt = 0 THEN Goto(s, t, "_wr3")
            ELSE Push(SetTop(s, t, [fr EXCEPT !.pc = "_wr1", !.q = Tail(fr.q)]), t,
                      WaitFrame(M[f].ins[fr.q[1]], 0, 0))
       [] P = <<"run", "FuWyWinnerLd">> ->
            IF s.C[f].cnt # -1 THEN Goto([s EXCEPT !.F[f].val = s.C[f].cnt], t, "_wy3")
            ELSE Push(Goto(s, t, "FuWyInlineCas"), t, WaitFrame(M[f].ins[First(f)], 0, 0))
       [] P = <<"run", "FuWyInlineCas">> ->
            IF s.C[f].cnt = -1
            THEN LET s1 == Goto([s EXCEPT !.C[f].cnt = First(f) - 1], t, "FuWyWinnerLd2")
                 IN IF WyFix THEN CallF(s1, t, f) ELSE s1
            ELSE Goto(s, t, "FuWyWinnerLd2")
       [] P = <<"run", "FuWyWinnerLd2">> -> Goto([s EXCEPT !.F[f].val = s.C[f].cnt], t, "_wy3")
       [] P = <<"comb", "FuTscInc">> -> Goto([s EXCEPT !.TS[M[f].ts] = @ + 1], t, "_c3")

WaIsMicro(P) ==
  P[1] \in {"comb", "dvec"} \/ P \in {<<"run", "_cb1">>, <<"run", "_cb2">>, <<"run", "_cb3">>, <<"run", "_wr1">>,
                                       <<"run", "_wr3">>, <<"run", "_wy3">>}

WaMicro(s, t) ==
  LET fr == Top(s, t)
      f == fr.f
      P == <<fr.p, fr.pc>>
      n == Len(M[f].ins)
  IN CASE P = <<"comb", "_c0">> ->
            IF n = 0   \* empty input: make_ready_future(VecType()) / make_ready_future(SIZE_MAX)
            THEN Pop(CreateReady(s, f, IF M[f].kind = "wares" THEN 0 ELSE -1), t)
            ELSE SetTop(s, t, [fr EXCEPT !.pc = "_c1", !.q = Order(f)])
       [] P = <<"comb", "_c1">> ->    \* make_shared<...>(inputs): copies of the input Futures
            IF fr.q = <<>> THEN Goto(s, t, "_c2")
            ELSE Push(SetTop(s, t, [fr EXCEPT !.q = Tail(fr.q)]), t, IncRefFrame(M[f].ins[fr.q[1]]))
       [] P = <<"comb", "_c2">> ->    \* the block exists (owners: local `shared` + whenComplete's capture); create R
            LET s1 == [s EXCEPT !.C[f] = [cnt |-> IF M[f].kind = "wares" THEN n ELSE -1, own |-> 2,
                                          moved |-> FALSE, fcalls |-> 0]]
            IN SetTop(Create(s1, f), t,
                      [fr EXCEPT !.pc = IF M[f].ts # 0 THEN "FuTscInc" ELSE "_c3", !.q = Order(f), !.y = 0])
       [] P = <<"comb", "_c3">> ->    \* input.then(callback, kImmediateInvoker) for the next input
            \* fr.y = inputs visited so far.  Tuple overloads (rev = 1) visit the inputs through detail::forEach,
            \* whose visitor lambda holds the shared_ptr and is passed BY VALUE down the recursion: 2 copies while the
            \* first input is visited, one more per further input (when_all moved the local `shared` into the visitor)
            IF fr.q = <<>>
            THEN LET extra == IF M[f].rev = 1 THEN 1 + n ELSE 0      \* the visitor copies die ...
                     local == IF M[f].rev = 1 /\ M[f].kind = "wares" THEN 0 ELSE 1   \* ... and the local `shared`
                 IN DropOwners(Goto(s, t, "_pop"), t, f, extra + local)
            ELSE LET i == fr.q[1]
                     visitor == IF M[f].rev = 0 THEN 0
                                ELSE IF fr.y = 0 THEN (IF M[f].kind = "wares" THEN 1 ELSE 2) ELSE 1
                 IN    \* (the callback lambda captures the shared_ptr: one more owner)
                 Push(SetTop([s EXCEPT !.C[f].own = @ + 1 + visitor], t,
                             [fr EXCEPT !.pc = "_c4", !.q = Tail(fr.q), !.g = M[f].ys[i], !.y = fr.y + 1]), t,
                      ThenFrame(M[f].ins[i], M[f].ys[i]))
       [] P = <<"comb", "_c4">> -> Push(Goto(s, t, "_c3"), t, DecRefFrame(fr.g))   \* the Future<void> then() returned dies
       [] P = <<"comb", "_pop">> -> Pop(s, t)
       [] P = <<"dvec", "_dv">> ->
            IF fr.q = <<>> THEN Pop(s, t)
            ELSE Push(SetTop(s, t, [fr EXCEPT !.q = Tail(fr.q)]), t, DecRefFrame(fr.q[1]))
       [] P = <<"run", "_cb1">> -> Goto(s, t, IF M[f].kind = "wacb" THEN "FuWaDec" ELSE "FuWyCas")
       [] P = <<"run", "_cb2">> ->    \* callback returned (void result); ~F: the captured copy of the input ...
            Push(Goto([s EXCEPT !.F[f].has = 1], t, "_cb3"), t, DecRefFrame(M[f].ante))
       [] P = <<"run", "_cb3">> -> DropOwner(Goto(s, t, "FuNotify"), t, M[f].c)   \* ... then the captured shared_ptr
       [] P = <<"run", "_wr1">> -> Goto(s, t, IF fr.q = <<>> THEN "_wr3" ELSE "FuWaCountLd")
       [] P = <<"run", "_wr3">> ->    \* return std::move(shared->vec); ~F drops whenComplete's shared_ptr
            LET ok == \A i \in 1 .. n : s.F[M[f].ins[i]].st = 2
                s1 == [s EXCEPT !.F[f].has = 1, !.F[f].val = n, !.C[f].moved = TRUE]
            IN DropOwner(Goto(IF ok THEN s1 ELSE Bad(s1, "when_all-result-before-inputs-ready"), t, "FuNotify"), t, f)
       [] P = <<"run", "_wy3">> ->
            LET w == s.F[f].val
                ok == w \in 0 .. (n - 1) /\ s.F[M[f].ins[w + 1]].st = 2
                s1 == [s EXCEPT !.F[f].has = 1]
            IN DropOwner(Goto(IF ok THEN s1 ELSE Bad(s1, "when_any-index-not-ready"), t, "FuNotify"), t, f)

\* ------------------------------------------------------------------------------- properties (C19)
\* when_all's result is ready only after all inputs are ready (holds them in input order by construction:
\* the result IS the vector built from the inputs; the trace check compares the ids the getter sees)
WhenAllReady ==
  \A R \in FutIds : (M[R].kind = "wares" /\ S.F[R].alive # 0 /\ S.F[R].st = 2)
                      => \A i \in 1 .. Len(M[R].ins) : S.F[M[R].ins[i]].st = 2
\* when_any's result is the index of an input that is ready (SIZE_MAX = -1 for the empty input)
WhenAnyReady ==
  \A R \in FutIds : (M[R].kind = "wyres" /\ S.F[R].alive # 0 /\ S.F[R].st = 2)
                      => IF Len(M[R].ins) = 0 THEN S.F[R].val = -1
                         ELSE /\ S.F[R].val \in 0 .. (Len(M[R].ins) - 1)
                              /\ S.F[M[R].ins[S.F[R].val + 1]].st = 2
\* the parked OnceFunction of a result future is invoked at most once
CombFOnce == \A R \in FutIds : S.C[R].fcalls <= 1
=============================================================================
