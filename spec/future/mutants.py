#!/usr/bin/env python3
"""Mutant runner of the futures component (C18 / C19 / c20_future): applies one edit of M to a copy (/tmp/wt_mut) of the
futures worktree (/tmp/wt_fut) and runs the matching check.  python3 mutants.py [quick|thorough] <name>... | all ;
results are appended to /tmp/vb_fut/mutants.log, full logs in /tmp/vb_fut/mut_<name>.log"""
import os, shutil, subprocess, sys, time
SRC='/tmp/wt_fut'; MUT='/tmp/wt_mut'
FI='dispenso/detail/future_impl.h'; F2='dispenso/detail/future_impl2.h'; CE='dispenso/detail/completion_event_impl.h'
M = {
 # ---- C18
 'rc_init1': (FI, 'std::atomic<uint32_t> refCount_{2};', 'std::atomic<uint32_t> refCount_{1};', 'C18'),
 'run_no_decref': (FI, '    (void)run(kNotStarted);\n    decRefCountMaybeDestroy();', '    (void)run(kNotStarted);', 'C18'),
 'cas_to_store': (FI, 'if (status_.intrusiveStatus().compare_exchange_weak(s, kRunning, std::memory_order_acq_rel)) {',
                  'if ((s = status_.intrusiveStatus().exchange(kRunning, std::memory_order_acq_rel)) == kNotStarted) {', 'C18'),
 'notify_before_result': (FI, '        runFunc();\n        DISPENSO_VERIF_POINT("FuNotify", this);\n        status_.notify(kReady);',
                          '        DISPENSO_VERIF_POINT("FuNotify", this);\n        status_.notify(kReady);\n        runFunc();', 'C18'),
 'dealloc_off_by_one': (FI, 'if (refCount_.fetch_sub(1, std::memory_order_release) == 1) {', 'if (refCount_.fetch_sub(1, std::memory_order_release) <= 2) {', 'C18'),
 'copy_no_incref': (FI, '    impl_ = f.impl_;\n      if (impl_) {\n        impl_->incRefCount();\n      }\n    }\n  }\n  ~FutureBase',
                    '    impl_ = f.impl_;\n    }\n  }\n  ~FutureBase', 'C18'),
 'inline_when_running': (FI, 'return s == kReady || (allowInline && run(s));', 'return s == kReady || (allowInline && run(kNotStarted));', 'C18'),
 # ---- C19
 'no_recheck': (FI, '    if (status_.intrusiveStatus().load(std::memory_order_acquire) == kReady) {\n      tryExecuteThenChain();\n    }\n  }',
                '    if (status_.intrusiveStatus().load(std::memory_order_acquire) == kReady) {\n    }\n  }', 'C19'),
 'chain_first_only': (FI, '        while (head) {\n          head = head->scheduleDestroyAndGetNext();\n        }', '        if (head) {\n          head = head->scheduleDestroyAndGetNext();\n          head = nullptr;\n        }', 'C19'),
 'wall_count_plus1': (F2, 'WhenAllSharedVec(InputIt first, InputIt last) : vec(first, last), count(vec.size()) {}', 'WhenAllSharedVec(InputIt first, InputIt last) : vec(first, last), count(vec.size() + 1) {}', 'C19'),
 'wall_dec_eq0': (F2, '          if (shared->count.fetch_sub(1, std::memory_order_release) == 1) {\n            shared->f();\n          }\n        },\n        kImmediateInvoker);\n  }',
                  '          if (shared->count.fetch_sub(1, std::memory_order_release) == 0) {\n            shared->f();\n          }\n        },\n        kImmediateInvoker);\n  }', 'C19'),
 'wall_no_wait': (F2, '        break;\n      }\n      f.wait();\n    }', '        break;\n      }\n    }', 'C19'),
 'wany_store_winner': (F2, '          if (shared->winner.compare_exchange_strong(expected, i, std::memory_order_acq_rel)) {', '          if ((shared->winner.store(i), expected == SIZE_MAX)) {', 'C19'),
 'tsc_before_notify': (FI, '        DISPENSO_VERIF_POINT("FuNotify", this);\n        status_.notify(kReady);\n        if (taskSetCounter_) {\n          //  If we want TaskSet::wait to imply Future::is_ready(),\n          //  we need to signal that *after* setting the Future status to ready.\n          DISPENSO_VERIF_POINT("FuTscDec", this);\n          taskSetCounter_->fetch_sub(1, std::memory_order_release);\n        }',
                       '        if (taskSetCounter_) {\n          DISPENSO_VERIF_POINT("FuTscDec", this);\n          taskSetCounter_->fetch_sub(1, std::memory_order_release);\n        }\n        DISPENSO_VERIF_POINT("FuNotify", this);\n        status_.notify(kReady);', 'C19'),
 'then_ready_inverted': (FI, '    if (status_.intrusiveStatus().load(std::memory_order_acquire) == kReady) {\n      if ((asyncPolicy', '    if (status_.intrusiveStatus().load(std::memory_order_acquire) != kNotStarted) {\n      if ((asyncPolicy', 'C19'),
 'wany_no_fix': (F2, None, 'db80166', 'C19'),   # the code before the fix: commit
 'wany_no_fix_c18': (F2, None, 'db80166', 'C18'),
 'link_size_no_fix': (FI, '      constexpr size_t kImplSize = static_cast<size_t>(nextPow2(sizeof(ThenChain)));\n      auto* ret', '      constexpr size_t kImplSize = static_cast<size_t>(nextPow2(sizeof(this)));\n      auto* ret', 'C19'),
 'async_no_fix': ('dispenso/future.h', None, 'e6180e1', 'c20_future'),   # the code before the async() fix: commit
 # ---- C20 (future half)
 'waitfor_always_inline': (FI, 'if (waitCommon(allowInline_) || status_.waitFor(kReady, timeoutDuration)) {', 'if (waitCommon(true) || status_.waitFor(kReady, timeoutDuration)) {', 'c20_future'),
 'waituntil_always_inline': (FI, 'if (waitCommon(allowInline_) || status_.waitUntil(kReady, timeoutTime)) {', 'if (waitCommon(true) || status_.waitUntil(kReady, timeoutTime)) {', 'c20_future'),
 'waitfor_negated': (FI, 'if (waitCommon(allowInline_) || status_.waitFor(kReady, timeoutDuration)) {', 'if (waitCommon(allowInline_) || !status_.waitFor(kReady, timeoutDuration)) {', 'c20_future'),
 'half_timeout': (CE, '    ts.tv_nsec = static_cast<long>(1e9 * relSeconds);', '    ts.tv_nsec = static_cast<long>(1e9 * relSeconds) / 2;', 'c20_future'),
 'waituntil_no_clock': (CE, '    return waitFor(completedStatus, absTime - Clock::now());', '    return waitFor(completedStatus, (absTime - Clock::now()) / 4);', 'c20_future'),
 'timeout_ready': (CE, '''        // concurrently with timeout is handled by the caller retrying if needed.
        return false;''', '''        // concurrently with timeout is handled by the caller retrying if needed.
        return true;''', 'c20_future'),
}
def run(name, tier='quick'):
    f, old, new, check = M[name]
    # restore pristine tree
    for rel in (FI, F2, CE, 'dispenso/schedulable.h', 'dispenso/future.h'):
        shutil.copy(os.path.join(SRC, rel), os.path.join(MUT, rel))
    if old is None:
        txt = subprocess.run(['git', '-C', SRC, 'show', new + ':' + f], stdout=subprocess.PIPE, text=True, check=True).stdout
        open(os.path.join(MUT, f), 'w').write(txt)
    else:
        p = os.path.join(MUT, f)
        s = open(p).read()
        if s.count(old) != 1 and not (f == CE and s.count(old) >= 1):
            return '%s: PATTERN matches %d times' % (name, s.count(old))
        open(p, 'w').write(s.replace(old, new, 1))     # (completion_event_impl.h: the Linux implementation comes first)
    env = dict(os.environ, VERIF_REPO=MUT, VERIF_BUILD='/tmp/vb_mut', VERIF_EVIDENCE='/tmp/ve_mut', VERIF_SEED=os.environ.get('VERIF_SEED', '1'))
    t0 = time.time()
    p = subprocess.run(['/verif/bin/vcheck', check, tier], stdout=subprocess.PIPE, stderr=subprocess.STDOUT, text=True, env=env, cwd='/verif')
    out = p.stdout
    open('/tmp/vb_fut/mut_%s.log' % name, 'w').write(out)
    sig = [l.strip() for l in out.splitlines() if 'signature:' in l or l.startswith('ERROR')]
    verdict = 'CAUGHT' if p.returncode == 1 else (('CAUGHT+TOOLERROR' if 'VIOLATION' in out else 'TOOLERROR') if p.returncode == 2 else 'MISSED')
    return '%s [%s %s] %s rc=%d %.0fs %s' % (name, check, tier, verdict, p.returncode, time.time() - t0, ' | '.join(s[:160] for s in sig[:3]))
if __name__ == '__main__':
    names = sys.argv[1:]
    tier = 'quick'
    if names and names[0] in ('quick', 'thorough'):
        tier = names.pop(0)
    if names == ['all']:
        names = list(M)
    for n in names:
        r = run(n, tier)
        print(r, flush=True)
        open('/tmp/vb_fut/mutants.log', 'a').write(r + '\n')
