CONSTANTS
  Workers <- Workers_three
  NTs <- NTs_three
  ThreadNames <- Threads_three
  WyFix = FALSE
  AllowSpurious = FALSE
INIT Init_three
NEXT Next
CHECK_DEADLOCK TRUE
INVARIANTS TypeOK NoBad FuncOnce ReadyImpliesRan GetsAgree DeallocOnce RefsSane ThenAfterReady TsWaitImpliesReady CountersSane AtEnd WhenAllReady WhenAnyReady CombFOnce
