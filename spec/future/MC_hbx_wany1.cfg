CONSTANTS
  Workers <- Workers_wany1
  NTs <- NTs_wany1
  ThreadNames <- Threads_wany1
  WyFix = TRUE
  AllowSpurious = FALSE
  AssumeDeallocAcquire = FALSE
INIT HInit_wany1
NEXT HNext
CHECK_DEADLOCK TRUE
INVARIANTS OrdersComplete RaceFree TypeOK NoBad FuncOnce DeallocOnce RefsSane
