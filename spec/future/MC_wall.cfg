CONSTANTS
  Workers <- Workers_wall
  NTs <- NTs_wall
  ThreadNames <- Threads_wall
  WyFix = FALSE
  AllowSpurious = FALSE
INIT Init_wall
NEXT Next
CHECK_DEADLOCK TRUE
INVARIANTS TypeOK NoBad FuncOnce ReadyImpliesRan GetsAgree DeallocOnce RefsSane ThenAfterReady TsWaitImpliesReady CountersSane AtEnd WhenAllReady WhenAnyReady CombFOnce
