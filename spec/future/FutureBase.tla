----------------------------- MODULE FutureBase -----------------------------
(* Data model shared by Future.tla and WhenAll.tla: the machine on which the         *)
(* implementation-level specification of dispenso::Future runs.                      *)
(*                                                                                    *)
(* The specification is an interpreter of driver programs.  Every logical thread has *)
(* a stack of frames, one frame per active procedure of dispenso/detail/future_impl.h *)
(* (run, waitCommon/wait/waitFor, addToThenChainOrExecute, tryExecuteThenChain,      *)
(* decRefCountMaybeDestroy, when_all / when_any, ...).  The `pc` of a frame is either *)
(* a SCHEDULE POINT - the name of the DISPENSO_VERIF_POINT placed immediately before *)
(* one atomic access of the code (prefix Fu), a point of the modelled futex          *)
(* (FutexWait / FutexWake / FutexRet), a driver point (Dr.., Gate..), the pseudo point *)
(* InPool (the thread is inside ThreadPool / TaskSet code) - or an internal label     *)
(* (prefix _) for the non-atomic code between two points.  One step of a thread =     *)
(* the atomic access at its point + all non-atomic code up to its next point.         *)
EXTENDS Integers, Sequences, FiniteSets, TLC

CONSTANTS Workers,   \* names of the pool worker threads that may exist, e.g. {"w0", "w1"}
          NTs        \* names of NewThreadInvoker threads in creation order, e.g. <<"nt0", "nt1">>

VARIABLES prog,   \* [driver thread -> Seq(op record)]  (a variable so that a trace can reset it)
          M,      \* static description of every future id (derived from prog by spec/future/gen.py)
          S       \* the machine state (one record, see S0)

vars == <<prog, M, S>>

(* op record: [op, h, h2, f, g, v, ts, ins]                                            *)
(*   "mk"    construct Future f (M[f]: schedulable s, async a, deferred d, value v) in handle h *)
(*   "get" | "wait" | "rdy"  on handle h (holding future f)                             *)
(*   "wf" / "wu"  wait_for(v us) / wait_until(test clock + v us) on handle h            *)
(*   "cp"    copy-construct handle h2 from h;   "del" destroy handle h                   *)
(*   "then"  h2 = h.then(...) creating future g                                          *)
(*   "wall" | "wany"  h = when_all / when_any (handles of futures ins), result future f  *)
(*   "tswait" (task set ts) "new" "delp" "tsnew" "tsdel"  pool / task-set calls          *)
(*   "go" "up" "sync" "runq"  driver synchronisation / manual queue runner               *)
(* M[f]: [kind, s, a, d, v, ts, ante, c, idx, ins, ys, rev]                              *)
(*   kind "fn" user functor | "then" continuation | "wacb"/"wycb" when_all/any callback  *)
(*        future | "wares"/"wyres" when_all/any result future                            *)
(*   s    1 manual queue, 2 ImmediateInvoker, 3 NewThreadInvoker, 4 ThreadPool,          *)
(*        5 TaskSet, 6 ConcurrentTaskSet, 0 interception (when_all/any result)           *)

FutIds == 1 .. Len(M)
MaxH == 8
MaxTs == 2
NTSet == {NTs[i] : i \in 1 .. Len(NTs)}

Fr(p, pc, f, g, x, y, q) == [p |-> p, pc |-> pc, f |-> f, g |-> g, x |-> x, y |-> y, z |-> 0, q |-> q]
NoFut == [st |-> 0, rc |-> 0, chain |-> <<>>, has |-> 0, val |-> 0, alive |-> 0, runs |-> 0, fw |-> {}]
NoComb == [cnt |-> 0, own |-> 0, moved |-> FALSE, fcalls |-> 0]

S0(p, m) ==
  [F   |-> [f \in 1 .. Len(m) |-> NoFut],        \* words of every future shared state
   C   |-> [f \in 1 .. Len(m) |-> NoComb],       \* when_all / when_any shared blocks (by result id)
   TS  |-> [k \in 1 .. MaxTs |-> 0],             \* TaskSet outstanding counters
   Q   |-> {},                                   \* futures handed to the pool (abstract bag)
   MQ  |-> <<>>,                                 \* the driver's manual FIFO schedulable
   H   |-> [h \in 1 .. MaxH |-> 0],              \* driver handles (Future objects): future id or 0
   K   |-> [t \in (DOMAIN p) \cup Workers \cup NTSet |->
              IF t \in DOMAIN p THEN <<Fr("drv", "Start", 0, 0, 0, 0, <<>>)>>
              ELSE IF t \in Workers THEN <<Fr("worker", "InPool", 0, 0, 0, 0, <<>>)>>
              ELSE <<>>],
   ip  |-> [t \in DOMAIN p |-> 1],
   el  |-> [t \in (DOMAIN p) \cup Workers \cup NTSet |-> 0],   \* time the futex let pass in t's current timed wait
   RV  |-> 0,                                    \* return register (scratch inside one step)
   out |-> <<>>,                                 \* notes the code emits during the step
   ntn |-> 0,                                    \* NewThreadInvoker threads created
   go  |-> FALSE,
   G   |-> [gets |-> {}, tobs |-> {}, dealloc |-> [f \in 1 .. Len(m) |-> 0], bad |-> {}, tsw |-> {}]]

InitWith(p, m) == prog = p /\ M = m /\ S = S0(p, m)

Threads == DOMAIN S.K
Drivers == DOMAIN prog

\* ------------------------------------------------------------------------------ stack helpers
Top(s, t) == s.K[t][Len(s.K[t])]
SetTop(s, t, fr) == [s EXCEPT !.K[t][Len(s.K[t])] = fr]
Goto(s, t, pc) == [s EXCEPT !.K[t][Len(s.K[t])].pc = pc]
Push(s, t, fr) == [s EXCEPT !.K[t] = Append(@, fr)]
Pop(s, t) == [s EXCEPT !.K[t] = SubSeq(@, 1, Len(@) - 1)]
PopRet(s, t, v) == [s EXCEPT !.K[t] = SubSeq(@, 1, Len(@) - 1), !.RV = v]
Emit(s, tag, a, b) == [s EXCEPT !.out = Append(@, <<tag, a, b>>)]
Bad(s, tag) == [s EXCEPT !.G.bad = @ \cup {tag}]
\* every access to the words of a shared state requires the state to be live
Use(s, f) == IF s.F[f].alive = 1 THEN s ELSE Bad(s, "use-after-dealloc")
HeadOr0(q) == IF q = <<>> THEN 0 ELSE q[1]

CbKinds == {"wacb", "wycb"}
ResKinds == {"wares", "wyres"}

\* createFutureImpl: status kNotStarted, refCount 2 (the handle + the queued OnceFunction)
Create(s, f) ==
  IF s.F[f].alive # 0 THEN Bad(s, "prog-recreate")
  ELSE [s EXCEPT !.F[f] = [NoFut EXCEPT !.rc = 2, !.alive = 1]]
CreateReady(s, f, v) ==
  IF s.F[f].alive # 0 THEN Bad(s, "prog-recreate")
  ELSE [s EXCEPT !.F[f] = [NoFut EXCEPT !.st = 2, !.rc = 1, !.alive = 1, !.has = 1, !.val = v]]

RunFrame(f, mode) == Fr("run", "FuRunCas", f, 0, mode, 0, <<>>)      \* mode 0: run() (queue entry), 1: from waitCommon
WaitFrame(f, kind, req) == Fr("wait", "FuWaitLd", f, 0, kind, req, <<>>)  \* kind 0 wait, 1 wait_for, 2 wait_until
DecRefFrame(f) == Fr("decref", "FuDecRef", f, 0, 0, 0, <<>>)
IncRefFrame(f) == Fr("incref", "FuIncRef", f, 0, 0, 0, <<>>)
ChainFrame(f) == Fr("chain", "FuChainLd", f, 0, 0, 0, <<>>)
SchedFrame(f) == Fr("sched", "_sched", f, 0, 0, 0, <<>>)
ThenFrame(f, g) == Fr("then", "FuIncRef", f, g, 0, 0, <<>>)

\* entering FutureImplBase::run() through the OnceFunction (the code notes it: FuRunEnter)
EnterRun(s, t, f) == Emit(Push(s, t, RunFrame(f, 0)), "FuRunEnter", f, 0)

\* a shared_ptr owner of combinator block c goes away; the last one destroys the block: the input
\* copies it still holds (when_all's vector unless moved into the result, when_any's always) are released
DropOwners(s, t, c, k) ==
  LET s1 == [s EXCEPT !.C[c].own = @ - k] IN
  IF s1.C[c].own = 0 /\ ~s1.C[c].moved
  THEN Push(s1, t, Fr("dvec", "_dv", c, 0, 0, 0, M[c].ins))
  ELSE s1
DropOwner(s, t, c) == DropOwners(s, t, c, 1)
=============================================================================
