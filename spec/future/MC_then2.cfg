CONSTANTS
  Workers <- Workers_then2
  NTs <- NTs_then2
  ThreadNames <- Threads_then2
  WyFix = FALSE
  AllowSpurious = FALSE
INIT Init_then2
NEXT Next
CHECK_DEADLOCK TRUE
INVARIANTS TypeOK NoBad FuncOnce ReadyImpliesRan GetsAgree DeallocOnce RefsSane ThenAfterReady TsWaitImpliesReady CountersSane AtEnd WhenAllReady WhenAnyReady CombFOnce
