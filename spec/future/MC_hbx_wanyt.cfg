CONSTANTS
  Workers <- Workers_wanyt
  NTs <- NTs_wanyt
  ThreadNames <- Threads_wanyt
  WyFix = TRUE
  AllowSpurious = FALSE
  AssumeDeallocAcquire = FALSE
INIT HInit_wanyt
NEXT HNext
CHECK_DEADLOCK TRUE
INVARIANTS OrdersComplete RaceFree TypeOK NoBad FuncOnce DeallocOnce RefsSane
