CONSTANTS
  Workers <- Workers_drop
  NTs <- NTs_drop
  ThreadNames <- Threads_drop
  WyFix = TRUE
  AllowSpurious = FALSE
  AssumeDeallocAcquire = TRUE
INIT HInit_drop
NEXT HNext
CHECK_DEADLOCK TRUE
INVARIANTS OrdersComplete RaceFree TypeOK NoBad FuncOnce DeallocOnce RefsSane
