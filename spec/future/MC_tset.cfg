CONSTANTS
  Workers <- Workers_tset
  NTs <- NTs_tset
  ThreadNames <- Threads_tset
  WyFix = FALSE
  AllowSpurious = FALSE
INIT Init_tset
NEXT Next
CHECK_DEADLOCK TRUE
INVARIANTS TypeOK NoBad FuncOnce ReadyImpliesRan GetsAgree DeallocOnce RefsSane ThenAfterReady TsWaitImpliesReady CountersSane AtEnd WhenAllReady WhenAnyReady CombFOnce
