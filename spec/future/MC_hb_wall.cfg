CONSTANTS
  Workers <- Workers_wall
  NTs <- NTs_wall
  ThreadNames <- Threads_wall
  WyFix = TRUE
  AllowSpurious = FALSE
  AssumeDeallocAcquire = TRUE
INIT HInit_wall
NEXT HNext
CHECK_DEADLOCK TRUE
INVARIANTS OrdersComplete RaceFree TypeOK NoBad FuncOnce DeallocOnce RefsSane
