CONSTANTS
  Workers <- Workers_wany3
  NTs <- NTs_wany3
  ThreadNames <- Threads_wany3
  WyFix = TRUE
  AllowSpurious = FALSE
  AssumeDeallocAcquire = TRUE
INIT HInit_wany3
NEXT HNext
CHECK_DEADLOCK TRUE
INVARIANTS OrdersComplete RaceFree TypeOK NoBad FuncOnce DeallocOnce RefsSane
