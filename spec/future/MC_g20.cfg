CONSTANTS
  Workers <- Workers_g20
  NTs <- NTs_g20
  ThreadNames <- Threads_g20
  WyFix = FALSE
  AllowSpurious = FALSE
INIT Init_g20
NEXT Next
CHECK_DEADLOCK TRUE
INVARIANTS TypeOK NoBad FuncOnce ReadyImpliesRan GetsAgree DeallocOnce RefsSane ThenAfterReady TsWaitImpliesReady CountersSane AtEnd WhenAllReady WhenAnyReady CombFOnce
