----------------------------- MODULE LinkPoolObs -----------------------------
(* E5 record validator (C19, then-chain): every round of the driver's --linkpool mode *)
(* attaches N continuations to a future that is not ready yet (N chain links are      *)
(* allocated from the 32-byte small-buffer pool), lets the future run (the chain is   *)
(* drained, every link is freed) and drops every handle.  One record per round:       *)
(*   {"e":"Pool","round":r,"links":N,"kb32":KiB the 32-byte pool has claimed,         *)
(*    "live": shared states still registered}                                          *)
(* A link must go back to the pool it came from: after the first round the pool does  *)
(* not need to grow again, and no shared state outlives its round.                    *)
EXTENDS Integers, Sequences, TLC, Json, IOUtils

ObsLog == ndJsonDeserialize(IOEnv.TRACE)

VARIABLE l
ObsInit == l = 1
ObsNext == l <= Len(ObsLog) /\ l' = l + 1
ObsSpec == ObsInit /\ [][ObsNext]_l

RecOK(i) ==
  /\ ObsLog[i].live = 0
  /\ (i > 1 => ObsLog[i].kb32 = ObsLog[1].kb32)

RecordsOK == l > Len(ObsLog) \/ RecOK(l)

ObsAccepted ==
  LET d == TLCGet("stats").diameter IN
  IF d = Len(ObsLog) + 1 THEN TRUE
  ELSE /\ PrintT(<<"TRACE_REJECTED_AT_LINE", d, "OF", Len(ObsLog)>>)
       /\ FALSE
=============================================================================
