CONSTANTS
  Workers <- Workers_then
  NTs <- NTs_then
  ThreadNames <- Threads_then
  WyFix = TRUE
  AllowSpurious = FALSE
  AssumeDeallocAcquire = FALSE
INIT HInit_then
NEXT HNext
CHECK_DEADLOCK TRUE
INVARIANTS OrdersComplete RaceFree TypeOK NoBad FuncOnce DeallocOnce RefsSane
