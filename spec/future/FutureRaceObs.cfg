SPECIFICATION ObsSpec
CHECK_DEADLOCK FALSE
INVARIANTS RaceFuncOnce RaceGetsAgree RaceReleasedOnce RecordsOK
POSTCONDITION ObsAccepted
