SPECIFICATION ObsSpec
CHECK_DEADLOCK FALSE
INVARIANTS RaceTimedWaitReadyMeansResultExists RaceFuncOnce RaceGetsAgree RaceReleasedOnce RecordsOK
POSTCONDITION ObsAccepted
