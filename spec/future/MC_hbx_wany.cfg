CONSTANTS
  Workers <- Workers_wany
  NTs <- NTs_wany
  ThreadNames <- Threads_wany
  WyFix = TRUE
  AllowSpurious = FALSE
  AssumeDeallocAcquire = FALSE
INIT HInit_wany
NEXT HNext
CHECK_DEADLOCK TRUE
INVARIANTS OrdersComplete RaceFree TypeOK NoBad FuncOnce DeallocOnce RefsSane
