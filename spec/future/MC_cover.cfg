CONSTANTS
  Workers <- Workers_cover
  NTs <- NTs_cover
  ThreadNames <- Threads_cover
  WyFix = FALSE
  AllowSpurious = FALSE
INIT Init_cover
NEXT Next
CHECK_DEADLOCK TRUE
INVARIANTS TypeOK NoBad FuncOnce ReadyImpliesRan GetsAgree DeallocOnce RefsSane ThenAfterReady TsWaitImpliesReady CountersSane AtEnd WhenAllReady WhenAnyReady CombFOnce
