CONSTANTS
  Workers <- Workers_wall1
  NTs <- NTs_wall1
  ThreadNames <- Threads_wall1
  WyFix = TRUE
  AllowSpurious = FALSE
  AssumeDeallocAcquire = FALSE
INIT HInit_wall1
NEXT HNext
CHECK_DEADLOCK TRUE
INVARIANTS OrdersComplete RaceFree TypeOK NoBad FuncOnce DeallocOnce RefsSane
