CONSTANTS
  Workers <- TraceWorkers
  NTs <- TraceNTs
  WyFix = FALSE
  AllowSpurious = TRUE
  ThreadNames <- TraceThreadNames
SPECIFICATION TraceSpec
CHECK_DEADLOCK FALSE
POSTCONDITION TraceAccepted
INVARIANTS NoBad FuncOnce ReadyImpliesRan GetsAgree DeallocOnce RefsSane ThenAfterReady TsWaitImpliesReady CountersSane AtEnd WhenAllReady WhenAnyReady CombFOnce
