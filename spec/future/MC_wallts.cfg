CONSTANTS
  Workers <- Workers_wallts
  NTs <- NTs_wallts
  ThreadNames <- Threads_wallts
  WyFix = FALSE
  AllowSpurious = FALSE
INIT Init_wallts
NEXT Next
CHECK_DEADLOCK TRUE
INVARIANTS TypeOK NoBad FuncOnce ReadyImpliesRan GetsAgree DeallocOnce RefsSane ThenAfterReady TsWaitImpliesReady CountersSane AtEnd WhenAllReady WhenAnyReady CombFOnce
