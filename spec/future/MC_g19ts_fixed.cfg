CONSTANTS
  Workers <- MCWorkers
  NTs <- MCNTs
  ThreadNames <- MCThreads
  WyFix = TRUE
  AllowSpurious = FALSE
INIT MCInit
NEXT Next
CHECK_DEADLOCK TRUE
INVARIANTS TypeOK NoBad FuncOnce ReadyImpliesRan GetsAgree DeallocOnce RefsSane ThenAfterReady TsWaitImpliesReady CountersSane AtEnd WhenAllReady WhenAnyReady CombFOnce
