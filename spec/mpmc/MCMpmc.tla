------------------------------ MODULE MCMpmc ------------------------------
EXTENDS Mpmc
O(op, v, vs) == [op |-> op, v |-> v, vs |-> vs]
\* cover configuration: one op per thread, every op kind that races
Prog_cover == [p1 |-> <<O("push", 1, <<>>)>>, p2 |-> <<O("batch", 0, <<2, 3>>)>>,
               c1 |-> <<O("pop", 0, <<>>)>>,  c2 |-> <<O("popr", 0, <<>>)>>]
Prog_2x2 == [p1 |-> <<O("push", 1, <<>>), O("push", 2, <<>>)>>,
             p2 |-> <<O("batch", 0, <<3, 4>>), O("push", 5, <<>>)>>,
             c1 |-> <<O("pop", 0, <<>>), O("popinto", 0, <<>>)>>,
             c2 |-> <<O("popr", 0, <<>>), O("size", 0, <<>>)>>]
Prog_3ops == [p1 |-> <<O("push", 1, <<>>), O("push", 2, <<>>), O("full", 0, <<>>)>>,
              p2 |-> <<O("batch", 0, <<3, 4, 5>>), O("push", 6, <<>>), O("empty", 0, <<>>)>>,
              c1 |-> <<O("pop", 0, <<>>), O("popinto", 0, <<>>), O("pop", 0, <<>>)>>,
              c2 |-> <<O("popr", 0, <<>>), O("size", 0, <<>>), O("popr", 0, <<>>)>>]
==========================================================================
