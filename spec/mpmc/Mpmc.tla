------------------------------- MODULE Mpmc -------------------------------
(* Implementation-level specification of dispenso::MpmcRingBuffer               *)
(* (dispenso/mpmc_ring_buffer.h).  One action per atomic access of the code;     *)
(* the action name is the DISPENSO_VERIF_POINT site placed immediately before    *)
(* that access.  Non-atomic work between two points (construct / move / destroy  *)
(* of the payload) belongs to the step that begins at the earlier point.         *)
(*                                                                                *)
(* Threads run programs: sequences of operations                                  *)
(*   [op |-> "push", v |-> 3, vs |-> <<>>]     try_push / try_emplace             *)
(*   [op |-> "pop"  | "popr" | "popinto", ...] the three try_pop variants         *)
(*   [op |-> "batch", v |-> 0, vs |-> <<4,5>>] try_push_batch                     *)
(*   [op |-> "empty" | "full" | "size", ...]   observers                          *)
(* Values are distinct positive integers; 0 means "no live object".              *)
EXTENDS Integers, Sequences, FiniteSets, TLC

CONSTANTS Cap,      \* kBufferSize
          Threads,  \* set of thread names (strings)
          Prog      \* [Threads -> Seq(op records)]

VARIABLES
  cap, prog,        \* configuration (variables so that a trace can re-initialise them)
  head, tail, seq,  \* the three kinds of atomic words
  data,             \* data[i] = value of the live object in slot i, 0 if none
  alive,            \* ring not yet destroyed
  pc, ip, loc,      \* per thread: program counter, index of current op, locals
  hist,             \* ghost: per thread, sequence of results of completed ops
  claimed,          \* ghost: values in the order their positions were claimed (tail CAS)
  popOrder,         \* ghost: values in the order their positions were released (head CAS)
  solo,             \* ghost: solo[t] = no other thread stepped/was in flight during t's current op
  soloBad           \* ghost: a solo (quiescent) op returned something the sequential FIFO forbids

shared == <<head, tail, seq, data, alive>>
ghost  == <<hist, claimed, popOrder, solo, soloBad>>
vars   == <<cap, prog, head, tail, seq, data, alive, pc, ip, loc, hist, claimed, popOrder, solo, soloBad>>

Slots == 0 .. (cap - 1)
Wrap(i) == i % cap

PushOps == {"push", "emplace", "pushc"}   \* try_push(T&&) / try_emplace / try_push(const T&)
PopOps == {"pop", "popr", "popinto"}
ObsOps == {"empty", "full", "size"}

FirstPcOf(o) ==
  CASE o.op \in PushOps -> "PushLdTail"
    [] o.op \in PopOps -> "PopLdHead"
    [] o.op = "batch"  -> "BatLdTail"
    [] o.op \in ObsOps -> "ObsLdHead"

FirstPc(t, i) == IF i > Len(prog[t]) THEN "Done" ELSE FirstPcOf(prog[t][i])
FirstPcs == {"PushLdTail", "PopLdHead", "BatLdTail", "ObsLdHead"}

Op(t) == prog[t][ip[t]]
InFlight(u) == pc[u] \notin (FirstPcs \cup {"Start", "Done"})

EmptyLoc == [tl |-> 0, h |-> 0, i |-> 0, avail |-> 0, got |-> 0]

InitWith(c, p) ==
  /\ cap = c /\ prog = p
  /\ head = 0 /\ tail = 0
  /\ seq = [i \in 0 .. (c - 1) |-> i]
  /\ data = [i \in 0 .. (c - 1) |-> 0]
  /\ alive = TRUE
  /\ pc = [t \in DOMAIN p |-> "Start"]
  /\ ip = [t \in DOMAIN p |-> 1]
  /\ loc = [t \in DOMAIN p |-> EmptyLoc]
  /\ hist = [t \in DOMAIN p |-> <<>>]
  /\ claimed = <<>> /\ popOrder = <<>>
  /\ solo = [t \in DOMAIN p |-> FALSE]
  /\ soloBad = FALSE

Init == InitWith(Cap, Prog)

T == DOMAIN prog

\* ---------------------------------------------------------------- bookkeeping helpers
Goto(t, l) == pc' = [pc EXCEPT ![t] = l]

\* every step of t spoils the solo flag of all the others; the first step of an op sets t's own
Touch(t, first) ==
  solo' = [u \in T |->
             IF u = t
               THEN (IF first THEN \A w \in T \ {t} : ~InFlight(w) ELSE solo[t])
               ELSE FALSE]

\* what a sequential bounded FIFO would answer, given the state at the start of a solo op
AbsLen == Len(claimed) - Len(popOrder)
\* complete the current op of t with result r.  soloAtStart: evaluated on the UNPRIMED ghost
\* state only for ops that did not change claimed/popOrder before (failures / observers); ops
\* that succeed check their result against the state before their own effect via `pre`.
Finish(t, r, preLen, prePop) ==
  /\ hist' = [hist EXCEPT ![t] = Append(@, r)]
  /\ ip' = [ip EXCEPT ![t] = @ + 1]
  /\ Goto(t, FirstPc(t, ip[t] + 1))
  /\ soloBad' = (soloBad \/
       (solo[t] /\
          LET o == Op(t)
              absLen == preLen - prePop
          IN ~ (CASE o.op \in PushOps -> r = (IF absLen < cap THEN 1 ELSE 0)
                  [] o.op \in PopOps -> r = (IF absLen > 0 THEN claimed[prePop + 1] ELSE 0)
                  [] o.op = "batch"  -> r = (IF Len(o.vs) < cap - absLen THEN Len(o.vs)
                                                                       ELSE cap - absLen)
                  [] o.op = "empty"  -> r = (IF absLen = 0 THEN 1 ELSE 0)
                  [] o.op = "full"   -> r = (IF absLen >= cap THEN 1 ELSE 0)
                  [] o.op = "size"   -> r = absLen)))

FinishNow(t, r) == Finish(t, r, Len(claimed), Len(popOrder))

Start(t) ==
  /\ pc[t] = "Start"
  /\ Goto(t, FirstPc(t, 1))
  /\ UNCHANGED <<cap, prog, shared, ip, loc, ghost>>

\* ------------------------------------------------------------------ emplaceImpl (push)
PushLdTail(t) ==
  /\ pc[t] = "PushLdTail"
  /\ loc' = [loc EXCEPT ![t].tl = tail]
  /\ Goto(t, "PushLdSeq")
  /\ Touch(t, TRUE)
  /\ UNCHANGED <<cap, prog, shared, ip, hist, claimed, popOrder, soloBad>>

PushLdSeq(t) ==
  /\ pc[t] = "PushLdSeq"
  /\ Touch(t, FALSE)
  /\ (IF seq[Wrap(loc[t].tl)] = loc[t].tl
        THEN Goto(t, "PushCas") /\ UNCHANGED <<ip, hist, soloBad>>
        ELSE FinishNow(t, 0))
  /\ UNCHANGED <<cap, prog, shared, loc, claimed, popOrder>>

PushCas(t) ==
  /\ pc[t] = "PushCas"
  /\ Touch(t, FALSE)
  /\ (IF tail = loc[t].tl
        THEN /\ tail' = tail + 1
             /\ data' = [data EXCEPT ![Wrap(loc[t].tl)] = Op(t).v]   \* placement new in the slot
             /\ claimed' = Append(claimed, Op(t).v)
             /\ Goto(t, "PushStSeq")
             /\ UNCHANGED <<ip, hist, soloBad>>
        ELSE /\ FinishNow(t, 0)
             /\ UNCHANGED <<tail, data, claimed>>)
  /\ UNCHANGED <<cap, prog, head, seq, alive, loc, popOrder>>

PushStSeq(t) ==
  /\ pc[t] = "PushStSeq"
  /\ Touch(t, FALSE)
  /\ seq' = [seq EXCEPT ![Wrap(loc[t].tl)] = loc[t].tl + 1]
  /\ Finish(t, 1, Len(claimed) - 1, Len(popOrder))
  /\ UNCHANGED <<cap, prog, head, tail, data, alive, loc, claimed, popOrder>>

\* ------------------------------------------------ try_pop(T&) / try_pop() / try_pop_into
PopLdHead(t) ==
  /\ pc[t] = "PopLdHead"
  /\ loc' = [loc EXCEPT ![t].h = head]
  /\ Goto(t, "PopLdTail")
  /\ Touch(t, TRUE)
  /\ UNCHANGED <<cap, prog, shared, ip, hist, claimed, popOrder, soloBad>>

PopLdTail(t) ==
  /\ pc[t] = "PopLdTail"
  /\ Touch(t, FALSE)
  /\ (IF loc[t].h = tail
        THEN FinishNow(t, 0)
        ELSE Goto(t, "PopLdSeq") /\ UNCHANGED <<ip, hist, soloBad>>)
  /\ UNCHANGED <<cap, prog, shared, loc, claimed, popOrder>>

PopLdSeq(t) ==
  /\ pc[t] = "PopLdSeq"
  /\ Touch(t, FALSE)
  /\ (IF seq[Wrap(loc[t].h)] = loc[t].h + 1
        THEN Goto(t, "PopCas") /\ UNCHANGED <<ip, hist, soloBad>>
        ELSE FinishNow(t, 0))
  /\ UNCHANGED <<cap, prog, shared, loc, claimed, popOrder>>

PopCas(t) ==
  /\ pc[t] = "PopCas"
  /\ Touch(t, FALSE)
  /\ (IF head = loc[t].h
        THEN /\ head' = head + 1
             /\ loc' = [loc EXCEPT ![t].got = data[Wrap(loc[t].h)]]  \* move out ...
             /\ data' = [data EXCEPT ![Wrap(loc[t].h)] = 0]          \* ... and destroy
             /\ popOrder' = Append(popOrder, data[Wrap(loc[t].h)])
             /\ Goto(t, "PopStSeq")
             /\ UNCHANGED <<ip, hist, soloBad>>
        ELSE /\ FinishNow(t, 0)
             /\ UNCHANGED <<head, loc, data, popOrder>>)
  /\ UNCHANGED <<cap, prog, tail, seq, alive, claimed>>

PopStSeq(t) ==
  /\ pc[t] = "PopStSeq"
  /\ Touch(t, FALSE)
  /\ seq' = [seq EXCEPT ![Wrap(loc[t].h)] = loc[t].h + cap]
  /\ Finish(t, loc[t].got, Len(claimed), Len(popOrder) - 1)
  /\ UNCHANGED <<cap, prog, head, tail, data, alive, loc, claimed, popOrder>>

\* ------------------------------------------------------------------- try_push_batch
BatCount(t) == IF Len(Op(t).vs) > cap THEN cap ELSE Len(Op(t).vs)

BatLdTail(t) ==
  /\ pc[t] = "BatLdTail"
  /\ loc' = [loc EXCEPT ![t].tl = tail, ![t].i = 0, ![t].avail = 0]
  /\ Goto(t, "BatLdSeq")
  /\ Touch(t, TRUE)
  /\ UNCHANGED <<cap, prog, shared, ip, hist, claimed, popOrder, soloBad>>

BatLdSeq(t) ==
  /\ pc[t] = "BatLdSeq"
  /\ Touch(t, FALSE)
  /\ LET i == loc[t].i
         ok == seq[Wrap(loc[t].tl + i)] = loc[t].tl + i
     IN IF ok
          THEN /\ loc' = [loc EXCEPT ![t].i = i + 1, ![t].avail = loc[t].avail + 1]
               /\ Goto(t, IF i + 1 = BatCount(t) THEN "BatCas" ELSE "BatLdSeq")
               /\ UNCHANGED <<ip, hist, soloBad>>
          ELSE IF loc[t].avail = 0
                 THEN FinishNow(t, 0) /\ UNCHANGED loc
                 ELSE Goto(t, "BatCas") /\ UNCHANGED <<loc, ip, hist, soloBad>>
  /\ UNCHANGED <<cap, prog, shared, claimed, popOrder>>

BatCas(t) ==
  /\ pc[t] = "BatCas"
  /\ Touch(t, FALSE)
  /\ (IF tail = loc[t].tl
        THEN /\ tail' = tail + loc[t].avail
             /\ data' = [data EXCEPT ![Wrap(loc[t].tl)] = Op(t).vs[1]]   \* first element constructed
             /\ claimed' = claimed \o SubSeq(Op(t).vs, 1, loc[t].avail)
             /\ loc' = [loc EXCEPT ![t].i = 0]
             /\ Goto(t, "BatStSeq")
             /\ UNCHANGED <<ip, hist, soloBad>>
        ELSE /\ FinishNow(t, 0)
             /\ UNCHANGED <<tail, data, claimed, loc>>)
  /\ UNCHANGED <<cap, prog, head, seq, alive, popOrder>>

BatStSeq(t) ==
  /\ pc[t] = "BatStSeq"
  /\ Touch(t, FALSE)
  /\ LET i == loc[t].i IN
       /\ seq' = [seq EXCEPT ![Wrap(loc[t].tl + i)] = loc[t].tl + i + 1]
       /\ IF i + 1 < loc[t].avail
            THEN /\ data' = [data EXCEPT ![Wrap(loc[t].tl + i + 1)] = Op(t).vs[i + 2]]
                 /\ loc' = [loc EXCEPT ![t].i = i + 1]
                 /\ Goto(t, "BatStSeq")
                 /\ UNCHANGED <<ip, hist, soloBad>>
            ELSE /\ Finish(t, loc[t].avail, Len(claimed) - loc[t].avail, Len(popOrder))
                 /\ UNCHANGED <<data, loc>>
  /\ UNCHANGED <<cap, prog, head, tail, alive, claimed, popOrder>>

\* ------------------------------------------------------------ empty() / full() / size()
ObsLdHead(t) ==
  /\ pc[t] = "ObsLdHead"
  /\ loc' = [loc EXCEPT ![t].h = head]
  /\ Goto(t, "ObsLdTail")
  /\ Touch(t, TRUE)
  /\ UNCHANGED <<cap, prog, shared, ip, hist, claimed, popOrder, soloBad>>

ObsLdTail(t) ==
  /\ pc[t] = "ObsLdTail"
  /\ Touch(t, FALSE)
  /\ LET h == loc[t].h
         r == CASE Op(t).op = "empty" -> (IF h = tail THEN 1 ELSE 0)
                [] Op(t).op = "full"  -> (IF tail - h >= cap THEN 1 ELSE 0)
                [] Op(t).op = "size"  -> tail - h
     IN FinishNow(t, r)
  /\ UNCHANGED <<cap, prog, shared, loc, claimed, popOrder>>

\* ------------------------------------------------------------------------ destructor
AllDone == \A t \in T : pc[t] = "Done"

Destroy ==
  /\ alive /\ AllDone
  /\ alive' = FALSE
  /\ data' = [i \in Slots |-> IF \E k \in head .. (tail - 1) : Wrap(k) = i THEN 0 ELSE data[i]]
  /\ UNCHANGED <<cap, prog, head, tail, seq, pc, ip, loc, ghost>>

\* (the disjunction is spelled out inside Next so that TLC labels every edge of the dumped state
\*  graph with the action name and its thread argument)
Next ==
  \/ \E t \in Threads :
        \/ Start(t)
        \/ PushLdTail(t) \/ PushLdSeq(t) \/ PushCas(t) \/ PushStSeq(t)
        \/ PopLdHead(t) \/ PopLdTail(t) \/ PopLdSeq(t) \/ PopCas(t) \/ PopStSeq(t)
        \/ BatLdTail(t) \/ BatLdSeq(t) \/ BatCas(t) \/ BatStSeq(t)
        \/ ObsLdHead(t) \/ ObsLdTail(t)
  \/ Destroy

Spec == Init /\ [][Next]_vars

\* ============================================================================ properties
Range(s) == {s[i] : i \in 1 .. Len(s)}
IsPrefixOf(a, b) == Len(a) <= Len(b) /\ \A i \in 1 .. Len(a) : a[i] = b[i]
Remaining == {claimed[i] : i \in (Len(popOrder) + 1) .. Len(claimed)}
LiveData == {data[i] : i \in Slots} \ {0}
BatchInFlight == \E t \in T : pc[t] = "BatStSeq"

\* (C34) never holds more than its capacity
Bounded == head <= tail /\ tail - head <= cap
\* (C34) FIFO in claim order, exactly once, no garbage: the values released are exactly a prefix of
\* the values claimed (values are distinct), and a pop never yields "no object" as a value
FifoExactlyOnce == IsPrefixOf(popOrder, claimed) /\ 0 \notin Range(popOrder)
\* (C34/C11) the live payload objects inside the ring are exactly the claimed-but-unreleased ones
LiveMatches ==
  alive => /\ LiveData \subseteq Remaining
           /\ (~BatchInFlight => LiveData = Remaining)
           /\ Cardinality({i \in Slots : data[i] # 0}) = Cardinality(LiveData)
\* (C34) a quiescent pop succeeds iff non-empty, a quiescent push iff not full (and observers exact)
QuiescentExact == ~soloBad
\* (C34) what was popped, per thread, is what the pops returned
ResultsMatch ==
  LET popRes == UNION {{hist[t][i] : i \in {j \in 1 .. Len(hist[t]) :
                                               prog[t][j].op \in PopOps /\ hist[t][j] # 0}} : t \in T}
  IN  popRes \subseteq Range(popOrder)
\* (C34) at quiescence every successfully pushed value was claimed exactly once, and the ring
\* holds exactly the claimed-but-unpopped values
PushedOk ==
  UNION {{prog[t][j].v : j \in {k \in 1 .. Len(hist[t]) : prog[t][k].op \in PushOps /\ hist[t][k] = 1}}
         : t \in T}
  \cup
  UNION {UNION {{prog[t][j].vs[m] : m \in 1 .. hist[t][j]}
                : j \in {k \in 1 .. Len(hist[t]) : prog[t][k].op = "batch"}}
         : t \in T}
QuiescentAccounting ==
  (AllDone /\ alive) =>
     /\ tail - head = Len(claimed) - Len(popOrder)
     /\ PushedOk = Range(claimed)
     /\ Cardinality(Range(claimed)) = Len(claimed)
\* (C11) the destructor destroys everything that is left
NoLeakAfterDestroy == ~alive => LiveData = {}

TypeOK ==
  /\ head \in Nat /\ tail \in Nat
  /\ \A i \in Slots : seq[i] \in Nat /\ data[i] \in Nat
  /\ \A t \in T : ip[t] \in 1 .. (Len(prog[t]) + 1)

\* bound for simulation of large programs is not needed: programs are finite, the graph is a DAG.
==========================================================================
