CONSTANTS
  Cap = 2
  Threads = {"p1", "c1", "c2"}
  Prog <- Prog_hb2
INIT HInit
NEXT HNext
CHECK_DEADLOCK FALSE
INVARIANTS RaceFree OrdersComplete Bounded FifoExactlyOnce
