CONSTANTS
  Cap = 2
  Threads = {"p1", "p2", "c1", "c2"}
  Prog <- Prog_2x2
INIT Init
NEXT Next
CHECK_DEADLOCK FALSE
INVARIANTS TypeOK Bounded FifoExactlyOnce LiveMatches QuiescentExact ResultsMatch QuiescentAccounting NoLeakAfterDestroy
