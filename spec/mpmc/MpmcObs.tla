------------------------------ MODULE MpmcObs ------------------------------
(* E5 record validator for C34 (MpmcRingBuffer is an exactly-once bounded FIFO).              *)
(*                                                                                              *)
(* Every line is ONE free-running round of harness/drv/drv_mpmc.cpp --stress: real threads,    *)
(* no controller, the hook points inert, so the threads also interleave INSIDE the steps of     *)
(* Mpmc.tla.  np producers and nc consumers (1..3 each) share a fresh ring of capacity cap      *)
(* (2, 3 = exact / not a power of two, 4).  Producer p pushes the values p*100000+1 ..          *)
(* p*100000+n[p] in this order with try_push(T&&) / try_push(const T&) / try_emplace /          *)
(* try_push_batch and retries whatever was not accepted, so each value is accepted exactly      *)
(* once.  The consumers pop with try_pop(T&) / try_pop() / try_pop_into until a target number   *)
(* of elements has been received.  When all of them have returned (quiescence), the main thread *)
(* reads size/empty/full, pops a few more times, optionally fills the ring with one batch,      *)
(* and destroys it:                                                                             *)
(*   {"e":"Round","round":r,"cap":c,"np":P,"nc":C,"n":[n1..nP],                                 *)
(*    "got":[[values consumer 1 received, in its program order],..],                            *)
(*    "sz","em","fu": size() / empty() / full() at quiescence,                                  *)
(*    "drain":[result of every quiescent pop attempt, 0 = failed], "sz2": size() after them,    *)
(*    "fill":0|1, "qb": try_push_batch(cap+1 items), "qf": one more try_emplace, "fu2": full(), *)
(*    "sz3": size() before the destructor, "dd": payload objects the destructor destroyed,      *)
(*    "live": payload objects alive after the round, "errs": lifetime errors the payload saw    *)
(*    (use of / second destruction of a dead object), "stuck":0}                                *)
(* A round that does not finish within 10 s is written as {.., "stuck":1} and ends the run.     *)
(*                                                                                              *)
(* Nothing orders operations of different threads.  Every conjunct below follows from the       *)
(* invariants of Mpmc.tla for EVERY interleaving (the argument is given with the conjunct), so   *)
(* a correct ring is never rejected.                                                            *)
EXTENDS Integers, Sequences, FiniteSets, TLC, Json, IOUtils

ObsLog == ndJsonDeserialize(IOEnv.TRACE)

VARIABLE l
ObsInit == l = 1
ObsNext == l <= Len(ObsLog) /\ l' = l + 1
ObsSpec == ObsInit /\ [][ObsNext]_l

Base == 100000
ProdOf(v) == v \div Base
SeqOf(v) == v % Base
Range(s) == {s[i] : i \in 1 .. Len(s)}
Sum(s) == LET f[i \in 0 .. Len(s)] == IF i = 0 THEN 0 ELSE f[i - 1] + s[i] IN f[Len(s)]
NonZero(s) == SelectSeq(s, LAMBDA x : x # 0)
Of(s, p) == SelectSeq(s, LAMBDA x : ProdOf(x) = p)
Increasing(s) == \A i \in 1 .. (Len(s) - 1) : s[i] < s[i + 1]

RecOK(rec) ==
  \* the round came to an end: every accepted element reaches a pop (a lost element leaves the
  \* consumers short of their target for ever), and no operation loops (all are single-attempt)
  /\ rec.stuck = 0
  /\ LET P == 1 .. rec.np
         C == 1 .. rec.nc
         drained == NonZero(rec.drain)
         \* the quiescent pops of the main thread are one more consumer
         stream == [c \in 1 .. (rec.nc + 1) |-> IF c <= rec.nc THEN rec.got[c] ELSE drained]
         nWorkers == Sum([c \in C |-> Len(rec.got[c])])
         nPopped == nWorkers + Len(drained)
         All == UNION {Range(stream[c]) : c \in 1 .. (rec.nc + 1)}
         total == Sum(rec.n)
         From(p) == {v \in All : ProdOf(v) = p}
     IN
       \* nothing invented: FifoExactlyOnce - popOrder is a prefix of claimed, and claimed holds
       \* only values some push handed over (QuiescentAccounting: Range(claimed) = PushedOk)
       /\ \A v \in All : ProdOf(v) \in P /\ SeqOf(v) \in 1 .. rec.n[ProdOf(v)]
       \* nothing delivered twice: popOrder is a prefix of claimed and claimed has no repetition
       \* (values are distinct, each is accepted once); ResultsMatch ties the results to popOrder
       /\ Cardinality(All) = nPopped
       \* FIFO in claim order, seen per producer: a producer's pushes do not overlap each other, so
       \* claimed restricted to producer p is p*Base+1, p*Base+2, .. (a batch claims its accepted
       \* items in array order); popOrder is a PREFIX of claimed, hence what has been popped of p is
       \* an initial segment of what p pushed - whatever is still inside the ring is a suffix
       /\ \A p \in P : {SeqOf(v) : v \in From(p)} = 1 .. Cardinality(From(p))
       \* ... and seen per consumer: the pops of one thread do not overlap each other, so they
       \* appear in popOrder (= claim order) in program order: the values of one producer arrive
       \* at one consumer in increasing order
       /\ \A c \in 1 .. (rec.nc + 1) : \A p \in P : Increasing(Of(stream[c], p))
       \* the quiescent pops come after every consumer's pops in popOrder
       /\ \A c \in C : \A p \in P :
            \A i \in 1 .. Len(rec.got[c]) : \A j \in 1 .. Len(drained) :
              (ProdOf(rec.got[c][i]) = p /\ ProdOf(drained[j]) = p) => rec.got[c][i] < drained[j]
       \* quiescence (QuiescentAccounting + Bounded + QuiescentExact): tail - head is the number of
       \* accepted minus popped elements, never above the capacity, and the observers are exact
       /\ rec.sz = total - nWorkers
       /\ rec.sz >= 0 /\ rec.sz <= rec.cap
       /\ rec.em = (IF rec.sz = 0 THEN 1 ELSE 0)
       /\ rec.fu = (IF rec.sz = rec.cap THEN 1 ELSE 0)
       \* QuiescentExact: a pop without concurrency succeeds iff the ring is not empty
       /\ \A i \in 1 .. Len(rec.drain) : (rec.drain[i] # 0) <=> (i <= rec.sz)
       /\ rec.sz2 = rec.sz - Len(drained)
       \* nothing lost: accepted = popped + still inside
       /\ nPopped + rec.sz2 = total
       \* QuiescentExact for pushes: a batch without concurrency takes exactly the free slots, a
       \* push on the full ring fails, full()/size() say so
       /\ (rec.fill = 1 => /\ rec.qb = rec.cap - rec.sz2
                           /\ rec.qf = 0
                           /\ rec.fu2 = 1
                           /\ rec.sz3 = rec.cap)
       /\ (rec.fill = 0 => rec.sz3 = rec.sz2)
       \* every element is destroyed exactly once (LiveMatches / NoLeakAfterDestroy): the destructor
       \* destroys exactly what is inside, afterwards no payload object is alive, and no object was
       \* used or destroyed while dead
       /\ rec.dd = rec.sz3
       /\ rec.live = 0
       /\ rec.errs = 0

RecordsOK == l > Len(ObsLog) \/ RecOK(ObsLog[l])

ObsAccepted ==
  LET d == TLCGet("stats").diameter IN
  IF d = Len(ObsLog) + 1 THEN TRUE
  ELSE /\ PrintT(<<"TRACE_REJECTED_AT_LINE", d, "OF", Len(ObsLog)>>)
       /\ FALSE
=============================================================================
