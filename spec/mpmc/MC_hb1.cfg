CONSTANTS
  Cap = 2
  Threads = {"p1", "p2", "c1", "c2"}
  Prog <- Prog_hb1
INIT HInit
NEXT HNext
CHECK_DEADLOCK FALSE
INVARIANTS RaceFree OrdersComplete Bounded FifoExactlyOnce
