CONSTANTS
  Cap = 2
  Threads = {}
  Prog = 0
SPECIFICATION TraceSpec
CHECK_DEADLOCK FALSE
POSTCONDITION TraceAccepted
INVARIANTS Bounded FifoExactlyOnce LiveMatches QuiescentExact ResultsMatch QuiescentAccounting NoLeakAfterDestroy
