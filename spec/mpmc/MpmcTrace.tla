----------------------------- MODULE MpmcTrace -----------------------------
(* Trace validation for Mpmc.tla: every line of the ndjson trace recorded from  *)
(* the real MpmcRingBuffer under the controlled scheduler must be explained by   *)
(* the specification action of the same name taken by the same thread, and the   *)
(* projected state (head, tail, seq[], live payload per slot) and the value      *)
(* returned to the caller must equal the specification's.  All invariants of     *)
(* Mpmc.tla are evaluated in every state of the validated behaviour.             *)
EXTENDS Mpmc, Json, IOUtils

TraceLog == ndJsonDeserialize(IOEnv.TRACE)

VARIABLE l   \* next line to consume

tvars == <<vars, l>>

ProgOf(ev) == ev.prog

TraceInit ==
  /\ l = 2
  /\ TraceLog[1].e = "Reset"
  /\ InitWith(TraceLog[1].cap, ProgOf(TraceLog[1]))

ResetTo(c, p) ==
  /\ cap' = c /\ prog' = p
  /\ head' = 0 /\ tail' = 0
  /\ seq' = [i \in 0 .. (c - 1) |-> i]
  /\ data' = [i \in 0 .. (c - 1) |-> 0]
  /\ alive' = TRUE
  /\ pc' = [t \in DOMAIN p |-> "Start"]
  /\ ip' = [t \in DOMAIN p |-> 1]
  /\ loc' = [t \in DOMAIN p |-> EmptyLoc]
  /\ hist' = [t \in DOMAIN p |-> <<>>]
  /\ claimed' = <<>> /\ popOrder' = <<>>
  /\ solo' = [t \in DOMAIN p |-> FALSE]
  /\ soloBad' = FALSE

Dispatch(e, t) ==
  CASE e = "Start"      -> Start(t)
    [] e = "PushLdTail" -> PushLdTail(t)
    [] e = "PushLdSeq"  -> PushLdSeq(t)
    [] e = "PushCas"    -> PushCas(t)
    [] e = "PushStSeq"  -> PushStSeq(t)
    [] e = "PopLdHead"  -> PopLdHead(t)
    [] e = "PopLdTail"  -> PopLdTail(t)
    [] e = "PopLdSeq"   -> PopLdSeq(t)
    [] e = "PopCas"     -> PopCas(t)
    [] e = "PopStSeq"   -> PopStSeq(t)
    [] e = "BatLdTail"  -> BatLdTail(t)
    [] e = "BatLdSeq"   -> BatLdSeq(t)
    [] e = "BatCas"     -> BatCas(t)
    [] e = "BatStSeq"   -> BatStSeq(t)
    [] e = "ObsLdHead"  -> ObsLdHead(t)
    [] e = "ObsLdTail"  -> ObsLdTail(t)
    [] OTHER            -> FALSE

ProjOK(ev) ==
  /\ head' = ev.s.head
  /\ tail' = ev.s.tail
  /\ \A i \in 0 .. (cap - 1) : seq'[i] = ev.s.seq[i + 1] /\ data'[i] = ev.s.data[i + 1]

TraceStep ==
  /\ l <= Len(TraceLog)
  /\ LET ev == TraceLog[l] IN
       \/ /\ ev.e = "Reset"
          /\ ResetTo(ev.cap, ProgOf(ev))
       \/ /\ ev.e = "Destroy"
          /\ Destroy
          /\ ev.live = Cardinality({i \in Slots : data'[i] # 0})
          /\ ev.errs = 0
       \/ /\ ev.e \notin {"Reset", "Destroy"}
          /\ ev.t \in T
          /\ Dispatch(ev.e, ev.t)
          /\ ProjOK(ev)
          /\ ev.r = (IF ip'[ev.t] > ip[ev.t] THEN <<hist'[ev.t][Len(hist'[ev.t])]>> ELSE <<>>)
  /\ l' = l + 1

TraceSpec == TraceInit /\ [][TraceStep]_tvars

\* One state per consumed line (TraceInit consumes line 1).
TraceAccepted ==
  LET d == TLCGet("stats").diameter IN
  IF d = Len(TraceLog) THEN TRUE
  ELSE /\ PrintT(<<"TRACE_REJECTED_AT_LINE", d + 1, "OF", Len(TraceLog)>>)
       /\ PrintT(<<"OFFENDING", TraceLog[d + 1]>>)
       /\ FALSE
==========================================================================
