---- MODULE MCMpmcHB ----
EXTENDS MpmcHB
O(op, v, vs) == [op |-> op, v |-> v, vs |-> vs]
Prog_hb1 == [p1 |-> <<O("push", 1, <<>>)>>, p2 |-> <<O("batch", 0, <<2, 3>>)>>,
             c1 |-> <<O("pop", 0, <<>>)>>,  c2 |-> <<O("popr", 0, <<>>)>>]
Prog_hb2 == [p1 |-> <<O("push", 1, <<>>), O("emplace", 2, <<>>)>>,
             c1 |-> <<O("pop", 0, <<>>), O("popinto", 0, <<>>)>>,
             c2 |-> <<O("popr", 0, <<>>), O("push", 3, <<>>)>>]
====
