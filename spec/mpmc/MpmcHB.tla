------------------------------ MODULE MpmcHB ------------------------------
(* C10 for MpmcRingBuffer: Mpmc.tla composed with the happens-before model of   *)
(* spec/lib/MemOrder.tla.  The memory order of every atomic access comes from   *)
(* OrdersMpmc.tla, which bin/extract_orders.py generates from the working tree  *)
(* at check time (the site name on the hook line ties each action to one source *)
(* statement).  Non-atomic locations: the payload storage of every slot.        *)
EXTENDS Mpmc, MemOrder, OrdersMpmc

VARIABLE hb
hvars == <<vars, hb>>

HT == Threads \cup {"main"}
ALocs == {<<"head", 0>>, <<"tail", 0>>} \cup {<<"seq", i>> : i \in 0 .. (Cap - 1)}
NLocs == {<<"data", i>> : i \in 0 .. (Cap - 1)}

Occ(t) ==   \* which textual occurrence of a shared site this thread's current op uses
  LET o == Op(t).op IN
  CASE o = "pop" -> 1 [] o = "popr" -> 2 [] o = "popinto" -> 3
    [] o = "empty" -> 1 [] o = "full" -> 2 [] o = "size" -> 3 [] OTHER -> 1
OS(site, t) == Ord[site][IF Len(Ord[site]) = 1 THEN 1 ELSE Occ(t)][2]   \* success / plain order
OF(site, t) == Ord[site][IF Len(Ord[site]) = 1 THEN 1 ELSE Occ(t)][3]   \* CAS failure order
\* every hooked statement must contain an atomic operation (otherwise the table is stale)
OrdersComplete == \A s \in DOMAIN Ord : \A i \in 1 .. Len(Ord[s]) : Ord[s][i][1] # "none"

HInit == Init /\ hb = HBInit(HT, ALocs, NLocs)

Head0 == <<"head", 0>>
Tail0 == <<"tail", 0>>
SeqL(i) == <<"seq", i>>
DataL(i) == <<"data", i>>

HStep(t) ==
  \/ Start(t) /\ hb' = hb
  \/ PushLdTail(t) /\ hb' = ALoad(HT, hb, t, Tail0, OS("PushLdTail", t))
  \/ PushLdSeq(t) /\ hb' = ALoad(HT, hb, t, SeqL(Wrap(loc[t].tl)), OS("PushLdSeq", t))
  \/ PushCas(t) /\ hb' = (IF tail' # tail
                            THEN NAWrite(HT, ARmw(HT, hb, t, Tail0, OS("PushCas", t)), t, DataL(Wrap(loc[t].tl)))
                            ELSE ALoad(HT, hb, t, Tail0, OF("PushCas", t)))
  \/ PushStSeq(t) /\ hb' = AStore(HT, hb, t, SeqL(Wrap(loc[t].tl)), OS("PushStSeq", t))
  \/ PopLdHead(t) /\ hb' = ALoad(HT, hb, t, Head0, OS("PopLdHead", t))
  \/ PopLdTail(t) /\ hb' = ALoad(HT, hb, t, Tail0, OS("PopLdTail", t))
  \/ PopLdSeq(t) /\ hb' = ALoad(HT, hb, t, SeqL(Wrap(loc[t].h)), OS("PopLdSeq", t))
  \/ PopCas(t) /\ hb' = (IF head' # head
                           THEN NAWrite(HT, NARead(HT, ARmw(HT, hb, t, Head0, OS("PopCas", t)), t, DataL(Wrap(loc[t].h))),
                                        t, DataL(Wrap(loc[t].h)))      \* move out, then destroy
                           ELSE ALoad(HT, hb, t, Head0, OF("PopCas", t)))
  \/ PopStSeq(t) /\ hb' = AStore(HT, hb, t, SeqL(Wrap(loc[t].h)), OS("PopStSeq", t))
  \/ BatLdTail(t) /\ hb' = ALoad(HT, hb, t, Tail0, OS("BatLdTail", t))
  \/ BatLdSeq(t) /\ hb' = ALoad(HT, hb, t, SeqL(Wrap(loc[t].tl + loc[t].i)), OS("BatLdSeq", t))
  \/ BatCas(t) /\ hb' = (IF tail' # tail
                           THEN NAWrite(HT, ARmw(HT, hb, t, Tail0, OS("BatCas", t)), t, DataL(Wrap(loc[t].tl)))
                           ELSE ALoad(HT, hb, t, Tail0, OF("BatCas", t)))
  \/ BatStSeq(t) /\ hb' = (LET h1 == AStore(HT, hb, t, SeqL(Wrap(loc[t].tl + loc[t].i)), OS("BatStSeq", t)) IN
                           IF loc[t].i + 1 < loc[t].avail
                             THEN NAWrite(HT, h1, t, DataL(Wrap(loc[t].tl + loc[t].i + 1)))
                             ELSE h1)
  \/ ObsLdHead(t) /\ hb' = ALoad(HT, hb, t, Head0, OS("ObsLdHead", t))
  \/ ObsLdTail(t) /\ hb' = ALoad(HT, hb, t, Tail0, OS("ObsLdTail", t))

RECURSIVE JoinAll(_, _)
JoinAll(h, ts) == IF ts = {} THEN h ELSE LET u == CHOOSE u \in ts : TRUE IN JoinAll(HBJoin(HT, h, "main", u), ts \ {u})
RECURSIVE WriteAll(_, _)
WriteAll(h, xs) == IF xs = {} THEN h ELSE LET x == CHOOSE x \in xs : TRUE IN WriteAll(NAWrite(HT, h, "main", x), xs \ {x})

HNext ==
  \/ \E t \in Threads : HStep(t)
  \/ Destroy /\ hb' = WriteAll(JoinAll(hb, Threads), {DataL(Wrap(k)) : k \in head .. (tail - 1)})

HSpec == HInit /\ [][HNext]_hvars

\* (C10) no data race on the payload storage under the declared memory orders
RaceFree == NoRace(hb)
==========================================================================
